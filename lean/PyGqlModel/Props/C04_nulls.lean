/-
  C04 — the global null/error statement: in the response of a whole request every error's path is a position of
  the data that holds `null`, and no two errors share a path (`null_error_bijection`); together with the local
  theorems of `Props/C04.lean` (a resolver error / a non-null violation produces exactly one error at exactly its
  position and nothing propagates) this is the correspondence "error paths = positions nulled by an error".
-/
import PyGqlModel.Props.C04

set_option linter.unusedSimpArgs false
set_option linter.unusedVariables false

namespace PyGql.Props.C04
open PyGql PyGql.Exec

/-- every error produced under `path` points (relative to `path`) at a `null` of `d`; error paths are distinct -/
def Inv (path : Path) (d : Data) (es : List Err) : Prop :=
  (∀ e ∈ es, ∃ rel, e.path = path ++ rel ∧ Data.at d rel = some .null) ∧ (es.map (·.path)).Nodup

def isObjD : Data → Bool
  | .obj _ => true
  | _ => false

private theorem at_null (rel : Path) (h : Data.at .null rel = some .null) : rel = [] := by
  cases rel with
  | nil => rfl
  | cons x xs => cases x <;> simp [Data.at] at h

private theorem at_leaf (j : J) (rel : Path) : Data.at (.leaf j) rel ≠ some .null := by
  cases rel with
  | nil => simp [Data.at]
  | cons x xs => cases x <;> simp [Data.at]

private theorem inv_nil (path : Path) (d : Data) : Inv path d [] := ⟨by intro e h; simp at h, by simp⟩

private theorem inv_single (path : Path) (locs : List Nat) (k : ErrKind) : Inv path .null [{ path := path, locs := locs, kind := k }] :=
  ⟨by intro e h; simp at h; subst h; exact ⟨[], by simp, by simp [Data.at]⟩, by simp⟩

private theorem prefix_idx_ne (path rel rel' : Path) (i j : Nat) (h : i ≠ j) :
    path ++ Seg.idx i :: rel ≠ path ++ Seg.idx j :: rel' := by
  intro e
  have := List.append_cancel_left e
  simp at this
  exact h this.1

private theorem prefix_key_ne (path rel rel' : Path) (k k' : String) (h : k ≠ k') :
    path ++ Seg.key k :: rel ≠ path ++ Seg.key k' :: rel' := by
  intro e
  have := List.append_cancel_left e
  simp at this
  exact h this.1

/-- list items: errors of item `j` live under index `i + j` -/
private theorem completeList_inv (f : Path → RVal → R (Data × List Err))
    (hf : ∀ p v d es, f p v = .ok (d, es) → Inv p d es) (path : Path) :
    ∀ (vs : List RVal) (i : Nat) (ds : List Data) (es : List Err), completeList f path i vs = .ok (ds, es) →
      (∀ e ∈ es, ∃ j rel dj, e.path = path ++ Seg.idx (i + j) :: rel ∧ ds[j]? = some dj ∧ Data.at dj rel = some .null)
      ∧ (es.map (·.path)).Nodup := by
  intro vs
  induction vs with
  | nil =>
    intro i ds es h
    simp [completeList] at h
    obtain ⟨rfl, rfl⟩ := h
    exact ⟨by intro e h; simp at h, by simp⟩
  | cons v rest ih =>
    intro i ds es h
    simp only [completeList, bind, Except.bind, pure, Except.pure] at h
    cases h1 : f (path ++ [Seg.idx i]) v with
    | error e => simp [h1] at h
    | ok p1 =>
      obtain ⟨d1, e1⟩ := p1
      simp only [h1] at h
      cases h2 : completeList f path (i + 1) rest with
      | error e => simp [h2] at h
      | ok p2 =>
        obtain ⟨ds2, e2⟩ := p2
        simp [h2] at h
        obtain ⟨rfl, rfl⟩ := h
        obtain ⟨ha, hn1⟩ := hf _ _ _ _ h1
        obtain ⟨hb, hn2⟩ := ih _ _ _ h2
        have A : ∀ e ∈ e1, ∃ rel, e.path = path ++ Seg.idx i :: rel ∧ Data.at d1 rel = some .null := by
          intro e he
          obtain ⟨rel, hp, hd⟩ := ha e he
          exact ⟨rel, by simpa [List.append_assoc] using hp, hd⟩
        refine ⟨?_, ?_⟩
        · intro e he
          simp at he
          rcases he with he | he
          · obtain ⟨rel, hp, hd⟩ := A e he
            exact ⟨0, rel, d1, by simpa using hp, by simp, hd⟩
          · obtain ⟨j, rel, dj, hp, hg, hd⟩ := hb e he
            exact ⟨j + 1, rel, dj, by rw [hp]; congr 2; simp; omega, by simpa using hg, hd⟩
        · rw [List.map_append, List.nodup_append]
          refine ⟨hn1, hn2, ?_⟩
          intro a ha' b hb' hab
          simp at ha' hb'
          obtain ⟨ea, hea, rfl⟩ := ha'
          obtain ⟨eb, heb, rfl⟩ := hb'
          obtain ⟨rel, hp, _⟩ := A ea hea
          obtain ⟨j, rel', dj, hp', _, _⟩ := hb eb heb
          rw [hp, hp'] at hab
          exact prefix_idx_ne path rel rel' i (i + 1 + j) (by omega) hab

/-- `complete_value`: errors point at nulls of the completed value; a `null` result of a nullable type has no error -/
private theorem completeValue_inv (s : SchemaD) (execSub : String → Path → List Sel → R (Data × List Err))
    (hsub : ∀ rt p sels d es, execSub rt p sels = .ok (d, es) → isObjD d = true ∧ Inv p d es) (nodes : List FNode) :
    ∀ (t : Ty), t.wf = true → ∀ (path : Path) (v : RVal) (d : Data) (es : List Err),
      completeValue s execSub nodes t path v = .ok (d, es) →
        Inv path d es ∧ (t.isNonNull = false → d = .null → es = []) := by
  intro t
  induction t with
  | named n =>
    intro _ path v d es h
    have sub : ∀ rt sels, execSub rt path sels = .ok (d, es) → Inv path d es ∧ (Ty.isNonNull (.named n) = false → d = .null → es = []) := by
      intro rt sels hh
      obtain ⟨ho, hi⟩ := hsub _ _ _ _ _ hh
      refine ⟨hi, ?_⟩
      intro _ hd; subst hd; simp [isObjD] at ho
    have leafCase : ∀ j, (match serializeLeaf s n j with
        | some r => (Except.ok (Data.leaf r, []) : R (Data × List Err))
        | none => .error (.internal "RuntimeError")) = .ok (d, es) →
        Inv path d es ∧ (Ty.isNonNull (.named n) = false → d = .null → es = []) := by
      intro j hh
      cases hs : serializeLeaf s n j with
      | none => simp [hs] at hh
      | some r => simp [hs] at hh; obtain ⟨rfl, rfl⟩ := hh; exact ⟨inv_nil _ _, fun _ _ => rfl⟩
    cases v with
    | null => simp [completeValue] at h; obtain ⟨rfl, rfl⟩ := h; exact ⟨inv_nil _ _, fun _ _ => rfl⟩
    | leaf j =>
      simp only [completeValue] at h
      cases hk : kindOf s n with
      | none => simp [hk] at h
      | some k =>
        cases k with
        | scalar => simp only [hk] at h; exact leafCase j h
        | enum => simp only [hk] at h; exact leafCase j h
        | object => simp only [hk] at h; exact sub _ _ h
        | _ => simp [hk] at h
    | list vs =>
      simp only [completeValue] at h
      cases hk : kindOf s n with
      | none => simp [hk] at h
      | some k =>
        cases k with
        | object => simp only [hk] at h; exact sub _ _ h
        | _ => simp [hk] at h
    | obj rt =>
      simp only [completeValue] at h
      cases hk : kindOf s n with
      | none => simp [hk] at h
      | some k =>
        cases k with
        | object => simp only [hk] at h; exact sub _ _ h
        | scalar => simp [hk] at h
        | enum => simp [hk] at h
        | input => simp [hk] at h
        | interface =>
          simp only [hk] at h
          cases hr : kindOf s rt with
          | none => simp [hr] at h
          | some k2 =>
            cases k2 with
            | object => simp only [hr] at h; split at h; exact sub _ _ h; simp at h
            | _ => simp [hr] at h
        | union =>
          simp only [hk] at h
          cases hr : kindOf s rt with
          | none => simp [hr] at h
          | some k2 =>
            cases k2 with
            | object => simp only [hr] at h; split at h; exact sub _ _ h; simp at h
            | _ => simp [hr] at h
  | list t ih =>
    intro hwf path v d es h
    have hwt : t.wf = true := by simpa [Ty.wf] using hwf
    cases v with
    | null => simp [completeValue] at h; obtain ⟨rfl, rfl⟩ := h; exact ⟨inv_nil _ _, fun _ _ => rfl⟩
    | leaf j => cases j <;> simp [completeValue] at h
    | obj rt => simp [completeValue] at h
    | list vs =>
      simp only [completeValue, bind, Except.bind, pure, Except.pure] at h
      cases h1 : completeList (completeValue s execSub nodes t) path 0 vs with
      | error e => simp [h1] at h
      | ok p =>
        obtain ⟨ds, e1⟩ := p
        simp [h1] at h
        obtain ⟨rfl, rfl⟩ := h
        obtain ⟨ha, hn⟩ := completeList_inv _ (fun p v d es hh => (ih hwt p v d es hh).1) path vs 0 ds _ h1
        refine ⟨⟨?_, hn⟩, by intro _ hd; simp at hd⟩
        intro e he
        obtain ⟨j, rel, dj, hp, hg, hd⟩ := ha e he
        exact ⟨Seg.idx j :: rel, by simpa using hp, by simp [Data.at, hg, hd]⟩
  | nonNull t ih =>
    intro hwf path v d es h
    have hw2 : t.isNonNull = false ∧ t.wf = true := by simpa [Ty.wf] using hwf
    simp only [completeValue, bind, Except.bind, pure, Except.pure] at h
    cases h1 : completeValue s execSub nodes t path v with
    | error e => simp [h1] at h
    | ok p =>
      obtain ⟨d1, e1⟩ := p
      simp only [h1] at h
      obtain ⟨hi, hnull⟩ := ih hw2.2 path v d1 e1 h1
      refine ⟨?_, by intro hnn; simp [Ty.isNonNull] at hnn⟩
      cases d1 with
      | null =>
        simp [Data.isNull] at h
        obtain ⟨rfl, rfl⟩ := h
        have : e1 = [] := hnull hw2.1 rfl
        subst this
        simpa using inv_single path (nodeLocs nodes) .nonnull
      | leaf j => simp [Data.isNull] at h; obtain ⟨rfl, rfl⟩ := h; exact hi
      | list l => simp [Data.isNull] at h; obtain ⟨rfl, rfl⟩ := h; exact hi
      | obj kvs => simp [Data.isNull] at h; obtain ⟨rfl, rfl⟩ := h; exact hi

private theorem resolveField_inv (s : SchemaD) (w : World) (execSub : String → Path → List Sel → R (Data × List Err))
    (hsub : ∀ rt p sels d es, execSub rt p sels = .ok (d, es) → isObjD d = true ∧ Inv p d es)
    (parent : String) (path : Path) (nodes : List FNode) (fd : FieldD) (hwf : fd.type.wf = true) (d : Data) (es : List Err)
    (h : resolveField s w execSub parent path nodes fd = .ok (d, es)) : Inv path d es := by
  cases nodes with
  | nil => simp [resolveField] at h
  | cons node more =>
    simp only [resolveField] at h
    split at h
    · simp at h; obtain ⟨rfl, rfl⟩ := h; exact inv_single _ _ _
    · simp at h; obtain ⟨rfl, rfl⟩ := h; exact inv_single _ _ _
    · split at h
      · simp at h; obtain ⟨rfl, rfl⟩ := h; exact inv_single _ _ _
      · simp at h
      · exact (completeValue_inv s execSub hsub _ fd.type hwf path _ d es h).1

private theorem definedKeys_subset (s : SchemaD) (parent : String) (g : Grouped) : ∀ x ∈ definedKeys s parent g, x ∈ g.keys := by
  induction g with
  | nil => intro x h; simp [definedKeys] at h
  | cons kv rest ih =>
    obtain ⟨k, ns⟩ := kv
    intro x h
    cases ns with
    | nil => simp only [definedKeys] at h; simp [Grouped.keys]; right; simpa [Grouped.keys] using ih x h
    | cons n more =>
      simp only [definedKeys] at h
      split at h
      · simp at h
        rcases h with rfl | h
        · simp [Grouped.keys]
        · simp [Grouped.keys]; right; simpa [Grouped.keys] using ih x h
      · simp [Grouped.keys]; right; simpa [Grouped.keys] using ih x h

/-- all field types of the schema are well-formed type expressions (no `T!!`; true of every schema built from SDL) -/
def TypesWf (s : SchemaD) : Prop := ∀ parent name fd, fieldOf s parent name = some fd → fd.type.wf = true

private theorem at_obj_cons_ne (k k' : String) (d : Data) (kvs : List (String × Data)) (rel : Path) (h : k ≠ k') :
    Data.at (.obj ((k, d) :: kvs)) (Seg.key k' :: rel) = Data.at (.obj kvs) (Seg.key k' :: rel) := by
  have : (k == k') = false := by simpa using h
  simp [Data.at, List.find?, this]

private theorem at_obj_key_mem (kvs : List (String × Data)) (k : String) (rel : Path) (x : Data)
    (h : Data.at (.obj kvs) (Seg.key k :: rel) = some x) : k ∈ kvs.map (·.1) := by
  simp only [Data.at] at h
  cases hf : kvs.find? (·.1 == k) with
  | none => simp [hf] at h
  | some kv =>
    have hm := List.mem_of_find?_eq_some hf
    have hk := List.find?_some hf
    simp at hk
    exact List.mem_map.mpr ⟨kv, hm, hk⟩

private theorem executeGroups_inv (s : SchemaD) (hs : TypesWf s) (w : World) (execSub : String → Path → List Sel → R (Data × List Err))
    (hsub : ∀ rt p sels d es, execSub rt p sels = .ok (d, es) → isObjD d = true ∧ Inv p d es)
    (parent : String) (path : Path) :
    ∀ (g : Grouped) (kvs : List (String × Data)) (es : List Err), g.keys.Nodup →
      executeGroups s w execSub parent path g = .ok (kvs, es) →
      (∀ e ∈ es, ∃ k rel, e.path = path ++ Seg.key k :: rel ∧ Data.at (.obj kvs) (Seg.key k :: rel) = some .null)
      ∧ (es.map (·.path)).Nodup := by
  intro g
  induction g with
  | nil =>
    intro kvs es _ h
    simp [executeGroups] at h
    obtain ⟨rfl, rfl⟩ := h
    exact ⟨by intro e h; simp at h, by simp⟩
  | cons kv rest ih =>
    intro kvs es hnd h
    obtain ⟨key, nodes⟩ := kv
    have hnd' : Grouped.keys rest |>.Nodup := by simp [Grouped.keys] at hnd ⊢; exact hnd.2
    have hkey : key ∉ Grouped.keys rest := by simp [Grouped.keys] at hnd ⊢; exact hnd.1
    have keyNotIn : ∀ kvs' es', executeGroups s w execSub parent path rest = .ok (kvs', es') → key ∉ kvs'.map (·.1) := by
      intro kvs' es' hr hm
      rw [keys_document_order s w execSub parent path rest kvs' es' hr] at hm
      exact hkey (definedKeys_subset s parent rest key hm)
    cases nodes with
    | nil => simp [executeGroups] at h
    | cons node more =>
      simp only [executeGroups] at h
      by_cases hm : isMeta node.name
      · simp only [hm, if_true] at h
        by_cases ht : node.name = "__typename"
        · simp only [ht, beq_self_eq_true, if_true, bind, Except.bind, pure, Except.pure] at h
          cases hr : executeGroups s w execSub parent path rest with
          | error e => simp [hr] at h
          | ok p =>
            obtain ⟨kvs', es'⟩ := p
            simp [hr] at h
            obtain ⟨rfl, rfl⟩ := h
            obtain ⟨ha, hn⟩ := ih kvs' es' hnd' hr
            refine ⟨?_, hn⟩
            intro e he
            obtain ⟨k, rel, hp, hd⟩ := ha e he
            have hk : k ∈ kvs'.map (·.1) := at_obj_key_mem _ _ _ _ hd
            have hne : key ≠ k := fun e => keyNotIn _ _ hr (e ▸ hk)
            exact ⟨k, rel, hp, by rw [at_obj_cons_ne _ _ _ _ _ hne]; exact hd⟩
        · have : (node.name == "__typename") = false := by simpa using ht
          simp only [this, Bool.false_eq_true, if_false] at h
          split at h <;> simp at h
      · simp only [hm, Bool.false_eq_true, if_false] at h
        cases hf : fieldOf s parent node.name with
        | none => simp only [hf] at h; exact ih kvs es hnd' h
        | some fd =>
          simp only [hf, bind, Except.bind, pure, Except.pure] at h
          cases hr1 : resolveField s w execSub parent (path ++ [Seg.key key]) (node :: more) fd with
          | error e => simp [hr1] at h
          | ok pd =>
            obtain ⟨d1, e1⟩ := pd
            simp only [hr1] at h
            cases hr : executeGroups s w execSub parent path rest with
            | error e => simp [hr] at h
            | ok p =>
              obtain ⟨kvs', es'⟩ := p
              simp [hr] at h
              obtain ⟨rfl, rfl⟩ := h
              obtain ⟨ha1, hn1⟩ := resolveField_inv s w execSub hsub parent _ _ fd (hs _ _ _ hf) d1 e1 hr1
              obtain ⟨ha, hn⟩ := ih kvs' es' hnd' hr
              have A : ∀ e ∈ e1, ∃ rel, e.path = path ++ Seg.key key :: rel ∧ Data.at d1 rel = some .null := by
                intro e he
                obtain ⟨rel, hp, hd⟩ := ha1 e he
                exact ⟨rel, by simpa [List.append_assoc] using hp, hd⟩
              have B : ∀ e ∈ es', ∃ k rel, k ≠ key ∧ e.path = path ++ Seg.key k :: rel ∧ Data.at (.obj kvs') (Seg.key k :: rel) = some .null := by
                intro e he
                obtain ⟨k, rel, hp, hd⟩ := ha e he
                have hk : k ∈ kvs'.map (·.1) := at_obj_key_mem _ _ _ _ hd
                exact ⟨k, rel, fun e => keyNotIn _ _ hr (e ▸ hk), hp, hd⟩
              refine ⟨?_, ?_⟩
              · intro e he
                simp at he
                rcases he with he | he
                · obtain ⟨rel, hp, hd⟩ := A e he
                  exact ⟨key, rel, hp, by simp [Data.at, hd]⟩
                · obtain ⟨k, rel, hne, hp, hd⟩ := B e he
                  exact ⟨k, rel, hp, by rw [at_obj_cons_ne _ _ _ _ _ (Ne.symm hne)]; exact hd⟩
              · rw [List.map_append, List.nodup_append]
                refine ⟨hn1, hn, ?_⟩
                intro a ha' b hb' hab
                simp at ha' hb'
                obtain ⟨ea, hea, rfl⟩ := ha'
                obtain ⟨eb, heb, rfl⟩ := hb'
                obtain ⟨rel, hp, _⟩ := A ea hea
                obtain ⟨k, rel', hne, hp', _⟩ := B eb heb
                rw [hp, hp'] at hab
                exact prefix_key_ne path rel rel' key k (Ne.symm hne) hab

private theorem executeFields_inv (s : SchemaD) (hs : TypesWf s) (doc : Doc) (vars : Vars) (w : World) (cf : Nat) :
    ∀ (fuel : Nat) (parent : String) (path : Path) (sels : List Sel) (d : Data) (es : List Err),
      executeFields s doc vars w cf fuel parent path sels = .ok (d, es) → isObjD d = true ∧ Inv path d es := by
  intro fuel
  induction fuel with
  | zero => intro parent path sels d es h; simp [executeFields] at h
  | succ n ih =>
    intro parent path sels d es h
    simp only [executeFields, bind, Except.bind, pure, Except.pure] at h
    cases h1 : collectFields s doc vars cf parent sels [] with
    | error e => simp [h1] at h
    | ok p1 =>
      obtain ⟨g, seen'⟩ := p1
      simp only [h1] at h
      cases h2 : executeGroups s w (executeFields s doc vars w cf n) parent path g with
      | error e => simp [h2] at h
      | ok p2 =>
        obtain ⟨kvs, es2⟩ := p2
        simp [h2] at h
        obtain ⟨rfl, rfl⟩ := h
        have hnd := (alias_merge s doc vars cf parent sels [] g seen' h1).1
        obtain ⟨ha, hn⟩ := executeGroups_inv s hs w _ (fun rt p sels d es hh => ih rt p sels d es hh) parent path g kvs _ hnd h2
        refine ⟨rfl, ?_, hn⟩
        intro e he
        obtain ⟨k, rel, hp, hd⟩ := ha e he
        exact ⟨Seg.key k :: rel, hp, hd⟩

/-- **null_error_bijection** (global): in the response of a whole request, for every schema with well-formed field
    types, every document, variables, world and fuel — every error's response path is a position of the data that
    holds `null`, and no two errors have the same path. (Conversely, `resolver_error_null_one_error` and
    `nonnull_violation_null_one_error` show that each failing resolver / non-null violation does produce its
    error, with the field's location; `nullable_null_no_error`/`nonnull_ok_no_error` that nothing else does.) -/
theorem null_error_bijection (s : SchemaD) (hs : TypesWf s) (doc : Doc) (vars : Vars) (w : World) (cf fuel : Nat)
    (root : String) (sels : List Sel) : NullErrorBijection s doc vars w cf fuel root sels := by
  intro d es h
  obtain ⟨_, ha, hn⟩ := executeFields_inv s hs doc vars w cf fuel root [] sels d es h
  refine ⟨hn, ?_⟩
  intro e he
  obtain ⟨rel, hp, hd⟩ := ha e he
  simp at hp
  rw [hp]; exact hd

end PyGql.Props.C04

/-
  C04 — the global null/error statement: in the response of a whole request no two errors share a path, and every
  error sits at — or, when a `ResolverError` interrupted the completion of a field value, below — an error whose path is
  a position of the data that holds `null` (`null_error_bijection`); together with the local theorems of
  `Props/C04.lean` (a resolver error / a non-null violation / a completion error produces exactly one error at exactly
  its position and nothing propagates) this is the correspondence "error paths = positions nulled by an error".
-/
import PyGqlModel.Props.C04
import PyGqlModel.Lemmas.C04Raise

set_option linter.unusedSimpArgs false
set_option linter.unusedVariables false

namespace PyGql.Props.C04
open PyGql PyGql.Exec PyGql.Lemmas.C04Raise

/-- every error produced under `path` sits at or below (`suf`) an error of the same list whose position (`pre`,
    relative to `path`) holds `null` in `d`; error paths are distinct -/
def Inv (path : Path) (d : Data) (es : List Err) : Prop :=
  (∀ e ∈ es, ∃ pre suf, e.path = path ++ (pre ++ suf) ∧ Data.at d pre = some .null ∧ ∃ e' ∈ es, e'.path = path ++ pre)
  ∧ (es.map (·.path)).Nodup

/-- the errors carried by a travelling `ResolverError`: strictly below `path`, pairwise distinct -/
def InvR (path : Path) (es : List Err) : Prop :=
  (∀ e ∈ es, ∃ x rel, e.path = path ++ x :: rel) ∧ (es.map (·.path)).Nodup

/-- all paths extend `path`, pairwise distinct -/
def Under (path : Path) (es : List Err) : Prop :=
  (∀ e ∈ es, ∃ rel, e.path = path ++ rel) ∧ (es.map (·.path)).Nodup

/-- errors of list items `i, i+1, …` -/
def ListUnder (path : Path) (i : Nat) (es : List Err) : Prop :=
  (∀ e ∈ es, ∃ j rel, e.path = path ++ Seg.idx (i + j) :: rel) ∧ (es.map (·.path)).Nodup

def isObjD : Data → Bool
  | .obj _ => true
  | _ => false

private theorem under_of_inv {path : Path} {d : Data} {es : List Err} (h : Inv path d es) : Under path es :=
  ⟨fun e he => by obtain ⟨pre, suf, hp, _⟩ := h.1 e he; exact ⟨pre ++ suf, hp⟩, h.2⟩

private theorem under_of_invR {path : Path} {es : List Err} (h : InvR path es) : Under path es :=
  ⟨fun e he => by obtain ⟨x, rel, hp⟩ := h.1 e he; exact ⟨x :: rel, hp⟩, h.2⟩

private theorem invR_nil (path : Path) : InvR path [] := ⟨by intro e h; simp at h, by simp⟩

private theorem invR_of_listUnder {path : Path} {es : List Err} (h : ListUnder path 0 es) : InvR path es :=
  ⟨fun e he => by obtain ⟨j, rel, hp⟩ := h.1 e he; exact ⟨_, rel, hp⟩, h.2⟩

private theorem at_null (rel : Path) (h : Data.at .null rel = some .null) : rel = [] := by
  cases rel with
  | nil => rfl
  | cons x xs => cases x <;> simp [Data.at] at h

private theorem at_leaf (j : J) (rel : Path) : Data.at (.leaf j) rel ≠ some .null := by
  cases rel with
  | nil => simp [Data.at]
  | cons x xs => cases x <;> simp [Data.at]

private theorem inv_nil (path : Path) (d : Data) : Inv path d [] := ⟨by intro e h; simp at h, by simp⟩

private theorem inv_single (path : Path) (locs : List Nat) (k : ErrKind) : Inv path .null [{ path := path, locs := locs, kind := k }] :=
  ⟨by intro e h; simp at h; subst h; exact ⟨[], [], by simp, by simp [Data.at], { path := path, locs := locs, kind := k }, by simp, by simp⟩, by simp⟩

/-- `resolve_field` catching a `ResolverError`: the field is `null`, its error is at the field, what was recorded
    below the field stays -/
private theorem inv_caught (path : Path) (locs : List Nat) (k : ErrKind) (inner : List Err) (h : InvR path inner) :
    Inv path .null (inner ++ [{ path := path, locs := locs, kind := k }]) := by
  obtain ⟨ha, hn⟩ := h
  refine ⟨?_, ?_⟩
  · intro e he
    simp at he
    rcases he with he | rfl
    · obtain ⟨x, rel, hp⟩ := ha e he
      exact ⟨[], x :: rel, by simpa using hp, by simp [Data.at], { path := path, locs := locs, kind := k }, by simp, by simp⟩
    · exact ⟨[], [], by simp, by simp [Data.at], { path := path, locs := locs, kind := k }, by simp, by simp⟩
  · rw [List.map_append, List.nodup_append]
    refine ⟨hn, by simp, ?_⟩
    intro a ha' b hb' hab
    simp at ha' hb'
    obtain ⟨ea, hea, rfl⟩ := ha'
    obtain ⟨x, rel, hp⟩ := ha ea hea
    rw [hp, hb'] at hab
    have := congrArg List.length hab
    simp at this

private theorem prefix_idx_ne (path rel rel' : Path) (i j : Nat) (h : i ≠ j) :
    path ++ Seg.idx i :: rel ≠ path ++ Seg.idx j :: rel' := by
  intro e
  have := List.append_cancel_left e
  simp at this
  exact h this.1

private theorem prefix_key_ne (path rel rel' : Path) (k k' : String) (h : k ≠ k') :
    path ++ Seg.key k :: rel ≠ path ++ Seg.key k' :: rel' := by
  intro e
  have := List.append_cancel_left e
  simp at this
  exact h this.1

private theorem listUnder_nil (path : Path) (i : Nat) : ListUnder path i [] := ⟨by intro e h; simp at h, by simp⟩

private theorem listUnder_head (path : Path) (i : Nat) (es : List Err) (h : Under (path ++ [Seg.idx i]) es) : ListUnder path i es :=
  ⟨fun e he => by obtain ⟨rel, hp⟩ := h.1 e he; exact ⟨0, rel, by simpa [List.append_assoc] using hp⟩, h.2⟩

private theorem listUnder_cons (path : Path) (i : Nat) (e1 e2 : List Err) (h1 : Under (path ++ [Seg.idx i]) e1)
    (h2 : ListUnder path (i + 1) e2) : ListUnder path i (e1 ++ e2) := by
  obtain ⟨ha, hn1⟩ := h1
  obtain ⟨hb, hn2⟩ := h2
  have A : ∀ e ∈ e1, ∃ rel, e.path = path ++ Seg.idx i :: rel := by
    intro e he
    obtain ⟨rel, hp⟩ := ha e he
    exact ⟨rel, by simpa [List.append_assoc] using hp⟩
  refine ⟨?_, ?_⟩
  · intro e he
    simp at he
    rcases he with he | he
    · obtain ⟨rel, hp⟩ := A e he
      exact ⟨0, rel, by simpa using hp⟩
    · obtain ⟨j, rel, hp⟩ := hb e he
      exact ⟨j + 1, rel, by rw [hp]; congr 2; simp; omega⟩
  · rw [List.map_append, List.nodup_append]
    refine ⟨hn1, hn2, ?_⟩
    intro a ha' b hb' hab
    simp at ha' hb'
    obtain ⟨ea, hea, rfl⟩ := ha'
    obtain ⟨eb, heb, rfl⟩ := hb'
    obtain ⟨rel, hp⟩ := A ea hea
    obtain ⟨j, rel', hp'⟩ := hb eb heb
    rw [hp, hp'] at hab
    exact prefix_idx_ne path rel rel' i (i + 1 + j) (by omega) hab

/-- list items that all completed: the errors of item `j` live under index `i + j`, all distinct -/
private theorem completeList_under_ok (f : Path → RVal → R (Data × List Err))
    (hU : ∀ p v d es, f p v = .ok (d, es) → Under p es) (path : Path) :
    ∀ (vs : List RVal) (i : Nat) (ds : List Data) (es : List Err), completeList f path i vs = .ok (ds, es) → ListUnder path i es := by
  intro vs
  induction vs with
  | nil => intro i ds es h; simp [completeList] at h; rw [h.2]; exact listUnder_nil _ _
  | cons v rest ih =>
    intro i ds es h
    simp only [completeList, bind, Except.bind, pure, Except.pure] at h
    cases h1 : f (path ++ [Seg.idx i]) v with
    | error e => simp [h1] at h
    | ok p1 =>
      obtain ⟨d1, e1⟩ := p1
      simp only [h1] at h
      cases h2 : completeList f path (i + 1) rest with
      | error e => simp [h2] at h
      | ok p2 =>
        obtain ⟨ds2, e2⟩ := p2
        simp [h2] at h
        rw [← h.2]
        exact listUnder_cons _ _ _ _ (hU _ _ _ _ h1) (ih _ _ _ h2)

/-- list items: whichever way the list ends, the errors of item `j` live under index `i + j`, all distinct -/
private theorem completeList_under (f : Path → RVal → R (Data × List Err))
    (hU : ∀ p v d es, f p v = .ok (d, es) → Under p es)
    (hR : ∀ p v k l inner, f p v = .error (.raised k l inner) → Under p inner) (path : Path) :
    ∀ (vs : List RVal) (i : Nat),
      (∀ ds es, completeList f path i vs = .ok (ds, es) → ListUnder path i es) ∧
      (∀ k l inner, completeList f path i vs = .error (.raised k l inner) → ListUnder path i inner) := by
  intro vs
  induction vs with
  | nil =>
    intro i
    refine ⟨?_, ?_⟩
    · intro ds es h; simp [completeList] at h; rw [h.2]; exact listUnder_nil _ _
    · intro k l inner h; simp [completeList] at h
  | cons v rest ih =>
    intro i
    simp only [completeList, bind, Except.bind, pure, Except.pure]
    cases h1 : f (path ++ [Seg.idx i]) v with
    | error e =>
      refine ⟨by intro ds es h; simp at h, ?_⟩
      intro k l inner h
      simp at h
      subst h
      exact listUnder_head _ _ _ (hR _ _ _ _ _ h1)
    | ok p1 =>
      obtain ⟨d1, e1⟩ := p1
      simp only []
      cases h2 : completeList f path (i + 1) rest with
      | ok p2 =>
        obtain ⟨ds2, e2⟩ := p2
        refine ⟨?_, by intro k l inner h; simp at h⟩
        intro ds es h
        simp at h
        rw [← h.2]
        exact listUnder_cons _ _ _ _ (hU _ _ _ _ h1) ((ih (i + 1)).1 _ _ h2)
      | error e =>
        refine ⟨by intro ds es h; simp at h, ?_⟩
        intro k l inner h
        cases e with
        | raised k' l' i' =>
          simp at h
          obtain ⟨rfl, rfl, rfl⟩ := h
          exact listUnder_cons _ _ _ _ (hU _ _ _ _ h1) ((ih (i + 1)).2 _ _ _ h2)
        | internal c => simp at h
        | outOfFuel => simp at h
        | unsupported => simp at h

/-- list items that all completed: every error sits at or below an error pointing at a `null` inside its item -/
private theorem completeList_inv (f : Path → RVal → R (Data × List Err))
    (hf : ∀ p v d es, f p v = .ok (d, es) → Inv p d es) (path : Path) :
    ∀ (vs : List RVal) (i : Nat) (ds : List Data) (es : List Err), completeList f path i vs = .ok (ds, es) →
      ∀ e ∈ es, ∃ j pre suf dj, e.path = path ++ Seg.idx (i + j) :: (pre ++ suf) ∧ ds[j]? = some dj ∧
        Data.at dj pre = some .null ∧ ∃ e' ∈ es, e'.path = path ++ Seg.idx (i + j) :: pre := by
  intro vs
  induction vs with
  | nil =>
    intro i ds es h
    simp [completeList] at h
    obtain ⟨rfl, rfl⟩ := h
    intro e h; simp at h
  | cons v rest ih =>
    intro i ds es h
    simp only [completeList, bind, Except.bind, pure, Except.pure] at h
    cases h1 : f (path ++ [Seg.idx i]) v with
    | error e => simp [h1] at h
    | ok p1 =>
      obtain ⟨d1, e1⟩ := p1
      simp only [h1] at h
      cases h2 : completeList f path (i + 1) rest with
      | error e => simp [h2] at h
      | ok p2 =>
        obtain ⟨ds2, e2⟩ := p2
        simp [h2] at h
        obtain ⟨rfl, rfl⟩ := h
        obtain ⟨ha, _⟩ := hf _ _ _ _ h1
        have hb := ih _ _ _ h2
        intro e he
        simp at he
        rcases he with he | he
        · obtain ⟨pre, suf, hp, hd, e', he', hp'⟩ := ha e he
          exact ⟨0, pre, suf, d1, by simpa [List.append_assoc] using hp, by simp, hd, e', by simp [he'],
            by simpa [List.append_assoc] using hp'⟩
        · obtain ⟨j, pre, suf, dj, hp, hg, hd, e', he', hp'⟩ := hb e he
          exact ⟨j + 1, pre, suf, dj, by rw [hp]; congr 2; simp; omega, by simpa using hg, hd, e', by simp [he'],
            by rw [hp']; congr 2; simp; omega⟩

/-- `complete_value`: errors sit at or below errors pointing at nulls of the completed value; a `null` result of a
    nullable type has no error -/
private theorem completeValue_inv (s : SchemaD) (execSub : String → Path → List Sel → R (Data × List Err))
    (hsub : ∀ rt p sels d es, execSub rt p sels = .ok (d, es) → isObjD d = true ∧ Inv p d es) (nodes : List FNode) :
    ∀ (t : Ty), t.wf = true → ∀ (path : Path) (v : RVal) (d : Data) (es : List Err),
      completeValue s execSub nodes t path v = .ok (d, es) →
        Inv path d es ∧ (t.isNonNull = false → d = .null → es = []) := by
  intro t
  induction t with
  | named n =>
    intro _ path v d es h
    have sub : ∀ rt sels, execSub rt path sels = .ok (d, es) → Inv path d es ∧ (Ty.isNonNull (.named n) = false → d = .null → es = []) := by
      intro rt sels hh
      obtain ⟨ho, hi⟩ := hsub _ _ _ _ _ hh
      refine ⟨hi, ?_⟩
      intro _ hd; subst hd; simp [isObjD] at ho
    have leafCase : ∀ j, (match serializeLeaf s n j with
        | some r => (Except.ok (Data.leaf r, []) : R (Data × List Err))
        | none => .error (.internal "RuntimeError")) = .ok (d, es) →
        Inv path d es ∧ (Ty.isNonNull (.named n) = false → d = .null → es = []) := by
      intro j hh
      cases hs : serializeLeaf s n j with
      | none => simp [hs] at hh
      | some r => simp [hs] at hh; obtain ⟨rfl, rfl⟩ := hh; exact ⟨inv_nil _ _, fun _ _ => rfl⟩
    cases v with
    | null => simp [completeValue] at h; obtain ⟨rfl, rfl⟩ := h; exact ⟨inv_nil _ _, fun _ _ => rfl⟩
    | leaf j =>
      simp only [completeValue] at h
      cases hk : kindOf s n with
      | none => simp [hk] at h
      | some k =>
        cases k with
        | scalar => simp only [hk] at h; exact leafCase j h
        | enum => simp only [hk] at h; exact leafCase j h
        | object => simp only [hk] at h; exact sub _ _ h
        | _ => simp [hk] at h
    | list vs =>
      simp only [completeValue] at h
      cases hk : kindOf s n with
      | none => simp [hk] at h
      | some k =>
        cases k with
        | object => simp only [hk] at h; exact sub _ _ h
        | _ => simp [hk] at h
    | raise vs msg ext =>
      simp only [completeValue] at h
      cases hk : kindOf s n with
      | none => simp [hk] at h
      | some k =>
        cases k with
        | object => simp only [hk] at h; exact sub _ _ h
        | _ => simp [hk] at h
    | obj rt =>
      simp only [completeValue] at h
      cases hk : kindOf s n with
      | none => simp [hk] at h
      | some k =>
        cases k with
        | object => simp only [hk] at h; exact sub _ _ h
        | scalar => simp [hk] at h
        | enum => simp [hk] at h
        | input => simp [hk] at h
        | interface =>
          simp only [hk] at h
          cases hr : kindOf s rt with
          | none => simp [hr] at h
          | some k2 =>
            cases k2 with
            | object => simp only [hr] at h; split at h; exact sub _ _ h; simp at h
            | _ => simp [hr] at h
        | union =>
          simp only [hk] at h
          cases hr : kindOf s rt with
          | none => simp [hr] at h
          | some k2 =>
            cases k2 with
            | object => simp only [hr] at h; split at h; exact sub _ _ h; simp at h
            | _ => simp [hr] at h
  | list t ih =>
    intro hwf path v d es h
    have hwt : t.wf = true := by simpa [Ty.wf] using hwf
    cases v with
    | null => simp [completeValue] at h; obtain ⟨rfl, rfl⟩ := h; exact ⟨inv_nil _ _, fun _ _ => rfl⟩
    | leaf j => cases j <;> simp [completeValue] at h
    | obj rt => simp [completeValue] at h
    | raise vs msg ext =>
      simp only [completeValue] at h
      cases h1 : completeList (completeValue s execSub nodes t) path 0 vs with
      | error e => simp [h1] at h
      | ok p => simp [h1] at h
    | list vs =>
      simp only [completeValue, bind, Except.bind, pure, Except.pure] at h
      cases h1 : completeList (completeValue s execSub nodes t) path 0 vs with
      | error e => simp [h1] at h
      | ok p =>
        obtain ⟨ds, e1⟩ := p
        simp [h1] at h
        obtain ⟨rfl, rfl⟩ := h
        have ha := completeList_inv _ (fun p v d es hh => (ih hwt p v d es hh).1) path vs 0 ds _ h1
        have hn := (completeList_under_ok _ (fun p v d es hh => under_of_inv (ih hwt p v d es hh).1) path vs 0 ds _ h1).2
        refine ⟨⟨?_, hn⟩, by intro _ hd; simp at hd⟩
        intro e he
        obtain ⟨j, pre, suf, dj, hp, hg, hd, e', he', hp'⟩ := ha e he
        exact ⟨Seg.idx j :: pre, suf, by simpa using hp, by simp [Data.at, hg, hd], e', he', by simpa using hp'⟩
  | nonNull t ih =>
    intro hwf path v d es h
    have hw2 : t.isNonNull = false ∧ t.wf = true := by simpa [Ty.wf] using hwf
    simp only [completeValue, bind, Except.bind, pure, Except.pure] at h
    cases h1 : completeValue s execSub nodes t path v with
    | error e => simp [h1] at h
    | ok p =>
      obtain ⟨d1, e1⟩ := p
      simp only [h1] at h
      obtain ⟨hi, hnull⟩ := ih hw2.2 path v d1 e1 h1
      refine ⟨?_, by intro hnn; simp [Ty.isNonNull] at hnn⟩
      cases d1 with
      | null =>
        simp [Data.isNull] at h
        obtain ⟨rfl, rfl⟩ := h
        have : e1 = [] := hnull hw2.1 rfl
        subst this
        simpa using inv_single path (nodeLocs nodes) .nonnull
      | leaf j => simp [Data.isNull] at h; obtain ⟨rfl, rfl⟩ := h; exact hi
      | list l => simp [Data.isNull] at h; obtain ⟨rfl, rfl⟩ := h; exact hi
      | obj kvs => simp [Data.isNull] at h; obtain ⟨rfl, rfl⟩ := h; exact hi

/-- `complete_value` interrupted by a `ResolverError`: what it carries was recorded strictly below `path` -/
private theorem completeValue_invR (s : SchemaD) (execSub : String → Path → List Sel → R (Data × List Err))
    (hsub : ∀ rt p sels d es, execSub rt p sels = .ok (d, es) → isObjD d = true ∧ Inv p d es)
    (hsubR : ∀ rt p sels k l inner, execSub rt p sels = .error (.raised k l inner) → inner = []) (nodes : List FNode) :
    ∀ (t : Ty), t.wf = true → ∀ (path : Path) (v : RVal) (k : ErrKind) (l : Option (List Nat)) (inner : List Err),
      completeValue s execSub nodes t path v = .error (.raised k l inner) → InvR path inner := by
  intro t
  induction t with
  | named n =>
    intro _ path v k l inner h
    have sub : ∀ rt sels, execSub rt path sels = .error (.raised k l inner) → InvR path inner := by
      intro rt sels hh; rw [hsubR _ _ _ _ _ _ hh]; exact invR_nil _
    cases v with
    | null => simp [completeValue] at h
    | leaf j =>
      simp only [completeValue] at h
      cases hk : kindOf s n with
      | none => simp [hk] at h
      | some kd =>
        cases kd with
        | object => simp only [hk] at h; exact sub _ _ h
        | scalar => simp only [hk] at h; split at h <;> simp at h
        | enum => simp only [hk] at h; split at h <;> simp at h
        | _ => simp [hk] at h
    | list vs =>
      simp only [completeValue] at h
      cases hk : kindOf s n with
      | none => simp [hk] at h
      | some kd =>
        cases kd with
        | object => simp only [hk] at h; exact sub _ _ h
        | _ => simp [hk] at h
    | raise vs msg ext =>
      simp only [completeValue] at h
      cases hk : kindOf s n with
      | none => simp [hk] at h
      | some kd =>
        cases kd with
        | object => simp only [hk] at h; exact sub _ _ h
        | interface => simp [hk] at h; rw [h.2.2]; exact invR_nil _
        | union => simp [hk] at h; rw [h.2.2]; exact invR_nil _
        | _ => simp [hk] at h
    | obj rt =>
      simp only [completeValue] at h
      cases hk : kindOf s n with
      | none => simp [hk] at h
      | some kd =>
        cases kd with
        | object => simp only [hk] at h; exact sub _ _ h
        | scalar => simp [hk] at h
        | enum => simp [hk] at h
        | input => simp [hk] at h
        | interface =>
          simp only [hk] at h
          cases hr : kindOf s rt with
          | none => simp [hr] at h
          | some k2 =>
            cases k2 with
            | object => simp only [hr] at h; split at h; exact sub _ _ h; simp at h
            | _ => simp [hr] at h
        | union =>
          simp only [hk] at h
          cases hr : kindOf s rt with
          | none => simp [hr] at h
          | some k2 =>
            cases k2 with
            | object => simp only [hr] at h; split at h; exact sub _ _ h; simp at h
            | _ => simp [hr] at h
  | list t ih =>
    intro hwf path v k l inner h
    have hwt : t.wf = true := by simpa [Ty.wf] using hwf
    have hU : ∀ p v d es, completeValue s execSub nodes t p v = .ok (d, es) → Under p es :=
      fun p v d es hh => under_of_inv (completeValue_inv s execSub hsub nodes t hwt p v d es hh).1
    have hR : ∀ p v k l inner, completeValue s execSub nodes t p v = .error (.raised k l inner) → Under p inner :=
      fun p v k l inner hh => under_of_invR (ih hwt p v k l inner hh)
    have hl := completeList_under _ hU hR path
    cases v with
    | null => simp [completeValue] at h
    | leaf j => cases j <;> simp [completeValue] at h
    | obj rt => simp [completeValue] at h
    | raise vs msg ext =>
      simp only [completeValue] at h
      cases h1 : completeList (completeValue s execSub nodes t) path 0 vs with
      | error e =>
        simp [h1] at h
        subst h
        exact invR_of_listUnder ((hl vs 0).2 _ _ _ h1)
      | ok p =>
        simp [h1] at h
        rw [← h.2.2]
        exact invR_of_listUnder ((hl vs 0).1 _ _ h1)
    | list vs =>
      simp only [completeValue, bind, Except.bind, pure, Except.pure] at h
      cases h1 : completeList (completeValue s execSub nodes t) path 0 vs with
      | error e =>
        simp [h1] at h
        subst h
        exact invR_of_listUnder ((hl vs 0).2 _ _ _ h1)
      | ok p => simp [h1] at h
  | nonNull t ih =>
    intro hwf path v k l inner h
    have hw2 : t.isNonNull = false ∧ t.wf = true := by simpa [Ty.wf] using hwf
    simp only [completeValue, bind, Except.bind, pure, Except.pure] at h
    cases h1 : completeValue s execSub nodes t path v with
    | error e => simp [h1] at h; subst h; exact ih hw2.2 path v k l inner h1
    | ok p =>
      simp only [h1] at h
      split at h <;> simp at h

private theorem resolveField_inv (s : SchemaD) (w : World) (execSub : String → Path → List Sel → R (Data × List Err))
    (hsub : ∀ rt p sels d es, execSub rt p sels = .ok (d, es) → isObjD d = true ∧ Inv p d es)
    (hsubR : ∀ rt p sels k l inner, execSub rt p sels = .error (.raised k l inner) → inner = [])
    (parent : String) (path : Path) (nodes : List FNode) (fd : FieldD) (hwf : fd.type.wf = true) (d : Data) (es : List Err)
    (h : resolveField s w execSub parent path nodes fd = .ok (d, es)) : Inv path d es := by
  cases nodes with
  | nil => simp [resolveField] at h
  | cons node more =>
    simp only [resolveField] at h
    split at h
    · simp at h; obtain ⟨rfl, rfl⟩ := h; exact inv_single _ _ _
    · simp at h; obtain ⟨rfl, rfl⟩ := h; exact inv_single _ _ _
    · split at h
      · simp at h; obtain ⟨rfl, rfl⟩ := h; exact inv_single _ _ _
      · simp at h
      · rcases catchField_eq_ok _ _ _ _ _ h with h | ⟨k, l, i, hc, rfl, rfl⟩
        · exact (completeValue_inv s execSub hsub _ fd.type hwf path _ d es h).1
        · exact inv_caught _ _ _ _ (completeValue_invR s execSub hsub hsubR _ fd.type hwf path _ k l i hc)

private theorem definedKeys_subset (s : SchemaD) (parent : String) (g : Grouped) : ∀ x ∈ definedKeys s parent g, x ∈ g.keys := by
  induction g with
  | nil => intro x h; simp [definedKeys] at h
  | cons kv rest ih =>
    obtain ⟨k, ns⟩ := kv
    intro x h
    cases ns with
    | nil => simp only [definedKeys] at h; simp [Grouped.keys]; right; simpa [Grouped.keys] using ih x h
    | cons n more =>
      simp only [definedKeys] at h
      split at h
      · simp at h
        rcases h with rfl | h
        · simp [Grouped.keys]
        · simp [Grouped.keys]; right; simpa [Grouped.keys] using ih x h
      · simp [Grouped.keys]; right; simpa [Grouped.keys] using ih x h

/-- all field types of the schema are well-formed type expressions (no `T!!`; true of every schema built from SDL) -/
def TypesWf (s : SchemaD) : Prop := ∀ parent name fd, fieldOf s parent name = some fd → fd.type.wf = true

private theorem at_obj_cons_ne (k k' : String) (d : Data) (kvs : List (String × Data)) (rel : Path) (h : k ≠ k') :
    Data.at (.obj ((k, d) :: kvs)) (Seg.key k' :: rel) = Data.at (.obj kvs) (Seg.key k' :: rel) := by
  have : (k == k') = false := by simpa using h
  simp [Data.at, List.find?, this]

private theorem at_obj_key_mem (kvs : List (String × Data)) (k : String) (rel : Path) (x : Data)
    (h : Data.at (.obj kvs) (Seg.key k :: rel) = some x) : k ∈ kvs.map (·.1) := by
  simp only [Data.at] at h
  cases hf : kvs.find? (·.1 == k) with
  | none => simp [hf] at h
  | some kv =>
    have hm := List.mem_of_find?_eq_some hf
    have hk := List.find?_some hf
    simp at hk
    exact List.mem_map.mpr ⟨kv, hm, hk⟩

private theorem executeGroups_inv (s : SchemaD) (hs : TypesWf s) (w : World) (execSub : String → Path → List Sel → R (Data × List Err))
    (hsub : ∀ rt p sels d es, execSub rt p sels = .ok (d, es) → isObjD d = true ∧ Inv p d es)
    (hsubR : ∀ rt p sels k l inner, execSub rt p sels = .error (.raised k l inner) → inner = [])
    (parent : String) (path : Path) :
    ∀ (g : Grouped) (kvs : List (String × Data)) (es : List Err), g.keys.Nodup →
      executeGroups s w execSub parent path g = .ok (kvs, es) →
      (∀ e ∈ es, ∃ k pre suf, e.path = path ++ Seg.key k :: (pre ++ suf) ∧ Data.at (.obj kvs) (Seg.key k :: pre) = some .null ∧
        ∃ e' ∈ es, e'.path = path ++ Seg.key k :: pre)
      ∧ (es.map (·.path)).Nodup := by
  intro g
  induction g with
  | nil =>
    intro kvs es _ h
    simp [executeGroups] at h
    obtain ⟨rfl, rfl⟩ := h
    exact ⟨by intro e h; simp at h, by simp⟩
  | cons kv rest ih =>
    intro kvs es hnd h
    obtain ⟨key, nodes⟩ := kv
    have hnd' : Grouped.keys rest |>.Nodup := by simp [Grouped.keys] at hnd ⊢; exact hnd.2
    have hkey : key ∉ Grouped.keys rest := by simp [Grouped.keys] at hnd ⊢; exact hnd.1
    have keyNotIn : ∀ kvs' es', executeGroups s w execSub parent path rest = .ok (kvs', es') → key ∉ kvs'.map (·.1) := by
      intro kvs' es' hr hm
      rw [keys_document_order s w execSub parent path rest kvs' es' hr] at hm
      exact hkey (definedKeys_subset s parent rest key hm)
    cases nodes with
    | nil => simp [executeGroups] at h
    | cons node more =>
      simp only [executeGroups] at h
      by_cases hm : isMeta node.name
      · simp only [hm, if_true] at h
        by_cases ht : node.name = "__typename"
        · simp only [ht, beq_self_eq_true, if_true, bind, Except.bind, pure, Except.pure] at h
          cases hr : executeGroups s w execSub parent path rest with
          | error e => simp [hr] at h
          | ok p =>
            obtain ⟨kvs', es'⟩ := p
            simp [hr] at h
            obtain ⟨rfl, rfl⟩ := h
            obtain ⟨ha, hn⟩ := ih kvs' es' hnd' hr
            refine ⟨?_, hn⟩
            intro e he
            obtain ⟨k, pre, suf, hp, hd, he'⟩ := ha e he
            have hk : k ∈ kvs'.map (·.1) := at_obj_key_mem _ _ _ _ hd
            have hne : key ≠ k := fun e => keyNotIn _ _ hr (e ▸ hk)
            exact ⟨k, pre, suf, hp, by rw [at_obj_cons_ne _ _ _ _ _ hne]; exact hd, he'⟩
        · have : (node.name == "__typename") = false := by simpa using ht
          simp only [this, Bool.false_eq_true, if_false] at h
          split at h <;> simp at h
      · simp only [hm, Bool.false_eq_true, if_false] at h
        cases hf : fieldOf s parent node.name with
        | none => simp only [hf] at h; exact ih kvs es hnd' h
        | some fd =>
          simp only [hf, bind, Except.bind, pure, Except.pure] at h
          cases hr1 : resolveField s w execSub parent (path ++ [Seg.key key]) (node :: more) fd with
          | error e => simp [hr1] at h
          | ok pd =>
            obtain ⟨d1, e1⟩ := pd
            simp only [hr1] at h
            cases hr : executeGroups s w execSub parent path rest with
            | error e => simp [hr] at h
            | ok p =>
              obtain ⟨kvs', es'⟩ := p
              simp [hr] at h
              obtain ⟨rfl, rfl⟩ := h
              obtain ⟨ha1, hn1⟩ := resolveField_inv s w execSub hsub hsubR parent _ _ fd (hs _ _ _ hf) d1 e1 hr1
              obtain ⟨ha, hn⟩ := ih kvs' es' hnd' hr
              have A : ∀ e ∈ e1, ∃ pre suf, e.path = path ++ Seg.key key :: (pre ++ suf) ∧ Data.at d1 pre = some .null ∧
                  ∃ e' ∈ e1, e'.path = path ++ Seg.key key :: pre := by
                intro e he
                obtain ⟨pre, suf, hp, hd, e', he', hp'⟩ := ha1 e he
                exact ⟨pre, suf, by simpa [List.append_assoc] using hp, hd, e', he', by simpa [List.append_assoc] using hp'⟩
              have B : ∀ e ∈ es', ∃ k pre suf, k ≠ key ∧ e.path = path ++ Seg.key k :: (pre ++ suf) ∧
                  Data.at (.obj kvs') (Seg.key k :: pre) = some .null ∧ ∃ e' ∈ es', e'.path = path ++ Seg.key k :: pre := by
                intro e he
                obtain ⟨k, pre, suf, hp, hd, he'⟩ := ha e he
                have hk : k ∈ kvs'.map (·.1) := at_obj_key_mem _ _ _ _ hd
                exact ⟨k, pre, suf, fun e => keyNotIn _ _ hr (e ▸ hk), hp, hd, he'⟩
              refine ⟨?_, ?_⟩
              · intro e he
                simp at he
                rcases he with he | he
                · obtain ⟨pre, suf, hp, hd, e', he', hp'⟩ := A e he
                  exact ⟨key, pre, suf, hp, by simp [Data.at, hd], e', by simp [he'], hp'⟩
                · obtain ⟨k, pre, suf, hne, hp, hd, e', he', hp'⟩ := B e he
                  exact ⟨k, pre, suf, hp, by rw [at_obj_cons_ne _ _ _ _ _ (Ne.symm hne)]; exact hd, e', by simp [he'], hp'⟩
              · rw [List.map_append, List.nodup_append]
                refine ⟨hn1, hn, ?_⟩
                intro a ha' b hb' hab
                simp at ha' hb'
                obtain ⟨ea, hea, rfl⟩ := ha'
                obtain ⟨eb, heb, rfl⟩ := hb'
                obtain ⟨pre, suf, hp, _⟩ := A ea hea
                obtain ⟨k, pre', suf', hne, hp', _⟩ := B eb heb
                rw [hp, hp'] at hab
                exact prefix_key_ne path _ _ key k (Ne.symm hne) hab

private theorem executeFields_inv (s : SchemaD) (hs : TypesWf s) (doc : Doc) (vars : Vars) (w : World) (cf : Nat) :
    ∀ (fuel : Nat) (parent : String) (path : Path) (sels : List Sel) (d : Data) (es : List Err),
      executeFields s doc vars w cf fuel parent path sels = .ok (d, es) → isObjD d = true ∧ Inv path d es := by
  intro fuel
  induction fuel with
  | zero => intro parent path sels d es h; simp [executeFields] at h
  | succ n ih =>
    intro parent path sels d es h
    simp only [executeFields, bind, Except.bind, pure, Except.pure] at h
    cases h1 : collectFields s doc vars cf parent sels [] with
    | error e => simp [h1] at h
    | ok p1 =>
      obtain ⟨g, seen'⟩ := p1
      simp only [h1, catchDirective_ok] at h
      cases h2 : executeGroups s w (executeFields s doc vars w cf n) parent path g with
      | error e => simp [h2] at h
      | ok p2 =>
        obtain ⟨kvs, es2⟩ := p2
        simp [h2] at h
        obtain ⟨rfl, rfl⟩ := h
        have hnd := (alias_merge s doc vars cf parent sels [] g seen' h1).1
        obtain ⟨ha, hn⟩ := executeGroups_inv s hs w _ (fun rt p sels d es hh => ih rt p sels d es hh)
          (fun rt p sels k l inner hh => (executeFields_raised s doc vars w cf n rt p sels k l inner hh).2.2.1) parent path g kvs _ hnd h2
        refine ⟨rfl, ?_, hn⟩
        intro e he
        obtain ⟨k, pre, suf, hp, hd, he'⟩ := ha e he
        exact ⟨Seg.key k :: pre, suf, by simpa using hp, hd, he'⟩

/-- **null_error_bijection** (global): in the response of a whole request, for every schema with well-formed field
    types, every document, variables, world and fuel — no two errors have the same path, and every error sits at or
    below an error whose response path is a position of the data that holds `null`. (Conversely,
    `resolver_error_null_one_error`, `nonnull_violation_null_one_error` and `completion_error_is_field_error` show that
    each failing resolver / non-null violation / interrupted completion does produce its error, with the field's
    location; `nullable_null_no_error`/`nonnull_ok_no_error` that nothing else does.) "Below" cannot be dropped:
    `error_below_null_witness`. -/
theorem null_error_bijection (s : SchemaD) (hs : TypesWf s) (doc : Doc) (vars : Vars) (w : World) (cf fuel : Nat)
    (root : String) (sels : List Sel) : NullErrorBijection s doc vars w cf fuel root sels := by
  intro d es h
  obtain ⟨_, ha, hn⟩ := executeFields_inv s hs doc vars w cf fuel root [] sels d es h
  refine ⟨hn, ?_⟩
  intro e he
  obtain ⟨pre, suf, hp, hd, e', he', hp'⟩ := ha e he
  simp at hp hp'
  exact ⟨e', he', suf, by rw [hp, hp'], by rw [hp']; exact hd⟩

/-- **errors_at_or_below_nulls** - `null_error_bijection` under a name that says what is proved (one direction: from
    errors to nulls; see the doc comment of `NullErrorBijection` for what the converse would need) -/
theorem errors_at_or_below_nulls (s : SchemaD) (hs : TypesWf s) (doc : Doc) (vars : Vars) (w : World) (cf fuel : Nat)
    (root : String) (sels : List Sel) (d : Data) (es : List Err)
    (h : executeFields s doc vars w cf fuel root [] sels = .ok (d, es)) :
    (es.map (·.path)).Nodup ∧ ∀ e ∈ es, ∃ e' ∈ es, ∃ suf, e.path = e'.path ++ suf ∧ Data.at d e'.path = some .null :=
  null_error_bijection s hs doc vars w cf fuel root sels d es h

/-- **root_failure_single_error**: when the ROOT selection set cannot be collected (`execute`: `data = None`), the
    response carries exactly one error, without path and without field location -/
theorem root_failure_single_error (s : SchemaD) (doc : Doc) (vars : Vars) (w : World) (cf fuel : Nat) (root : String)
    (sels : List Sel) (k : ErrKind) (l : Option (List Nat)) (inner : List Err)
    (h : executeFields s doc vars w cf fuel root [] sels = .error (.raised k l inner)) :
    inner ++ [({ path := [], locs := l.getD [], kind := k } : Err)] = [{ path := [], locs := [], kind := .directive }] := by
  obtain ⟨rfl, rfl, rfl, _⟩ := executeFields_raised s doc vars w cf fuel root [] sels k l inner h
  rfl

end PyGql.Props.C04

namespace PyGql.Props.C04
open PyGql PyGql.Exec

/-! ### "below" cannot be dropped: an interrupted list keeps the errors of the items already completed -/
def wSchema : SchemaD :=
  { types := [{ kind := .object, name := "Query", fields := [{ name := "xs", type := .list (.named "Ob") }] },
              { kind := .object, name := "Ob", fields := [{ name := "y", type := .named "Int" }] }] }
def wDoc : Doc :=
  { ops := [{ kind := "query", name := none,
              sels := [.field "xs" "xs" 2 [] [("Query", some "")] true [.field "y" "y" 7 [] [("Ob", some "")] false []]] }], frags := [] }
/-- `xs` is a generator yielding one `Ob` and then raising `ResolverError`; `y` raises `ResolverError` -/
def wWorld : World := fun parent _ _ _ =>
  if parent == "Query" then .val (.raise [.obj "Ob"] "lazy" none) else .err "bad" none

/-- the error of `xs[0].y`, recorded before the iterable of `xs` raised, stays although `xs` is `null` -/
theorem error_below_null_witness :
    executeFields wSchema wDoc [] wWorld 3 3 "Query" [] (wDoc.ops.head!).sels
      = .ok (.obj [("xs", .null)],
             [{ path := [.key "xs", .idx 0, .key "y"], locs := [7], kind := .resolver "bad" none },
              { path := [.key "xs"], locs := [2], kind := .resolver "lazy" none }]) := by
  rfl

end PyGql.Props.C04

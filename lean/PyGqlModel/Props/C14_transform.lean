/-
  C14 — what a transform removes and what it keeps.

  `visibility_hides_type` (FULL): after `VisibilitySchemaTransform` (in place or through `transform_schema`) on a closed
  well-formed schema, every registered type name is visible, the schema is closed, hence EVERY reference anywhere in it
  (field, argument, input field, interface, union member, directive argument, root) names a visible registered type: a hidden
  type cannot be reached from queries or introspection.
-/
import PyGqlModel.Lemmas.HeapOrigin
import PyGqlModel.Props.C14_closed

set_option linter.unusedSimpArgs false
set_option linter.unusedVariables false

namespace PyGql.Props.C14
open PyGql.Heap PyGql.Heap.Own

/-- FULL `visibility_hides_type`, in place -/
theorem visibility_hides_type (cfg : Cfg) (hacc : cfg.accumulateBusted = true) (fuel : Nat) (p : VisP) (s : Schema) (h h' : Heap) (s' : Schema)
    (hc : closedB h s = true) (hw : wfB h s = true) (e : onSchema cfg fuel (.vis p) s h = some (h', s')) :
    (∀ n, n ∈ names s' → p.isTypeVisible n = true ∧ n ∈ names s) ∧ closedB h' s' = true ∧
    (∀ r, refOK s'.types r = true → p.isTypeVisible r.name = true) := by
  have w := wfs_of_closedB hc hw
  have hn := onSchema_vis_names cfg fuel p s h h' s' w.nodup w.names e
  obtain ⟨c', _⟩ := onSchema_closed cfg hacc fuel (.vis p) s h h' s' w e
  refine ⟨hn, c', ?_⟩
  intro r hr
  exact (hn r.name (name_of_lookup (refOK_lookup hr))).1

/-- FULL `visibility_hides_type` for `transform_schema(source, VisibilitySchemaTransform())` -/
theorem visibility_hides_type_transform (cfg : Cfg) (hd : cfg.deepClone = true) (hk : cfg.keepAllTypes = true) (hacc : cfg.accumulateBusted = true)
    (fuel : Nat) (p : VisP) (s : Schema) (h h' : Heap) (s' : Schema) (hc : closedB h s = true) (hw : wfB h s = true)
    (e : transform cfg fuel [.vis p] s h = some (h', s')) :
    (∀ n, n ∈ names s' → p.isTypeVisible n = true) ∧ closedB h' s' = true ∧
    (∀ r, refOK s'.types r = true → p.isTypeVisible r.name = true) := by
  simp only [transform] at e
  split at e
  · cases e
  · rename_i r hr
    obtain ⟨h1, s1⟩ := r
    obtain ⟨c1, w1⟩ := clone_closed cfg hd hk hacc fuel s h h1 s1 hc hw hr
    simp only [transformFrom] at e
    split at e
    · cases e
    · rename_i r2 hr2
      cases e
      obtain ⟨a, b, c⟩ := visibility_hides_type cfg hacc fuel p s1 h1 _ _ c1 w1 hr2
      exact ⟨fun n hn => (a n hn).1, b, c⟩

/-- hides `Dog` -/
def hideDog : VisP := { typeVis := fun n => n != "Dog", fieldVis := fun _ _ => true, inputVis := fun _ _ => true, dirVis := fun _ => true }

/-- non-vacuity: hiding `Dog` on the witness -/
example : (transform Cfg.fixed 8 [.vis hideDog] s0 h0).isSome = true ∧ closedB h0 s0 = true ∧ wfB h0 s0 = true := by decide

/-! ### what a transform keeps -/

/-- FULL, every modelled visitor, in place: every object that existed before `visitor.on_schema(schema)` still exists afterwards,
    is of the same sort and has ALL its non-reference attributes (`SameHead`: for a type kind, name, description, default
    resolver, type resolver, enum values; for a field name, description, deprecation, resolver, subscription resolver, python
    name; for an argument / input field name, python name, default, description; for a directive name, locations,
    description); its type references keep their shape and the names at their base (only re-pointed); its member list can
    only shrink. In particular a type / field / argument the visitor "returns unchanged" is preserved. -/
theorem visitor_keeps_existing_objects (cfg : Cfg) (fuel : Nat) (v : Visitor) (s : Schema) (h h' : Heap) (s' : Schema)
    (e : onSchema cfg fuel v s h = some (h', s')) :
    ∀ a o, h.read a = some o → ∃ o', h'.read a = some o' ∧ SameHead o o' ∧ List.Sublist (kids o') (kids o) := by
  intro a o hr
  obtain ⟨o', hr', hd, hk, _⟩ := onSchema_stepT cfg fuel v s h h' s' e a o hr
  exact ⟨o', hr', hd, hk⟩

/-- FULL `transform_preserves_untouched` (type level), for `transform_schema(source, *visitors)` with any list of the modelled
    visitors — VisibilitySchemaTransform with arbitrary predicates, CamelCaseSchemaTransform with an arbitrary renaming, the
    drop/wrap directive visitor, the heal visitor: every type the result registers is registered under the same name in the
    source and carries exactly the source type's kind, name, description, default resolver, type resolver, enum values
    (identities differ: the result's objects are copies). Together with `visibility_hides_type_transform` (which names
    disappear) and `transform_intact` (none for non-deleting visitors) this is the type level of "everything the operation
    did not target is preserved". -/
theorem transform_preserves_untouched (cfg : Cfg) (hd : cfg.deepClone = true) (fuel : Nat) (vs : List Visitor) (s : Schema) (h h' : Heap)
    (s' : Schema) (hc : closedB h s = true) (e : transform cfg fuel vs s h = some (h', s')) :
    ∀ e', e' ∈ s'.types → ∃ e0, e0 ∈ s.types ∧ e0.1 = e'.1 ∧
      ∀ t, h.readType e0.2 = some t → ∃ t', h'.readType e'.2 = some t' ∧ SameHead (.type t) (.type t') := by
  simp only [transform] at e
  split at e
  · cases e
  · rename_i r hr
    obtain ⟨h1, s1⟩ := r
    exact transformFrom_origin cfg fuel h s.types vs h1 s1 h' s' (clone_origin cfg hd fuel s h h1 s1 hc hr) e

/-- the same for an in-place visitor (no clone): provenance of the registry entries -/
theorem visitor_preserves_untouched (cfg : Cfg) (fuel : Nat) (v : Visitor) (s : Schema) (h h' : Heap) (s' : Schema)
    (e : onSchema cfg fuel v s h = some (h', s')) :
    ∀ e', e' ∈ s'.types → ∃ e0, e0 ∈ s.types ∧ e0.1 = e'.1 ∧
      ∀ t, h.readType e0.2 = some t → ∃ t', h'.readType e'.2 = some t' ∧ SameHead (.type t) (.type t') :=
  onSchema_origin cfg fuel v h s.types s h h' s' (regOrigin_refl h s.types) e

/-- CamelCaseSchemaTransform, member level: the argument / input field it returns is a copy with the converted name and
    every other attribute (python name, default, description, type) unchanged -/
theorem camel_case_argument_kept (ren : String → String) (reg : List (String × Addr)) (h : Heap) (a : Addr) (g : ArgO)
    (hg : h.readArg a = some g) :
    ∃ a', (onArgument (.camel ren) reg h a).2 = some a' ∧
      (onArgument (.camel ren) reg h a).1.readArg a' = some { g with name := ren g.name } := by
  simp only [onArgument, hg]
  exact ⟨_, rfl, readArg_alloc_new _ _⟩

/-- … and the field it returns is a copy with the converted name and the same description, deprecation, resolver,
    subscription resolver, python name and type (its arguments are the converted copies) -/
theorem camel_case_field_kept (ren : String → String) (reg : List (String × Addr)) (tn : String) (h : Heap) (a : Addr) (f : FieldO)
    (hf : h.readField a = some f) :
    ∃ a' f', (onField (.camel ren) reg tn h a).2 = some a' ∧ (onField (.camel ren) reg tn h a).1.readField a' = some f' ∧
      f'.name = ren f.name ∧ f'.desc = f.desc ∧ f'.depr = f.depr ∧ f'.res = f.res ∧ f'.sub = f.sub ∧ f'.py = f.py ∧ sameNames f.ty f'.ty := by
  simp only [onField, hf, onFieldBase]
  split
  · exact ⟨_, _, rfl, readField_alloc_new _ _, rfl, rfl, rfl, rfl, rfl, rfl, sameNames_refl _⟩
  · have hstep := mapFilter_step (onArgument_step (.camel ren) reg) f.args (h.alloc (.field { f with name := ren f.name })).1 chkT
      (compat_true _ reg)
    obtain ⟨o', hr', hd, _, _⟩ := hstep _ _ (readField_read (readField_alloc_new h { f with name := ren f.name }))
    cases o' with
    | field f' =>
      simp only [SameHead] at hd
      exact ⟨_, f', rfl, readField_of_read hr', hd.1, hd.2.1, hd.2.2.1, hd.2.2.2.1, hd.2.2.2.2.1, hd.2.2.2.2.2.1, hd.2.2.2.2.2.2⟩
    | type _ => simp [SameHead] at hd
    | arg _ => simp [SameHead] at hd
    | dir _ => simp [SameHead] at hd

end PyGql.Props.C14

/-
  C14 — what a transform removes and what it keeps.

  `visibility_hides_type` (FULL): after `VisibilitySchemaTransform` (in place or through `transform_schema`) on a closed
  well-formed schema, every registered type name is visible, the schema is closed, hence EVERY reference anywhere in it
  (field, argument, input field, interface, union member, directive argument, root) names a visible registered type: a hidden
  type cannot be reached from queries or introspection.
-/
import PyGqlModel.Lemmas.HeapVisibility
import PyGqlModel.Props.C14_closed

set_option linter.unusedSimpArgs false
set_option linter.unusedVariables false

namespace PyGql.Props.C14
open PyGql.Heap PyGql.Heap.Own

/-- FULL `visibility_hides_type`, in place -/
theorem visibility_hides_type (cfg : Cfg) (hacc : cfg.accumulateBusted = true) (fuel : Nat) (p : VisP) (s : Schema) (h h' : Heap) (s' : Schema)
    (hc : closedB h s = true) (hw : wfB h s = true) (e : onSchema cfg fuel (.vis p) s h = some (h', s')) :
    (∀ n, n ∈ names s' → p.isTypeVisible n = true ∧ n ∈ names s) ∧ closedB h' s' = true ∧
    (∀ r, refOK s'.types r = true → p.isTypeVisible r.name = true) := by
  have w := wfs_of_closedB hc hw
  have hn := onSchema_vis_names cfg fuel p s h h' s' w.nodup w.names e
  obtain ⟨c', _⟩ := onSchema_closed cfg hacc fuel (.vis p) s h h' s' w e
  refine ⟨hn, c', ?_⟩
  intro r hr
  exact (hn r.name (name_of_lookup (refOK_lookup hr))).1

/-- FULL `visibility_hides_type` for `transform_schema(source, VisibilitySchemaTransform())` -/
theorem visibility_hides_type_transform (cfg : Cfg) (hd : cfg.deepClone = true) (hk : cfg.keepAllTypes = true) (hacc : cfg.accumulateBusted = true)
    (fuel : Nat) (p : VisP) (s : Schema) (h h' : Heap) (s' : Schema) (hc : closedB h s = true) (hw : wfB h s = true)
    (e : transform cfg fuel [.vis p] s h = some (h', s')) :
    (∀ n, n ∈ names s' → p.isTypeVisible n = true) ∧ closedB h' s' = true ∧
    (∀ r, refOK s'.types r = true → p.isTypeVisible r.name = true) := by
  simp only [transform] at e
  split at e
  · cases e
  · rename_i r hr
    obtain ⟨h1, s1⟩ := r
    obtain ⟨c1, w1⟩ := clone_closed cfg hd hk hacc fuel s h h1 s1 hc hw hr
    simp only [transformFrom] at e
    split at e
    · cases e
    · rename_i r2 hr2
      cases e
      obtain ⟨a, b, c⟩ := visibility_hides_type cfg hacc fuel p s1 h1 _ _ c1 w1 hr2
      exact ⟨fun n hn => (a n hn).1, b, c⟩

/-- hides `Dog` -/
def hideDog : VisP := { typeVis := fun n => n != "Dog", fieldVis := fun _ _ => true, inputVis := fun _ _ => true, dirVis := fun _ => true }

/-- non-vacuity: hiding `Dog` on the witness -/
example : (transform Cfg.fixed 8 [.vis hideDog] s0 h0).isSome = true ∧ closedB h0 s0 = true ∧ wfB h0 s0 = true := by decide

end PyGql.Props.C14

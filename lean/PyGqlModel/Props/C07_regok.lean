/-
  C07 — property theorems, part 12: the hypothesis `RegOK` is SATISFIABLE by the registries the library builds
  (repair of audit finding C07-F1).

  Before this repair `CustomOK` allowed the literal `null`; `default_scalar`'s `_untyped_literal` answers `None` to it, so
  `CustomOK reg n .none` held and `RegOK.customNotNone` was FALSE for every registry holding an SDL `scalar X`: every soundness
  theorem was vacuous for such schemas. `CustomOK` now only speaks of the inputs `value_from_ast` really hands to a scalar's
  parser (never `null`, never a bare `$x`), and this file PROVES, for the stand-in scalar:

  * `customNotNone_default` / `customNotNone_ofTypes` / `customNotNone_regOfSchema`: the stand-in never answers `None` to such
    an input — whatever the three extracted flags of Generated/Scalars.lean say;
  * `regOK_ofTypes_iff`: for `Reg.ofTypes ts`, `RegOK` IS the four conditions on the declared types (nothing is left to assume
    about the scalars); `regOK_regOfSchema_iff` the same for the registry of an SDL schema description;
  * `regOK_satisfiable_with_default_scalar`: a registry with the stand-in scalar at a nullable, a non-null, a list-item and an
    input-field position (with a declared default) satisfies `RegOK`;
  * one `…_applies_with_default_scalar` theorem per headline soundness theorem: its hypotheses are discharged on that registry
    and it is USED to obtain a conclusion about a value the stand-in scalar produced.
-/
import PyGqlModel.Props.C07_tree
import PyGqlModel.Props.C07_fuel
import PyGqlModel.ExecArgs

set_option linter.unusedSimpArgs false
set_option linter.unusedVariables false

namespace PyGql.Props.C07
open PyGql PyGql.Coerce

/-! ### the stand-in scalar never answers None to what it is handed -/

private theorem pvOfJson_notNone {v : JV} (hv : v.isNull = false) : (pvOfJson v).isNone = false := by
  cases v <;> simp [JV.isNull] at hv <;> simp [pvOfJson, PV.isNone]

private theorem untypedLiteral_notNone {vars : Option (List (String × PV))} {l : Lit} {pv : PV}
    (hn : l.isNull = false) (hv : ∀ x, l ≠ .var x) (h : untypedLiteral vars l = some pv) : pv.isNone = false := by
  cases l with
  | null => simp [Lit.isNull] at hn
  | var x => exact absurd rfl (hv x)
  | int n => simp [untypedLiteral] at h; subst h; rfl
  | float t => simp [untypedLiteral] at h; subst h; rfl
  | str s => simp [untypedLiteral] at h; subst h; rfl
  | bool b => simp [untypedLiteral] at h; subst h; rfl
  | enum s => simp [untypedLiteral] at h; subst h; rfl
  | list items =>
    simp only [untypedLiteral] at h
    cases hr : untypedLiteralL vars items <;> simp [hr] at h
    subst h; rfl
  | obj fields =>
    simp only [untypedLiteral] at h
    cases hr : untypedLiteralF vars fields <;> simp [hr] at h
    subst h; rfl

/-- **customNotNone_default.** `default_scalar` (what `build_schema` makes of an SDL `scalar X`) meets `RegOK.customNotNone`:
    its `parse` (`_transparent`) answers a non-null JSON value with a non-None value, its `parse_literal` (`_untyped_literal`)
    answers every literal other than `null` / `$x` with a non-None value. Independent of the extracted flags. -/
theorem customNotNone_default (reg : Reg) (hp : reg.customParse = defaultScalarParse)
    (hl : reg.customParseLiteral = defaultScalarParseLiteral) :
    ∀ n pv, CustomOK reg n pv → pv.isNone = false := by
  intro n pv hok
  rcases hok with ⟨v, hv, h⟩ | ⟨l, vs, hn, hvar, _, h⟩
  · rw [hp] at h
    unfold defaultScalarParse at h
    split at h
    · cases h
    · cases h; exact pvOfJson_notNone hv
  · rw [hl] at h
    unfold defaultScalarParseLiteral at h
    split at h
    · rename_i pv' hpv
      cases h
      exact untypedLiteral_notNone hn hvar hpv
    · cases h

theorem customNotNone_ofTypes (ts : List (String × NamedT)) : ∀ n pv, CustomOK (Reg.ofTypes ts) n pv → pv.isNone = false :=
  customNotNone_default _ rfl rfl

theorem customNotNone_regOfSchema (s : SchemaD) : ∀ n pv, CustomOK (Exec.regOfSchema s) n pv → pv.isNone = false :=
  customNotNone_default _ rfl rfl

/-- the conditions of `RegOK` that concern the DECLARED types only (what is left of `RegOK` once the scalars are stand-ins) -/
structure RegTypesOK (reg : Reg) : Prop where
  fieldWf : ∀ n fs, reg.get? n = some (.input fs) → ∀ f, f ∈ fs → f.type.wf = true
  defaultsConform : ∀ n fs, reg.get? n = some (.input fs) → ∀ f, f ∈ fs → ∀ d, f.default = some d → Conforms reg f.type d
  enumNotNone : ∀ n vs, reg.get? n = some (.enum vs) → ∀ p, p ∈ vs → p.2.isNone = false
  pyNamesDistinct : ∀ n fs, reg.get? n = some (.input fs) → (fs.map (fun f => f.pyName)).Nodup

/-- **regOK_ofTypes_iff.** For a registry whose custom scalars are all stand-ins, `RegOK` is exactly the four conditions on the
    declared input objects and enums: the fifth (`customNotNone`) is a theorem, not an assumption. -/
theorem regOK_ofTypes_iff (ts : List (String × NamedT)) : RegOK (Reg.ofTypes ts) ↔ RegTypesOK (Reg.ofTypes ts) :=
  ⟨fun h => ⟨h.fieldWf, h.defaultsConform, h.enumNotNone, h.pyNamesDistinct⟩,
   fun h => ⟨h.fieldWf, h.defaultsConform, h.enumNotNone, h.pyNamesDistinct, fun n pv _ hok => customNotNone_ofTypes ts n pv hok⟩⟩

/-- the same for the registry `ExecArgs.regOfSchema` derives from an SDL schema description (the one C04/C05's executor model uses) -/
theorem regOK_regOfSchema_iff (s : SchemaD) : RegOK (Exec.regOfSchema s) ↔ RegTypesOK (Exec.regOfSchema s) :=
  ⟨fun h => ⟨h.fieldWf, h.defaultsConform, h.enumNotNone, h.pyNamesDistinct⟩,
   fun h => ⟨h.fieldWf, h.defaultsConform, h.enumNotNone, h.pyNamesDistinct, fun n pv _ hok => customNotNone_regOfSchema s n pv hok⟩⟩

/-- `customNotNone` is still a real condition: a user scalar whose `parse` answers None violates it (and then None does reach a
    non-null position: `regNoneScalar` in C07_examples.lean) -/
theorem customNotNone_still_excludes :
    ¬ RegOK { types := [("S", .custom)], customParse := fun _ _ => .value .none, customParseLiteral := fun _ _ _ => .refused,
              customHasParseLiteral := fun _ => false } := by
  intro h
  have := h.customNotNone "S" .none rfl (.inl ⟨.int 1, rfl, rfl⟩)
  simp [PV.isNone] at this

/-! ### a registry WITH the stand-in scalar that satisfies `RegOK` -/

namespace StandIn

/-- `input Box { any: Any = "dflt", must: Any!, many: [Any!], n: Int! = 3, c: Color }` -/
def boxFields : List InField :=
  [ { name := "any", pyName := "any", type := .named "Any", default := some (.str "dflt") },
    { name := "must", pyName := "must", type := .nonNull (.named "Any"), default := none },
    { name := "many", pyName := "many", type := .list (.nonNull (.named "Any")), default := none },
    { name := "n", pyName := "n", type := .nonNull (.named "Int"), default := some (.int 3) },
    { name := "c", pyName := "c", type := .named "Color", default := none } ]

/-- `scalar Any  enum Color { RED GREEN }  input Box {…}` as `build_schema` registers them: `Any` is a `default_scalar` -/
def reg : Reg := Reg.ofTypes
  [("Int", .int), ("String", .string), ("Any", .custom), ("Color", .enum [("RED", .str "RED"), ("GREEN", .str "GREEN")]),
   ("Box", .input boxFields)]

theorem get_any : reg.get? "Any" = some .custom := rfl
theorem get_box : reg.get? "Box" = some (.input boxFields) := rfl

private theorem get_input {n : String} {fs : List InField} (h : reg.get? n = some (.input fs)) : n = "Box" ∧ fs = boxFields := by
  unfold Reg.get? at h
  split at h
  · rename_i p hp
    have hn : p.1 = n := by simpa using List.find?_some hp
    have hm := List.mem_of_find?_eq_some hp
    simp [reg, Reg.ofTypes] at hm
    rcases hm with rfl | rfl | rfl | rfl | rfl <;> simp at h
    exact ⟨hn.symm, h.symm⟩
  · cases h

private theorem get_enum {n : String} {vs : List (String × PV)} (h : reg.get? n = some (.enum vs)) :
    vs = [("RED", .str "RED"), ("GREEN", .str "GREEN")] := by
  unfold Reg.get? at h
  split at h
  · rename_i p hp
    have hm := List.mem_of_find?_eq_some hp
    simp [reg, Reg.ofTypes] at hm
    rcases hm with rfl | rfl | rfl | rfl | rfl <;> simp at h
    exact h.symm
  · cases h

/-- the value the stand-in makes of the literal `"dflt"` (how `build_schema` computes the declared default) is `CustomOK` -/
theorem dflt_customOK : CustomOK reg "Any" (.str "dflt") := by
  refine .inr ⟨.str "dflt", [], rfl, (fun x h => by cases h), rfl, ?_⟩
  simp [reg, Reg.ofTypes, defaultScalarParseLiteral, untypedLiteral]

theorem typesOK : RegTypesOK reg := by
  refine ⟨?_, ?_, ?_, ?_⟩
  · intro n fs h f hf
    obtain ⟨_, rfl⟩ := get_input h
    simp [boxFields] at hf
    rcases hf with rfl | rfl | rfl | rfl | rfl <;> rfl
  · intro n fs h f hf d hd
    obtain ⟨_, rfl⟩ := get_input h
    simp [boxFields] at hf
    rcases hf with rfl | rfl | rfl | rfl | rfl <;> simp at hd <;> subst hd
    · exact .custom get_any dflt_customOK
    · exact .nonNull rfl (.int rfl (by decide))
  · intro n vs h p hp
    cases get_enum h
    simp at hp
    rcases hp with rfl | rfl <;> rfl
  · intro n fs h
    obtain ⟨_, rfl⟩ := get_input h
    decide

end StandIn

/-- **regOK_satisfiable_with_default_scalar** (non-vacuity of every soundness theorem of C07; audit C07-F1). The registry of
    `scalar Any  enum Color {RED GREEN}  input Box {any: Any = "dflt", must: Any!, many: [Any!], n: Int! = 3, c: Color}`,
    with `Any` the stand-in scalar `build_schema` creates, satisfies `RegOK`. -/
theorem regOK_satisfiable_with_default_scalar : RegOK StandIn.reg :=
  (regOK_ofTypes_iff _).2 StandIn.typesOK

/-- … and the statement the auditor machine-checked before the repair is now refuted: `RegOK` and a custom scalar coexist -/
theorem regOK_with_custom_scalar_exists : ∃ ts n, (Reg.ofTypes ts).get? n = some .custom ∧ RegOK (Reg.ofTypes ts) :=
  ⟨_, "Any", StandIn.get_any, regOK_satisfiable_with_default_scalar⟩

end PyGql.Props.C07

/-
  C18 — coverage, read as "ALL children EXCEPT an explicit finite list of (kind, attribute) pairs".

  `coverage_partial` (Props/C18.lean) says the calls of an identity visit are the pre/post-order over the child relation the
  table IMPLEMENTS.  Here that relation is made explicit:

  * `covered_children_visited` — for EVERY tree: a child held by an attribute for which the `_visit_*` body of the parent's
    kind has a statement is entered and left (exactly once: `once_today`), recursively (`Entered`);
  * `missed_children_today`   — the attributes of the node classes of `lang/ast.py` (`__slots__`, re-extracted on every
    run) that NO statement traverses and that hold nodes other than `Name`: exactly the 15 pairs of W1–W4
    (5 in executable documents, the 10 descriptions) — closed by kernel evaluation on the generated table;
  * `uncovered_partition`     — every other untraversed slot is a scalar or holds `Name` nodes (explicit list), and
    `witness_slots_classified`: the classification is right on the witness documents parsed by the real parser.
-/
import PyGqlModel.Props.C18_table

namespace PyGql.Props.C18
open PyGql.Visit PyGql.Generated.VisitTable

/-- the attribute value holds the child `c` -/
def Holds : Option Attr → Node → Prop
  | some (.one (some c')), c => c' = c
  | some (.many cs), c => c ∈ cs
  | _, _ => False

/-- the statements of the `_visit_*` body that `ASTVisitor.visit` registers for the kind `k` -/
def stepsOf (T : Table) (k : String) : List Step :=
  match T.visit.lookup k with
  | some m => (T.methods.lookup m).getD []
  | none => []

/-- `c` is reached from the root `t` through attributes that the body of the parent's kind traverses, every child being
    dispatched to the method of its own kind -/
inductive Entered (T : Table) (t : Node) : Node → Prop
  | root : Entered T t t
  | child {p c : Node} {st : Step} {m' : String} : Entered T t p → st ∈ stepsOf T p.kind → st.applies p.kind = true →
      Holds (p.getAttr st.attr) c → resolve T st.target c.kind = .ok m' → T.visit.lookup c.kind = some m' → Entered T t c

private theorem walkList_mem (g : Node → Res (List Ev)) : ∀ (cs : List Node) (tr : List Ev) (c : Node),
    Spec.walkList g cs = .ok tr → c ∈ cs → ∃ tc, g c = .ok tc ∧ ∀ e ∈ tc, e ∈ tr
  | [], _, _, _, hm => by cases hm
  | x :: xs, tr, c, h, hm => by
    simp only [Spec.walkList] at h
    cases h1 : g x with
    | err e => simp [h1] at h
    | fuel => simp [h1] at h
    | ok t1 =>
      simp only [h1] at h
      cases h2 : Spec.walkList g xs with
      | err e => simp [h2] at h
      | fuel => simp [h2] at h
      | ok t2 =>
        simp only [h2, Res.ok.injEq] at h
        subst h
        rcases List.mem_cons.1 hm with rfl | hm'
        · exact ⟨t1, h1, fun e he => List.mem_append_left _ he⟩
        · obtain ⟨tc, hc, hsub⟩ := walkList_mem g xs t2 c h2 hm'
          exact ⟨tc, hc, fun e he => List.mem_append_right _ (hsub e he)⟩

private theorem walkSteps_mem (call : Target → Node → Res (List Ev)) (n : Node) : ∀ (steps : List Step) (tr : List Ev)
    (st : Step), Spec.walkSteps call steps n = .ok tr → st ∈ steps →
    ∃ t1, Spec.walkStep call st n = .ok t1 ∧ ∀ e ∈ t1, e ∈ tr
  | [], _, _, _, hm => by cases hm
  | x :: xs, tr, st, h, hm => by
    simp only [Spec.walkSteps] at h
    cases h1 : Spec.walkStep call x n with
    | err e => simp [h1] at h
    | fuel => simp [h1] at h
    | ok t1 =>
      simp only [h1] at h
      cases h2 : Spec.walkSteps call xs n with
      | err e => simp [h2] at h
      | fuel => simp [h2] at h
      | ok t2 =>
        simp only [h2, Res.ok.injEq] at h
        subst h
        rcases List.mem_cons.1 hm with rfl | hm'
        · exact ⟨t1, h1, fun e he => List.mem_append_left _ he⟩
        · obtain ⟨tc, hc, hsub⟩ := walkSteps_mem call n xs t2 st h2 hm'
          exact ⟨tc, hc, fun e he => List.mem_append_right _ (hsub e he)⟩

private theorem walkStep_child (call : Target → Node → Res (List Ev)) (st : Step) (n c : Node) (t1 : List Ev)
    (h : Spec.walkStep call st n = .ok t1) (ha : st.applies n.kind = true) (hh : Holds (n.getAttr st.attr) c) :
    ∃ tc, call st.target c = .ok tc ∧ ∀ e ∈ tc, e ∈ t1 := by
  unfold Spec.walkStep at h
  simp only [ha, Bool.not_true, Bool.false_eq_true, if_false] at h
  cases hg : n.getAttr st.attr with
  | none => rw [hg] at hh; cases hh
  | some a =>
    rw [hg] at hh h
    cases a with
    | scalar v => cases hh
    | one oc =>
      cases oc with
      | none => cases hh
      | some c' =>
        simp only [Holds] at hh
        subst hh
        cases hs : st.shape with
        | one => simp only [hs] at h; exact ⟨t1, h, fun e he => he⟩
        | many => simp [hs] at h
    | many cs =>
      simp only [Holds] at hh
      cases hs : st.shape with
      | one => simp [hs] at h
      | many => simp only [hs] at h; exact walkList_mem _ cs t1 c h hh

private theorem walk_ends (T : Table) (fuel : Nat) (m : String) (n : Node) (tr : List Ev)
    (h : Spec.walk T fuel m n = .ok tr) : (⟨true, n⟩ : Ev) ∈ tr ∧ (⟨false, n⟩ : Ev) ∈ tr := by
  cases fuel with
  | zero => simp [Spec.walk] at h
  | succ fuel =>
    simp only [Spec.walk] at h
    split at h
    · simp at h
    · split at h
      · simp at h
      · simp at h
      · simp only [Res.ok.injEq] at h; subst h; simp

/-- the walk of a reached node is part of the walk of the root -/
private theorem entered_walk (T : Table) (fuel : Nat) (t : Node) (m0 : String) (tr : List Ev)
    (hv : T.visit.lookup t.kind = some m0) (h : Spec.walk T fuel m0 t = .ok tr) {c : Node} (hc : Entered T t c) :
    ∃ fuel' mc tc, T.visit.lookup c.kind = some mc ∧ Spec.walk T fuel' mc c = .ok tc ∧ ∀ e ∈ tc, e ∈ tr := by
  induction hc with
  | root => exact ⟨fuel, m0, tr, hv, h, fun e he => he⟩
  | @child p c st m' _ hst ha hh hres hvis ih =>
    obtain ⟨fp, mp, tp, hvp, hwp, hsub⟩ := ih
    cases fp with
    | zero => simp [Spec.walk] at hwp
    | succ fp =>
      simp only [Spec.walk] at hwp
      simp only [stepsOf, hvp] at hst
      cases hm : T.methods.lookup mp with
      | none => simp [hm] at hst
      | some steps =>
        simp only [hm, Option.getD_some] at hst hwp
        cases hb : Spec.walkSteps (Spec.walkTarget T (Spec.walk T fp)) steps p with
        | err e => simp [hb] at hwp
        | fuel => simp [hb] at hwp
        | ok body =>
          simp only [hb, Res.ok.injEq] at hwp
          obtain ⟨t1, h1, hs1⟩ := walkSteps_mem _ p steps body st hb hst
          obtain ⟨tc, hcall, hs2⟩ := walkStep_child _ st p c t1 h1 ha hh
          simp only [Spec.walkTarget, hres] at hcall
          refine ⟨fp, m', tc, hvis, hcall, fun e he => hsub e ?_⟩
          rw [← hwp]
          simp [hs1 e (hs2 e he)]

/-- **covered_children_visited** — for every tree and every visitor that changes nothing: every node reached from the root
    through TRAVERSED attributes is entered and left in a completed visit (and only once: `once_today`). Together with
    `missed_children_today` this reads: all children are visited except those held by the 15 listed (kind, attribute)
    pairs (and what hangs below them). -/
theorem covered_children_visited {σ : Type} (T : Table) (v : Visitor σ) (hv : Observer v) (fuel : Nat) (t : Node) (s : σ)
    (o : Out σ) (h : visit T v fuel t s = .ok o) (c : Node) (hc : Entered T t c) :
    (⟨true, c⟩ : Ev) ∈ o.tr ∧ (⟨false, c⟩ : Ev) ∈ o.tr := by
  have hcov := coverage_partial T v hv fuel t s o h
  unfold Spec.implEvents at hcov
  cases hl : T.visit.lookup t.kind with
  | none => simp [hl] at hcov
  | some m0 =>
    simp only [hl] at hcov
    obtain ⟨f', mc, tc, _, hw, hsub⟩ := entered_walk T fuel t m0 o.tr hl hcov hc
    have := walk_ends T f' mc c tc hw
    exact ⟨hsub _ this.1, hsub _ this.2⟩

/-! ## the explicit list (today's table) -/

/-- has the body registered for kind `k` a statement for the attribute `a`? -/
def coveredBy (T : Table) (k a : String) : Bool := (stepsOf T k).any (fun st => st.attr == a && st.applies k)

/-- the `__slots__` (except `loc`) of every node class that no statement of its `_visit_*` body traverses -/
def uncoveredSlots (T : Table) : List (String × String) :=
  T.slots.flatMap fun p => (p.2.filter (fun a => a != "loc" && !coveredBy T p.1 a)).map (fun a => (p.1, a))

/-- untraversed slots that hold a scalar (`value`, `operation`, `block`) or `Name` nodes (`name`, `alias`, `locations`):
    the specification asks nothing for them ("every NON-NAME node") -/
def scalarOrNameSlot (p : String × String) : Bool :=
  p.2 == "name" || p.2 == "alias" || p.2 == "operation" || p.2 == "block" || p == ("DirectiveDefinition", "locations") ||
  (p.2 == "value" && ["BooleanValue", "EnumValue", "FloatValue", "IntValue", "StringValue", "Name"].contains p.1)

/-- **missed_children_today** — the (kind, attribute) pairs whose NODE children no `_visit_*` statement traverses:
    W1 `VariableDefinition.variable`, W2 the inner type of `ListType` / `NonNullType`, W3 the type condition of inline
    fragments and fragment definitions, W4 the description of the ten describable definitions. Nothing else. -/
theorem missed_children_today : (uncoveredSlots table).filter (fun p => !scalarOrNameSlot p) =
    [("DirectiveDefinition", "description"), ("EnumTypeDefinition", "description"), ("EnumValueDefinition", "description"),
     ("FieldDefinition", "description"), ("FragmentDefinition", "type_condition"), ("InlineFragment", "type_condition"),
     ("InputObjectTypeDefinition", "description"), ("InputValueDefinition", "description"),
     ("InterfaceTypeDefinition", "description"), ("ListType", "type"), ("NonNullType", "type"),
     ("ObjectTypeDefinition", "description"), ("ScalarTypeDefinition", "description"),
     ("UnionTypeDefinition", "description"), ("VariableDefinition", "variable")] := by decide +kernel

/-- every slot of every node class is `loc`, traversed, one of the 15 missed pairs, or a scalar / `Name` slot -/
theorem uncovered_partition : table.slots.all (fun p => p.2.all fun a =>
    a == "loc" || coveredBy table p.1 a || scalarOrNameSlot (p.1, a) ||
      ((uncoveredSlots table).filter (fun q => !scalarOrNameSlot q)).contains (p.1, a)) = true := by decide +kernel

/-- every registry entry of every dispatcher sends a kind to the method `visit` registers for that kind: a child is
    traversed by the body of ITS kind (the last premise of `Entered.child`) whenever a dispatcher is the call target -/
theorem dispatchers_agree_with_visit : table.dispatchers.all (fun d => d.2.registry.all fun q =>
    table.visit.lookup q.1 == some q.2) = true := by decide +kernel

mutual
/-- the classification is right on a tree: a `scalarOrNameSlot` never holds a node other than a `Name` -/
def slotsClassified : Node → Bool
  | .mk k _ a => slotsClassifiedAttrs k a
def slotsClassifiedAttrs (k : String) : List (String × Attr) → Bool
  | [] => true
  | (name, a) :: r => slotsClassifiedAttr k name a && slotsClassifiedAttrs k r
def slotsClassifiedAttr (k name : String) : Attr → Bool
  | .scalar _ => true
  | .one none => true
  | .one (some c) => (!scalarOrNameSlot (k, name) || c.kind == "Name") && slotsClassified c
  | .many cs => slotsClassifiedList k name cs
def slotsClassifiedList (k name : String) : List Node → Bool
  | [] => true
  | c :: r => (!scalarOrNameSlot (k, name) || c.kind == "Name") && slotsClassified c && slotsClassifiedList k name r
end

/-- … on the witness documents produced by the real parser (all node kinds of both dialects occur in them) -/
theorem witness_slots_classified : slotsClassified witnessExec = true ∧ slotsClassified witnessSdl = true := by
  decide +kernel

/-! non-vacuity of `covered_children_visited`: `{ }`-shaped skeleton `Document → OperationDefinition → SelectionSet` -/
private def ssN : Node := .mk "SelectionSet" 2 [("selections", .many [])]
private def opN : Node :=
  .mk "OperationDefinition" 1 [("variable_definitions", .many []), ("directives", .many []), ("selection_set", .one (some ssN))]
private def docN : Node := .mk "Document" 0 [("definitions", .many [opN])]

example : Entered table docN ssN := by
  have h1 : Entered table docN opN :=
    .child (st := { kinds := none, attr := "definitions", shape := .many, guard := .always, assign := true,
                    target := (.disp "_visit_definition") }) (m' := "_visit_operation_definition")
      .root (by decide) (by decide) (by simp [Holds, docN, Node.getAttr, Node.attrs, List.lookup]) rfl rfl
  exact .child (st := (⟨none, "selection_set", Shape.one, Guard.always, true, Target.method "_visit_selection_set"⟩ : Step)) (m' := "_visit_selection_set")
      h1 (by decide) (by decide) (by simp [Holds, opN, Node.getAttr, Node.attrs, List.lookup]) rfl rfl

/-- and the identity visit of that skeleton completes -/
example : (match visit table observer 8 docN () with | .ok o => o.tr.length | _ => 0) = 6 := by decide +kernel

end PyGql.Props.C18

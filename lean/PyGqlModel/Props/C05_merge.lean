/-
  C05 — `validated_no_internal_error` under the premise the validator actually guarantees.

  `MergeSafe` (declarative form of OverlappingFieldsCanBeMerged, June-2018 §5.3.2): in every selection-set SCOPE (a
  selection list with the fragments spread into it, each field tagged with the static parent type it is selected on),
  two fields with the same response key
    * whose parent types can OVERLAP (some object type belongs to both: same type, or one of them abstract and
      containing the other …) have the same field name and the same (coerced) arguments, and their sub-selections, merged, are again `MergeSafe`;
    * in any case have return types of the same SHAPE (`SameShape`: same list / non-null structure, equal leaf types or
      both composite).
  The executor groups by response key PER RUNTIME OBJECT TYPE after applying type conditions: two nodes end in one
  group only if the runtime type belongs to both parent types — i.e. the parents overlap — so the overlap clause is
  exactly what the no-internal-error argument needs. `KeyConsistent` (one key ↔ one field in the whole document) is no
  longer assumed: `{ pet { ... on Dog { v: bark } ... on Cat { v: lives } } }` is `MergeSafe`.
-/
import PyGqlModel.Props.C05_exec
import PyGqlModel.Props.C05
import PyGqlModel.Spec.MergeSafe
import PyGqlModel.Spec.ValidDocR

set_option linter.unusedSimpArgs false
set_option linter.unusedVariables false

namespace PyGql.Props.C05
open PyGql PyGql.Exec PyGql.Spec PyGql.Props.C04

theorem tag_map_snd (T : String) (sels : List Sel) : (tag T sels).map (·.2) = sels := by
  simp [tag, Function.comp_def]

/-- the fields of a scope, with the static parent type of each -/
inductive InScope (doc : Doc) : TSels → String × FNode → Prop
  | field {L T key name loc dirs args hs sub} : (T, Sel.field key name loc dirs args hs sub) ∈ L →
      InScope doc L (T, { key := key, name := name, loc := loc, args := args, hasSub := hs, sub := sub })
  | inline {L T on dirs sub x} : (T, Sel.inline on dirs sub) ∈ L → InScope doc (tag (on.getD T) sub) x → InScope doc L x
  | spread {L T name dirs fr x} : (T, Sel.spread name dirs) ∈ L → doc.fragment? name = some fr →
      InScope doc (tag fr.on fr.sels) x → InScope doc L x

theorem InScope.mono {doc : Doc} {A B : TSels} {x : String × FNode} (h : InScope doc A x) (hab : ∀ y ∈ A, y ∈ B) : InScope doc B x := by
  cases h with
  | field hm => exact .field (hab _ hm)
  | inline hm hr => exact .inline (hab _ hm) hr
  | spread hm hf hr => exact .spread (hab _ hm) hf hr

theorem InScope.append_split {doc : Doc} {A B : TSels} {x : String × FNode} (h : InScope doc (A ++ B) x) :
    InScope doc A x ∨ InScope doc B x := by
  cases h with
  | field hm =>
    rcases List.mem_append.mp hm with h1 | h1
    · exact Or.inl (.field h1)
    · exact Or.inr (.field h1)
  | inline hm hr =>
    rcases List.mem_append.mp hm with h1 | h1
    · exact Or.inl (.inline h1 hr)
    · exact Or.inr (.inline h1 hr)
  | spread hm hf hr =>
    rcases List.mem_append.mp hm with h1 | h1
    · exact Or.inl (.spread h1 hf hr)
    · exact Or.inr (.spread h1 hf hr)

/-- some object type belongs to both static types -/
def Overlap (s : SchemaD) (P1 P2 : String) : Prop := ∃ rt, Under s rt P1 ∧ Under s rt P2

/-- distinct object types never overlap: `Overlap` implies the rule's "not mutually exclusive" -/
theorem overlap_not_exclusive (s : SchemaD) (P1 P2 : String) (h : Overlap s P1 P2)
    (h1 : possibleTypes s P1 = []) (h2 : possibleTypes s P2 = []) : P1 = P2 := by
  obtain ⟨rt, u1, u2⟩ := h
  rcases u1 with rfl | u1
  · rcases u2 with rfl | u2
    · rfl
    · simp [isPossibleType, h2] at u2
  · simp [isPossibleType, h1] at u1

/-- merge safety of a scope. Clause 1: same-key fields under OVERLAPPING parents are the same call. Clause 2: their merged
    sub-selections are merge-safe again (this is where the predicate recurses: only sub-selections that can meet in one
    response object are merged). Clause 3 (`SameResponseShape` on the declared types): ALL same-key fields of the scope,
    also under mutually exclusive parents, declare types of one shape class — used by `same_key_one_shape` /
    `same_key_value_unambiguous` below. For exclusive pairs it is stated at this level only: their sub-selections are never
    merged into one response object, so nothing the executor does depends on a deeper comparison (the validation rule
    compares them further; that part constrains what clients can assume across different runtime types, not execution). -/
inductive MS (s : SchemaD) (doc : Doc) : TSels → Prop
  | intro {L : TSels} :
      (∀ x y, InScope doc L x → InScope doc L y → x.2.key = y.2.key → Overlap s x.1 y.1 → x.2.name = y.2.name ∧ x.2.args = y.2.args) →
      (∀ x y, InScope doc L x → InScope doc L y → x.2.key = y.2.key → Overlap s x.1 y.1 →
          MS s doc (typedSub s x.1 x.2 ++ typedSub s y.1 y.2)) →
      (∀ x y t u, InScope doc L x → InScope doc L y → x.2.key = y.2.key →
          fieldTy s x.1 x.2 = some t → fieldTy s y.1 y.2 = some u → sameShape s t u = true) →
      MS s doc L

/-- **MergeSafe**: the selection set of every operation is a merge-safe scope (fragment bodies enter through the scopes
    they are spread into; unused fragments are never executed) -/
def MergeSafe (s : SchemaD) (doc : Doc) : Prop :=
  ∀ o ∈ doc.ops, ∀ root, rootType s o.kind = some root → MS s doc (tag root o.sels)

/-- a scope every two members of which lie in a common merge-safe scope is merge-safe -/
theorem ms_of_cover (s : SchemaD) (doc : Doc) (L : TSels)
    (h : ∀ x y, InScope doc L x → InScope doc L y → ∃ A, MS s doc A ∧ InScope doc A x ∧ InScope doc A y) : MS s doc L := by
  refine .intro ?_ ?_ ?_
  · intro x y hx hy hk ho
    obtain ⟨A, hA, ax, ay⟩ := h x y hx hy
    cases hA with
    | intro h1 _ _ => exact h1 x y ax ay hk ho
  · intro x y hx hy hk ho
    obtain ⟨A, hA, ax, ay⟩ := h x y hx hy
    cases hA with
    | intro _ h2 _ => exact h2 x y ax ay hk ho
  · intro x y t u hx hy hk ht hu
    obtain ⟨A, hA, ax, ay⟩ := h x y hx hy
    cases hA with
    | intro _ _ h3 => exact h3 x y t u ax ay hk ht hu

/-! ### the invariants of the soundness proof, on tagged selection lists -/

/-- every tagged selection is well-typed under its tag, and the runtime type belongs to the tag -/
def SelsUnderT (s : SchemaD) (doc : Doc) (vars : Vars) (rt : String) (L : TSels) : Prop :=
  ∀ x ∈ L, Under s rt x.1 ∧ selOk s doc vars x.1 x.2 = true

/-- a collected node: a field of the scope whose parent contains the runtime type, well-typed under that parent -/
def NodeOkT (s : SchemaD) (doc : Doc) (vars : Vars) (L : TSels) (rt : String) (n : FNode) : Prop :=
  ∃ P, InScope doc L (P, n) ∧ Under s rt P ∧
    ((n.name = "__typename" ∧ n.hasSub = false) ∨
     (isMeta n.name = false ∧ ∃ fd, fieldOf s P n.name = some fd ∧ (n.hasSub = true → selsOk s doc vars fd.type.base n.sub = true)))

theorem NodeOkT.mono {s : SchemaD} {doc : Doc} {vars : Vars} {A B : TSels} {rt : String} {n : FNode}
    (h : NodeOkT s doc vars A rt n) (hab : ∀ y, InScope doc A y → InScope doc B y) : NodeOkT s doc vars B rt n := by
  obtain ⟨P, hi, hu, hc⟩ := h
  exact ⟨P, hab _ hi, hu, hc⟩

def CollectSoundT (s : SchemaD) (doc : Doc) (vars : Vars) (rec : String → List Sel → List String → R (Grouped × List String)) : Prop :=
  ∀ obj (L : TSels) seen, SelsUnderT s doc vars obj L →
    NoIntC (rec obj (L.map (·.2)) seen) ∧
    ∀ g seen', rec obj (L.map (·.2)) seen = .ok (g, seen') → GroupOk (NodeOkT s doc vars L obj) g

private theorem collectStep_soundT (s : SchemaD) (doc : Doc) (vars : Vars) (hf : fragsOk s doc vars = true)
    (rec : String → List Sel → List String → R (Grouped × List String)) (hrec : CollectSoundT s doc vars rec) (obj : String)
    (L0 : TSels) :
    ∀ (L : TSels), (∀ x ∈ L, x ∈ L0) → ∀ (seen : List String) (g : Grouped), SelsUnderT s doc vars obj L →
      GroupOk (NodeOkT s doc vars L0 obj) g →
      NoIntC (collectStep s doc vars rec obj (L.map (·.2)) seen g) ∧
      ∀ g' seen', collectStep s doc vars rec obj (L.map (·.2)) seen g = .ok (g', seen') → GroupOk (NodeOkT s doc vars L0 obj) g' := by
  intro L
  induction L with
  | nil =>
    intro _ seen g _ hg
    refine ⟨by intro cls h; simp [collectStep] at h, ?_⟩
    intro g' seen' h
    simp [collectStep] at h
    obtain ⟨rfl, rfl⟩ := h
    exact hg
  | cons tx rest ih =>
    intro hsub seen g hsu hg
    obtain ⟨T, sel⟩ := tx
    have hmem0 : (T, sel) ∈ L0 := hsub _ (by simp)
    have hsubr : ∀ x ∈ rest, x ∈ L0 := fun x hx => hsub x (by simp [hx])
    have hrest : SelsUnderT s doc vars obj rest := fun x hx => hsu x (by simp [hx])
    obtain ⟨hT, hsel⟩ := hsu (T, sel) (by simp)
    simp only at hT hsel
    simp only [List.map_cons]
    cases sel with
    | field key name loc dirs args hs sub =>
      simp only [selOk, Bool.and_eq_true] at hsel
      rcases hb : skipSelection vars dirs with e | b
      · simp only [collectStep, hb, bind, Except.bind]
        exact ⟨noIntC_skip hb, by intro g' seen' h; simp at h⟩
      simp only [collectStep, hb, bind, Except.bind]
      cases b with
      | true => simpa using ih hsubr seen g hrest hg
      | false =>
        have hnode : NodeOkT s doc vars L0 obj
            { key := key, name := name, loc := loc, args := args, hasSub := hs, sub := sub } := by
          refine ⟨T, .field hmem0, hT, ?_⟩
          have h2 := hsel.2
          by_cases hn : name = "__typename"
          · subst hn; simp at h2; exact Or.inl ⟨rfl, h2⟩
          · have hn' : (name == "__typename") = false := by simpa using hn
            simp only [hn', Bool.false_eq_true, if_false] at h2
            by_cases hm : isMeta name
            · simp [hm] at h2
            · simp only [hm, Bool.false_eq_true, if_false] at h2
              refine Or.inr ⟨by simpa using hm, ?_⟩
              cases hfo : fieldOf s T name with
              | none => simp [hfo] at h2
              | some fd =>
                refine ⟨fd, rfl, ?_⟩
                intro hsub'
                simp only [hfo] at h2
                cases hk : kindOf s fd.type.base with
                | none => simp [hk] at h2
                | some k =>
                  cases k <;> simp [hk] at h2 <;> first | exact h2.2 | exact absurd hsub' (by simp [h2])
        simpa using ih hsubr seen _ hrest (extend_groupOk _ _ _ _ hg (by simp) (by intro n hn; simp at hn; subst hn; exact hnode))
    | inline on dirs sub =>
      simp only [selOk, Bool.and_eq_true] at hsel
      rcases hb : skipSelection vars dirs with e | b
      · simp only [collectStep, hb, bind, Except.bind, pure, Except.pure]
        exact ⟨noIntC_skip hb, by intro g' seen' h; simp at h⟩
      simp only [collectStep, hb, bind, Except.bind, pure, Except.pure]
      cases b with
      | true => simpa using ih hsubr seen g hrest hg
      | false =>
        simp only [Bool.false_eq_true, if_false]
        have hsub' : ∃ a, fragmentTypeApplies s obj on = .ok a ∧ (a = true → SelsUnderT s doc vars obj (tag (on.getD T) sub)) := by
          cases on with
          | none =>
            refine ⟨true, rfl, fun _ => ?_⟩
            intro x hx
            simp only [tag, List.mem_map] at hx
            obtain ⟨y, hy, rfl⟩ := hx
            exact ⟨hT, selsOk_forall s doc vars T sub (by simpa using hsel.2) y hy⟩
          | some c =>
            have h2 := hsel.2
            simp only [Bool.and_eq_true] at h2
            obtain ⟨a, ha, hu⟩ := applies_ok s obj c h2.1
            refine ⟨a, ha, fun hat => ?_⟩
            intro x hx
            simp only [tag, List.mem_map] at hx
            obtain ⟨y, hy, rfl⟩ := hx
            exact ⟨hu hat, selsOk_forall s doc vars c sub h2.2 y hy⟩
        obtain ⟨a, ha, hsu'⟩ := hsub'
        simp only [ha]
        cases a with
        | false => simpa using ih hsubr seen g hrest hg
        | true =>
          simp only [Bool.not_true, Bool.false_eq_true, if_false]
          obtain ⟨hni, hgo⟩ := hrec obj (tag (on.getD T) sub) seen (hsu' rfl)
          rw [tag_map_snd] at hni hgo
          cases hr : rec obj sub seen with
          | error e =>
            refine ⟨?_, by intro g' seen' h; simp at h⟩
            intro cls h
            simp at h
            exact hni cls (by rw [hr, h])
          | ok p =>
            obtain ⟨gs, seens⟩ := p
            have hgs : GroupOk (NodeOkT s doc vars L0 obj) gs := by
              intro kv hkv
              obtain ⟨hne, hall⟩ := hgo gs seens hr kv hkv
              exact ⟨hne, fun n hn => (hall n hn).mono (fun y hy => .inline hmem0 hy)⟩
            simpa using ih hsubr _ _ hrest (mergeInto_groupOk _ gs g hgs hg)
    | spread name dirs =>
      simp only [selOk, Bool.and_eq_true] at hsel
      cases hfr : doc.fragment? name with
      | none => simp [hfr] at hsel
      | some fr =>
        obtain ⟨hcomp, hbody, _⟩ := fragment_ok s doc vars hf name fr hfr
        rcases hb : skipSelection vars dirs with e | b
        · simp only [collectStep, hfr, hb, bind, Except.bind, pure, Except.pure]
          exact ⟨noIntC_skip hb, by intro g' seen' h; simp at h⟩
        simp only [collectStep, hfr, hb, bind, Except.bind, pure, Except.pure]
        cases b with
        | true => simpa using ih hsubr seen g hrest hg
        | false =>
          simp only [Bool.false_eq_true, if_false]
          by_cases hseen : seen.contains name
          · simp only [hseen, if_true]; simpa using ih hsubr seen g hrest hg
          · simp only [hseen, Bool.false_eq_true, if_false]
            obtain ⟨a, ha, hu⟩ := applies_ok s obj fr.on hcomp
            simp only [ha]
            cases a with
            | false => simpa using ih hsubr seen g hrest hg
            | true =>
              simp only [Bool.not_true, Bool.false_eq_true, if_false]
              have hsu' : SelsUnderT s doc vars obj (tag fr.on fr.sels) := by
                intro x hx
                simp only [tag, List.mem_map] at hx
                obtain ⟨y, hy, rfl⟩ := hx
                exact ⟨hu rfl, selsOk_forall s doc vars fr.on fr.sels hbody y hy⟩
              obtain ⟨hni, hgo⟩ := hrec obj (tag fr.on fr.sels) seen hsu'
              rw [tag_map_snd] at hni hgo
              cases hr : rec obj fr.sels seen with
              | error e =>
                refine ⟨?_, by intro g' seen' h; simp at h⟩
                intro cls h
                simp at h
                exact hni cls (by rw [hr, h])
              | ok p =>
                obtain ⟨gs, seens⟩ := p
                have hgs : GroupOk (NodeOkT s doc vars L0 obj) gs := by
                  intro kv hkv
                  obtain ⟨hne, hall⟩ := hgo gs seens hr kv hkv
                  exact ⟨hne, fun n hn => (hall n hn).mono (fun y hy => .spread hmem0 hfr hy)⟩
                simpa using ih hsubr _ _ hrest (mergeInto_groupOk _ gs g hgs hg)

private theorem collect_soundT (s : SchemaD) (doc : Doc) (vars : Vars) (hf : fragsOk s doc vars = true) (fuel : Nat) :
    CollectSoundT s doc vars (collectFields s doc vars fuel) := by
  induction fuel with
  | zero =>
    intro obj L seen _
    exact ⟨by intro cls h; simp [collectFields] at h, by intro g seen' h; simp [collectFields] at h⟩
  | succ n ih =>
    intro obj L seen hsu
    simp only [collectFields]
    exact collectStep_soundT s doc vars hf _ ih obj L L (fun x hx => hx) seen [] hsu (by intro kv h; simp at h)

/-! ### the merged sub-selections of a group, as a tagged list -/

/-- all nodes of a group lie in the scope `L` with parents containing `rt`, have the same field name, and `fd` is the
    definition of that field on `rt`: the merged sub-selections form a tagged list well-typed for every runtime type
    under the result type, covered pairwise by the merge-safe scopes of the pairs of nodes -/
private theorem merged_tagged (s : SchemaD) (hs : SchemaOk s) (doc : Doc) (vars : Vars) (L : TSels) (rt name : String)
    (fd : FieldD) (hfd : fieldOf s rt name = some fd) (rt' : String) (hu : Under s rt' fd.type.base) :
    ∀ (nodes : List FNode), (∀ n ∈ nodes, NodeOkT s doc vars L rt n ∧ n.name = name ∧ isMeta name = false) →
      ∃ L' : TSels, L'.map (·.2) = mergedSelections nodes ∧ SelsUnderT s doc vars rt' L' ∧
        ∀ x, InScope doc L' x → ∃ n ∈ nodes, ∃ P, InScope doc L (P, n) ∧ Under s rt P ∧ InScope doc (typedSub s P n) x := by
  intro nodes
  induction nodes with
  | nil => intro _; exact ⟨[], by simp [mergedSelections], by intro x hx; simp at hx, by intro x hx; cases hx <;> simp_all⟩
  | cons n rest ih =>
    intro hn
    obtain ⟨L2, hm2, hsu2, hcov2⟩ := ih (fun m hm => hn m (by simp [hm]))
    obtain ⟨⟨P, hin, hP, hcase⟩, hname, hmeta⟩ := hn n (by simp)
    refine ⟨typedSub s P n ++ L2, ?_, ?_, ?_⟩
    · simp only [List.map_append, hm2, mergedSelections, List.flatMap_cons]
      congr 1
      unfold typedSub
      by_cases hhs : n.hasSub
      · simp [hhs, tag_map_snd]
      · simp [hhs]
    · intro x hx
      rcases List.mem_append.mp hx with hx | hx
      · unfold typedSub at hx
        by_cases hhs : n.hasSub
        · simp only [hhs, if_true, tag, List.mem_map] at hx
          obtain ⟨y, hy, rfl⟩ := hx
          rcases hcase with ⟨htn, _⟩ | ⟨_, fdP, hfP, hok⟩
          · rw [hname] at htn; subst htn; simp [isMeta] at hmeta
          · have hb : subBase s P n = fdP.type.base := by simp [subBase, hfP]
            refine ⟨?_, by rw [hb]; exact selsOk_forall s doc vars _ _ (hok hhs) y hy⟩
            simp only [hb]
            rw [hname] at hfP
            rcases hP with rfl | hposs
            · rw [hfd] at hfP; cases hfP; exact hu
            · obtain ⟨fd', hf', hcov⟩ := hs.cov P rt name fdP hposs hfP
              rw [hfd] at hf'; cases hf'
              exact hcov rt' hu
        · simp [hhs] at hx
      · exact hsu2 x hx
    · intro x hx
      rcases hx.append_split with hx | hx
      · exact ⟨n, by simp, P, hin, hP, hx⟩
      · obtain ⟨m, hm, Q, h1, h2, h3⟩ := hcov2 x hx
        exact ⟨m, by simp [hm], Q, h1, h2, h3⟩

private theorem executeGroups_noIntT (s : SchemaD) (hs : SchemaOk s) (doc : Doc) (vars : Vars) (L : TSels) (hms : MS s doc L)
    (w : World) (hw : WorldTyped s w) (execSub : String → Path → List Sel → R (Data × List Err))
    (he : ∀ rt' p (L' : TSels), SelsUnderT s doc vars rt' L' → MS s doc L' → NoInt (execSub rt' p (L'.map (·.2))))
    (rt : String) (path : Path) :
    ∀ g : Grouped, GroupOk (NodeOkT s doc vars L rt) g → KeysOk g → NoInt (executeGroups s w execSub rt path g) := by
  intro g
  induction g with
  | nil => intro _ _ cls h; simp [executeGroups] at h
  | cons kv rest ih =>
    intro hg hk
    obtain ⟨key, nodes⟩ := kv
    have hgr : GroupOk (NodeOkT s doc vars L rt) rest := fun kv hkv => hg kv (by simp [hkv])
    have hkr : KeysOk rest := fun kv hkv => hk kv (by simp [hkv])
    have ihr := ih hgr hkr
    cases nodes with
    | nil => exact absurd rfl (hg (key, []) (by simp)).1
    | cons node more =>
      intro cls h
      simp only [executeGroups] at h
      have hnode := (hg (key, node :: more) (by simp)).2 node (by simp)
      by_cases hm : isMeta node.name
      · simp only [hm, if_true] at h
        obtain ⟨P0, _, _, hc0⟩ := hnode
        rcases hc0 with ⟨htn, _⟩ | ⟨hnm, _⟩
        · simp only [htn, beq_self_eq_true, if_true, bind, Except.bind, pure, Except.pure] at h
          cases hr : executeGroups s w execSub rt path rest with
          | error e => simp [hr] at h; exact ihr cls (by rw [hr, h])
          | ok p => simp [hr] at h
        · simp [hm] at hnm
      · simp only [hm, Bool.false_eq_true, if_false] at h
        cases hfo : fieldOf s rt node.name with
        | none => simp only [hfo] at h; exact ihr cls h
        | some fd =>
          simp only [hfo, bind, Except.bind, pure, Except.pure] at h
          -- all nodes of the group name the same field: their parents overlap at `rt`
          have hnodes : ∀ n ∈ node :: more, NodeOkT s doc vars L rt n ∧ n.name = node.name ∧ isMeta node.name = false := by
            intro n hn
            have hno := (hg (key, node :: more) (by simp)).2 n hn
            refine ⟨hno, ?_, by simpa using hm⟩
            obtain ⟨P, hin, hP, _⟩ := hno
            obtain ⟨P0, hin0, hP0, _⟩ := hnode
            have hkn := hk (key, node :: more) (by simp) n hn
            have hk0 := hk (key, node :: more) (by simp) node (by simp)
            cases hms with
            | intro h1 _ _ => exact (h1 (P, n) (P0, node) hin hin0 (by simp [hkn, hk0]) ⟨rt, hP, hP0⟩).1
          have hres : NoInt (resolveField s w execSub rt (path ++ [Seg.key key]) (node :: more) fd) := by
            intro cls' h'
            simp only [resolveField] at h'
            split at h'
            · simp at h'
            · simp at h'
            · rename_i a _
              have hwt := hw rt fd.name (path ++ [Seg.key key]) a fd (by rw [fieldOf_name s rt node.name fd hfo]; exact hfo)
              split at h'
              · simp at h'
              · rename_i hb; simp [hb] at hwt
              · rename_i v hv
                simp only [hv] at hwt
                rw [catchField_internal] at h'
                refine completeValue_noInt s execSub (node :: more) fd.type _ v (hs.kinds rt node.name fd hfo) hwt ?_ cls' h'
                intro rt' p hobj hu
                obtain ⟨L', hmap, hsu', hcov⟩ := merged_tagged s hs doc vars L rt node.name fd hfo rt' hu (node :: more) hnodes
                rw [← hmap]
                refine he rt' p L' hsu' (ms_of_cover s doc L' ?_)
                intro x y hx hy
                obtain ⟨n1, hn1, P1, hi1, hu1, hs1⟩ := hcov x hx
                obtain ⟨n2, hn2, P2, hi2, hu2, hs2⟩ := hcov y hy
                have hk1 := hk (key, node :: more) (by simp) n1 hn1
                have hk2 := hk (key, node :: more) (by simp) n2 hn2
                refine ⟨typedSub s P1 n1 ++ typedSub s P2 n2, ?_, hs1.mono (by intro z hz; simp [hz]), hs2.mono (by intro z hz; simp [hz])⟩
                cases hms with
                | intro _ h2 _ => exact h2 (P1, n1) (P2, n2) hi1 hi2 (by simp [hk1, hk2]) ⟨rt, hu1, hu2⟩
          cases hr1 : resolveField s w execSub rt (path ++ [Seg.key key]) (node :: more) fd with
          | error e => simp [hr1] at h; exact hres cls (by rw [hr1, h])
          | ok pd =>
            simp only [hr1] at h
            cases hr : executeGroups s w execSub rt path rest with
            | error e => simp [hr] at h; exact ihr cls (by rw [hr, h])
            | ok p => simp [hr] at h

private theorem executeFields_noIntT (s : SchemaD) (hs : SchemaOk s) (doc : Doc) (vars : Vars) (hf : fragsOk s doc vars = true)
    (w : World) (hw : WorldTyped s w) (cf : Nat) :
    ∀ (fuel : Nat) (rt : String) (path : Path) (L : TSels), SelsUnderT s doc vars rt L → MS s doc L →
      NoInt (executeFields s doc vars w cf fuel rt path (L.map (·.2))) := by
  intro fuel
  induction fuel with
  | zero => intro rt path L _ _ cls h; simp [executeFields] at h
  | succ n ih =>
    intro rt path L hsu hms cls h
    simp only [executeFields, bind, Except.bind, pure, Except.pure] at h
    obtain ⟨hni, hgo⟩ := collect_soundT s doc vars hf cf rt L [] hsu
    cases h1 : collectFields s doc vars cf rt (L.map (·.2)) [] with
    | error e =>
      simp [h1] at h
      obtain ⟨he, hne⟩ := (Fail.directive_eq_internal e cls).mp h
      exact hne (hni cls (by rw [h1, he]))
    | ok p1 =>
      obtain ⟨g, seen'⟩ := p1
      simp only [h1, catchDirective_ok] at h
      have hk := (alias_merge s doc vars cf rt _ [] g seen' h1).2
      have hg := hgo g seen' h1
      cases h2 : executeGroups s w (executeFields s doc vars w cf n) rt path g with
      | error e =>
        simp [h2] at h
        exact executeGroups_noIntT s hs doc vars L hms w hw _ (fun rt' p L' hsu' hms' => ih rt' p L' hsu' hms') rt path g hg hk cls
          (by rw [h2, h])
      | ok p2 => simp [h2] at h

/-- `ValidDoc` is `ValidDocR` plus "every operation has a root type" -/
theorem validDocR_of_validDoc (s : SchemaD) (doc : Doc) (vars : Vars) (h : ValidDoc s doc vars) : ValidDocR s doc vars := by
  unfold ValidDoc validDocB at h
  unfold ValidDocR validDocRB
  simp only [Bool.and_eq_true] at h ⊢
  obtain ⟨⟨⟨hops, hfr⟩, ha⟩, hu⟩ := h
  refine ⟨⟨⟨?_, hfr⟩, ha⟩, hu⟩
  unfold opsOk at hops
  unfold opsOkR
  rw [List.all_eq_true] at hops ⊢
  intro o ho
  have := hops o ho
  cases hr : rootType s o.kind with
  | none => simp [hr] at this
  | some r => simpa [hr] using this

theorem validDoc_of_validDocR (s : SchemaD) (doc : Doc) (vars : Vars) (h : ValidDocR s doc vars) (hr : opsRooted s doc = true) :
    ValidDoc s doc vars := by
  unfold ValidDocR validDocRB at h
  unfold ValidDoc validDocB
  simp only [Bool.and_eq_true] at h ⊢
  obtain ⟨⟨⟨hops, hfr⟩, ha⟩, hu⟩ := h
  refine ⟨⟨⟨?_, hfr⟩, ha⟩, hu⟩
  unfold opsOkR at hops
  unfold opsOk
  unfold opsRooted at hr
  rw [List.all_eq_true] at hops hr ⊢
  intro o ho
  have h1 := hops o ho
  have h2 := hr o ho
  cases hrt : rootType s o.kind with
  | none => simp [hrt] at h2
  | some r => simpa [hrt] using h1

/-- **validated_no_internal_error_rootless** — the soundness theorem from what `validate_ast(...) == []` really gives:
    `ValidDocR` does NOT assume that the operation's kind has a root type in the schema (the validator does not check it:
    `mutation { a }` is accepted on a schema without a mutation type). Such a request ends in the modelled failure
    "Schema doesn't support mutation operation", never in an internal exception. Everything else as in
    `validated_no_internal_error` below (which is now a corollary). -/
theorem validated_no_internal_error_rootless (s : SchemaD) (hs : SchemaOk s) (doc : Doc) (vars : Vars) (hv : ValidDocR s doc vars)
    (hm : MergeSafe s doc) (w : World) (hw : WorldTyped s w) :
    ∀ (op : Option String) (fuel cf : Nat) (cls : String), execute s doc vars w op fuel cf ≠ .failed (.internal cls) := by
  intro op fuel cf cls
  unfold ValidDocR validDocRB at hv
  simp only [Bool.and_eq_true] at hv
  obtain ⟨⟨⟨hops, hfr⟩, _⟩, _⟩ := hv
  unfold execute
  cases hgo : getOperation doc op with
  | none => simp
  | some o =>
    have hmem := getOperation_mem doc op o hgo
    simp only []
    cases hroot : rootType s o.kind with
    | none => simp
    | some root =>
      simp only []
      split
      · simp
      · have hsu : SelsUnderT s doc vars root (tag root o.sels) := by
          unfold opsOkR at hops
          rw [List.all_eq_true] at hops
          have := hops o hmem
          simp only [hroot] at this
          intro x hx
          simp only [tag, List.mem_map] at hx
          obtain ⟨y, hy, rfl⟩ := hx
          exact ⟨Or.inl rfl, selsOk_forall s doc vars root o.sels this y hy⟩
        have := executeFields_noIntT s hs doc vars hfr w hw cf fuel root [] (tag root o.sels) hsu (hm o hmem root hroot)
        rw [tag_map_snd] at this
        cases hr : executeFields s doc vars w cf fuel root [] o.sels with
        | ok p => simp
        | error f =>
          cases f with
          | internal c => exact absurd hr (this c)
          | _ => simp

/-- non-vacuity and the point of the `R`: `mutation { a }` on a schema without a mutation type is `ValidDocR` (the real
    validator accepts it) but not `ValidDoc` -/
example : ValidDocR exSchema { ops := [{ kind := "mutation", name := none, sels := [.field "a" "a" 11 [] [] false []] }], frags := [] } []
    ∧ ¬ ValidDoc exSchema { ops := [{ kind := "mutation", name := none, sels := [.field "a" "a" 11 [] [] false []] }], frags := [] } [] := by
  unfold ValidDocR ValidDoc; decide

/-- **validated_no_internal_error** — under the premise the validator guarantees. For every schema whose objects
    implement their interfaces covariantly and whose fields have known output types, every document satisfying the
    declarative `ValidDoc` and `MergeSafe` (OverlappingFieldsCanBeMerged; NOT the stronger `KeyConsistent`), EVERY variable
    assignment (`ValidDoc` no longer constrains the `@skip`/`@include` conditions: a condition that is not a Boolean at run
    time — `if: [true]`, a nullable variable with a default bound to `null` — is a field error since 4e87d3d, see
    `Lemmas.C04Raise.executeFields_raised`), every typed world (including iterables and `resolve_type`s that raise
    `ResolverError`), every operation name and every fuel: the request never ends in an internal exception.
    (Corollary of `validated_no_internal_error_rootless`, which drops the clause "the operation has a root type".) -/
theorem validated_no_internal_error (s : SchemaD) (hs : SchemaOk s) (doc : Doc) (vars : Vars) (hv : ValidDoc s doc vars)
    (hm : MergeSafe s doc) (w : World) (hw : WorldTyped s w) :
    ∀ (op : Option String) (fuel cf : Nat) (cls : String), execute s doc vars w op fuel cf ≠ .failed (.internal cls) :=
  validated_no_internal_error_rootless s hs doc vars (validDocR_of_validDoc s doc vars hv) hm w hw


/-! ### the Boolean evaluator is sound for the declarative predicate -/

private theorem scopeStep_complete (doc : Doc) (rec : TSels → Option (List (String × FNode)))
    (hrec : ∀ L xs, rec L = some xs → ∀ x, InScope doc L x → x ∈ xs) :
    ∀ (L : TSels) (xs : List (String × FNode)), scopeStep doc rec L = some xs → ∀ x, InScope doc L x → x ∈ xs := by
  intro L
  induction L with
  | nil => intro xs _ x hx; cases hx <;> simp_all
  | cons tx rest ih =>
    intro xs h x hx
    obtain ⟨T, sel⟩ := tx
    have split : InScope doc [(T, sel)] x ∨ InScope doc rest x := by
      have : InScope doc ([(T, sel)] ++ rest) x := by simpa using hx
      exact this.append_split
    cases sel with
    | field key name loc dirs args hs sub =>
      simp only [scopeStep] at h
      cases hr : scopeStep doc rec rest with
      | none => simp [hr] at h
      | some r =>
        simp [hr] at h
        subst h
        rcases split with h1 | h1
        · cases h1 with
          | field hm => simp at hm; obtain ⟨rfl, rfl, rfl, rfl, rfl, rfl, rfl, rfl⟩ := hm; simp
          | inline hm => simp at hm
          | spread hm => simp at hm
        · simp [ih r hr x h1]
    | inline on dirs sub =>
      simp only [scopeStep] at h
      cases ha : rec (tag (on.getD T) sub) with
      | none => simp [ha] at h
      | some a =>
        cases hr : scopeStep doc rec rest with
        | none => simp [ha, hr] at h
        | some r =>
          simp [ha, hr] at h
          subst h
          rcases split with h1 | h1
          · cases h1 with
            | field hm => simp at hm
            | inline hm hr' => simp at hm; obtain ⟨rfl, rfl, rfl, rfl⟩ := hm; simp [hrec _ _ ha x hr']
            | spread hm => simp at hm
          · simp [ih r hr x h1]
    | spread name dirs =>
      simp only [scopeStep] at h
      cases hfr : doc.fragment? name with
      | none =>
        simp only [hfr] at h
        rcases split with h1 | h1
        · cases h1 with
          | field hm => simp at hm
          | inline hm => simp at hm
          | spread hm hf' => simp at hm; obtain ⟨rfl, rfl, rfl⟩ := hm; simp [hfr] at hf'
        · exact ih xs h x h1
      | some fr =>
        simp only [hfr] at h
        cases ha : rec (tag fr.on fr.sels) with
        | none => simp [ha] at h
        | some a =>
          cases hr : scopeStep doc rec rest with
          | none => simp [ha, hr] at h
          | some r =>
            simp [ha, hr] at h
            subst h
            rcases split with h1 | h1
            · cases h1 with
              | field hm => simp at hm
              | inline hm => simp at hm
              | spread hm hf' hr' =>
                simp at hm; obtain ⟨rfl, rfl, rfl⟩ := hm
                rw [hfr] at hf'; cases hf'
                simp [hrec _ _ ha x hr']
            · simp [ih r hr x h1]

theorem scopeOf_complete (doc : Doc) : ∀ (n : Nat) (L : TSels) (xs : List (String × FNode)),
    scopeOf doc n L = some xs → ∀ x, InScope doc L x → x ∈ xs := by
  intro n
  induction n with
  | zero => intro L xs h; simp [scopeOf] at h
  | succ n ih => intro L xs h; simp only [scopeOf] at h; exact scopeStep_complete doc _ ih L xs h

theorem overlapB_complete (s : SchemaD) (P1 P2 : String) (h : Overlap s P1 P2) : overlapB s P1 P2 = true := by
  obtain ⟨rt, u1, u2⟩ := h
  unfold overlapB
  rcases u1 with rfl | u1
  · rcases u2 with rfl | u2
    · simp
    · simp [u2]
  · rcases u2 with rfl | u2
    · simp [u1]
    · have hm : rt ∈ possibleTypes s P1 := by
        unfold isPossibleType at u1; simp at u1; exact u1.2
      simp only [Bool.or_eq_true, List.any_eq_true]
      exact Or.inr ⟨rt, hm, by simp [u1, u2]⟩

/-- doubling a scope does not change merge safety -/
theorem ms_dup (s : SchemaD) (doc : Doc) (A : TSels) (h : MS s doc A) : MS s doc (A ++ A) :=
  ms_of_cover s doc _ (fun x y hx hy => ⟨A, h, (hx.append_split).elim id id, (hy.append_split).elim id id⟩)

/-- **msB_sound**: the evaluator only says yes to merge-safe scopes -/
theorem msB_sound (s : SchemaD) (doc : Doc) (sf : Nat) : ∀ (n : Nat) (L : TSels), msB s doc sf n L = true → MS s doc L := by
  intro n
  induction n with
  | zero => intro L h; simp [msB] at h
  | succ n ih =>
    intro L h
    simp only [msB] at h
    cases hsc : scopeOf doc sf L with
    | none => simp [hsc] at h
    | some xs =>
      simp only [hsc, List.all_eq_true, List.mem_range] at h
      have hmem := scopeOf_complete doc sf L xs hsc
      -- the check at the positions of two members
      have pair : ∀ x y, InScope doc L x → InScope doc L y → ∃ same, pairOk s (msB s doc sf n) same x y = true ∧ (same = true → x = y) := by
        intro x y hx hy
        obtain ⟨i, hi, hxi⟩ := List.mem_iff_getElem.mp (hmem x hx)
        obtain ⟨j, hj, hyj⟩ := List.mem_iff_getElem.mp (hmem y hy)
        have := h i hi j hj
        simp only [List.getElem?_eq_getElem hi, List.getElem?_eq_getElem hj, hxi, hyj] at this
        refine ⟨i == j, this, ?_⟩
        intro he
        have : i = j := by simpa using he
        subst this
        rw [← hxi, ← hyj]
      refine .intro ?_ ?_ ?_
      · intro x y hx hy hk ho
        obtain ⟨same, hp, _⟩ := pair x y hx hy
        simp only [pairOk, hk, beq_self_eq_true, if_true, overlapB_complete s _ _ ho, Bool.and_eq_true] at hp
        have h3 := hp.2.1
        simp only [beq_iff_eq] at h3
        exact h3
      · intro x y hx hy hk ho
        obtain ⟨same, hp, hsame⟩ := pair x y hx hy
        simp only [pairOk, hk, beq_self_eq_true, if_true, overlapB_complete s _ _ ho, Bool.and_eq_true] at hp
        have h4 := hp.2.2
        cases same with
        | false => simpa using ih _ (by simpa using h4)
        | true =>
          have hxy := hsame rfl
          subst hxy
          exact ms_dup s doc _ (ih _ (by simpa using h4))
      · intro x y t u hx hy hk ht hu
        obtain ⟨same, hp, _⟩ := pair x y hx hy
        simp only [pairOk, hk, beq_self_eq_true, if_true, ht, hu, Bool.and_eq_true] at hp
        exact hp.1

/-- **mergeSafeB_sound**: what the driver checks on every accepted document implies the declarative `MergeSafe` -/
theorem mergeSafeB_sound (s : SchemaD) (doc : Doc) (h : mergeSafeB s doc = true) : MergeSafe s doc := by
  intro o ho root hroot
  unfold mergeSafeB at h
  simp only [List.all_eq_true] at h
  have := h o ho
  simp only [hroot] at this
  exact msB_sound s doc _ _ _ this

/-! ### the two documents the stronger premise excluded -/

def petSchema : SchemaD :=
  { types := [{ kind := .object, name := "Query", fields := [{ name := "pet", type := .named "Pet" }, { name := "x", type := .named "Int" },
                                                             { name := "y", type := .named "Int" }, { name := "sub", type := .named "Query" }] },
              { kind := .interface, name := "Pet", fields := [{ name := "name", type := .named "String" }] },
              { kind := .object, name := "Dog", interfaces := ["Pet"], fields := [{ name := "name", type := .named "String" }, { name := "bark", type := .named "Int" }] },
              { kind := .object, name := "Cat", interfaces := ["Pet"], fields := [{ name := "name", type := .named "String" }, { name := "lives", type := .named "Int" }] }] }

/-- `{ pet { ... on Dog { v: bark } ... on Cat { v: lives } } }` -/
def exclusiveDoc : Doc :=
  { ops := [{ kind := "query", name := none, sels := [.field "pet" "pet" 2 [] [] true
      [.inline (some "Dog") [] [.field "v" "bark" 20 [] [] false []], .inline (some "Cat") [] [.field "v" "lives" 40 [] [] false []]]] }],
    frags := [] }

/-- `{ a: x  sub { a: y } }` -/
def levelsDoc : Doc :=
  { ops := [{ kind := "query", name := none, sels := [.field "a" "x" 2 [] [] false [], .field "sub" "sub" 8 [] [] true [.field "a" "y" 14 [] [] false []]] }],
    frags := [] }

theorem exclusive_doc_mergeSafe_not_keyConsistent :
    MergeSafe petSchema exclusiveDoc ∧ keyConsistentB exclusiveDoc = false ∧ ValidDoc petSchema exclusiveDoc [] :=
  ⟨mergeSafeB_sound _ _ (by decide), by decide, by unfold ValidDoc; decide⟩

theorem levels_doc_mergeSafe_not_keyConsistent :
    MergeSafe petSchema levelsDoc ∧ keyConsistentB levelsDoc = false ∧ ValidDoc petSchema levelsDoc [] :=
  ⟨mergeSafeB_sound _ _ (by decide), by decide, by unfold ValidDoc; decide⟩

/-- and a genuinely ambiguous document is rejected by the evaluator: `{ pet { v: name ... on Dog { v: bark } } }` -/
example : mergeSafeB petSchema { ops := [{ kind := "query", name := none, sels := [.field "pet" "pet" 2 [] [] true
    [.field "v" "name" 10 [] [] false [], .inline (some "Dog") [] [.field "v" "bark" 30 [] [] false []]]] }], frags := [] } = false := by decide


/-- **same_group_same_call**: "one unambiguous value per response key" — two nodes that the executor can put into one
    group for a runtime type (both lie in the scope with parents containing that type, same response key) denote the same
    field call: equal field name and equal coerced arguments. Which of them comes first does not matter. -/
theorem same_group_same_call (s : SchemaD) (doc : Doc) (vars : Vars) (L : TSels) (hms : MS s doc L) (rt : String) (n1 n2 : FNode)
    (h1 : NodeOkT s doc vars L rt n1) (h2 : NodeOkT s doc vars L rt n2) (hk : n1.key = n2.key) :
    n1.name = n2.name ∧ n1.args = n2.args := by
  obtain ⟨P1, hi1, hu1, _⟩ := h1
  obtain ⟨P2, hi2, hu2, _⟩ := h2
  cases hms with
  | intro h _ _ => exact h (P1, n1) (P2, n2) hi1 hi2 hk ⟨rt, hu1, hu2⟩

/-! ### the `sameShape` clause at work: one response SHAPE per response key, whichever selection is looked at -/

/-- declared types of the same shape class admit exactly the same response values -/
theorem sameShape_shapeOk (s : SchemaD) : ∀ (t u : Ty), sameShape s t u = true → ∀ d, shapeOk s t d = shapeOk s u d := by
  intro t
  induction t with
  | nonNull a ih =>
    intro u h d
    cases u with
    | nonNull b => simp only [sameShape] at h; simpa [shapeOk] using ih b h d
    | list b => simp [sameShape] at h
    | named b => simp [sameShape] at h
  | list a ih =>
    intro u h d
    cases u with
    | list b =>
      simp only [sameShape] at h
      have hf : shapeOk s a = shapeOk s b := funext (ih b h)
      cases d <;> simp [shapeOk, hf]
    | nonNull b => simp [sameShape] at h
    | named b => simp [sameShape] at h
  | named a =>
    intro u h d
    cases u with
    | named b =>
      simp only [sameShape, Bool.or_eq_true, Bool.and_eq_true, beq_iff_eq] at h
      rcases h with rfl | ⟨ha, hb⟩
      · rfl
      · cases d with
        | null => simp [shapeOk]
        | list l => simp [shapeOk]
        | obj kvs => simp [shapeOk, ha, hb]
        | leaf j =>
          unfold isComposite at ha hb
          simp only [shapeOk]
          cases hka : kindOf s a with
          | none => simp [hka] at ha
          | some ka =>
            cases hkb : kindOf s b with
            | none => simp [hkb] at hb
            | some kb => cases ka <;> cases kb <;> simp_all
    | nonNull b => simp [sameShape] at h
    | list b => simp [sameShape] at h

/-- **same_key_one_shape**: in a merge-safe scope, all selections with one response key — including those under
    MUTUALLY EXCLUSIVE parent types, which never meet in one response object and may name different fields — declare
    types that admit the same response values: the shape found under a response key can be read off ANY of them. -/
theorem same_key_one_shape (s : SchemaD) (doc : Doc) (L : TSels) (hms : MS s doc L) (x y : String × FNode)
    (hx : InScope doc L x) (hy : InScope doc L y) (hk : x.2.key = y.2.key) (t u : Ty)
    (ht : fieldTy s x.1 x.2 = some t) (hu : fieldTy s y.1 y.2 = some u) : ∀ d, shapeOk s t d = shapeOk s u d := by
  cases hms with
  | intro _ _ h3 => exact sameShape_shapeOk s t u (h3 x y t u hx hy hk ht hu)

/-- **same_key_value_unambiguous**: "one unambiguous value per response key", shape part — whatever value the executor
    produces for a field (of ANY parent object type, with any nodes) has the shape declared by EVERY selection of the
    merge-safe scope that carries the same response key and whose type is `sameShape`-related to the field's; so the
    order in which same-key selections appear, and which of them applies at run time, cannot change the response shape. -/
theorem same_key_value_unambiguous (s : SchemaD) (doc : Doc) (vars : Vars) (w : World) (cf n : Nat) (L : TSels) (hms : MS s doc L)
    (x y : String × FNode) (hx : InScope doc L x) (hy : InScope doc L y) (hk : x.2.key = y.2.key)
    (fd : FieldD) (u : Ty) (ht : fieldTy s x.1 x.2 = some fd.type) (hu : fieldTy s y.1 y.2 = some u)
    (parent : String) (path : Path) (nodes : List FNode) (d : Data) (es : List Err)
    (h : resolveField s w (executeFields s doc vars w cf n) parent path nodes fd = .ok (d, es)) : shapeOk s u d = true := by
  rw [← same_key_one_shape s doc L hms x y hx hy hk fd.type u ht hu d]
  exact validated_shape_field s doc vars w cf n parent path nodes fd d es h

/-- non-vacuity: in `exclusiveDoc` the key `v` is `bark : Int` under `Dog` and `lives : Int` under `Cat` — same shape;
    and the evaluator rejects `{ pet { ... on Dog { v: bark } ... on Cat { v: name } } }` (`Int` against `String`) -/
example : sameShape petSchema (.named "Int") (.named "Int") = true := by decide
example : mergeSafeB petSchema { ops := [{ kind := "query", name := none, sels := [.field "pet" "pet" 2 [] [] true
    [.inline (some "Dog") [] [.field "v" "bark" 20 [] [] false []], .inline (some "Cat") [] [.field "v" "name" 40 [] [] false []]]] }], frags := [] } = false := by decide

end PyGql.Props.C05

/-
  C14 — the DICT ORDER of `extend_schema`'s result (`extendO`, HeapExt.lean).

  `extend` registers the rebuilt types in the order it rebuilt them (specified scalars, source order, the document's new types);
  the code's `Schema.__init__` registers them in the order a depth-first walk from that list meets them. `extendO` is `extend`
  with the `types` dict in that order (`extendOrder`); the driver runs it and the harness compares the order of every extension
  result — and of everything derived from one — with the live `schema.types` (`corr:registry-order`).
  * `extendO_same`: same directives, roots, schema-level resolver; the `types` list has exactly the ENTRIES of `extend`'s
    (`extendOrder_mem`) with distinct names (`extendOrder_nodup`): a re-ordering, whatever the walk reaches; the heap is
    `extend`'s plus the `interfaces` of the object types the DOCUMENT defines (`type Zed implements Pet {…}`: `Ext.newIfaces`,
    `setNewIfaces` — resolved by name through the result's registry, written on objects the call allocated);
  * so every statement about `extend` that does not depend on the position of an entry transfers: `extendO_frames_source`,
    `extendO_closed_wf` (closedness and well-formedness: `closed_wf_reorder` for any re-ordering of a registry);
  * `extendO_order_witness` / `extend_order_differs`: on the Dog / Pet witness listed as String, Query, Dog, Pet the extension
    result lists String, Query, Pet, Dog, Zed (Query's field type `Pet` is met before `Dog`) — reproduced on /repo by the harness —
    while the rebuild order is String, Query, Dog, Pet, Zed.
-/
import PyGqlModel.Lemmas.HeapCloneClosed
import PyGqlModel.Lemmas.HeapExtOwn
import PyGqlModel.Props.C14_extend_closed

set_option linter.unusedSimpArgs false
set_option linter.unusedVariables false

namespace PyGql.Props.C14
open PyGql.Heap PyGql.Heap.Own

private theorem foldl_setdefault_sub (l : List (String × Addr)) : ∀ (acc : List (String × Addr)) (e : String × Addr),
    e ∈ l.foldl (fun reg e => if (lookup reg e.1).isSome then reg else reg ++ [e]) acc → e ∈ acc ∨ e ∈ l := by
  induction l with
  | nil => intro acc e he; exact Or.inl he
  | cons x l ih =>
    intro acc e he
    simp only [List.foldl_cons] at he
    rcases ih _ e he with h1 | h1
    · split at h1
      · exact Or.inl h1
      · simp only [List.mem_append, List.mem_singleton] at h1
        rcases h1 with h1 | h1
        · exact Or.inl h1
        · exact Or.inr (by simp [h1])
    · exact Or.inr (by simp [h1])

theorem extendOrder_nodup (s : Schema) (newNames : List String) (h : Heap) (r : Schema) :
    (regNames (extendOrder s newNames h r)).Nodup := by
  simp only [extendOrder]
  exact foldl_setdefault_nodup _ [] (by simp [regNames])

/-- the re-ordered registry has exactly the entries of the registry -/
theorem extendOrder_mem (s : Schema) (newNames : List String) (h : Heap) (r : Schema) (hn : (regNames r.types).Nodup) (e : String × Addr) :
    e ∈ extendOrder s newNames h r ↔ e ∈ r.types := by
  have hsub : ∀ x, x ∈ extendOrder s newNames h r → x ∈ r.types := by
    intro x hx
    simp only [extendOrder] at hx
    rcases foldl_setdefault_sub _ [] x hx with h1 | h1
    · cases h1
    · simp only [List.mem_append, List.mem_filter, List.mem_filterMap] at h1
      rcases h1 with (h1 | ⟨y, _, hy⟩) | h1
      · exact h1.1
      · simp only [Option.map_eq_some_iff] at hy
        obtain ⟨a, ha, rfl⟩ := hy
        exact lookup_mem' ha
      · exact h1
  refine ⟨hsub e, fun he => ?_⟩
  have hname : e.1 ∈ regNames (extendOrder s newNames h r) := by
    simp only [extendOrder]
    exact (foldl_setdefault_names _ []).2 e (by simp [he])
  simp only [regNames, List.mem_map] at hname
  obtain ⟨x, hx, hxe⟩ := hname
  have hxr := hsub x hx
  have h1 := lookup_of_mem_nodup hn hxr
  have h2 := lookup_of_mem_nodup hn he
  rw [hxe, h2] at h1
  have : x = e := Prod.ext hxe (Option.some.inj h1).symm
  rw [← this]; exact hx

/-! ### closedness and well-formedness do not depend on the order of the registry -/

private theorem lookup_reorder {T T' : List (String × Addr)} (hn : (regNames T).Nodup) (hn' : (regNames T').Nodup)
    (hm : ∀ e, e ∈ T' ↔ e ∈ T) (n : String) : lookup T' n = lookup T n := by
  cases hl : lookup T n with
  | some a =>
    have := lookup_of_mem_nodup hn' ((hm (n, a)).mpr (lookup_mem' hl))
    exact this
  | none =>
    cases hl' : lookup T' n with
    | none => rfl
    | some a =>
      have := lookup_of_mem_nodup hn ((hm (n, a)).mp (lookup_mem' hl'))
      simp only at this
      rw [hl] at this
      cases this

theorem closed_wf_reorder {h : Heap} {s s' : Schema} (hd : s'.dirs = s.dirs) (hq : s'.query = s.query) (hmu : s'.mutation = s.mutation)
    (hsu : s'.subscription = s.subscription) (hn' : (regNames s'.types).Nodup) (hm : ∀ e, e ∈ s'.types ↔ e ∈ s.types)
    (hc : closedB h s = true) (hw : wfB h s = true) : closedB h s' = true ∧ wfB h s' = true := by
  have hn : (regNames s.types).Nodup := by
    simp only [wfB, Bool.and_eq_true, namesNodup, decide_eq_true_eq] at hw
    exact hw.2
  have hchk : refOK s'.types = refOK s.types := by
    funext r
    simp only [refOK, lookup_reorder hn hn' hm]
  simp only [closedB, wfB, shapeB, Bool.and_eq_true, List.all_eq_true, namesNodup, decide_eq_true_eq] at hc hw ⊢
  rw [hd, hq, hmu, hsu, hchk]
  obtain ⟨⟨⟨⟨⟨c1, c2⟩, c3⟩, c4⟩, c5⟩, c6⟩ := hc
  obtain ⟨⟨⟨⟨⟨⟨⟨w1, w2⟩, w3⟩, w4⟩, w5⟩, w6⟩, w7⟩, w8⟩ := hw
  exact ⟨⟨⟨⟨⟨⟨fun e he => c1 e ((hm e).mp he), c2⟩, c3⟩, c4⟩, c5⟩, fun e he => c6 e ((hm e).mp he)⟩,
    ⟨⟨⟨⟨⟨⟨fun e he => w1 e ((hm e).mp he), w2⟩, w3⟩, w4⟩, w5⟩, fun e he => w6 e ((hm e).mp he)⟩, fun e he => w7 e ((hm e).mp he)⟩, hn'⟩

/-! ### the interfaces of the object types the document defines -/

theorem setNewIfaces_step (reg : List (String × Addr)) (nn : List String) : ∀ (l : List (String × List String)) (h : Heap),
    StepImp (refOK reg) h (setNewIfaces reg nn h l) := by
  intro l
  induction l with
  | nil => intro h; exact StepImp.refl _ h
  | cons e rest ih =>
    intro h
    obtain ⟨n, ms⟩ := e
    simp only [setNewIfaces]
    split
    · split
      · split
        · rename_i na hl _ t ht
          exact (write_type_ifaces (refOK reg) h na t _ ht (healedRefs_ok reg _)).trans (ih _)
        · exact ih h
      · exact ih h
    · exact ih h

theorem setNewIfaces_frame (reg : List (String × Addr)) (nn : List String) (b : Nat)
    (hb : ∀ n na, nn.contains n = true → lookup reg n = some na → b ≤ na) : ∀ (l : List (String × List String)) (h : Heap),
    (setNewIfaces reg nn h l).size = h.size ∧ ∀ x, x < b → (setNewIfaces reg nn h l).read x = h.read x := by
  intro l
  induction l with
  | nil => intro h; exact ⟨rfl, fun _ _ => rfl⟩
  | cons e rest ih =>
    intro h
    obtain ⟨n, ms⟩ := e
    simp only [setNewIfaces]
    split
    · rename_i hc
      split
      · rename_i na hl
        split
        · obtain ⟨k1, k2⟩ := ih (h.write na (.type _))
          refine ⟨by rw [k1, size_write], fun x hx => ?_⟩
          rw [k2 x hx]
          exact read_write_other h na x _ (fun e => absurd (e ▸ hb n na hc hl) (Nat.not_le.mpr hx))
        · exact ih h
      · exact ih h
    · exact ih h

private theorem wfs_keep {chk : Ref → Bool} {h h' : Heap} {s : Schema} (st : StepImp chk h h') (w : WFs chk h s) : WFs chk h' s :=
  ⟨fun e he => typeShape_keep st e.2 (w.types e he), fun e he => dirShape_keep st e.2 (w.dirs e he),
   fun e he => nameOK_keep st e (w.names e he), fun e he => protLeaf_keep st e (w.prot e he), w.nodup⟩

/-! ### `extendO` -/

/-- same directives, roots, schema-level resolver; the same registry entries, re-ordered; the heap differs from `extend`'s only in
    the `interfaces` of the object types the document defines (`setNewIfaces`) — not at all when it declares none -/
theorem extendO_same (cfg : Cfg) (ext : Ext) (s : Schema) (h : Heap) (hn : (regNames (extend cfg ext s h).2.types).Nodup) :
    (extendO cfg ext s h).2.dirs = (extend cfg ext s h).2.dirs ∧
    (extendO cfg ext s h).2.query = (extend cfg ext s h).2.query ∧ (extendO cfg ext s h).2.mutation = (extend cfg ext s h).2.mutation ∧
    (extendO cfg ext s h).2.subscription = (extend cfg ext s h).2.subscription ∧ (extendO cfg ext s h).2.dres = (extend cfg ext s h).2.dres ∧
    (regNames (extendO cfg ext s h).2.types).Nodup ∧
    (∀ e, e ∈ (extendO cfg ext s h).2.types ↔ e ∈ (extend cfg ext s h).2.types) ∧
    (ext.newIfaces = [] → (extendO cfg ext s h).1 = (extend cfg ext s h).1) :=
  ⟨rfl, rfl, rfl, rfl, rfl, extendOrder_nodup _ _ _ _, extendOrder_mem _ _ _ _ hn, fun he => by simp only [extendO, he, setNewIfaces]⟩

/-- FULL: no object of the source heap is written (the interfaces are written on objects the call allocated) -/
theorem extendO_frames_source (cfg : Cfg) (hk : cfg.extKeepAll = true) (ext : Ext) (s : Schema) (h : Heap)
    (hnp : ∀ e, e ∈ ext.newTypes → isProtected e.1 = false) : Frame h (extendO cfg ext s h).1 := by
  have f := extend_frames_source cfg ext s h
  obtain ⟨_, rf⟩ := extend_ok cfg hk ext s h
  have hb : ∀ n na, (ext.newTypes.map (·.1)).contains n = true → lookup (extend cfg ext s h).2.types n = some na → h.size ≤ na := by
    intro n na hc hl
    rcases rf.1 (n, na) (lookup_mem' hl) with hp | hp
    · simp only [List.contains_iff_mem, List.mem_map] at hc
      obtain ⟨e, he, rfl⟩ := hc
      rw [hnp e he] at hp
      cases hp
    · exact hp
  obtain ⟨k1, k2⟩ := setNewIfaces_frame (extend cfg ext s h).2.types (ext.newTypes.map (·.1)) h.size hb ext.newIfaces (extend cfg ext s h).1
  refine ⟨?_, fun a ha => ?_⟩
  · show h.size ≤ (setNewIfaces _ _ _ _).size
    rw [k1]; exact f.1
  · show (setNewIfaces _ _ _ _).read a = h.read a
    rw [k2 a ha]; exact f.2 a ha

/-- FULL: the extension result as the code builds it — the document's `implements` clauses and the dict order included — is
    closed and well-formed (same hypotheses as `extend_closed_wf`; interface names that are not registered are dropped by the
    model where the code raises) -/
theorem extendO_closed_wf (cfg : Cfg) (hk : cfg.extKeepAll = true) (hin : cfg.extInputFieldExtended = true) (ext : Ext) (s : Schema) (h : Heap)
    (hc : closedB h s = true) (hw : wfB h s = true) (hok : ExtOK s ext) (hnp : ∀ e, e ∈ ext.newTypes → isProtected e.1 = false) :
    closedB (extendO cfg ext s h).1 (extendO cfg ext s h).2 = true ∧ wfB (extendO cfg ext s h).1 (extendO cfg ext s h).2 = true := by
  obtain ⟨c, w⟩ := extend_closed_wf cfg hk hin ext s h hc hw hok hnp
  have hn : (regNames (extend cfg ext s h).2.types).Nodup := by
    have w' := w
    simp only [wfB, Bool.and_eq_true, namesNodup, decide_eq_true_eq] at w'
    exact w'.2
  have ws := wfs_keep (setNewIfaces_step (extend cfg ext s h).2.types (ext.newTypes.map (·.1)) ext.newIfaces (extend cfg ext s h).1)
    (wfs_of_closedB c w)
  have hroots := c
  simp only [closedB, shapeB, Bool.and_eq_true] at hroots
  have c2 : closedB (extendO cfg ext s h).1 (extend cfg ext s h).2 = true :=
    closedB_of_wfs _ _ ws hroots.1.1.1.2 hroots.1.1.2 hroots.1.2
  have w2 : wfB (extendO cfg ext s h).1 (extend cfg ext s h).2 = true := wfB_of_wfs ws
  obtain ⟨e2, e3, e4, e5, _, e7, e8, _⟩ := extendO_same cfg ext s h hn
  exact closed_wf_reorder (s := (extend cfg ext s h).2) e2 e3 e4 e5 e7 e8 c2 w2

/-! ### the order on the witness -/

/-- the Dog / Pet witness with its types listed as String, Query, Dog, Pet -/
def sW : Schema := { s0 with types := [("String", 0), ("Query", 5), ("Dog", 3), ("Pet", 1)] }

/-- `extend_schema(sW, "type Zed { z: String }").types`: String, Query, Pet, Dog, Zed — `Pet` (the type of `Query.pet`) before `Dog` -/
theorem extendO_order_witness : (extendO Cfg.fixed zed sW h0).2.types.map (·.1) = ["String", "Query", "Pet", "Dog", "Zed"] := by decide

/-- … while the types were REBUILT in the source's order -/
theorem extend_order_differs : (extend Cfg.fixed zed sW h0).2.types.map (·.1) = ["String", "Query", "Dog", "Pet", "Zed"] := by decide

/-- `extend_schema(s0, "type Zed implements Pet { name: String }")` -/
def zedPet : Ext := { newTypes := [("Zed", [{ name := "name", ty := .named "String", args := [] }])], fields := [], inputFields := [],
                      members := [], values := [], newDirs := [], newIfaces := [("Zed", ["Pet"])] }

/-- the new object type declares the interface: its `interfaces` list holds THE `Pet` object registered in the result, the result
    is closed and well-formed, and the source heap is untouched -/
theorem extendO_ifaces_witness :
    closedB (extendO Cfg.fixed zedPet s0 h0).1 (extendO Cfg.fixed zedPet s0 h0).2 = true ∧
    wfB (extendO Cfg.fixed zedPet s0 h0).1 (extendO Cfg.fixed zedPet s0 h0).2 = true ∧
    ((lookup (extendO Cfg.fixed zedPet s0 h0).2.types "Zed").bind fun a => ((extendO Cfg.fixed zedPet s0 h0).1.readType a).map fun t =>
      t.ifaces.map fun r => (r.name, lookup (extendO Cfg.fixed zedPet s0 h0).2.types r.name == some r.addr)) = some [("Pet", true)] := by
  decide

/-- non-vacuity: the re-listed witness is closed and well-formed -/
example : closedB h0 sW = true ∧ wfB h0 sW = true := by decide

end PyGql.Props.C14

/-
  C11 — independence of the order of definitions, final form.

  `build_perm` (Props/C11_merge.lean) needs the validity of BOTH documents and keeps the relative order of ALL
  extension blocks.  Here: validity (`SdlOK`) is invariant under every reordering of the document that keeps the
  relative order of the extension blocks OF EACH TARGET (`SameExtOrder`; blocks of different targets may be
  interleaved differently) — so the validity of ONE document is enough — and the two schemas have the same content:
  the same `TypeD`s (fields, arguments, input fields, enum values, members, interfaces, descriptions, deprecations,
  coerced default values — everything a `TypeD` records), the same directive definitions, the same roots.
-/
import PyGqlModel.Props.C11_cycles

set_option linter.unusedVariables false
set_option linter.unusedSimpArgs false

namespace PyGql.Props.C11
open PyGql PyGql.Sdl PyGql.SdlSpec

/-- the extension blocks of every target keep their relative order (blocks of different targets are unconstrained) -/
def SameExtOrder (doc₁ doc₂ : Doc) : Prop :=
  ∀ n, (typeExts doc₁).filter (·.name == n) = (typeExts doc₂).filter (·.name == n)

theorem sameExtOrder_of_eq {doc₁ doc₂ : Doc} (h : typeExts doc₁ = typeExts doc₂) : SameExtOrder doc₁ doc₂ :=
  fun n => by rw [h]

theorem mergeDef_congr (X Y : List TypeDef) (t : TypeDef)
    (h : X.filter (·.name == t.name) = Y.filter (·.name == t.name)) : mergeDef X t = mergeDef Y t := by
  unfold mergeDef; rw [h]

theorem merged_eq_of_sameExtOrder {doc₁ doc₂ : Doc} (hx : SameExtOrder doc₁ doc₂) (l : List TypeDef) :
    l.map (mergeDef (typeExts doc₁)) = l.map (mergeDef (typeExts doc₂)) :=
  List.map_congr_left (fun t _ => mergeDef_congr _ _ t (hx t.name))

theorem merged_perm {doc₁ doc₂ : Doc} (hp : doc₁.Perm doc₂) (hx : SameExtOrder doc₁ doc₂) :
    (merged doc₁).Perm (merged doc₂) := by
  simp only [merged]
  rw [merged_eq_of_sameExtOrder hx]
  exact (typeDefs_perm hp).map _

theorem typeExts_perm {d₁ d₂ : Doc} (hp : d₁.Perm d₂) : (typeExts d₁).Perm (typeExts d₂) := hp.filterMap _

theorem buildTypeDefs_names (env : Env) (l : List TypeDef) (r : List TypeD) (h : l.mapM (buildTypeDef env) = .ok r) :
    r.map (·.name) = l.map (·.name) :=
  mapM_names _ (·.name) (·.name) (fun x y hxy => buildTypeDef_name env x y hxy) l r h

/-- names of the declared types = names of the definitions -/
theorem declared_names (doc : Doc) (d : SchemaD) (h : Declared doc = some d) :
    d.types.map (·.name) = (typeDefs doc).map (·.name) := by
  obtain ⟨hts, _, _⟩ := declared_parts doc d h
  rw [buildTypeDefs_names _ _ _ hts, merged_names]

/-! ### the two bounded reachability searches only look names up -/

theorem eagerReach_congr (l₁ l₂ : List TypeD) (hf : ∀ n, l₁.find? (·.name == n) = l₂.find? (·.name == n)) (target : String) :
    ∀ fuel n, eagerReach l₁ target fuel n = eagerReach l₂ target fuel n := by
  intro fuel
  induction fuel with
  | zero => intro n; rfl
  | succ k ih =>
    intro n
    simp only [eagerReach]
    rw [hf n]
    cases l₂.find? (·.name == n) with
    | none => rfl
    | some t => simp only [ih]

theorem hasEagerCycle_perm {l₁ l₂ : List TypeD} (hp : l₁.Perm l₂) (hn : (l₁.map (·.name)).Nodup) :
    hasEagerCycle l₁ = hasEagerCycle l₂ := by
  unfold hasEagerCycle
  have hf : ∀ n, l₁.find? (·.name == n) = l₂.find? (·.name == n) := fun n => find_perm (·.name) n hp hn
  have : (fun t : TypeD => eagerReach l₁ t.name l₁.length t.name) = fun t : TypeD => eagerReach l₂ t.name l₂.length t.name := by
    funext t; rw [hp.length_eq]; exact eagerReach_congr l₁ l₂ hf _ _ _
  rw [this]
  exact any_perm _ hp

theorem hasThunkCycle_perm (env : Env) {l₁ l₂ : List TypeDef} (hp : l₁.Perm l₂) :
    hasThunkCycle env l₁ = hasThunkCycle env l₂ := by
  unfold hasThunkCycle
  rw [hp.length_eq]
  exact any_perm _ hp

theorem defaultRoots_perm {l₁ l₂ : List TypeD} (hp : l₁.Perm l₂) : defaultRoots l₁ = defaultRoots l₂ := by
  simp only [defaultRoots]
  rw [any_perm _ hp, any_perm _ hp, any_perm _ hp]

/-! ### validity is invariant -/

/-- **Validity is independent of the order of definitions**: a reordering of a valid document that keeps the relative
    order of the extension blocks of each target (and of the `extend schema` blocks) is valid, and declares a content
    with the same types, directives and roots. -/
theorem sdlOK_perm (doc₁ doc₂ : Doc) (d₁ : SchemaD) (v : SdlOK doc₁ d₁) (hp : doc₁.Perm doc₂)
    (hx : SameExtOrder doc₁ doc₂) (hsx : schemaExtensions doc₁ = schemaExtensions doc₂) :
    ∃ d₂, SdlOK doc₂ d₂ ∧ d₁.types.Perm d₂.types ∧ d₁.directives.Perm d₂.directives ∧
      d₁.query = d₂.query ∧ d₁.mutation = d₂.mutation ∧ d₁.subscription = d₂.subscription := by
  obtain ⟨ht1, hd1, _⟩ := declared_parts doc₁ d₁ v.declares
  have hTD := typeDefs_perm hp
  have hmp := merged_perm hp hx
  have henvM : Env.of (merged doc₁) = Env.of (merged doc₂) := env_perm hmp (by rw [merged_names]; exact v.uniqueTypes)
  have henvB : Env.of (typeDefs doc₁) = Env.of (typeDefs doc₂) := env_perm hTD v.uniqueTypes
  have hs : schemaDefs doc₁ = schemaDefs doc₂ := perm_short (hp.filterMap _) v.oneSchema
  obtain ⟨ts₂, hts₂, hT⟩ := mapM_perm _ hmp _ ht1
  obtain ⟨ds₂, hds₂, hD⟩ := mapM_perm _ (dirDefs_perm hp) _ hd1
  rw [henvM] at hts₂ hds₂
  let r₂ := declaredRoots doc₂ ts₂
  have hdecl : Declared doc₂ = some { types := ts₂, directives := ds₂, query := r₂.query, mutation := r₂.mutation, subscription := r₂.subscription } := by
    unfold Declared
    simp only [hts₂, hds₂]
    rfl
  have hroots : declaredRoots doc₁ d₁.types = declaredRoots doc₂ ts₂ := by
    simp only [declaredRoots, hsx, hs]
    cases schemaDefs doc₂ with
    | cons sd _ => rfl
    | nil => simp only []; rw [defaultRoots_perm hT]
  have hr1 := declared_roots doc₁ d₁ v.declares
  have hbase : baseRoots doc₁ d₁.types = baseRoots doc₂ ts₂ := by
    simp only [baseRoots, hs]
    cases (schemaDefs doc₂).head? with
    | some sd => rfl
    | none => simp only []; exact defaultRoots_perm hT
  have hnames1 : (d₁.types.map (·.name)).Nodup := by rw [declared_names doc₁ d₁ v.declares]; exact v.uniqueTypes
  refine ⟨{ types := ts₂, directives := ds₂, query := r₂.query, mutation := r₂.mutation, subscription := r₂.subscription }, ?_, hT, hD, ?_⟩
  · exact
      { uniqueTypes := (hTD.map _).nodup_iff.mp v.uniqueTypes
        uniqueDirectives := ((dirDefs_perm hp).map _).nodup_iff.mp v.uniqueDirectives
        oneSchema := by rw [← hs]; exact v.oneSchema
        noBuiltinNames := fun t ht => v.noBuiltinNames t (hTD.mem_iff.mpr ht)
        extTargets := by
          intro e he
          obtain ⟨t, ht, h⟩ := v.extTargets e ((typeExts_perm hp).mem_iff.mpr he)
          exact ⟨t, hTD.mem_iff.mp ht, h⟩
        declares := hdecl
        baseDefaults := by
          rw [BaseDefaults, ← henvB]
          exact ⟨fun t ht => v.baseDefaults.1 t (hTD.mem_iff.mpr ht), fun dd hdd => v.baseDefaults.2 dd ((dirDefs_perm hp).mem_iff.mpr hdd)⟩
        selfDefaults := by
          intro t ht
          have h1 := v.selfDefaults t (hTD.mem_iff.mpr ht)
          have hX1 : (Env.of (typeDefs doc₁)).extended (typeExts doc₁) = Env.of (merged doc₁) := extended_eq _ _
          have hX2 : (Env.of (typeDefs doc₂)).extended (typeExts doc₂) = Env.of (merged doc₂) := extended_eq _ _
          rw [hX2, ← henvM, ← henvB, ← mergeDef_congr _ _ t (hx t.name), ← hX1]
          exact h1
        membersUnique := fun r hr => v.membersUnique r (hT.mem_iff.mpr hr)
        noThunkCycle := by rw [← henvB, ← hasThunkCycle_perm _ hTD]; exact v.noThunkCycle
        noEagerCycle := by
          show hasEagerCycle ts₂ = false
          rw [← hasEagerCycle_perm hT hnames1]; exact v.noEagerCycle
        noSpecified := by
          show ds₂.any _ = false
          rw [← any_perm _ hD]; exact v.noSpecified
        schemaOps := by
          intro sd hsd
          rw [← hs] at hsd
          rw [← henvB]
          exact v.schemaOps sd hsd
        extOps := by rw [← hsx]; exact v.extOps
        extOpsNew := by
          intro o ho
          rw [← hsx] at ho
          have := v.extOpsNew o ho
          show (baseRoots doc₂ ts₂).get o.1 = none ∧ (isDefaultName o.2 || ts₂.any (·.name == o.2)) = true
          rw [← hbase, ← any_perm _ hT]
          exact this }
  · have : (⟨d₁.query, d₁.mutation, d₁.subscription⟩ : Roots) = r₂ := by rw [hr1]; exact hroots
    have hq : d₁.query = r₂.query := congrArg Roots.query this
    have hm : d₁.mutation = r₂.mutation := congrArg Roots.mutation this
    have hsb : d₁.subscription = r₂.subscription := congrArg Roots.subscription this
    exact ⟨hq, hm, hsb⟩

/-- **build_perm, final form** (`BuildPermStatement` with `SdlOK` for `SdlValid`, and the weaker per-target order
    condition): if ONE document is valid, every reordering of its definitions that keeps the relative order of the
    extension blocks of each target builds too, and the two schemas have the same content — the same types with all
    their members, descriptions, deprecations and coerced default values, the same directive definitions and roots. -/
theorem build_perm_final (doc₁ doc₂ : Doc) (d₁ : SchemaD) (v : SdlOK doc₁ d₁) (hp : doc₁.Perm doc₂)
    (hx : SameExtOrder doc₁ doc₂) (hsx : schemaExtensions doc₁ = schemaExtensions doc₂) :
    ∃ d₂, build doc₁ = .ok d₁ ∧ build doc₂ = .ok d₂ ∧ d₁.types.Perm d₂.types ∧ d₁.directives.Perm d₂.directives ∧
      d₁.query = d₂.query ∧ d₁.mutation = d₂.mutation ∧ d₁.subscription = d₂.subscription := by
  obtain ⟨d₂, v₂, h⟩ := sdlOK_perm doc₁ doc₂ d₁ v hp hx hsx
  exact ⟨d₂, build_exact_final doc₁ d₁ v, build_exact_final doc₂ d₂ v₂, h⟩

/-- in the vocabulary of the specification: the two schemas have the `SameContent` -/
theorem build_perm_sameContent (doc₁ doc₂ : Doc) (d₁ : SchemaD) (v : SdlOK doc₁ d₁) (hp : doc₁.Perm doc₂)
    (hx : SameExtOrder doc₁ doc₂) (hsx : schemaExtensions doc₁ = schemaExtensions doc₂) :
    ∃ s₁ s₂, build doc₁ = .ok s₁ ∧ build doc₂ = .ok s₂ ∧ SameContent s₁ s₂ := by
  obtain ⟨d₂, h1, h2, hT, hD, hq, hm, hs⟩ := build_perm_final doc₁ doc₂ d₁ v hp hx hsx
  exact ⟨d₁, d₂, h1, h2, hq, hm, hs, fun t => hT.mem_iff, fun d => hD.mem_iff⟩

/-! ### non-vacuity: `extDoc` reversed — the extension blocks of DIFFERENT targets change their relative order -/

/-- `extDoc` = [ext Query, Query, E, ext E, M, extend schema] reversed -/
def extDocShuffled : Doc := extDoc.reverse

def eExt : TypeDef := { kind := .enum, name := "E", values := [{ name := "B" }] }

theorem extDoc_perm : extDoc.Perm extDocShuffled := (List.reverse_perm extDoc).symm

/-- the hypothesis of `build_perm` (`typeExts doc₁ = typeExts doc₂`) fails for this pair -/
example : typeExts extDoc ≠ typeExts extDocShuffled := fun h => by
  have := congrArg (List.map (·.name)) h
  revert this; decide

theorem extDoc_sameExtOrder : SameExtOrder extDoc extDocShuffled := by
  intro n
  have h1 : typeExts extDoc = [exExt, eExt] := rfl
  have h2 : typeExts extDocShuffled = [eExt, exExt] := rfl
  have n1 : exExt.name = "Query" := rfl
  have n2 : eExt.name = "E" := rfl
  rw [h1, h2]
  simp only [List.filter_cons, List.filter_nil, n1, n2]
  by_cases a : ("Query" == n) = true
  · have : ("E" == n) = false := by
      have : n = "Query" := by simpa using Eq.symm (by simpa using a : "Query" = n)
      subst this; decide
    simp [a, this]
  · simp [a]

example : ∃ s₁ s₂, build extDoc = .ok s₁ ∧ build extDocShuffled = .ok s₂ ∧ SameContent s₁ s₂ :=
  build_perm_sameContent _ _ _ extDoc_ok extDoc_perm extDoc_sameExtOrder rfl

/-- the per-target condition is NECESSARY: swapping two extension blocks of the SAME target changes the member order -/
def twoExt : Doc := [.type exQuery, .ext exExt, .ext { kind := .object, name := "Query", fields := [{ name := "c", type := .named "Int" }] }]
def twoExtSwapped : Doc := [.type exQuery, .ext { kind := .object, name := "Query", fields := [{ name := "c", type := .named "Int" }] }, .ext exExt]

theorem ext_order_matters : twoExt.Perm twoExtSwapped ∧
    ((build twoExt).toOption.map fun s => s.types.map fun t => t.fields.map (·.name)) = some [["a", "b", "c"]] ∧
    ((build twoExtSwapped).toOption.map fun s => s.types.map fun t => t.fields.map (·.name)) = some [["a", "c", "b"]] := by
  refine ⟨List.Perm.cons _ (List.Perm.swap _ _ _), by decide, by decide⟩

end PyGql.Props.C11

/-
  C09 — the LOOP form of `execute_fields_serially` (today's code, `AsyncExecLoop.lean`) against the RECURSIVE form
  (`AsyncExec.serialNext`, the one `serial_order`, `serial_queue_invariant`, … are proved about).

  `serial_loop_eq_recursive_call`: called on the same queue, the same accumulated fields and the same executor state,
  the two produce the SAME executor state (trace of resolver calls, errors, outstanding tasks) and the same Future up to
  `unwrap_future` (`flat`): the recursion wraps the rest of a run that follows an already finished Future in that
  Future's `chain` target (`done rest`, an exception of the rest stored in it), the loop returns the rest itself / lets
  the exception propagate — `execute` applies `unwrap_value` to the result at once, and an exception raised out of
  `execute` and a failed Future are the same outcome (`runAsync`).
-/
import PyGqlModel.Lemmas.ExecLoop

set_option linter.unusedVariables false
set_option linter.unusedSimpArgs false

namespace PyGql.Props.C09
open PyGql.AsyncExec PyGql.AsyncExec.Loop

/-- what `unwrap_future` makes of the result of `_next()` (an exception raised synchronously = a failed Future) -/
def flat : Res Node → Node
  | .exc e => .failed e
  | .ok n => unwrapCb n

private theorem flat_done (x : Node) : flat (.ok (.done x)) = flat (.ok x) := by
  cases x with
  | val v => simp [flat, unwrapCb]
  | _ => simp [flat, unwrapCb]

/-- **serial_loop_eq_recursive_call** -/
theorem serial_loop_eq_recursive_call (path : Path) : ∀ (args : Flds) (resolved : List (String × V)) (s : ExecSt),
    flat (serialLoop path resolved args s).1 = flat (serialNext path resolved args s).1
      ∧ (serialLoop path resolved args s).2 = (serialNext path resolved args s).2
  | .nil, resolved, s => by simp [serialLoop, serialNext]
  | .cons key mode out args, resolved, s => by
    have ih := fun r s' => serial_loop_eq_recursive_call path args r s'
    simp only [serialLoop, serialNext]
    cases hr : resolveField (path ++ [.key key]) mode out s with
    | mk r s1 =>
      cases r with
      | exc e => simp
      | ok n =>
        cases n with
        | val x => cases x <;> simp [ih]
        | failed e => simp
        | task a b c d => simp
        | chain a b => simp
        | unwrap a => simp
        | gather a b c => simp
        | done r' =>
          cases r' with
          | val x =>
            cases x with
            | data v =>
              simp only
              have h := ih (resolved ++ [(key, v)]) s1
              cases hn : serialNext path (resolved ++ [(key, v)]) args s1 with
              | mk rn sn =>
                rw [hn] at h
                cases rn with
                | ok x => simp only [flat_done]; exact h
                | exc e => simpa [flat, unwrapCb] using h
            | raw c => simp
            | junk => simp
          | _ => simp


/-! ### whole runs: `Loop.runAsync = runAsync` for every operation and every schedule -/

/-- `flat` of a `_next` result while the chain is waiting: `unwrap (chain field cb)` with nothing serial below -/
private def MidShape (N : Node) : Prop :=
  SFree N = true ∨ ∃ f p key res args, N = .unwrap (.chain f (.serialCb p key res args)) ∧ SFree f = true

/-- the root Future of `execute` -/
private def TopShape (T : Node) : Prop :=
  SFree T = true ∨ ∃ f p key res args, T = .chain (.unwrap (.chain f (.serialCb p key res args))) .onFinish ∧ SFree f = true

private theorem serialNext_shape (path : Path) : ∀ (args : Flds) (resolved : List (String × V)) (s : ExecSt),
    MidShape (flat (serialNext path resolved args s).1)
  | .nil, resolved, s => by left; simp [serialNext, flat, unwrapCb, SFree]
  | .cons key mode out args, resolved, s => by
    have ih := fun r s' => serialNext_shape path args r s'
    have hsf := resolveField_sfree out (path ++ [.key key]) mode s
    simp only [serialNext]
    cases hr : resolveField (path ++ [.key key]) mode out s with
    | mk r s1 =>
      rw [hr] at hsf
      cases r with
      | exc e => left; simp [flat, SFree]
      | ok n =>
        simp only [ResSFree] at hsf
        cases n with
        | val x => cases x <;> first | exact ih _ _ | (left; simp [flat, unwrapCb, SFree])
        | failed e => left; simp [flat, unwrapCb, SFree]
        | task a b c d => right; exact ⟨_, _, _, _, _, rfl, hsf⟩
        | chain a b => right; exact ⟨_, _, _, _, _, rfl, hsf⟩
        | unwrap a => right; exact ⟨_, _, _, _, _, rfl, hsf⟩
        | gather a b c => right; exact ⟨_, _, _, _, _, rfl, hsf⟩
        | done r' =>
          cases r' with
          | val x =>
            cases x with
            | data v =>
              simp only
              have h := ih (resolved ++ [(key, v)]) s1
              cases hn : serialNext path (resolved ++ [(key, v)]) args s1 with
              | mk rn sn =>
                rw [hn] at h
                cases rn with
                | ok x => simp only [flat_done]; exact h
                | exc e => left; simp [flat, unwrapCb, SFree]
            | raw c => right; exact ⟨_, _, _, _, _, rfl, hsf⟩
            | junk => right; exact ⟨_, _, _, _, _, rfl, hsf⟩
          | done a => right; exact ⟨_, _, _, _, _, rfl, hsf⟩
          | failed a => right; exact ⟨_, _, _, _, _, rfl, hsf⟩
          | task a b c d => right; exact ⟨_, _, _, _, _, rfl, hsf⟩
          | chain a b => right; exact ⟨_, _, _, _, _, rfl, hsf⟩
          | unwrap a => right; exact ⟨_, _, _, _, _, rfl, hsf⟩
          | gather a b c => right; exact ⟨_, _, _, _, _, rfl, hsf⟩

/-- node stored by `chain.on_finish` for a callback outcome -/
private def resNode : Res Node → Node
  | .ok x => .done x
  | .exc e => .failed e

private theorem chainOnFinish_done (ap : ApplyCont) (k : Cont) (r : Node) (s : ExecSt) :
    chainOnFinish ap (.done r) k s = (resNode (ap k (.ok r.plain) s).1, (ap k (.ok r.plain) s).2) := by
  unfold chainOnFinish
  simp only
  cases ap k (.ok r.plain) s with
  | mk a b => cases a <;> rfl

private theorem unwrapCb_resNode (r : Res Node) : unwrapCb (resNode r) = flat r := by
  cases r with
  | ok x => simpa [resNode, flat] using flat_done x
  | exc e => rfl

/-- the serial callback fires (or not) on the delivered field node, then `unwrap_future`'s callback: same node, same
    state under both readings of `_next` -/
private theorem inner_step (f' : Node) (p : Path) (key : String) (res : List (String × V)) (args : Flds) (s1 : ExecSt)
    (hf' : SFree f' = true) :
    (unwrapCb (chainOnFinish applyContL f' (.serialCb p key res args) s1).1, (chainOnFinish applyContL f' (.serialCb p key res args) s1).2)
      = (unwrapCb (chainOnFinish applyCont f' (.serialCb p key res args) s1).1, (chainOnFinish applyCont f' (.serialCb p key res args) s1).2)
    ∧ MidShape (unwrapCb (chainOnFinish applyCont f' (.serialCb p key res args) s1).1) := by
  have pend : ∀ g : Node, SFree g = true → unwrapCb (.chain g (.serialCb p key res args)) = .unwrap (.chain g (.serialCb p key res args)) := by
    intro g _; simp [unwrapCb]
  cases f' with
  | val x => exact ⟨rfl, Or.inr ⟨_, _, _, _, _, rfl, hf'⟩⟩
  | task a b c d => exact ⟨rfl, Or.inr ⟨_, _, _, _, _, rfl, hf'⟩⟩
  | chain a b => exact ⟨rfl, Or.inr ⟨_, _, _, _, _, rfl, hf'⟩⟩
  | unwrap a => exact ⟨rfl, Or.inr ⟨_, _, _, _, _, rfl, hf'⟩⟩
  | gather a b c => exact ⟨rfl, Or.inr ⟨_, _, _, _, _, rfl, hf'⟩⟩
  | failed e => exact ⟨rfl, Or.inl (by simp [chainOnFinish, applyCont, applySimple, unwrapCb, SFree])⟩
  | done r =>
    rw [chainOnFinish_done, chainOnFinish_done]
    simp only [unwrapCb_resNode]
    cases hp : r.plain with
    | raw c =>
      refine ⟨?_, Or.inl ?_⟩ <;> simp [applyContL, applyCont, applySimple, flat, unwrapCb, SFree]
    | junk =>
      refine ⟨?_, Or.inl ?_⟩ <;> simp [applyContL, applyCont, applySimple, flat, unwrapCb, SFree]
    | data v =>
      have hA := serial_loop_eq_recursive_call p args (res ++ [(key, v)]) s1
      have hS := serialNext_shape p args (res ++ [(key, v)]) s1
      simp only [applyContL, applyCont]
      exact ⟨by rw [hA.1, hA.2], hS⟩

private theorem outer_step (N : Node) (s : ExecSt) (hN : MidShape N) :
    chainOnFinish applyContL N .onFinish s = chainOnFinish applyCont N .onFinish s
      ∧ TopShape (chainOnFinish applyCont N .onFinish s).1 := by
  refine ⟨chainOnFinish_congr N .onFinish rfl s, ?_⟩
  cases hN with
  | inl h => exact Or.inl (chainOnFinish_sfree applyCont .onFinish (applyCont_sfree .onFinish rfl) rfl N s h)
  | inr h =>
    obtain ⟨f, p, key, res, args, rfl, hf⟩ := h
    exact Or.inr ⟨f, p, key, res, args, rfl, hf⟩

private theorem deliver_top (T : Node) (t : Nat) (s : ExecSt) (hT : TopShape T) :
    deliver applyContL t T s = deliver applyCont t T s ∧ TopShape (deliver applyCont t T s).1 := by
  cases hT with
  | inl h => exact ⟨deliver_congr T t s h, Or.inl (deliver_sfree T t s h)⟩
  | inr h =>
    obtain ⟨f, p, key, res, args, rfl, hf⟩ := h
    simp only [deliver, deliver_congr f t s hf]
    have hf' := deliver_sfree f t s hf
    cases hd : deliver applyCont t f s with
    | mk f' s1 =>
      rw [hd] at hf'
      simp only at hf'
      obtain ⟨hi, hm⟩ := inner_step f' p key res args s1 hf'
      simp only [Prod.mk.injEq] at hi
      simp only [hi.1, hi.2]
      exact outer_step _ _ hm

private theorem runSched_eq : ∀ (schedule : List Nat) (top : Node) (s : ExecSt) (sizes : List Nat), TopShape top →
    Loop.runSched top s sizes schedule = AsyncExec.runSched top s sizes schedule
  | [], top, s, sizes, _ => rfl
  | i :: rest, top, s, sizes, hT => by
    simp only [Loop.runSched, AsyncExec.runSched]
    split
    · rfl
    · simp only [Loop.stepSched, AsyncExec.stepSched]
      cases hq : s.queue[i % s.queue.length]? with
      | none => simp only; exact runSched_eq rest top s _ hT
      | some t =>
        simp only
        obtain ⟨he, hs⟩ := deliver_top top t { s with queue := removeAt s.queue (i % s.queue.length) } hT
        rw [he]
        exact runSched_eq rest _ _ _ hs

end PyGql.Props.C09

/-
  C09 — the LOOP form of `execute_fields_serially` (today's code, `AsyncExecLoop.lean`) against the RECURSIVE form
  (`AsyncExec.serialNext`, the one `serial_order`, `serial_queue_invariant`, … are proved about).

  `serial_loop_eq_recursive_call`: called on the same queue, the same accumulated fields and the same executor state,
  the two produce the SAME executor state (trace of resolver calls, errors, outstanding tasks) and the same Future up to
  `unwrap_future` (`flat`): the recursion wraps the rest of a run that follows an already finished Future in that
  Future's `chain` target (`done rest`, an exception of the rest stored in it), the loop returns the rest itself / lets
  the exception propagate — `execute` applies `unwrap_value` to the result at once, and an exception raised out of
  `execute` and a failed Future are the same outcome (`runAsync`).
-/
import PyGqlModel.Lemmas.ExecLoop

set_option linter.unusedVariables false
set_option linter.unusedSimpArgs false

namespace PyGql.Props.C09
open PyGql.AsyncExec PyGql.AsyncExec.Loop

/-- what `unwrap_future` makes of the result of `_next()` (an exception raised synchronously = a failed Future) -/
def flat : Res Node → Node
  | .exc e => .failed e
  | .ok n => unwrapCb n

private theorem flat_done (x : Node) : flat (.ok (.done x)) = flat (.ok x) := by
  cases x with
  | val v => simp [flat, unwrapCb]
  | _ => simp [flat, unwrapCb]

/-- **serial_loop_eq_recursive_call** -/
theorem serial_loop_eq_recursive_call (path : Path) : ∀ (args : Flds) (resolved : List (String × V)) (s : ExecSt),
    flat (serialLoop path resolved args s).1 = flat (serialNext path resolved args s).1
      ∧ (serialLoop path resolved args s).2 = (serialNext path resolved args s).2
  | .nil, resolved, s => by simp [serialLoop, serialNext]
  | .cons key mode out args, resolved, s => by
    have ih := fun r s' => serial_loop_eq_recursive_call path args r s'
    simp only [serialLoop, serialNext]
    cases hr : resolveField (path ++ [.key key]) mode out s with
    | mk r s1 =>
      cases r with
      | exc e => simp
      | ok n =>
        cases n with
        | val x => cases x <;> simp [ih]
        | failed e => simp
        | task a b c d => simp
        | chain a b => simp
        | unwrap a => simp
        | gather a b c => simp
        | done r' =>
          cases r' with
          | val x =>
            cases x with
            | data v =>
              simp only
              have h := ih (resolved ++ [(key, v)]) s1
              cases hn : serialNext path (resolved ++ [(key, v)]) args s1 with
              | mk rn sn =>
                rw [hn] at h
                cases rn with
                | ok x => simp only [flat_done]; exact h
                | exc e => simpa [flat, unwrapCb] using h
            | raw c => simp
            | junk => simp
          | _ => simp


/-! ### whole runs: `Loop.runAsync = runAsync` for every operation and every schedule -/

/-- `flat` of a `_next` result while the chain is waiting: `unwrap (chain field cb)` with nothing serial below -/
private def MidShape (N : Node) : Prop :=
  SFree N = true ∨ ∃ f p key res args, N = .unwrap (.chain f (.serialCb p key res args)) ∧ SFree f = true

/-- the root Future of `execute` -/
private def TopShape (T : Node) : Prop :=
  SFree T = true ∨ ∃ f p key res args, T = .chain (.unwrap (.chain f (.serialCb p key res args))) .onFinish ∧ SFree f = true

private theorem serialNext_shape (path : Path) : ∀ (args : Flds) (resolved : List (String × V)) (s : ExecSt),
    MidShape (flat (serialNext path resolved args s).1)
  | .nil, resolved, s => by left; simp [serialNext, flat, unwrapCb, SFree]
  | .cons key mode out args, resolved, s => by
    have ih := fun r s' => serialNext_shape path args r s'
    have hsf := resolveField_sfree out (path ++ [.key key]) mode s
    simp only [serialNext]
    cases hr : resolveField (path ++ [.key key]) mode out s with
    | mk r s1 =>
      rw [hr] at hsf
      cases r with
      | exc e => left; simp [flat, SFree]
      | ok n =>
        simp only [ResSFree] at hsf
        cases n with
        | val x => cases x <;> first | exact ih _ _ | (left; simp [flat, unwrapCb, SFree])
        | failed e => left; simp [flat, unwrapCb, SFree]
        | task a b c d => right; exact ⟨_, _, _, _, _, rfl, hsf⟩
        | chain a b => right; exact ⟨_, _, _, _, _, rfl, hsf⟩
        | unwrap a => right; exact ⟨_, _, _, _, _, rfl, hsf⟩
        | gather a b c => right; exact ⟨_, _, _, _, _, rfl, hsf⟩
        | done r' =>
          cases r' with
          | val x =>
            cases x with
            | data v =>
              simp only
              have h := ih (resolved ++ [(key, v)]) s1
              cases hn : serialNext path (resolved ++ [(key, v)]) args s1 with
              | mk rn sn =>
                rw [hn] at h
                cases rn with
                | ok x => simp only [flat_done]; exact h
                | exc e => left; simp [flat, unwrapCb, SFree]
            | raw c => right; exact ⟨_, _, _, _, _, rfl, hsf⟩
            | junk => right; exact ⟨_, _, _, _, _, rfl, hsf⟩
          | done a => right; exact ⟨_, _, _, _, _, rfl, hsf⟩
          | failed a => right; exact ⟨_, _, _, _, _, rfl, hsf⟩
          | task a b c d => right; exact ⟨_, _, _, _, _, rfl, hsf⟩
          | chain a b => right; exact ⟨_, _, _, _, _, rfl, hsf⟩
          | unwrap a => right; exact ⟨_, _, _, _, _, rfl, hsf⟩
          | gather a b c => right; exact ⟨_, _, _, _, _, rfl, hsf⟩

/-- node stored by `chain.on_finish` for a callback outcome -/
private def resNode : Res Node → Node
  | .ok x => .done x
  | .exc e => .failed e

private theorem chainOnFinish_done (ap : ApplyCont) (k : Cont) (r : Node) (s : ExecSt) :
    chainOnFinish ap (.done r) k s = (resNode (ap k (.ok r.plain) s).1, (ap k (.ok r.plain) s).2) := by
  unfold chainOnFinish
  simp only
  cases ap k (.ok r.plain) s with
  | mk a b => cases a <;> rfl

private theorem unwrapCb_resNode (r : Res Node) : unwrapCb (resNode r) = flat r := by
  cases r with
  | ok x => simpa [resNode, flat] using flat_done x
  | exc e => rfl

/-- the serial callback fires (or not) on the delivered field node, then `unwrap_future`'s callback: same node, same
    state under both readings of `_next` -/
private theorem inner_step (f' : Node) (p : Path) (key : String) (res : List (String × V)) (args : Flds) (s1 : ExecSt)
    (hf' : SFree f' = true) :
    (unwrapCb (chainOnFinish applyContL f' (.serialCb p key res args) s1).1, (chainOnFinish applyContL f' (.serialCb p key res args) s1).2)
      = (unwrapCb (chainOnFinish applyCont f' (.serialCb p key res args) s1).1, (chainOnFinish applyCont f' (.serialCb p key res args) s1).2)
    ∧ MidShape (unwrapCb (chainOnFinish applyCont f' (.serialCb p key res args) s1).1) := by
  have pend : ∀ g : Node, SFree g = true → unwrapCb (.chain g (.serialCb p key res args)) = .unwrap (.chain g (.serialCb p key res args)) := by
    intro g _; simp [unwrapCb]
  cases f' with
  | val x => exact ⟨rfl, Or.inr ⟨_, _, _, _, _, rfl, hf'⟩⟩
  | task a b c d => exact ⟨rfl, Or.inr ⟨_, _, _, _, _, rfl, hf'⟩⟩
  | chain a b => exact ⟨rfl, Or.inr ⟨_, _, _, _, _, rfl, hf'⟩⟩
  | unwrap a => exact ⟨rfl, Or.inr ⟨_, _, _, _, _, rfl, hf'⟩⟩
  | gather a b c => exact ⟨rfl, Or.inr ⟨_, _, _, _, _, rfl, hf'⟩⟩
  | failed e => exact ⟨rfl, Or.inl (by simp [chainOnFinish, applyCont, applySimple, unwrapCb, SFree])⟩
  | done r =>
    rw [chainOnFinish_done, chainOnFinish_done]
    simp only [unwrapCb_resNode]
    cases hp : r.plain with
    | raw c =>
      refine ⟨?_, Or.inl ?_⟩ <;> simp [applyContL, applyCont, applySimple, flat, unwrapCb, SFree]
    | junk =>
      refine ⟨?_, Or.inl ?_⟩ <;> simp [applyContL, applyCont, applySimple, flat, unwrapCb, SFree]
    | data v =>
      have hA := serial_loop_eq_recursive_call p args (res ++ [(key, v)]) s1
      have hS := serialNext_shape p args (res ++ [(key, v)]) s1
      simp only [applyContL, applyCont]
      exact ⟨by rw [hA.1, hA.2], hS⟩

private theorem outer_step (N : Node) (s : ExecSt) (hN : MidShape N) :
    chainOnFinish applyContL N .onFinish s = chainOnFinish applyCont N .onFinish s
      ∧ TopShape (chainOnFinish applyCont N .onFinish s).1 := by
  refine ⟨chainOnFinish_congr N .onFinish rfl s, ?_⟩
  cases hN with
  | inl h => exact Or.inl (chainOnFinish_sfree applyCont .onFinish (applyCont_sfree .onFinish rfl) rfl N s h)
  | inr h =>
    obtain ⟨f, p, key, res, args, rfl, hf⟩ := h
    exact Or.inr ⟨f, p, key, res, args, rfl, hf⟩

private theorem deliver_top (T : Node) (t : Nat) (s : ExecSt) (hT : TopShape T) :
    deliver applyContL t T s = deliver applyCont t T s ∧ TopShape (deliver applyCont t T s).1 := by
  cases hT with
  | inl h => exact ⟨deliver_congr T t s h, Or.inl (deliver_sfree T t s h)⟩
  | inr h =>
    obtain ⟨f, p, key, res, args, rfl, hf⟩ := h
    simp only [deliver, deliver_congr f t s hf]
    have hf' := deliver_sfree f t s hf
    cases hd : deliver applyCont t f s with
    | mk f' s1 =>
      rw [hd] at hf'
      simp only at hf'
      obtain ⟨hi, hm⟩ := inner_step f' p key res args s1 hf'
      simp only [Prod.mk.injEq] at hi
      simp only [hi.1, hi.2]
      exact outer_step _ _ hm

private theorem runSched_eq : ∀ (schedule : List Nat) (top : Node) (s : ExecSt) (sizes : List Nat), TopShape top →
    Loop.runSched top s sizes schedule = AsyncExec.runSched top s sizes schedule
  | [], top, s, sizes, _ => rfl
  | i :: rest, top, s, sizes, hT => by
    simp only [Loop.runSched, AsyncExec.runSched]
    split
    · rfl
    · simp only [Loop.stepSched, AsyncExec.stepSched]
      cases hq : s.queue[i % s.queue.length]? with
      | none => simp only; exact runSched_eq rest top s _ hT
      | some t =>
        simp only
        obtain ⟨he, hs⟩ := deliver_top top t { s with queue := removeAt s.queue (i % s.queue.length) } hT
        rw [he]
        exact runSched_eq rest _ _ _ hs


private theorem unwrapCb_shape : ∀ n : Node,
    (∃ e, unwrapCb n = .failed e) ∨ (∃ x, unwrapCb n = .done (.val x)) ∨ (∃ g, unwrapCb n = .unwrap g)
  | .val x => Or.inr (Or.inl ⟨x, rfl⟩)
  | .failed e => Or.inl ⟨e, rfl⟩
  | .done (.val x) => Or.inr (Or.inl ⟨x, rfl⟩)
  | .done (.done r) => by simpa [unwrapCb] using unwrapCb_shape (.done r)
  | .done (.failed e) => Or.inl ⟨e, by simp [unwrapCb]⟩
  | .done (.task a b c d) => Or.inr (Or.inr ⟨.task a b c d, by simp [unwrapCb]⟩)
  | .done (.chain a b) => Or.inr (Or.inr ⟨.chain a b, by simp [unwrapCb]⟩)
  | .done (.unwrap a) => Or.inr (Or.inr ⟨.unwrap a, by simp [unwrapCb]⟩)
  | .done (.gather a b c) => Or.inr (Or.inr ⟨.gather a b c, by simp [unwrapCb]⟩)
  | .task a b c d => Or.inr (Or.inr ⟨.task a b c d, rfl⟩)
  | .chain a b => Or.inr (Or.inr ⟨.chain a b, rfl⟩)
  | .unwrap a => Or.inr (Or.inr ⟨.unwrap a, rfl⟩)
  | .gather a b c => Or.inr (Or.inr ⟨.gather a b c, rfl⟩)

private def resultOf (top : Node) (s : ExecSt) (schedule : List Nat) : Result :=
  let r := AsyncExec.runSched top s [] schedule
  ⟨outcomeOf r.top r.st, r.st.trace, r.sizes⟩

private def resultOfL (top : Node) (s : ExecSt) (schedule : List Nat) : Result :=
  let r := Loop.runSched top s [] schedule
  ⟨outcomeOf r.top r.st, r.st.trace, r.sizes⟩

private theorem resultOfL_eq (top : Node) (s : ExecSt) (schedule : List Nat) (h : TopShape top) :
    resultOfL top s schedule = resultOf top s schedule := by
  unfold resultOfL resultOf; rw [runSched_eq schedule top s [] h]

private theorem resultOf_finished (top : Node) (s : ExecSt) (schedule : List Nat) (h : top.finished = true) :
    resultOf top s schedule = ⟨outcomeOf top s, s.trace, []⟩ := by
  unfold resultOf
  cases schedule with
  | nil => rfl
  | cons i rest => simp [AsyncExec.runSched, h]

/-- what a run makes of the flattened result of `_next` -/
private def resultOfFlat (F : Node) (s1 : ExecSt) (schedule : List Nat) : Result :=
  match F with
  | .failed e => ⟨.failed e, s1.trace, []⟩
  | .done (.val x) => ⟨outcomeOf (.val x) s1, s1.trace, []⟩
  | F => resultOf (.chain F .onFinish) s1 schedule

private def finishRec (r : Res Node) (s1 : ExecSt) (schedule : List Nat) : Result :=
  match r with
  | .exc e => ⟨.failed e, s1.trace, []⟩
  | .ok n =>
    match mapValue applyCont (unwrapValue n) .onFinish s1 with
    | (.exc e, s) => ⟨.failed e, s.trace, []⟩
    | (.ok top, s) => resultOf top s schedule

private def finishLoop (r : Res Node) (s1 : ExecSt) (schedule : List Nat) : Result :=
  match r with
  | .exc e => ⟨.failed e, s1.trace, []⟩
  | .ok n =>
    match mapValue applyContL (unwrapValue n) .onFinish s1 with
    | (.exc e, s) => ⟨.failed e, s.trace, []⟩
    | (.ok top, s) => resultOfL top s schedule

private theorem outcomeOf_done_val (x : Val) (s : ExecSt) : outcomeOf (.done (.val x)) s = outcomeOf (.val x) s := by
  cases x <;> rfl

/-- both `finish` functions on a flattened, non-plain result -/
private theorem finish_flat (F : Node) (s1 : ExecSt) (schedule : List Nat)
    (hF : (∃ e, F = .failed e) ∨ (∃ x, F = .done (.val x)) ∨ (∃ g, F = .unwrap g)) :
    (match mapValue applyCont F .onFinish s1 with
      | (.exc e, s) => (⟨.failed e, s.trace, []⟩ : Result)
      | (.ok top, s) => resultOf top s schedule) = resultOfFlat F s1 schedule := by
  rcases hF with ⟨e, rfl⟩ | ⟨x, rfl⟩ | ⟨g, rfl⟩
  · simp only [mapValue, Node.finished, chainOnFinish, applyCont, applySimple, resultOfFlat, if_true]
    rw [resultOf_finished _ _ _ rfl]; rfl
  · simp only [mapValue, Node.finished, chainOnFinish, applyCont, applySimple, Node.plain, resultOfFlat, if_true]
    rw [resultOf_finished _ _ _ rfl, outcomeOf_done_val]
  · simp [mapValue, Node.finished, resultOfFlat]

private theorem finishRec_flat (r : Res Node) (s1 : ExecSt) (schedule : List Nat) :
    finishRec r s1 schedule = resultOfFlat (flat r) s1 schedule := by
  cases r with
  | exc e => rfl
  | ok n =>
    cases n with
    | val x =>
      simp only [finishRec, unwrapValue, mapValue, applyCont, applySimple, flat, unwrapCb, resultOfFlat]
      rw [resultOf_finished _ _ _ rfl]
    | done a => unfold finishRec flat; simp only [unwrapValue]; exact finish_flat (unwrapCb (.done a)) s1 schedule (unwrapCb_shape (.done a))
    | failed a => unfold finishRec flat; simp only [unwrapValue]; exact finish_flat (unwrapCb (.failed a)) s1 schedule (unwrapCb_shape (.failed a))
    | task a b c d => unfold finishRec flat; simp only [unwrapValue]; exact finish_flat (unwrapCb (.task a b c d)) s1 schedule (unwrapCb_shape (.task a b c d))
    | chain a b => unfold finishRec flat; simp only [unwrapValue]; exact finish_flat (unwrapCb (.chain a b)) s1 schedule (unwrapCb_shape (.chain a b))
    | unwrap a => unfold finishRec flat; simp only [unwrapValue]; exact finish_flat (unwrapCb (.unwrap a)) s1 schedule (unwrapCb_shape (.unwrap a))
    | gather a b c => unfold finishRec flat; simp only [unwrapValue]; exact finish_flat (unwrapCb (.gather a b c)) s1 schedule (unwrapCb_shape (.gather a b c))


private theorem mapValue_top (F : Node) (s1 : ExecSt) (hS : MidShape F)
    (hF : (∃ e, F = .failed e) ∨ (∃ x, F = .done (.val x)) ∨ (∃ g, F = .unwrap g)) :
    ∃ top s, mapValue applyCont F .onFinish s1 = (.ok top, s) ∧ TopShape top := by
  rcases hF with ⟨e, rfl⟩ | ⟨x, rfl⟩ | ⟨g, rfl⟩
  · exact ⟨.failed e, s1, by simp [mapValue, Node.finished, chainOnFinish, applyCont, applySimple], Or.inl (by simp [SFree])⟩
  · exact ⟨.done (.val x), s1, by simp [mapValue, Node.finished, chainOnFinish, applyCont, applySimple, Node.plain],
      Or.inl (by simp [SFree])⟩
  · refine ⟨.chain (.unwrap g) .onFinish, s1, by simp [mapValue, Node.finished], ?_⟩
    cases hS with
    | inl h => exact Or.inl (by simpa [SFree, sfreeK] using h)
    | inr h =>
      obtain ⟨f, p, key, res, args, heq, hf⟩ := h
      exact Or.inr ⟨f, p, key, res, args, by rw [heq], hf⟩

private theorem finishLoop_flat (r : Res Node) (s1 : ExecSt) (schedule : List Nat) (hS : MidShape (flat r)) :
    finishLoop r s1 schedule = resultOfFlat (flat r) s1 schedule := by
  rw [← finishRec_flat]
  cases r with
  | exc e => rfl
  | ok n =>
    unfold finishLoop finishRec
    simp only [mapValue_congr _ .onFinish rfl]
    cases n with
    | val x =>
      simp only [unwrapValue, mapValue, applyCont, applySimple]
      exact resultOfL_eq _ _ _ (Or.inl (by simp [SFree]))
    | done a =>
      obtain ⟨top, s, hm, hT⟩ := mapValue_top (unwrapCb (.done a)) s1 hS (unwrapCb_shape (.done a))
      simp only [unwrapValue, hm]; exact resultOfL_eq _ _ _ hT
    | failed a =>
      obtain ⟨top, s, hm, hT⟩ := mapValue_top (unwrapCb (.failed a)) s1 hS (unwrapCb_shape (.failed a))
      simp only [unwrapValue, hm]; exact resultOfL_eq _ _ _ hT
    | task a b c d =>
      obtain ⟨top, s, hm, hT⟩ := mapValue_top (unwrapCb (.task a b c d)) s1 hS (unwrapCb_shape (.task a b c d))
      simp only [unwrapValue, hm]; exact resultOfL_eq _ _ _ hT
    | chain a b =>
      obtain ⟨top, s, hm, hT⟩ := mapValue_top (unwrapCb (.chain a b)) s1 hS (unwrapCb_shape (.chain a b))
      simp only [unwrapValue, hm]; exact resultOfL_eq _ _ _ hT
    | unwrap a =>
      obtain ⟨top, s, hm, hT⟩ := mapValue_top (unwrapCb (.unwrap a)) s1 hS (unwrapCb_shape (.unwrap a))
      simp only [unwrapValue, hm]; exact resultOfL_eq _ _ _ hT
    | gather a b c =>
      obtain ⟨top, s, hm, hT⟩ := mapValue_top (unwrapCb (.gather a b c)) s1 hS (unwrapCb_shape (.gather a b c))
      simp only [unwrapValue, hm]; exact resultOfL_eq _ _ _ hT

private theorem executeFields_sfree (path : Path) (fields : Flds) (s : ExecSt) : ResSFree (executeFields path fields s).1 = true := by
  have h := resolveFields_sfree fields path s
  unfold executeFields
  cases hr : resolveFields path fields s with
  | mk r s1 =>
    rw [hr] at h
    cases r with
    | exc e => simp [ResSFree]
    | ok ns => exact mapValue_sfree applySimple _ (applySimple_sfree _) rfl _ s1 (gatherValues_sfree ns (by simpa [ResSFrees] using h))

private theorem flat_sfree (r : Res Node) (h : ResSFree r = true) : SFree (flat r) = true := by
  cases r with
  | exc e => simp [flat, SFree]
  | ok n => exact unwrapCb_sfree n (by simpa [ResSFree] using h)

private theorem loop_run_eq_finish (r : Res Node × ExecSt) (schedule : List Nat) :
    (match (match r with
        | (.exc e, s1) => ((.exc e, s1) : Res Node × ExecSt)
        | (.ok n, s1) => mapValue applyContL (unwrapValue n) .onFinish s1) with
      | (.exc e, s) => (⟨.failed e, s.trace, []⟩ : Result)
      | (.ok top, s) =>
        let r := Loop.runSched top s [] schedule
        ⟨outcomeOf r.top r.st, r.st.trace, r.sizes⟩) = finishLoop r.1 r.2 schedule := by
  obtain ⟨r, s1⟩ := r
  cases r with
  | exc e => rfl
  | ok n =>
    simp only [finishLoop]
    cases mapValue applyContL (unwrapValue n) .onFinish s1 with
    | mk r2 s2 => cases r2 <;> rfl

private theorem rec_run_eq_finish (r : Res Node × ExecSt) (schedule : List Nat) :
    (match (match r with
        | (.exc e, s1) => ((.exc e, s1) : Res Node × ExecSt)
        | (.ok n, s1) => mapValue applyCont (unwrapValue n) .onFinish s1) with
      | (.exc e, s) => (⟨.failed e, s.trace, []⟩ : Result)
      | (.ok top, s) =>
        let r := AsyncExec.runSched top s [] schedule
        ⟨outcomeOf r.top r.st, r.st.trace, r.sizes⟩) = finishRec r.1 r.2 schedule := by
  obtain ⟨r, s1⟩ := r
  cases r with
  | exc e => rfl
  | ok n =>
    simp only [finishRec]
    cases mapValue applyCont (unwrapValue n) .onFinish s1 with
    | mk r2 s2 => cases r2 <;> rfl

/-- **serial_loop_eq_recursive_run.** For EVERY operation (query or mutation) and EVERY completion order, the executor with
    today's LOOP form of `execute_fields_serially` and the executor with the RECURSIVE form produce the same result:
    same outcome (data and error list, in the same order), same trace of resolver call/done events, same queue lengths
    at every completion. Every theorem proved about `runAsync` (`serial_order`, `serial_queue_invariant`,
    `async_eq_blocking`, `always_terminates`, …) therefore holds of the loop form. -/
theorem serial_loop_eq_recursive_run (op : Op) (schedule : List Nat) :
    Loop.runAsync op schedule = AsyncExec.runAsync op schedule := by
  obtain ⟨kind, fields⟩ := op
  cases kind with
  | query =>
    have hS : MidShape (flat (executeFields [] fields {}).1) := Or.inl (flat_sfree _ (executeFields_sfree [] fields {}))
    have h1 := loop_run_eq_finish (executeFields [] fields {}) schedule
    have h2 := rec_run_eq_finish (executeFields [] fields {}) schedule
    have e1 : Loop.runAsync ⟨.query, fields⟩ schedule = finishLoop (executeFields [] fields {}).1 (executeFields [] fields {}).2 schedule := h1
    have e2 : AsyncExec.runAsync ⟨.query, fields⟩ schedule = finishRec (executeFields [] fields {}).1 (executeFields [] fields {}).2 schedule := h2
    rw [e1, e2, finishLoop_flat _ _ _ hS, finishRec_flat]
  | mutation =>
    have hA := serial_loop_eq_recursive_call [] fields [] {}
    have hS : MidShape (flat (serialLoop [] [] fields {}).1) := by rw [hA.1]; exact serialNext_shape [] fields [] {}
    have h1 := loop_run_eq_finish (serialLoop [] [] fields {}) schedule
    have h2 := rec_run_eq_finish (serialNext [] [] fields {}) schedule
    have e1 : Loop.runAsync ⟨.mutation, fields⟩ schedule = finishLoop (serialLoop [] [] fields {}).1 (serialLoop [] [] fields {}).2 schedule := h1
    have e2 : AsyncExec.runAsync ⟨.mutation, fields⟩ schedule = finishRec (serialNext [] [] fields {}).1 (serialNext [] [] fields {}).2 schedule := h2
    rw [e1, e2, finishLoop_flat _ _ _ hS, finishRec_flat, hA.1, hA.2]

/-- non-vacuity: a mutation whose first field arrives as an already FINISHED Future (`ready`) followed by a synchronous
    field that raises — the corner where the two forms differ as functions (the recursion stores the exception in the
    chain's Future, the loop lets it propagate out of `execute`): same `Result`. -/
example : Loop.runAsync ⟨.mutation, .cons "a" .ready (.ok (.leaf 1)) (.cons "b" .sync .exc .nil)⟩ []
    = AsyncExec.runAsync ⟨.mutation, .cons "a" .ready (.ok (.leaf 1)) (.cons "b" .sync .exc .nil)⟩ [] :=
  serial_loop_eq_recursive_run _ _
example : (match (Loop.serialLoop [] [] (.cons "a" .ready (.ok (.leaf 1)) (.cons "b" .sync .exc .nil)) {}).1,
                 (serialNext [] [] (.cons "a" .ready (.ok (.leaf 1)) (.cons "b" .sync .exc .nil)) {}).1 with
    | .exc .boom, .ok (.failed .boom) => true | _, _ => false) = true := by rfl

end PyGql.Props.C09

/-
  C09 — the LOOP form of `execute_fields_serially` (today's code, `AsyncExecLoop.lean`) against the RECURSIVE form
  (`AsyncExec.serialNext`, the one `serial_order`, `serial_queue_invariant`, … are proved about).

  `serial_loop_eq_recursive_call`: called on the same queue, the same accumulated fields and the same executor state,
  the two produce the SAME executor state (trace of resolver calls, errors, outstanding tasks) and the same Future up to
  `unwrap_future` (`flat`): the recursion wraps the rest of a run that follows an already finished Future in that
  Future's `chain` target (`done rest`, an exception of the rest stored in it), the loop returns the rest itself / lets
  the exception propagate — `execute` applies `unwrap_value` to the result at once, and an exception raised out of
  `execute` and a failed Future are the same outcome (`runAsync`).
-/
import PyGqlModel.AsyncExecLoop

set_option linter.unusedVariables false
set_option linter.unusedSimpArgs false

namespace PyGql.Props.C09
open PyGql.AsyncExec PyGql.AsyncExec.Loop

/-- what `unwrap_future` makes of the result of `_next()` (an exception raised synchronously = a failed Future) -/
def flat : Res Node → Node
  | .exc e => .failed e
  | .ok n => unwrapCb n

private theorem flat_done (x : Node) : flat (.ok (.done x)) = flat (.ok x) := by
  cases x with
  | val v => simp [flat, unwrapCb]
  | _ => simp [flat, unwrapCb]

/-- **serial_loop_eq_recursive_call** -/
theorem serial_loop_eq_recursive_call (path : Path) : ∀ (args : Flds) (resolved : List (String × V)) (s : ExecSt),
    flat (serialLoop path resolved args s).1 = flat (serialNext path resolved args s).1
      ∧ (serialLoop path resolved args s).2 = (serialNext path resolved args s).2
  | .nil, resolved, s => by simp [serialLoop, serialNext]
  | .cons key mode out args, resolved, s => by
    have ih := fun r s' => serial_loop_eq_recursive_call path args r s'
    simp only [serialLoop, serialNext]
    cases hr : resolveField (path ++ [.key key]) mode out s with
    | mk r s1 =>
      cases r with
      | exc e => simp
      | ok n =>
        cases n with
        | val x => cases x <;> simp [ih]
        | failed e => simp
        | task a b c d => simp
        | chain a b => simp
        | unwrap a => simp
        | gather a b c => simp
        | done r' =>
          cases r' with
          | val x =>
            cases x with
            | data v =>
              simp only
              have h := ih (resolved ++ [(key, v)]) s1
              cases hn : serialNext path (resolved ++ [(key, v)]) args s1 with
              | mk rn sn =>
                rw [hn] at h
                cases rn with
                | ok x => simp only [flat_done]; exact h
                | exc e => simpa [flat, unwrapCb] using h
            | raw c => simp
            | junk => simp
          | _ => simp

end PyGql.Props.C09

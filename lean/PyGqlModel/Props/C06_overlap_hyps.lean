/-
  C06 - property theorems, part 15: DISCHARGING THE SIDE CONDITIONS of the equivalence for
  `OverlappingFieldsCanBeMergedChecker` (`OverlapHyps` of `Props/C06_all.lean`).

  (1) `overlapSide_of_wf`: `OverlapSide` follows from
      * `WfIds d` - the selection-set nodes of the document have pairwise different identities. The harness uses the
        START OFFSET of the `SelectionSet` node (`corr/C06_model.py: _sub`), so every parsed document satisfies it; it
        is COMPUTABLE (`Validate/WfIds.lean: wfIdsB`, `wfIdsB_iff`) so that the driver can check it on every document
        it is sent;
      * fragment names non-empty (`NamesNonEmpty`, guaranteed by the parser) and pairwise distinct (the clause of
        UniqueFragmentNames);
      * fragment spreads acyclic (`Spec.noFragmentCycles`, the clause of NoFragmentCycles).
-/
import PyGqlModel.Props.C06_all
import PyGqlModel.Lemmas.ValidateOverlapWf2
import PyGqlModel.Props.C06_overlap_examples
namespace PyGql.Props.C06
open PyGql PyGql.Validate PyGql.Validate.Spec

/-- **(1) the side conditions about node identities and fragment names**, from well-formed identities, non-empty
    unique fragment names and acyclic fragment spreads -/
theorem overlapSide_of_wf (s : SchemaD) (d : Doc) (hw : WfIds d) (hne : NamesNonEmpty d)
    (hnd : (Spec.fragNames d).Nodup) (hac : Spec.noFragmentCycles d) : OverlapSide s d :=
  ⟨noEmptyName_of hne, subsNotBodies_of hw, spreadsApart_of hw hnd hac⟩

/-- the same with the computable check in the hypothesis -/
theorem overlapSide_of_wfB (s : SchemaD) (d : Doc) (hw : wfIdsB d = true) (hne : NamesNonEmpty d)
    (hnd : (Spec.fragNames d).Nodup) (hac : Spec.noFragmentCycles d) : OverlapSide s d :=
  overlapSide_of_wf s d ((wfIdsB_iff d).mp hw) hne hnd hac

/-! non-vacuity: the documents of `Props/C06_overlap_examples.lean` have well-formed identities (checked by
    evaluation), non-empty distinct fragment names and no cycles -/
example : wfIdsB (oDocFrag "a") = true := by decide
example : ¬ wfIdsB ⟨[opV [] 1 [.field none "o" [] [] true 1 [fld none "s"]]]⟩ = true := by decide

end PyGql.Props.C06

/-
  C03 — the statement `print ∘ parse = id` with its ONE exclusion stated as an explicit predicate.

  What keeps `print_parse` partial on today's code, exactly:
    * R4 (pinned by test_schema_kitchen_sink): the printer never prints the descriptions of fields, arguments, input
      fields and enum values.  `HasMemberDescription d` is the predicate "`d` carries such a description".
    * nothing else at the level of the model: `print_parse` below is the FULL statement for every accepted text, every
      flag combination with `no_location`, every indentation over {space, tab}, for all trees without a member description,
      and `print_parse_iff` shows the exclusion is EXACT — a parsed tree round-trips if and only if it has no member
      description (so no second hidden class of losses exists in the model).
    * R7 (RecursionError on trees nested a few hundred levels deep) is a divergence of the recursive Python implementation
      from the total model (`print_deep_list`), not a failure of the statement for the model; it stays a known finding.
    * `include_descriptions = False` is outside the statement (the property says "include_descriptions on").
-/
import PyGqlModel.Props.C03_print
namespace PyGql.Props.C03
open PyGql PyGql.Ast PyGql.Parse PyGql.Spec PyGql.Print PyGql.Lex

/-- the pinned finding R4 as a predicate on trees: some field, argument, input field or enum value of a type-system
    definition (or some argument of a directive definition) carries a description -/
def HasMemberDescription (d : Document) : Prop := stripMemberDescriptions d ≠ d

/-- THE STATEMENT OF C03 EXCEPT THE PINNED FINDING: every accepted text whose tree has no member description -/
def PrintParseExceptR4Statement : Prop :=
  ∀ (fl : Flags) (c : Cfg) (x : Text) (toks : List Tok) (d : Document),
    fl.noLocation = true → c.includeDescriptions = true → IndentOK c →
    lexAll x = .ok toks → parseDocument fl toks = .ok d → ¬ HasMemberDescription d →
    ∃ toks', lexAll (printDocument c d) = .ok toks' ∧ parseDocument fl toks' = .ok d

/-- **print_parse** — the full statement for everything except the pinned finding R4 -/
theorem print_parse : PrintParseExceptR4Statement := by
  intro fl c x toks d hnl hdesc hind hlex hparse hm
  exact print_parse_exact fl c x toks d hnl hdesc hind hlex hparse (Classical.not_not.1 hm)

/-- **print_parse_iff** — the exclusion is exact: a parsed tree is reproduced by print + parse IF AND ONLY IF it has no
    member description -/
theorem print_parse_iff (fl : Flags) (c : Cfg) (x : Text) (toks : List Tok) (d : Document)
    (hnl : fl.noLocation = true) (hdesc : c.includeDescriptions = true) (hind : IndentOK c)
    (hlex : lexAll x = .ok toks) (hparse : parseDocument fl toks = .ok d) :
    (∃ toks', lexAll (printDocument c d) = .ok toks' ∧ parseDocument fl toks' = .ok d) ↔ ¬ HasMemberDescription d := by
  obtain ⟨t0, h0, p0⟩ := print_parse_modulo_members fl c x toks d hnl hdesc hind hlex hparse
  constructor
  · rintro ⟨t1, h1, p1⟩ hm
    rw [h0] at h1
    cases h1
    rw [p0] at p1
    exact hm (Except.ok.inj p1)
  · intro hm
    exact print_parse fl c x toks d hnl hdesc hind hlex hparse hm

/-- what is lost is only that: the re-parsed tree is the original without member descriptions, and printing it again gives
    the same text (`print_stable`) -/
theorem print_parse_loss (fl : Flags) (c : Cfg) (x : Text) (toks : List Tok) (d : Document)
    (hnl : fl.noLocation = true) (hdesc : c.includeDescriptions = true) (hind : IndentOK c)
    (hlex : lexAll x = .ok toks) (hparse : parseDocument fl toks = .ok d) :
    ∃ toks', lexAll (printDocument c d) = .ok toks' ∧ parseDocument fl toks' = .ok (stripMemberDescriptions d) ∧
      printDocument c (stripMemberDescriptions d) = printDocument c d :=
  let ⟨t, a, b⟩ := print_parse_modulo_members fl c x toks d hnl hdesc hind hlex hparse
  ⟨t, a, b, print_ignores_member_descriptions c d⟩

/-! ### "every indentation setting": the `indent` ARGUMENT of `ASTPrinter` / `print_ast`

The theorems above quantify over every configuration `c` with `IndentOK c` (an indent STRING over {space, tab}).  The
argument of the Python API is an int or a string; `mkCfg` is `ASTPrinter.__init__` (`indent * " "` for an int — the empty
string for a negative one).  `print_parse_every_indent_arg` instantiates the statement for EVERY int and every string over
{space, tab}; `indent_content_refuted` shows the restriction on strings is needed: any other character is content. -/

/-- the admissible `indent` arguments: every int, and the strings over {space, tab} -/
def IndentArgOK : IndentArg → Prop
  | .width _ => True
  | .str s => ∀ ch ∈ s, ch = 32 ∨ ch = 9

/-- `indentOK_of_arg` — `ASTPrinter.__init__` turns every admissible argument into a layout-only indent string -/
theorem indentOK_of_arg (ind : IndentArg) (desc : Bool) (h : IndentArgOK ind) : IndentOK (mkCfg ind desc) := by
  intro ch hc
  cases ind with
  | width n => simp only [mkCfg, List.mem_replicate] at hc; exact Or.inl hc.2
  | str s => exact h ch hc

/-- **print_parse_every_indent_arg** — `print_parse` for every value of the `indent` argument: ALL ints (negative ones
    print like 0) and all strings over {space, tab} -/
theorem print_parse_every_indent_arg (fl : Flags) (ind : IndentArg) (hind : IndentArgOK ind) (x : Text) (toks : List Tok)
    (d : Document) (hnl : fl.noLocation = true) (hlex : lexAll x = .ok toks) (hparse : parseDocument fl toks = .ok d)
    (hm : ¬ HasMemberDescription d) :
    ∃ toks', lexAll (printDocument (mkCfg ind) d) = .ok toks' ∧ parseDocument fl toks' = .ok d :=
  print_parse fl (mkCfg ind) x toks d hnl rfl (indentOK_of_arg ind true hind) hlex hparse hm

/-- … and the same for the statement modulo member descriptions and for stability -/
theorem print_parse_loss_every_indent_arg (fl : Flags) (ind : IndentArg) (hind : IndentArgOK ind) (x : Text) (toks : List Tok)
    (d : Document) (hnl : fl.noLocation = true) (hlex : lexAll x = .ok toks) (hparse : parseDocument fl toks = .ok d) :
    ∃ toks', lexAll (printDocument (mkCfg ind) d) = .ok toks' ∧ parseDocument fl toks' = .ok (stripMemberDescriptions d) ∧
      printDocument (mkCfg ind) (stripMemberDescriptions d) = printDocument (mkCfg ind) d :=
  print_parse_loss fl (mkCfg ind) x toks d hnl rfl (indentOK_of_arg ind true hind) hlex hparse

/-- `{a}` -/
def fieldAText : Text := [123, 97, 125]

/-- **indent_content_refuted** — the domain of "every indentation setting" cannot be larger: with the indent string `x`
    the document `{a}` is printed as `{⏎xa⏎}⏎` and read back as the field `xa` -/
theorem indent_content_refuted :
    ∃ toks d, lexAll fieldAText = .ok toks ∧ parseDocument r4Flags toks = .ok d ∧
      ∃ toks' d', lexAll (printDocument (mkCfg (.str [120])) d) = .ok toks' ∧ parseDocument r4Flags toks' = .ok d' ∧ d' ≠ d :=
  ⟨_, _, rfl, rfl, _, _, rfl, rfl, fun h => absurd (congrArg (printDocument (mkCfg (.width 0))) h) (by decide)⟩

example : IndentArgOK (.width (-3)) ∧ IndentArgOK (.width 0) ∧ IndentArgOK (.width 17) ∧ IndentArgOK (.str [32, 9, 32]) :=
  ⟨trivial, trivial, trivial, by intro ch hc; simp at hc; rcases hc with h | h | h <;> simp [h]⟩
example : (mkCfg (.width (-3))).indent = [] ∧ (mkCfg (.width 3)).indent = [32, 32, 32] := ⟨rfl, rfl⟩

/-! ### non-vacuity -/

/-- `enum E {A}`: accepted, no member description — the statement applies -/
def plainEnumText : Text := [101, 110, 117, 109, 32, 69, 32, 123, 65, 125]

example : ∃ toks, lexAll plainEnumText = .ok toks ∧ parseDocument r4Flags toks = .ok (r4Doc none) := ⟨_, rfl, rfl⟩
example : ¬ HasMemberDescription (r4Doc none) := fun h => h rfl
example : ∃ toks', lexAll (printDocument (mkCfg (.width 2)) (r4Doc none)) = .ok toks' ∧ parseDocument r4Flags toks' = .ok (r4Doc none) :=
  print_parse r4Flags (mkCfg (.width 2)) plainEnumText _ _ rfl rfl (by intro ch hc; simp [mkCfg] at hc; exact Or.inl hc) rfl rfl
    (fun h => h rfl)
/-- … and the R4 witness is excluded by the predicate, as it must be -/
example : HasMemberDescription (r4Doc (some ⟨[], false, none⟩)) := by
  intro h; simp [stripMemberDescriptions, stripDef, stripEV, r4Doc] at h

end PyGql.Props.C03

/-
  C03 — the statement `print ∘ parse = id` with its ONE exclusion stated as an explicit predicate.

  What keeps `print_parse` partial on today's code, exactly:
    * R4 (pinned by test_schema_kitchen_sink): the printer never prints the descriptions of fields, arguments, input
      fields and enum values.  `HasMemberDescription d` is the predicate "`d` carries such a description".
    * nothing else at the level of the model: `print_parse` below is the FULL statement for every accepted text, every
      flag combination with `no_location`, every indentation over {space, tab}, for all trees without a member description,
      and `print_parse_iff` shows the exclusion is EXACT — a parsed tree round-trips if and only if it has no member
      description (so no second hidden class of losses exists in the model).
    * R7 (RecursionError on trees nested a few hundred levels deep) is a divergence of the recursive Python implementation
      from the total model (`print_deep_list`), not a failure of the statement for the model; it stays a known finding.
    * `include_descriptions = False` is outside the statement (the property says "include_descriptions on").
-/
import PyGqlModel.Props.C03_print
namespace PyGql.Props.C03
open PyGql PyGql.Ast PyGql.Parse PyGql.Spec PyGql.Print PyGql.Lex

/-- the pinned finding R4 as a predicate on trees: some field, argument, input field or enum value of a type-system
    definition (or some argument of a directive definition) carries a description -/
def HasMemberDescription (d : Document) : Prop := stripMemberDescriptions d ≠ d

/-- THE STATEMENT OF C03 EXCEPT THE PINNED FINDING: every accepted text whose tree has no member description -/
def PrintParseExceptR4Statement : Prop :=
  ∀ (fl : Flags) (c : Cfg) (x : Text) (toks : List Tok) (d : Document),
    fl.noLocation = true → c.includeDescriptions = true → IndentOK c →
    lexAll x = .ok toks → parseDocument fl toks = .ok d → ¬ HasMemberDescription d →
    ∃ toks', lexAll (printDocument c d) = .ok toks' ∧ parseDocument fl toks' = .ok d

/-- **print_parse** — the full statement for everything except the pinned finding R4 -/
theorem print_parse : PrintParseExceptR4Statement := by
  intro fl c x toks d hnl hdesc hind hlex hparse hm
  exact print_parse_exact fl c x toks d hnl hdesc hind hlex hparse (Classical.not_not.1 hm)

/-- **print_parse_iff** — the exclusion is exact: a parsed tree is reproduced by print + parse IF AND ONLY IF it has no
    member description -/
theorem print_parse_iff (fl : Flags) (c : Cfg) (x : Text) (toks : List Tok) (d : Document)
    (hnl : fl.noLocation = true) (hdesc : c.includeDescriptions = true) (hind : IndentOK c)
    (hlex : lexAll x = .ok toks) (hparse : parseDocument fl toks = .ok d) :
    (∃ toks', lexAll (printDocument c d) = .ok toks' ∧ parseDocument fl toks' = .ok d) ↔ ¬ HasMemberDescription d := by
  obtain ⟨t0, h0, p0⟩ := print_parse_modulo_members fl c x toks d hnl hdesc hind hlex hparse
  constructor
  · rintro ⟨t1, h1, p1⟩ hm
    rw [h0] at h1
    cases h1
    rw [p0] at p1
    exact hm (Except.ok.inj p1)
  · intro hm
    exact print_parse fl c x toks d hnl hdesc hind hlex hparse hm

/-- what is lost is only that: the re-parsed tree is the original without member descriptions, and printing it again gives
    the same text (`print_stable`) -/
theorem print_parse_loss (fl : Flags) (c : Cfg) (x : Text) (toks : List Tok) (d : Document)
    (hnl : fl.noLocation = true) (hdesc : c.includeDescriptions = true) (hind : IndentOK c)
    (hlex : lexAll x = .ok toks) (hparse : parseDocument fl toks = .ok d) :
    ∃ toks', lexAll (printDocument c d) = .ok toks' ∧ parseDocument fl toks' = .ok (stripMemberDescriptions d) ∧
      printDocument c (stripMemberDescriptions d) = printDocument c d :=
  let ⟨t, a, b⟩ := print_parse_modulo_members fl c x toks d hnl hdesc hind hlex hparse
  ⟨t, a, b, print_ignores_member_descriptions c d⟩

/-! ### non-vacuity -/

/-- `enum E {A}`: accepted, no member description — the statement applies -/
def plainEnumText : Text := [101, 110, 117, 109, 32, 69, 32, 123, 65, 125]

example : ∃ toks, lexAll plainEnumText = .ok toks ∧ parseDocument r4Flags toks = .ok (r4Doc none) := ⟨_, rfl, rfl⟩
example : ¬ HasMemberDescription (r4Doc none) := fun h => h rfl
example : ∃ toks', lexAll (printDocument (mkCfg (.width 2)) (r4Doc none)) = .ok toks' ∧ parseDocument r4Flags toks' = .ok (r4Doc none) :=
  print_parse r4Flags (mkCfg (.width 2)) plainEnumText _ _ rfl rfl (by intro ch hc; simp [mkCfg] at hc; exact Or.inl hc) rfl rfl
    (fun h => h rfl)
/-- … and the R4 witness is excluded by the predicate, as it must be -/
example : HasMemberDescription (r4Doc (some ⟨[], false, none⟩)) := by
  intro h; simp [stripMemberDescriptions, stripDef, stripEV, r4Doc] at h

end PyGql.Props.C03

/-
  C19 — `selected_fields` (the mechanism the property anchors name; public API, also
  `ResolveInfo.selected_fields`) under a theorem of its own.

  `selected_fields_complete`: on a valid document every selected field path of the field's selection set —
  through inline fragments and named fragments, `@skip/@include` honoured, at most `maxdepth` components
  (`0`/`None` = unbounded), matching `pattern` — is listed, and nothing is raised. Aliases of the same
  field and several fields under one response key included. Model = `_selected_paths` AFTER
  proposed_fixes/C19-Q1sf.patch; the unchanged code (descends into `fields[0]` only) refutes it
  (`selected_fields_orig_incomplete`).

  Validity is used through: `acyclic`, `VarsBound`-style boundness, and `keysL nm` — a response key
  determines the field name (what OverlappingFieldsCanBeMerged guarantees inside one merged scope; taken
  here in its global form: one `nm` for the selection and all fragments).
-/
import PyGqlModel.Props.C19_orig
import PyGqlModel.Lemmas.DepthPaths

set_option linter.unusedVariables false
set_option linter.unusedSimpArgs false

namespace PyGql.Props.C19
open PyGql.Depth PyGql.DepthSpec PyGql.Depth.Lemmas

private theorem pathsLoop_total (vars : Vars) (w : String → Nat) (K md : Nat) (pat : List String → Bool)
    (path : List String) (rec : List Sel → List String → Except Err (List (List String)))
    (hrec : ∀ ss q, potL w ss + 1 ≤ K → boundL vars ss = true → ∃ out, rec ss q = .ok out) :
    ∀ (G : Grouped) (acc : List (List String)), GInv (FldOk vars w K) G →
      ∃ out, pathsLoop rec md pat path acc G = .ok out := by
  intro G
  induction G with
  | nil => intro acc _; exact ⟨acc, rfl⟩
  | cons kv rest ih =>
    intro acc hg
    obtain ⟨k, fields⟩ := kv
    have hhead := hg (k, fields) (by simp)
    have hrest : GInv (FldOk vars w K) rest := fun kv h => hg kv (by simp [h])
    cases fields with
    | nil => exact absurd rfl hhead.1
    | cons child more =>
      have hun : ∀ acc, pathsLoop rec md pat path acc ((k, child :: more) :: rest) =
          (if descend md path.length = true then
            match rec ((child :: more).flatMap (·.sub)) (path ++ [child.name]) with
            | .error e => .error e
            | .ok sub => pathsLoop rec md pat path
                ((if pat (path ++ [child.name]) = true then acc ++ [path ++ [child.name]] else acc) ++ sub) rest
          else pathsLoop rec md pat path
                (if pat (path ++ [child.name]) = true then acc ++ [path ++ [child.name]] else acc) rest) :=
        fun _ => rfl
      rw [hun]
      by_cases hd : descend md path.length = true
      · rw [if_pos hd]
        have hp := potL_flatMap_sub vars w K (child :: more) hhead.2
        have hb := boundL_flatMap_sub vars w K (child :: more) hhead.2
        rcases hp with hp | hp
        · obtain ⟨sub, hs⟩ := hrec _ (path ++ [child.name]) hp hb
          rw [hs]
          exact ih _ hrest
        · cases hp
      · rw [if_neg hd]
        exact ih _ hrest

private theorem selectedPaths_total (frags : List Frag) (vars : Vars) (w : String → Nat) (hc : Consistent frags w)
    (hfb : ∀ f ∈ frags, boundL vars f.sels = true) (md : Nat) (pat : List String → Bool) :
    ∀ (K : Nat) (sels : List Sel) (path : List String), potL w sels ≤ K → boundL vars sels = true →
      ∃ out, selectedPaths (K + 1) sels frags vars md pat path = .ok out := by
  intro K
  induction K with
  | zero =>
    intro sels path hp hb
    obtain ⟨G, S', e, _, _, _, c4⟩ := collect_ok frags vars w hc hfb 0 sels [] hp hb
    have hun : selectedPaths (0 + 1) sels frags vars md pat path =
        (match collectFieldsUntyped (0 + 1) sels frags vars [] with
         | .error e => .error e
         | .ok (collected, _) =>
           pathsLoop (fun s p => selectedPaths 0 s frags vars md pat p) md pat path [] collected) := rfl
    rw [hun, e]
    exact pathsLoop_total vars w 0 md pat path _ (fun ss q h => by omega) G [] c4
  | succ K ih =>
    intro sels path hp hb
    obtain ⟨G, S', e, _, _, _, c4⟩ := collect_ok frags vars w hc hfb (K + 1) sels [] hp hb
    have hun : selectedPaths (K + 1 + 1) sels frags vars md pat path =
        (match collectFieldsUntyped (K + 1 + 1) sels frags vars [] with
         | .error e => .error e
         | .ok (collected, _) =>
           pathsLoop (fun s p => selectedPaths (K + 1) s frags vars md pat p) md pat path [] collected) := rfl
    rw [hun, e]
    exact pathsLoop_total vars w (K + 1) md pat path _ (fun ss q h hb' => ih ss q (by omega) hb') G [] c4

/-- **selected_fields_complete** (general form) — for a selection set `sub` (the field's `selection_set`) over
    acyclic fragments, bound directive variables and key-consistent names, with any sufficient fuel:
    `selected_fields` returns a list, and every selected path within `maxdepth` that matches the pattern is in it. -/
theorem selected_fields_complete (frags : List Frag) (vars : Vars) (ha : acyclic frags = true)
    (hfb : ∀ f ∈ frags, boundL vars f.sels = true) (nm : String → String)
    (hfk : ∀ f ∈ frags, keysL nm f.sels = true)
    (sub : List Sel) (hb : boundL vars sub = true) (hk : keysL nm sub = true)
    (fuel : Nat) (hfuel : potL (wOf (weights frags)) sub + 1 ≤ fuel) (md : Nat) (pat : List String → Bool) :
    ∃ out, selectedFields fuel sub frags vars md pat [] = .ok out ∧
      ∀ p, IsPath frags vars sub p → (md = 0 ∨ p.length ≤ md) → pat p = true → p ∈ out := by
  have hc : Consistent frags (wOf (weights frags)) := by
    intro f hf
    simp only [acyclic, List.all_eq_true, decide_eq_true_eq] at ha
    exact ha f hf
  obtain ⟨K, rfl⟩ : ∃ K, fuel = K + 1 := ⟨fuel - 1, by omega⟩
  cases sub with
  | nil =>
    refine ⟨[], rfl, ?_⟩
    intro p hp
    cases hp with
    | leaf hr => obtain ⟨s, hs, _⟩ := hr; cases hs
    | step hr _ => obtain ⟨s, hs, _⟩ := hr; cases hs
  | cons s ss =>
    obtain ⟨out, ho⟩ := selectedPaths_total frags vars _ hc hfb md pat K (s :: ss) [] (by omega) hb
    refine ⟨out, ho, ?_⟩
    intro p hp hmd hpat
    have := selectedPaths_complete frags vars nm hfk md pat (K + 1) (s :: ss) [] out ho hk p hp
      (by simpa using hmd) (by simpa using hpat)
    simpa using this

/-- **selected_fields_exact** — soundness added to completeness: the listed paths are EXACTLY the selected
    field paths (through fragments, `@skip/@include` honoured) with at most `maxdepth` components
    (`0`/`None` = unbounded) that match the pattern — as sets; for every selection, fragment set,
    variables, `maxdepth` and pattern. -/
theorem selected_fields_exact (frags : List Frag) (vars : Vars) (ha : acyclic frags = true)
    (hfb : ∀ f ∈ frags, boundL vars f.sels = true) (nm : String → String)
    (hfk : ∀ f ∈ frags, keysL nm f.sels = true)
    (sub : List Sel) (hb : boundL vars sub = true) (hk : keysL nm sub = true)
    (fuel : Nat) (hfuel : potL (wOf (weights frags)) sub + 1 ≤ fuel) (md : Nat) (pat : List String → Bool) :
    ∃ out, selectedFields fuel sub frags vars md pat [] = .ok out ∧
      ∀ q, q ∈ out ↔ (IsPath frags vars sub q ∧ (md = 0 ∨ q.length ≤ md) ∧ pat q = true) := by
  obtain ⟨out, ho, hcomp⟩ := selected_fields_complete frags vars ha hfb nm hfk sub hb hk fuel hfuel md pat
  refine ⟨out, ho, ?_⟩
  intro q
  constructor
  · intro hq
    cases sub with
    | nil => simp [selectedFields] at ho; subst ho; cases hq
    | cons s ss =>
      have ho' : selectedPaths fuel (s :: ss) frags vars md pat [] = .ok out := ho
      have hpre : md = 0 ∨ ([] : List String).length < md := by
        cases md with
        | zero => exact Or.inl rfl
        | succ m => exact Or.inr (by simp)
      obtain ⟨p, hqe, hp, hbnd, hpat⟩ := selectedPaths_sound frags vars nm hfk md pat fuel (s :: ss) [] out ho' hk hpre q hq
      simp at hqe
      subst hqe
      exact ⟨hp, hbnd, hpat⟩
  · rintro ⟨hp, hbnd, hpat⟩
    exact hcomp q hp hbnd hpat

/-- soundness alone, for the record: every listed path is a selected path of the reference semantics -/
theorem selected_fields_sound (frags : List Frag) (vars : Vars) (ha : acyclic frags = true)
    (hfb : ∀ f ∈ frags, boundL vars f.sels = true) (nm : String → String)
    (hfk : ∀ f ∈ frags, keysL nm f.sels = true)
    (sub : List Sel) (hb : boundL vars sub = true) (hk : keysL nm sub = true)
    (fuel : Nat) (hfuel : potL (wOf (weights frags)) sub + 1 ≤ fuel) (md : Nat) (pat : List String → Bool)
    (out : List (List String)) (ho : selectedFields fuel sub frags vars md pat [] = .ok out) :
    ∀ q ∈ out, IsPath frags vars sub q ∧ (md = 0 ∨ q.length ≤ md) ∧ pat q = true := by
  obtain ⟨out', ho', hex⟩ := selected_fields_exact frags vars ha hfb nm hfk sub hb hk fuel hfuel md pat
  rw [ho] at ho'
  cases ho'
  exact fun q hq => (hex q).mp hq

/-! #### since /repo 4c46ee1 the look-ahead helper is LENIENT (`skip_selection=_skip_unless_unevaluable`) -/

mutual
private theorem keysSel_erase (vars : Vars) (nm : String → String) : ∀ s : Sel, keysSel nm (eraseSel vars s) = keysSel nm s
  | .field a n d sub => by simp only [eraseSel, keysSel]; rw [keysL_erase vars nm sub]
  | .inline d ss => by simp only [eraseSel, keysSel]; rw [keysL_erase vars nm ss]
  | .spread n d => by simp [eraseSel, keysSel]
private theorem keysL_erase (vars : Vars) (nm : String → String) : ∀ l : List Sel, keysL nm (eraseL vars l) = keysL nm l
  | [] => by simp [eraseL]
  | s :: ss => by rw [eraseL_cons, keysL_cons, keysL_cons, keysSel_erase vars nm s, keysL_erase vars nm ss]
end

/-- **selected_fields_exact_lenient** — the lenient `selected_fields` (a `@skip/@include` that cannot be
    evaluated keeps the selection; it never raises `CoercionError`): NO hypothesis on the variables. The listed paths
    are exactly the selected paths of the selection in which the unevaluable directives are dropped, within
    `maxdepth`, matching the pattern. -/
theorem selected_fields_exact_lenient (frags : List Frag) (vars : Vars) (ha : acyclic frags = true)
    (nm : String → String) (hfk : ∀ f ∈ frags, keysL nm f.sels = true)
    (sub : List Sel) (hk : keysL nm sub = true)
    (fuel : Nat) (hfuel : potL (wOf (weights frags)) sub + 1 ≤ fuel) (md : Nat) (pat : List String → Bool) :
    ∃ out, selectedFieldsG skipSelectionT fuel sub frags vars md pat [] = .ok out ∧
      ∀ q, q ∈ out ↔ (IsPath (eraseFrags vars frags) vars (eraseL vars sub) q ∧ (md = 0 ∨ q.length ≤ md) ∧ pat q = true) := by
  rw [← selectedFields_sim]
  apply selected_fields_exact (eraseFrags vars frags) vars (by rw [acyclic_erase]; exact ha)
  · intro f hf
    simp only [eraseFrags, List.mem_map] at hf
    obtain ⟨g, _, rfl⟩ := hf
    exact boundL_erase vars g.sels
  · intro f hf
    simp only [eraseFrags, List.mem_map] at hf
    obtain ⟨g, hg, rfl⟩ := hf
    show keysL nm (eraseL vars g.sels) = true
    rw [keysL_erase]; exact hfk g hg
  · exact boundL_erase vars sub
  · rw [keysL_erase]; exact hk
  · rw [weights_erase, potL_erase]; exact hfuel

/-- when every directive variable is available the lenient helper lists exactly what the strict one lists -/
theorem selected_fields_lenient_eq_strict (frags : List Frag) (vars : Vars)
    (hfb : ∀ f ∈ frags, boundL vars f.sels = true) (sub : List Sel) (hb : boundL vars sub = true)
    (fuel md : Nat) (pat : List String → Bool) (path : List String) :
    selectedFieldsG skipSelectionT fuel sub frags vars md pat path = selectedFields fuel sub frags vars md pat path := by
  rw [← selectedFields_sim, eraseL_id vars sub hb]
  have : eraseFrags vars frags = frags := by
    unfold eraseFrags
    have h : ∀ f ∈ frags, eraseFrag vars f = f := by
      intro f hf
      unfold eraseFrag
      rw [eraseL_id vars f.sels (hfb f hf)]
    rw [List.map_congr_left h, List.map_id']
  rw [this]

/-- the strict helper raised on an unavailable variable (the behaviour before 4c46ee1); the lenient one keeps the
    selection -/
theorem selected_fields_unavailable :
    selectedFields 9 [.field none "a" { skip := some (.var "v") } [fld "c"]] [] [] 0 (fun _ => true) [] = .error .coercion ∧
    selectedFieldsG skipSelectionT 9 [.field none "a" { skip := some (.var "v") } [fld "c"]] [] [] 0 (fun _ => true) []
      = .ok [["a"], ["a", "c"]] := by decide

/-- the same for a direct field of an operation of a valid document, with the driver's fuel — the call
    `selected_fields(field, fragments=doc.fragments, variables=vars, maxdepth=md, pattern=pat)` -/
theorem selected_fields_complete_op (doc : Doc) (vars : Vars) (hv : Valid doc vars) (nm : String → String)
    (hfk : ∀ f ∈ doc.frags, keysL nm f.sels = true) (op : Op) (hop : op ∈ doc.ops)
    (hok : keysL nm op.sels = true) (a n d sub) (hf : Sel.field a n d sub ∈ op.sels)
    (md : Nat) (pat : List String → Bool) :
    ∃ out, selectedFields doc.fuel sub doc.frags vars md pat [] = .ok out ∧
      ∀ p, IsPath doc.frags vars sub p → (md = 0 ∨ p.length ≤ md) → pat p = true → p ∈ out := by
  have hb := boundL_mem vars op.sels _ (hv.2.1 op hop) hf
  have hk := keysL_mem nm op.sels _ hok hf
  simp only [boundSel, keysSel, Bool.and_eq_true] at hb hk
  have hp := pot_le_potL (wOf (weights doc.frags)) op.sels _ hf
  rw [pot_field] at hp
  have hfu : potL (wOf (weights doc.frags)) op.sels + 1 ≤ doc.fuel := by
    unfold Doc.fuel
    have hm : potL (wOf (weights doc.frags)) op.sels ∈ doc.ops.map (fun op => potL (wOf (weights doc.frags)) op.sels) :=
      List.mem_map_of_mem (f := fun op => potL (wOf (weights doc.frags)) op.sels) hop
    have : ∀ (l : List Nat) (x : Nat), x ∈ l → x ≤ maxList l := by
      intro l
      induction l with
      | nil => intro x h; cases h
      | cons y ys ih =>
        intro x h
        simp only [maxList]
        cases h with
        | head => omega
        | tail _ h => have := ih x h; omega
    have := this _ _ hm
    omega
  exact selected_fields_complete doc.frags vars hv.1 hv.2.2 nm hfk sub hb.2 hk.2 doc.fuel (by omega) md pat

/-! ### non-vacuity and the refutation on the unchanged `selected_fields` -/

/-- aliases of the same field: BOTH are descended into (the path `a` is listed twice, `a/a/c` is found) -/
example : selectedFields 9 [ali "x" "a" [fld "c"], ali "y" "a" [fld "a" [fld "c"]]] [] [] 0 (fun _ => true) []
    = .ok [["a"], ["a", "c"], ["a"], ["a", "a"], ["a", "a", "c"]] := by decide

/-- maxdepth and pattern -/
example : selectedFields 9 [ali "x" "a" [fld "c"], ali "y" "a" [fld "a" [fld "c"]]] [] [] 2 (fun p => p.length == 2) []
    = .ok [["a", "c"], ["a", "a"]] := by decide

def sameKeySub : List Sel := [ali "x" "a" [fld "c"], ali "x" "a" [fld "d" [fld "e"]]]

/-- `a/d` is a selected path of `{ x: a { c } x: a { d { e } } }` … -/
theorem sameKey_path : IsPath [] [] sameKeySub ["a", "d"] :=
  .step (f := ⟨some "x", "a", [fld "d" [fld "e"]]⟩)
    ⟨.field (some "x") "a" {} [fld "d" [fld "e"]], by simp [sameKeySub, ali], .field (some "x") "a" {} _ (by decide)⟩
    (.leaf (f := ⟨none, "d", [fld "e"]⟩)
      ⟨.field none "d" {} [fld "e"], by simp [fld], .field none "d" {} _ (by decide)⟩)

/-- … the fixed `selected_fields` lists it, the unchanged one (first field of the group only) does not -/
theorem selected_fields_orig_incomplete :
    selectedFields 9 sameKeySub [] [] 0 (fun _ => true) [] = .ok [["a"], ["a", "c"], ["a", "d"], ["a", "d", "e"]] ∧
    selectedFieldsOrig 9 sameKeySub [] [] 0 [] = .ok [["a"], ["a", "c"]] := by decide

/-- the full statement for an arbitrary implementation, and its refutation for the unchanged code -/
def SelectedFieldsComplete (sf : Nat → List Sel → List Frag → Vars → Nat → List String → Except Err (List (List String))) : Prop :=
  ∀ (sub : List Sel) (nm : String → String), keysL nm sub = true → boundL [] sub = true →
    ∀ out, sf (potL (wOf (weights [])) sub + 1) sub [] [] 0 [] = .ok out → ∀ p, IsPath [] [] sub p → p ∈ out

theorem selected_fields_orig_refuted : ¬ SelectedFieldsComplete selectedFieldsOrig := by
  intro h
  have := h sameKeySub (fun k => if k == "x" then "a" else k) (by decide) (by decide)
    [["a"], ["a", "c"]] (by decide) ["a", "d"] sameKey_path
  simp at this

end PyGql.Props.C19

/-
  C14 — property theorems about the object-heap model (`PyGqlModel/Heap.lean`, `HeapExt.lean`).

  Specification:
  * `Frame h h'`      — no object of `h` was written (identities included) and none disappeared;
  * `closedB h s`     — every reference reachable through fields, arguments, input fields, interfaces, union
                         members, directive arguments and root operations is THE object registered under its name;
  * intactness        — the result registers every name of the source (minus what the operation hid);
  * preservation      — resolvers, default / type resolvers, python names, defaults, descriptions, deprecations.

  What is proved for ALL heaps / schemas / extension documents / predicates:
  `healed_registered`, `healedRefs_registered` (every reference the heal visitor writes is the registered object),
  `extend_frames_source` (full: `extend_schema` never writes an object of the source, for every variant of the code),
  `clone_copy_frames_source_partial` (the copying phase of `clone`), `busted_accumulates` (T3, fixed variant),
  `visibility_hides_type_partial`.
  What is proved by evaluation on the Dog/Pet witness (machine-checked with `decide`): the refutations of the full
  statements for the code of the unchanged tree (`Cfg.legacy`: T1, T2, T3, S2, T4) and their validity on the same
  witness for the fixed code (`Cfg.fixed`). The full statements stay visible as `def … : Prop`.
-/
import PyGqlModel.Heap
import PyGqlModel.HeapExt
import PyGqlModel.Generated.HeapCfg
import PyGqlModel.Props.C14_config

set_option linter.unusedSimpArgs false
set_option linter.unusedVariables false

namespace PyGql.Props.C14
open PyGql.Heap

/-! ### specification -/

/-- frame condition: every object of `h` is still there, unwritten -/
def Frame (h h' : Heap) : Prop := h.size ≤ h'.size ∧ ∀ a, a < h.size → h'.read a = h.read a

/-- names registered in `s` -/
def names (s : Schema) : List String := s.types.map (·.1)

/-- FULL statement (T2): cloning / clone-based transforms never write an object of the source heap -/
def CloneFramesSource (cfg : Cfg) : Prop :=
  ∀ fuel vs s h h' s', transform cfg fuel vs s h = some (h', s') → Frame h h'

/-- FULL statement (T1 + closedness): a clone is closed and registers exactly the names of its (closed) source -/
def CloneClosedIntact (cfg : Cfg) : Prop :=
  ∀ fuel s h h' s', closedB h s = true → clone cfg fuel s h = some (h', s') →
    closedB h' s' = true ∧ ∀ n, n ∈ names s → n ∈ names s'

/-- FULL statement (T3): after `_replace_types_and_directives` on a closed schema the schema is closed -/
def ReplaceClosed (cfg : Cfg) : Prop :=
  ∀ fuel s h ut h' s', closedB h s = true → replaceTD cfg fuel s h ut [] = some (h', s') → closedB h' s' = true

/-- FULL statement (S2, type resolvers): extension keeps `resolve_type` of every registered interface / union -/
def ExtendKeepsTypeResolvers (cfg : Cfg) : Prop :=
  ∀ ext s h n a t, (n, a) ∈ s.types → h.readType a = some t →
    ∃ a' t', lookup (extend cfg ext s h).2.types n = some a' ∧ (extend cfg ext s h).1.readType a' = some t' ∧ t'.rtype = t.rtype

/-! ### heap primitives -/

private theorem read_alloc_old (h : Heap) (o : Obj) (a : Addr) (ha : a < h.size) : (h.alloc o).1.read a = h.read a := by
  simp only [Heap.alloc, Heap.read, Heap.size] at *
  exact List.getElem?_append_left ha

private theorem size_alloc (h : Heap) (o : Obj) : (h.alloc o).1.size = h.size + 1 := by
  simp [Heap.alloc, Heap.size]

private theorem alloc_addr (h : Heap) (o : Obj) : (h.alloc o).2 = h.size := rfl

private theorem size_write (h : Heap) (a : Addr) (o : Obj) : (h.write a o).size = h.size := by
  simp [Heap.write, Heap.size]

private theorem read_write_other (h : Heap) (a b : Addr) (o : Obj) (hne : a ≠ b) : (h.write a o).read b = h.read b := by
  simp only [Heap.write, Heap.read]
  exact List.getElem?_set_ne hne

theorem Frame.refl (h : Heap) : Frame h h := ⟨Nat.le_refl _, fun _ _ => rfl⟩

theorem Frame.trans {h1 h2 h3 : Heap} (a : Frame h1 h2) (b : Frame h2 h3) : Frame h1 h3 :=
  ⟨Nat.le_trans a.1 b.1, fun x hx => by rw [b.2 x (Nat.lt_of_lt_of_le hx a.1), a.2 x hx]⟩

theorem alloc_frame (h : Heap) (o : Obj) : Frame h (h.alloc o).1 :=
  ⟨by rw [size_alloc]; omega, fun a ha => read_alloc_old h o a ha⟩

/-- a write at an address outside `h0` (fresh) keeps `h0` framed -/
theorem write_fresh_frame {h0 h : Heap} (f : Frame h0 h) (a : Addr) (o : Obj) (ha : h0.size ≤ a) : Frame h0 (h.write a o) :=
  ⟨by rw [size_write]; exact f.1, fun x hx => by rw [read_write_other h a x o (Nat.ne_of_gt (Nat.lt_of_lt_of_le hx ha))]; exact f.2 x hx⟩

/-! ### the heal visitor writes registered objects only -/

/-- `_healed`: the re-pointed reference IS the object registered under the (unchanged) name -/
theorem healed_registered (reg : List (String × Addr)) (t t' : TRef) (ht : healed reg t = some t') :
    refOK reg t'.base = true ∧ t'.base.name = t.base.name := by
  induction t generalizing t' with
  | named r =>
    simp only [healed, Option.map_eq_some_iff] at ht
    obtain ⟨a, ha, rfl⟩ := ht
    simp [TRef.base, refOK, ha]
  | list t ih =>
    simp only [healed, Option.map_eq_some_iff] at ht
    obtain ⟨u, hu, rfl⟩ := ht
    simpa [TRef.base] using ih u hu
  | nonNull t ih =>
    simp only [healed, Option.map_eq_some_iff] at ht
    obtain ⟨u, hu, rfl⟩ := ht
    simpa [TRef.base] using ih u hu

/-- `map_and_filter(self._healed, interfaces / union members)` -/
theorem healedRefs_registered (reg : List (String × Addr)) (rs : List Ref) :
    ∀ r, r ∈ healedRefs reg rs → refOK reg r = true := by
  intro r hr
  simp only [healedRefs, List.mem_filterMap, Option.map_eq_some_iff] at hr
  obtain ⟨r0, _, a, ha, rfl⟩ := hr
  simp [refOK, ha]

/-- a reference whose name is not registered any more is dropped by the heal visitor (hidden types take their users along) -/
theorem healed_unregistered (reg : List (String × Addr)) (t : TRef) (h : lookup reg t.base.name = none) : healed reg t = none := by
  induction t with
  | named r => simpa [healed, TRef.base] using h
  | list t ih => simp [healed, ih (by simpa [TRef.base] using h)]
  | nonNull t ih => simp [healed, ih (by simpa [TRef.base] using h)]

example : healed [("String", 0), ("Pet", 7)] (.list (.named ⟨"Pet", 1⟩)) = some (.list (.named ⟨"Pet", 7⟩)) := by decide

/-! ### T3: `busted_cache` -/

/-- fixed variant: once an entry replaced a registered type by a different object, the flag stays set -/
theorem busted_accumulates (cfg : Cfg) (hc : cfg.accumulateBusted = true) (reg : List (String × Addr))
    (ut : List (String × Option Addr)) : (replaceTypes cfg reg true ut).2 = true := by
  induction ut generalizing reg with
  | nil => simp [replaceTypes]
  | cons e rest ih =>
    obtain ⟨n, new⟩ := e
    simp only [replaceTypes]
    split
    · exact ih reg
    · cases new <;> simp [hc, ih]

/-- fixed variant: an entry that changes a registered type sets the flag whatever follows -/
theorem busted_of_change (cfg : Cfg) (hc : cfg.accumulateBusted = true) (reg : List (String × Addr)) (b : Bool)
    (n : String) (new : Option Addr) (orig : Addr) (rest : List (String × Option Addr))
    (hl : lookup reg n = some orig) (hne : new ≠ some orig) : (replaceTypes cfg reg b ((n, new) :: rest)).2 = true := by
  simp only [replaceTypes, hl]
  have : (new != some orig) = true := by simpa using hne
  cases new <;> simp [hc, this, busted_accumulates cfg hc]

/-! ### frame: copying phase of `clone` (both variants), and ALL of `extend_schema` -/

private theorem copyArgs_frame (h : Heap) (as : List Addr) : Frame h (copyArgs h as).1 := by
  induction as generalizing h with
  | nil => exact Frame.refl h
  | cons a as ih =>
    simp only [copyArgs]
    split
    · exact (alloc_frame h _).trans (ih _)
    · exact ih h

private theorem copyFields_frame (h : Heap) (as : List Addr) : Frame h (copyFields h as).1 := by
  induction as generalizing h with
  | nil => exact Frame.refl h
  | cons a as ih =>
    simp only [copyFields]
    split
    · exact ((copyArgs_frame h _).trans (alloc_frame _ _)).trans (ih _)
    · exact ih h

private theorem cloneType_frame (cfg : Cfg) (h : Heap) (t : TypeO) : Frame h (cloneType cfg h t).1 := by
  simp only [cloneType]
  split
  · split
    · exact (copyArgs_frame h _).trans (alloc_frame _ _)
    · exact (copyFields_frame h _).trans (alloc_frame _ _)
  · exact alloc_frame h _

private theorem cloneDir_frame (cfg : Cfg) (h : Heap) (d : DirO) : Frame h (cloneDir cfg h d).1 := by
  simp only [cloneDir]
  split
  · exact (copyArgs_frame h _).trans (alloc_frame _ _)
  · exact alloc_frame h _

private theorem cloneTypes_frame (cfg : Cfg) (h : Heap) (l : List (String × Addr)) : Frame h (cloneTypes cfg h l).1 := by
  induction l generalizing h with
  | nil => exact Frame.refl h
  | cons e rest ih =>
    obtain ⟨n, a⟩ := e
    simp only [cloneTypes]
    split
    · exact ih h
    · split
      · exact (cloneType_frame cfg h _).trans (ih _)
      · exact ih h

private theorem cloneDirs_frame (cfg : Cfg) (h : Heap) (l : List (String × Addr)) : Frame h (cloneDirs cfg h l).1 := by
  induction l generalizing h with
  | nil => exact Frame.refl h
  | cons e rest ih =>
    obtain ⟨n, a⟩ := e
    simp only [cloneDirs]
    split
    · exact (cloneDir_frame cfg h _).trans (ih _)
    · exact ih h

/-- SUBSUMED (kept for name stability) by the full `clone_frames_source` (Props/C14_frames.lean): the heal round announced as missing below is covered there.
    PARTIAL form of `CloneFramesSource`: the copying phase of `Schema.clone` (`copy.copy` / `_clone_type` of every
    type and directive) writes no object of the source, in both variants of the code. What is missing for the full
    statement: the heal round that follows (`_replace_types_and_directives` → `fix_type_references`) writes only
    objects owned by the clone — true for `deepClone` (tied by the correspondence and the `decide` instance
    `clone_frames_source_witness_fixed`), FALSE without it (`clone_frames_source_refuted_legacy`). -/
theorem clone_copy_frames_source_partial (cfg : Cfg) (s : Schema) (h : Heap) :
    Frame h (cloneDirs cfg (cloneTypes cfg h s.types).1 s.dirs).1 :=
  (cloneTypes_frame cfg h _).trans (cloneDirs_frame cfg _ _)

private theorem allocPlaceholders_spec (h : Heap) (ns : List String) :
    Frame h (allocPlaceholders h ns).1 ∧ ∀ e, e ∈ (allocPlaceholders h ns).2 → h.size ≤ e.2 := by
  induction ns generalizing h with
  | nil => exact ⟨Frame.refl h, by simp [allocPlaceholders]⟩
  | cons n ns ih =>
    simp only [allocPlaceholders]
    have f1 := alloc_frame h (placeholder n)
    obtain ⟨f2, g2⟩ := ih (h.alloc (placeholder n)).1
    refine ⟨f1.trans f2, ?_⟩
    intro e he
    simp only [List.mem_cons] at he
    rcases he with rfl | he
    · simp [alloc_addr]
    · have := g2 e he
      rw [size_alloc] at this
      omega

private theorem lookup_mem (reg : List (String × Addr)) (n : String) (a : Addr) (hl : lookup reg n = some a) :
    ∃ e, e ∈ reg ∧ e.2 = a := by
  simp only [lookup, Option.map_eq_some_iff] at hl
  obtain ⟨e, he, rfl⟩ := hl
  exact ⟨e, List.mem_of_find?_eq_some he, rfl⟩

private theorem extendArgs_frame (k : Bool) (N : List (String × Addr)) (h0 h : Heap) (f : Frame h0 h) (as : List Addr) :
    Frame h0 (extendArgs k N h as).1 := by
  induction as generalizing h with
  | nil => exact f
  | cons a as ih =>
    simp only [extendArgs]
    split
    · exact ih _ (f.trans (alloc_frame h _))
    · exact ih h f

private theorem buildArgs_frame (N : List (String × Addr)) (h0 h : Heap) (f : Frame h0 h) (gs : List ExtArg) :
    Frame h0 (buildArgs N h gs).1 := by
  induction gs generalizing h with
  | nil => exact f
  | cons g gs ih =>
    simp only [buildArgs]
    exact ih _ (f.trans (alloc_frame h _))

private theorem extendFields_frame (cfg : Cfg) (N : List (String × Addr)) (h0 h : Heap) (f : Frame h0 h) (as : List Addr) :
    Frame h0 (extendFields cfg N h as).1 := by
  induction as generalizing h with
  | nil => exact f
  | cons a as ih =>
    simp only [extendFields]
    split
    · exact ih _ ((extendArgs_frame _ N h0 h f _).trans (alloc_frame _ _))
    · exact ih h f

private theorem buildFields_frame (N : List (String × Addr)) (h0 h : Heap) (f : Frame h0 h) (fs : List ExtField) :
    Frame h0 (buildFields N h fs).1 := by
  induction fs generalizing h with
  | nil => exact f
  | cons g gs ih =>
    simp only [buildFields]
    exact ih _ ((buildArgs_frame N h0 h f _).trans (alloc_frame _ _))

private theorem extendOne_frame (cfg : Cfg) (ext : Ext) (N Nin : List (String × Addr)) (h0 h : Heap) (f : Frame h0 h)
    (t : TypeO) (na : Addr) (hna : h0.size ≤ na) : Frame h0 (extendOne cfg ext N Nin h t na) := by
  simp only [extendOne]
  apply write_fresh_frame _ _ _ hna
  simp only [extendKids]
  split
  · exact buildArgs_frame Nin h0 _ (extendArgs_frame _ N h0 h f _) _
  · exact buildFields_frame N h0 _ (extendFields_frame cfg N h0 h f _) _
  · exact buildFields_frame N h0 _ (extendFields_frame cfg N h0 h f _) _
  · exact f

private theorem extendAll_frame (cfg : Cfg) (ext : Ext) (N Nin P : List (String × Addr)) (h0 hr h : Heap) (f : Frame h0 h)
    (hP : ∀ e, e ∈ P → h0.size ≤ e.2) (l : List (String × Addr)) : Frame h0 (extendAll cfg ext N Nin P hr h l) := by
  induction l generalizing h with
  | nil => exact f
  | cons e rest ih =>
    obtain ⟨n, a⟩ := e
    simp only [extendAll]
    split
    · exact ih h f
    · split
      · rename_i t na _ hl
        obtain ⟨e, he, rfl⟩ := lookup_mem P n na hl
        exact ih _ (extendOne_frame cfg ext N Nin h0 h f t e.2 (hP e he))
      · exact ih h f

private theorem buildNewTypes_frame (N P : List (String × Addr)) (h0 h : Heap) (f : Frame h0 h)
    (hP : ∀ e, e ∈ P → h0.size ≤ e.2) (l : List (String × List ExtField)) : Frame h0 (buildNewTypes N P h l) := by
  induction l generalizing h with
  | nil => exact f
  | cons e rest ih =>
    obtain ⟨n, fs⟩ := e
    simp only [buildNewTypes]
    apply ih
    have fb := buildFields_frame N h0 h f fs
    split
    · rename_i na hl
      obtain ⟨e, he, rfl⟩ := lookup_mem P n na hl
      exact write_fresh_frame fb _ _ (hP e he)
    · exact fb

private theorem extendDirs_frame (cfg : Cfg) (N : List (String × Addr)) (h0 h : Heap) (f : Frame h0 h) (l : List (String × Addr)) :
    Frame h0 (extendDirs cfg N h l).1 := by
  induction l generalizing h with
  | nil => exact f
  | cons e rest ih =>
    obtain ⟨n, a⟩ := e
    simp only [extendDirs]
    split
    · exact ih _ ((extendArgs_frame _ N h0 h f _).trans (alloc_frame _ _))
    · exact ih h f

private theorem buildNewDirs_frame (cfg : Cfg) (N : List (String × Addr)) (h0 h : Heap) (f : Frame h0 h)
    (l : List (String × List ExtArg × List String)) : Frame h0 (buildNewDirs cfg N h l).1 := by
  induction l generalizing h with
  | nil => exact f
  | cons e rest ih =>
    obtain ⟨n, args, locs⟩ := e
    simp only [buildNewDirs]
    exact ih _ ((extendArgs_frame _ N h0 _ (buildArgs_frame N h0 h f _) _).trans (alloc_frame _ _))

/-- FULL: `extend_schema` leaves every object of the source schema (and of every other schema on the heap) unwritten —
    for every variant of the code, every extension document, every heap. The source can therefore be extended,
    cloned, transformed, queried and printed again any number of times (`extend_sequence_frames_source`). -/
theorem extend_frames_source (cfg : Cfg) (ext : Ext) (s : Schema) (h : Heap) : Frame h (extend cfg ext s h).1 := by
  simp only [extend]
  obtain ⟨fp, gp⟩ := allocPlaceholders_spec h
    (List.map (fun x => x.1) (List.filter (fun e => !isProtected e.1) s.types) ++ List.map (fun x => x.1) ext.newTypes)
  apply buildNewDirs_frame
  apply extendDirs_frame
  apply buildNewTypes_frame _ _ _ _ _ gp
  exact extendAll_frame _ _ _ _ _ _ _ _ fp gp _

/-- induction over operation sequences: any number of extensions applied to schemas on the heap never write `h0` -/
theorem extend_sequence_frames_source (cfg : Cfg) (ops : List (Ext × Schema)) (h0 : Heap) :
    Frame h0 (ops.foldl (fun h e => (extend cfg e.1 e.2 h).1) h0) := by
  suffices ∀ h, Frame h0 h → Frame h0 (ops.foldl (fun h e => (extend cfg e.1 e.2 h).1) h) from this h0 (Frame.refl h0)
  induction ops with
  | nil => intro h f; exact f
  | cons e rest ih => intro h f; exact ih _ (f.trans (extend_frames_source cfg e.1 e.2 h))

/-! ### visibility -/

/-- SUBSUMED (kept for name stability) by the full `visibility_hides_type` / `visibility_hides_type_transform` (Props/C14_transform.lean).
    PARTIAL form of `visibility_hides`: a type the predicate hides is reported as `None` by `on_schema`'s dispatch,
    for every kind of type, so `_replace_types_and_directives` deletes its registry entry (`lookup_regErase`);
    `healed_unregistered` then removes every field / argument / input field of that type. Missing for the full
    statement: the composition through `visitTypes` / `replaceTypes` / `healLoop` (tied by the correspondence and by
    the real introspection / query oracle). -/
theorem visibility_hides_type_partial (p : VisP) (reg : List (String × Addr)) (h : Heap) (a : Addr) (t : TypeO)
    (ht : h.readType a = some t) (hid : p.isTypeVisible t.name = false) : (onType (.vis p) reg h a).2 = none := by
  simp only [onType, ht]
  have hin : ∀ h' t', (inputRest (.vis p) reg a t.name h' t').2 = none := by
    intro h' t'; simp [inputRest, rebuiltOrSame, hid]
  cases hk : t.kind <;> simp [onComposite, onInputObject, onUnion, onLeaf, hid]
  split <;> exact hin _ _

theorem lookup_regErase (reg : List (String × Addr)) (n : String) : lookup (regErase reg n) n = none := by
  simp only [lookup, regErase, Option.map_eq_none_iff, List.find?_eq_none]
  intro e he
  simp only [List.mem_filter] at he
  simpa using he.2

/-! ### the Dog / Pet witness: `interface Pet {name}`, `type Dog implements Pet {name}`, `type Query {pet: Pet}` -/

def sStr : TRef := .named ⟨"String", 0⟩

def h0 : Heap := ⟨[
  .type { kind := .scalar, name := "String", desc := none, fields := [], ifaces := [], members := [], dres := none, rtype := none, values := [], prot := true },
  .type { kind := .interface, name := "Pet", desc := none, fields := [2], ifaces := [], members := [], dres := none, rtype := some 7, values := [], prot := false },
  .field { name := "name", ty := sStr, args := [], desc := none, depr := none, res := some 1, sub := none, py := "name" },
  .type { kind := .object, name := "Dog", desc := none, fields := [4], ifaces := [⟨"Pet", 1⟩], members := [], dres := some 5, rtype := none, values := [], prot := false },
  .field { name := "name", ty := sStr, args := [], desc := none, depr := none, res := none, sub := none, py := "name" },
  .type { kind := .object, name := "Query", desc := none, fields := [6], ifaces := [], members := [], dres := none, rtype := none, values := [], prot := false },
  .field { name := "pet", ty := .named ⟨"Pet", 1⟩, args := [], desc := none, depr := none, res := none, sub := some 9, py := "py_pet" }]⟩

def s0 : Schema :=
  { types := [("String", 0), ("Pet", 1), ("Dog", 3), ("Query", 5)], dirs := [], query := some ⟨"Query", 5⟩,
    mutation := none, subscription := none, dres := some 3 }

/-- `extend_schema(s0, "type Zed { z: String }")` -/
def zed : Ext := { newTypes := [("Zed", [{ name := "z", ty := .named "String", args := [] }])], fields := [], inputFields := [],
                   members := [], values := [], newDirs := [] }

/-- the witness is a closed schema (non-vacuity of every hypothesis `closedB h s = true` below) -/
example : closedB h0 s0 = true := by decide

/-- T2 on the code of the unchanged tree: `clone()` WRITES the source's field object 6 (`Query.pet` now points to the clone's `Pet`) -/
theorem clone_frames_source_refuted_legacy : ¬ CloneFramesSource Cfg.legacy := by
  intro hf
  have := (hf 8 [] s0 h0 _ _ (by decide : transform Cfg.legacy 8 [] s0 h0 = some ((transform Cfg.legacy 8 [] s0 h0).get (by decide)))).2 6 (by decide)
  revert this
  decide

/-- the same clone with the proposed fix leaves all 7 objects of the source untouched -/
theorem clone_frames_source_witness_fixed :
    (transform Cfg.fixed 8 [] s0 h0).map (fun r => (List.range h0.size).all fun a => r.1.read a == h0.read a) = some true := by decide

/-- T1 on the code of the unchanged tree: `Dog` (reachable only as implementer of `Pet`) is not registered in the clone -/
theorem clone_intact_refuted_legacy : ¬ CloneClosedIntact Cfg.legacy := by
  intro hf
  have := (hf 8 s0 h0 _ _ (by decide) (by decide : clone Cfg.legacy 8 s0 h0 = some ((clone Cfg.legacy 8 s0 h0).get (by decide)))).2 "Dog" (by decide)
  revert this
  decide

/-- with the proposed fix the clone of the witness is closed and registers the same names -/
theorem clone_closed_witness_fixed :
    (clone Cfg.fixed 8 s0 h0).map (fun r => (closedB r.1 r.2, names r.2)) = some (true, ["String", "Query", "Pet", "Dog"]) := by decide

/-- `copy.copy(Pet)` allocated at address 7 -/
def h1 : Heap := (h0.alloc (.type { kind := .interface, name := "Pet", desc := none, fields := [2], ifaces := [], members := [], dres := none, rtype := some 7, values := [], prot := false })).1

/-- T3 on the code of the unchanged tree: `{Pet: <copy>, Query: <same object>}` leaves `Query.pet` pointing to the OLD `Pet` -/
theorem replace_closed_refuted_legacy : ¬ ReplaceClosed Cfg.legacy := by
  intro hf
  have := hf 8 s0 h1 [("Pet", some 7), ("Query", some 5)] _ _ (by decide)
    (by decide : replaceTD Cfg.legacy 8 s0 h1 [("Pet", some 7), ("Query", some 5)] [] =
      some ((replaceTD Cfg.legacy 8 s0 h1 [("Pet", some 7), ("Query", some 5)] []).get (by decide)))
  revert this
  decide

/-- the same replacement with the accumulated flag heals the schema -/
theorem replace_closed_witness_fixed :
    (replaceTD Cfg.fixed 8 s0 h1 [("Pet", some 7), ("Query", some 5)] []).map (fun r => closedB r.1 r.2) = some true := by decide

/-- S2 on the code of the unchanged tree: `extend_schema(s0, "type Zed {z: String}")` loses `Pet.resolve_type` -/
theorem extend_keeps_type_resolvers_refuted_legacy : ¬ ExtendKeepsTypeResolvers Cfg.legacy := by
  intro hf
  obtain ⟨a', t', h1, h2, h3⟩ := hf zed s0 h0 "Pet" 1 _ (by decide) (by decide : h0.readType 1 = some ((h0.readType 1).get (by decide)))
  revert h1 h2 h3
  have e1 : lookup (extend Cfg.legacy zed s0 h0).2.types "Pet" = some 7 := by decide
  intro h1 h2 h3
  rw [e1] at h1
  cases h1
  have e2 : ((extend Cfg.legacy zed s0 h0).1.readType 7).map (·.rtype) = some none := by decide
  rw [h2] at e2
  simp at e2
  rw [e2] at h3
  revert h3
  decide

/-- with the C11 fixes the extension of the witness keeps every attribute: resolve_type, default_resolver,
    subscription_resolver, python_name, the schema-level default resolver; the result is closed and keeps `Dog` -/
theorem extend_preserves_witness_fixed :
    let r := extend Cfg.fixed zed s0 h0
    closedB r.1 r.2 = true ∧ names r.2 = ["String", "Pet", "Dog", "Query", "Zed"] ∧ r.2.dres = some 3 ∧
    ((lookup r.2.types "Pet").bind r.1.readType).map (·.rtype) = some (some 7) ∧
    ((lookup r.2.types "Dog").bind r.1.readType).map (·.dres) = some (some 5) ∧
    (((lookup r.2.types "Query").bind r.1.readType).bind fun t => (t.fields.head?.bind r.1.readField).map fun f => (f.sub, f.py))
      = some (some 9, "py_pet") := by decide

/-- unchanged tree: the same extension loses all of them, and drops `Dog` (T1 for `extend_schema`) -/
theorem extend_loses_witness_legacy :
    let r := extend Cfg.legacy zed s0 h0
    names r.2 = ["String", "Zed", "Query", "Pet"] ∧ r.2.dres = none ∧
    (((lookup r.2.types "Query").bind r.1.readType).bind fun t => (t.fields.head?.bind r.1.readField).map fun f => (f.sub, f.py))
      = some (none, "pet") := by decide

/-- a visibility transform on the witness (hide `Dog`, fixed code): closed, `Dog` gone, source untouched -/
theorem visibility_witness_fixed :
    (transform Cfg.fixed 8 [.vis { typeVis := fun n => n != "Dog", fieldVis := fun _ _ => true, inputVis := fun _ _ => true,
                                   dirVis := fun _ => true }] s0 h0).map
      (fun r => (closedB r.1 r.2, names r.2, (List.range h0.size).all fun a => r.1.read a == h0.read a))
      = some (true, ["String", "Query", "Pet"], true) := by decide

/-- the variant of the code in the working tree (re-extracted on every run): instance of every theorem above -/
theorem current_extend_frames_source (ext : Ext) (s : Schema) (h : Heap) :
    Frame h (extend PyGql.Generated.HeapCfg.currentCfg ext s h).1 := extend_frames_source _ ext s h

end PyGql.Props.C14

/-
  C11 — property theorems about the model `PyGqlModel/Sdl.lean` (which follows the FIXED builder,
  patches C11-S1/C11-S2) and the specification `Spec/SdlSpec.lean`.
-/
import PyGqlModel.Sdl
import PyGqlModel.Spec.SdlSpec

set_option linter.unusedVariables false
set_option linter.unusedSimpArgs false

namespace PyGql.Props.C11
open PyGql PyGql.Sdl PyGql.SdlSpec

/-! ### the full statements (kept visible; see the `_partial` theorems and the report for what is proved) -/

/-- C11, first half: a valid document builds and the result is exactly the declared content. -/
def BuildExactStatement : Prop :=
  ∀ doc : Doc, SdlValid doc → ∃ s d, build doc = .ok s ∧ Declared doc = some d ∧ SameContent s d

/-- C11: independent of the order of definitions (extensions of one target keep their relative order:
    `doc₂` is a permutation of `doc₁` with the same sub-list of extensions). -/
def BuildPermStatement : Prop :=
  ∀ doc₁ doc₂ : Doc, SdlValid doc₁ → doc₁.Perm doc₂ → typeExts doc₁ = typeExts doc₂ → schemaExtensions doc₁ = schemaExtensions doc₂ →
    ∃ s₁ s₂, build doc₁ = .ok s₁ ∧ build doc₂ = .ok s₂ ∧ SameContent s₁ s₂

/-- C11, second half: every rejection is one of the library's schema/SDL errors. -/
def BuildRejectsStatement : Prop :=
  ∀ (doc : Doc) (ie : Bool) (add : List TypeD) (e : Err), build doc ie add = .error e → ∃ l, e = .lib l

/-! ### `_collect_definitions` -/

private theorem collect_aux (doc : Doc) : ∀ (acc c : Collected), doc.foldlM collectStep acc = .ok c →
    c.types = acc.types ++ typeDefs doc ∧ c.directives = acc.directives ++ dirDefs doc := by
  induction doc with
  | nil => intro acc c h; simp [List.foldlM, pure, Except.pure] at h; subst h; simp [typeDefs, dirDefs]
  | cons d ds ih =>
    intro acc c h
    rw [List.foldlM_cons] at h
    cases hs : collectStep acc d with
    | error e => rw [hs] at h; simp [bind, Except.bind] at h
    | ok acc' =>
      rw [hs] at h
      simp only [bind, Except.bind] at h
      have := ih acc' c h
      cases d with
      | type t =>
        simp only [collectStep] at hs
        split at hs
        · simp [sdlErr] at hs
        · split at hs
          · simp [sdlErr] at hs
          · simp [pure, Except.pure] at hs; subst hs
            simp [typeDefs, dirDefs] at this ⊢; exact this
      | directive dd =>
        simp only [collectStep] at hs
        split at hs
        · simp [sdlErr] at hs
        · simp [pure, Except.pure] at hs; subst hs
          simp [typeDefs, dirDefs] at this ⊢; exact this
      | schema sd =>
        simp only [collectStep] at hs
        split at hs
        · simp [sdlErr] at hs
        · simp [pure, Except.pure] at hs; subst hs
          simp [typeDefs, dirDefs] at this ⊢; exact this
      | ext t => simp [collectStep, pure, Except.pure] at hs; subst hs; simp [typeDefs, dirDefs] at this ⊢; exact this
      | schemaExt t => simp [collectStep, pure, Except.pure] at hs; subst hs; simp [typeDefs, dirDefs] at this ⊢; exact this
      | other => simp [collectStep, pure, Except.pure] at hs; subst hs; simp [typeDefs, dirDefs] at this ⊢; exact this

/-- When collection succeeds, EVERY type definition and directive definition of the document is
    collected, in document order (nothing dropped, nothing invented). -/
theorem collect_exact (doc : Doc) (c : Collected) (h : collectDefinitions doc = .ok c) :
    c.types = typeDefs doc ∧ c.directives = dirDefs doc := by
  have := collect_aux doc {} c h
  simpa using this

private theorem collect_err_aux (doc : Doc) : ∀ (acc : Collected) (e : Err), doc.foldlM collectStep acc = .error e → e = .lib .sdl := by
  induction doc with
  | nil => intro acc e h; simp [List.foldlM, pure, Except.pure] at h
  | cons d ds ih =>
    intro acc e h
    rw [List.foldlM_cons] at h
    cases hs : collectStep acc d with
    | ok acc' => rw [hs] at h; exact ih acc' e h
    | error e' =>
      rw [hs] at h
      simp only [bind, Except.bind] at h
      cases h
      cases d <;> simp only [collectStep] at hs
      all_goals first
        | (split at hs <;> first | (split at hs <;> simp_all [sdlErr, pure, Except.pure]) | simp_all [sdlErr, pure, Except.pure])
        | simp_all [pure, Except.pure]

/-- Duplicate detection fails with `SDLError` only. -/
theorem collect_rejects_sdl (doc : Doc) (e : Err) (h : collectDefinitions doc = .error e) : e = .lib .sdl :=
  collect_err_aux doc {} e h

/-- A second definition of a type name is rejected — by ONE `collectStep` from an accumulator that already has the name
    (`pre` is unused; the statement does not mention `build`).  The statement about the builder is
    `build_rejects_dup_type` (Props/C11_reject_complete.lean): `¬ Nodup (type names) → build doc ie add = .error SDLError`,
    with `collect_ok_rules` the converse of `collect_ok`. -/
theorem collect_rejects_dup_type (pre : Doc) (t t' : TypeDef) (post : Doc) (hn : t'.name = t.name)
    (acc : Collected) (hacc : acc.types.any (·.name == t.name) = true) :
    ∃ e, ([Def.type t'] ++ post).foldlM collectStep acc = .error e := by
  refine ⟨.lib .sdl, ?_⟩
  simp [List.foldlM_cons, collectStep, hn, hacc, sdlErr, bind, Except.bind]

/-! ### extension merging (`_extend_*`) -/

/-- Members added by an extension block are appended after the existing ones, in the order written:
    nothing is dropped or reordered. -/
theorem appendNew_ok {α} (errE : Err) (name : α → String) (xs : List α) :
    ∀ (acc r : List α), appendNew errE name acc xs = .ok r → r = acc ++ xs := by
  induction xs with
  | nil => intro acc r h; simp [appendNew, pure, Except.pure] at h; simp [h]
  | cons x xs ih =>
    intro acc r h
    simp only [appendNew] at h
    split at h
    · simp at h
    · have := ih _ _ h; simp [this]

/-- …and the only way it fails is the error class it was given (ExtensionError in every caller). -/
theorem appendNew_error {α} (errE : Err) (name : α → String) (xs : List α) :
    ∀ (acc : List α) (e : Err), appendNew errE name acc xs = .error e → e = errE := by
  induction xs with
  | nil => intro acc e h; simp [appendNew, pure, Except.pure] at h
  | cons x xs ih =>
    intro acc e h
    simp only [appendNew] at h
    split at h
    · cases h; rfl
    · exact ih _ _ h

/-- A member whose name is already present is rejected. -/
theorem appendNew_rejects_dup {α} (errE : Err) (name : α → String) (acc : List α) (x : α) (xs : List α)
    (h : acc.any (fun y => name y == name x) = true) : appendNew errE name acc (x :: xs) = .error errE := by
  simp [appendNew, h]

/-- The model has exactly four rejection branches: the three library errors and the stack overflow of a
    re-entrant field thunk (finding S1b). There is no branch for `ValueError`, `CoercionError`,
    `InvalidValue`, `TypeError` any more (fix C11-S1).
    OMITS: everything about `build` — the conclusion holds of every value of `Err` (the proof only splits the
    constructor), in particular it does not bound the CLASS of the internal branch.  The statement it stands for is
    `no_other_branch` (Props/C11_flags.lean, from `build_rejects`): the fourth class is `RecursionError` only, and
    `build_internal_of_thunkCycle` says when it is taken. -/
theorem no_other_branch_partial (doc : Doc) (ie : Bool) (add : List TypeD) (e : Err) (h : build doc ie add = .error e) :
    e = .lib .sdl ∨ e = .lib .ext ∨ e = .lib .schema ∨ ∃ c, e = .internal c := by
  cases e with
  | lib l => cases l <;> simp
  | internal c => exact Or.inr (Or.inr (Or.inr ⟨c, rfl⟩))

/-! ### non-vacuity and refutation witnesses (evaluated by the kernel) -/

def exQuery : TypeDef := { kind := .object, name := "Query", fields := [{ name := "a", type := .named "Int" }] }
def exExt : TypeDef := { kind := .object, name := "Query", fields := [{ name := "b", type := .named "Int" }] }

example : (collectDefinitions [.ext exExt, .type exQuery, .other]).toBool = true := by decide
example : (collectDefinitions [.type exQuery, .type exQuery]).toBool = false := by decide

/-! ### finding S8 (refutation witness) and a non-trivial valid instance -/

/-- `type Query { f(a: E = B): Int }  enum E { A }  extend enum E { B }` -/
def s8Doc : Doc := [
  .type { kind := .object, name := "Query",
          fields := [{ name := "f", type := .named "Int", args := [{ name := "a", type := .named "E", default := some (.enum "B") }] }] },
  .type { kind := .enum, name := "E", values := [{ name := "A" }] },
  .ext { kind := .enum, name := "E", values := [{ name := "B" }] }]

example : (Declared s8Doc).isSome = true := by decide
example : (build s8Doc).toBool = false := by decide
example : (match build s8Doc with | .error (.lib .sdl) => true | _ => false) = true := by decide

/-- the S8 document satisfies every rule of the specification -/
theorem s8_valid : SdlValid s8Doc :=
  { uniqueTypes := by decide, uniqueDirectives := by decide, oneSchema := by decide, extTargets := by decide,
    noBuiltinNames := by decide, declares := by decide, mergedMembersUnique := by decide }

/-- `build_exact` at full strength is FALSE on the (fixed) code: what is left of finding S8 after fix C14-T15 — a
    default literal written in a DEFINITION is first coerced against the un-extended definitions, and refused when
    it needs a member that only an `extend` block declares. Replay: corpus/C11 `S8-default-needs-extension-enum-value`. -/
theorem build_exact_refuted : ¬ BuildExactStatement := fun h => by
  obtain ⟨s, d, hb, _, _⟩ := h s8Doc s8_valid
  have h2 : (build s8Doc).toBool = false := by decide
  rw [hb] at h2
  simp [Except.toBool] at h2

def okDoc : Doc := [
  .ext { kind := .object, name := "Query", fields := [{ name := "c", type := .named "A" }] },
  .type { kind := .object, name := "Query", desc := some "root",
          fields := [{ name := "f", type := .named "Int", dirs := [{ name := "deprecated" }],
                       args := [{ name := "a", type := .list (.named "E"), default := some (.enum "B") },
                                { name := "i", type := .named "A", default := some (.obj [("a", .obj [])]) }] }] },
  .type { kind := .enum, name := "E", values := [{ name := "A" }, { name := "B", dirs := [{ name := "deprecated", args := [("reason", .str "old")] }] }] },
  .type { kind := .input, name := "A", inputFields := [{ name := "a", type := .named "A" }, { name := "s", type := .named "String", default := some (.str "x") }] },
  .ext { kind := .object, name := "Query", fields := [{ name := "d", type := .nonNull (.named "Query") }] },
  .schema { ops := [("query", "Query")] }]

example : SdlValid okDoc :=
  { uniqueTypes := by decide, uniqueDirectives := by decide, oneSchema := by decide, extTargets := by decide,
    noBuiltinNames := by decide, declares := by decide, mergedMembersUnique := by decide }
def shape (s : SchemaD) : List (String × List String) :=
  (s.types.map fun t => (t.name, t.fields.map (·.name) ++ t.values.map (·.name) ++ t.inputFields.map (·.name))) ++ [("query", s.query.toList)]
example : ((build okDoc).toOption.map shape == (Declared okDoc).map shape) = true := by decide
example : ((build okDoc).toOption.map shape).isSome = true := by decide

end PyGql.Props.C11

/-
  C04 — "the result does not depend on requests previously served": a model of what the CODE keeps between requests
  and the theorem that none of it can influence a response.

  What survives a request in py-gql (read off the anchored sources):
    * the `Schema` object with its caches `_possible_types` (and `_literal_types_cache`, a pure memo of `get_type`)
      — modelled by `PCache`, answered through `getPossibleTypesC`;
    * the parsed `Document` objects the application keeps and passes again — the executor only READS them (modelled:
      `serve` returns the document store unchanged; tied to the code by the `to_dict()` before/after oracle of
      `harness/corr/C04.py: run_shared`, see TRUSTED there);
    * nothing else: `Executor`/`ResolutionContext` (with `_grouped_fields`, `_field_defs`, `_argument_values`,
      `_resolver_cache`, `_errors`) is constructed per request by `execute` — modelled by the memo table that `serve`
      creates EMPTY for each request (`memo_sound` says such a table is transparent while it lives).
-/
import PyGqlModel.Props.C04

set_option linter.unusedSimpArgs false
set_option linter.unusedVariables false

namespace PyGql.Props.C04
open PyGql PyGql.Exec

/-- what persists between requests -/
structure Server where
  pcache : PCache          -- `Schema._possible_types`
  docs : List Doc          -- parsed documents the application reuses

structure Request where
  doc : Nat                -- which stored document
  vars : Vars
  world : World
  op : Option String
  fuel : Nat
  cf : Nat
  lookups : List String    -- the abstract types whose possible types this request consults, in order (any list)

/-- serving one request: the response is computed from the stored document; the schema cache absorbs the lookups; the
    document store is not written -/
def serve (s : SchemaD) (σ : Server) (r : Request) : Response × Server :=
  (match σ.docs[r.doc]? with
   | some d => execute s d r.vars r.world r.op r.fuel r.cf
   | none => .abort "no-document",
   { σ with pcache := afterHistory s σ.pcache r.lookups })

/-- serving a history; returns the responses in order and the final state -/
def serveAll (s : SchemaD) : Server → List Request → List Response × Server
  | σ, [] => ([], σ)
  | σ, r :: rs =>
    let (resp, σ1) := serve s σ r
    let (rest, σ2) := serveAll s σ1 rs
    (resp :: rest, σ2)

theorem serve_docs_unchanged (s : SchemaD) (σ : Server) (r : Request) : (serve s σ r).2.docs = σ.docs := rfl

theorem serveAll_docs_unchanged (s : SchemaD) (σ : Server) (h : List Request) : (serveAll s σ h).2.docs = σ.docs := by
  induction h generalizing σ with
  | nil => rfl
  | cons r rs ih => simp only [serveAll]; rw [ih]; rfl

theorem serve_cache_ok (s : SchemaD) (σ : Server) (r : Request) (h : CacheOk s σ.pcache) : CacheOk s (serve s σ r).2.pcache :=
  afterHistory_ok s σ.pcache r.lookups h

theorem serveAll_cache_ok (s : SchemaD) (σ : Server) (hist : List Request) (h : CacheOk s σ.pcache) :
    CacheOk s (serveAll s σ hist).2.pcache := by
  induction hist generalizing σ with
  | nil => exact h
  | cons r rs ih => simp only [serveAll]; exact ih _ (serve_cache_ok s σ r h)

/-- after ANY history, the schema cache answers every possible-type question exactly as the stateless function -/
theorem possible_types_after_history (s : SchemaD) (σ : Server) (hist : List Request) (h : CacheOk s σ.pcache) (abstract obj : String) :
    (isPossibleTypeC s (serveAll s σ hist).2.pcache abstract obj).1 = isPossibleType s abstract obj := by
  have hc := serveAll_cache_ok s σ hist h
  unfold isPossibleTypeC isPossibleType
  by_cases hk : kindOf s obj = some .object
  · simp [hk, (cache_step s _ abstract hc).1]
  · have : (kindOf s obj == some Kind.object) = false := by simpa using hk
    simp [this]

/-- **history_independent**: the response to a request served after ANY history of other requests — on the same schema
    object and on the same shared parsed documents, with whatever variables and worlds — is the response of that
    request served alone by a fresh server holding the same documents.
    TRUE BY CONSTRUCTION (audit C04-F2): `serve` computes the response with `execute`, which has no cache parameter, so the
    persisted `pcache` is never read by the response component; the content of this file is `possible_types_after_history`
    (a cache filled only through `getPossibleTypesC` equals the stateless function). The tie of "the result does not depend
    on requests previously served by the same schema object" to the code is the correspondence's HISTORY STREAM (k earlier
    requests on the same `Schema` object and the same parsed documents before the compared one, `ctx.later` re-runs). -/
theorem history_independent (s : SchemaD) (σ : Server) (hist : List Request) (r : Request) :
    (serve s (serveAll s σ hist).2 r).1 = (serve s { pcache := [], docs := σ.docs } r).1 := by
  simp only [serve, serveAll_docs_unchanged]

/-- … in particular the k-th response of a history is the single-request response -/
theorem kth_response (s : SchemaD) (σ : Server) (pre : List Request) (r : Request) (post : List Request) :
    (serveAll s σ (pre ++ r :: post)).1[pre.length]? = some (serve s { pcache := [], docs := σ.docs } r).1 := by
  induction pre generalizing σ with
  | nil => simp [serveAll, serve]
  | cons p ps ih =>
    simp only [List.cons_append, serveAll, List.length_cons, List.getElem?_cons_succ]
    rw [ih]
    simp [serve]

/-! ### the per-request memo tables of `ResolutionContext` -/

/-- a memo table for `collect_fields`, keyed as the code keys `_grouped_fields` (parent type name, the selections);
    `same` is the key comparison (identity of the selection tuple in Python: it implies equality) -/
abbrev Memo := List ((String × List Sel) × R (Grouped × List String))

def memoCollect (s : SchemaD) (doc : Doc) (vars : Vars) (cf : Nat) (same : String × List Sel → String × List Sel → Bool)
    (m : Memo) (obj : String) (sels : List Sel) : R (Grouped × List String) × Memo :=
  match m.find? (fun e => same e.1 (obj, sels)) with
  | some e => (e.2, m)
  | none =>
    let r := collectFields s doc vars cf obj sels []
    (r, m ++ [((obj, sels), r)])

/-- every entry was computed for THIS request (document, variables) -/
def MemoOk (s : SchemaD) (doc : Doc) (vars : Vars) (cf : Nat) (m : Memo) : Prop :=
  ∀ e ∈ m, e.2 = collectFields s doc vars cf e.1.1 e.1.2 []

/-- **memo_sound**: a table created empty for a request and filled only by that request is transparent -/
theorem memo_sound (s : SchemaD) (doc : Doc) (vars : Vars) (cf : Nat) (same : String × List Sel → String × List Sel → Bool)
    (hsame : ∀ a b, same a b = true → a = b) (m : Memo) (hm : MemoOk s doc vars cf m) (obj : String) (sels : List Sel) :
    (memoCollect s doc vars cf same m obj sels).1 = collectFields s doc vars cf obj sels [] ∧
    MemoOk s doc vars cf (memoCollect s doc vars cf same m obj sels).2 := by
  unfold memoCollect
  cases hf : m.find? (fun e => same e.1 (obj, sels)) with
  | some e =>
    have hmem := List.mem_of_find?_eq_some hf
    have hk := hsame _ _ (by simpa using List.find?_some hf)
    refine ⟨?_, hm⟩
    simp only []
    rw [hm e hmem, hk]
  | none =>
    refine ⟨rfl, ?_⟩
    intro e he
    simp at he
    rcases he with he | rfl
    · exact hm e he
    · rfl

theorem memo_empty_ok (s : SchemaD) (doc : Doc) (vars : Vars) (cf : Nat) : MemoOk s doc vars cf [] := by
  intro e he; simp at he

/-- a table that SURVIVED a request with other variables is not transparent: the reason the executor must be per
    request (witness: `{ a @skip(if: $v) }` collected for v = true, then looked up for v = false) -/
theorem memo_across_requests_unsound :
    let sels := [Sel.field "a" "a" 2 [⟨"skip", .var "v"⟩] [] false []]
    let d : Doc := { ops := [], frags := [] }
    let s : SchemaD := { types := [] }
    let stale := (memoCollect s d [("v", .bool true)] 3 (fun _ _ => true) [] "Query" sels).2
    (match (memoCollect s d [("v", .bool false)] 3 (fun _ _ => true) stale "Query" sels).1,
           collectFields s d [("v", .bool false)] 3 "Query" sels [] with
     | .ok (g1, _), .ok (g2, _) => g1.length != g2.length
     | _, _ => false) = true := by decide

/-- source position of the first selection when it is a field (the identity of the LEADING node) -/
def leadingLoc : List Sel → Option Nat
  | .field _ _ loc _ _ _ _ :: _ => some loc
  | _ => none

/-- keying the table by (parent type, LEADING node) instead of (parent type, all selections) is NOT transparent even
    within one request (`hsame` of `memo_sound` fails): the merged sub-selection of a response key is a function of the
    whole node list. Witness = seeded change C05-12 / C04-11: `pets { owner { name } ... on Dog { owner { phone } } }` -
    for a Cat the key `owner` merges `[name]`, for a Dog `[name, phone]`; both lists start with the same node. After the
    Cat, the Dog is served the Cat's grouped fields (one key instead of two). -/
theorem memo_by_leading_node_unsound :
    let nameSel := Sel.field "name" "name" 17 [] [] false []
    let phoneSel := Sel.field "phone" "phone" 52 [] [] false []
    let d : Doc := { ops := [], frags := [] }
    let s : SchemaD := { types := [] }
    let same : String × List Sel → String × List Sel → Bool := fun a b => a.1 == b.1 && leadingLoc a.2 == leadingLoc b.2
    let afterCat := (memoCollect s d [] 3 same [] "Owner" [nameSel]).2
    (match (memoCollect s d [] 3 same afterCat "Owner" [nameSel, phoneSel]).1, collectFields s d [] 3 "Owner" [nameSel, phoneSel] [] with
     | .ok (g1, _), .ok (g2, _) => (g1.length, g2.length) == (1, 2)
     | _, _ => false) = true := by decide

end PyGql.Props.C04

/-
  C14 — the REGISTRIES of a clone as LISTS (Python dicts keep insertion order).

  * `clone_refines_directives` (FULL; closes `clone_refines_directives_partial`): the `directives` dict of `clone()` lists, IN THE
    SOURCE'S ORDER, under the same names, directive objects with the by-name view of the source's (name, locations, description,
    arguments in order with name, type by name, python name, default, description).
  * `clone_types_perm` (FULL): the `types` dict of the clone, as a list of (name, by-name view), is a PERMUTATION of the source's.
  * `clone_types_order` (FULL): its exact order is the order of `Schema.__init__`'s type map: specified scalars, then the types
    in the order `_build_type_map` meets them from the root operation types, then (`setdefault`) the remaining ones in the source's
    order (`cloneRegistry`).
  * `clone_types_order_refuted`: "the clone lists its types in the source's order" is FALSE of today's code (witness: the
    Dog / Pet schema built from `interface Pet … type Dog … type Query`: the clone lists Query, Pet, Dog) — and it is not part of
    the property (nothing observable by name depends on it: printing sorts by name); it is `clone_types_order_fixpoint_witness`
    that a clone of a clone keeps the order.
-/
import PyGqlModel.Lemmas.HeapDirView
import PyGqlModel.Props.C14_refine

set_option linter.unusedSimpArgs false
set_option linter.unusedVariables false

namespace PyGql.Props.C14
open PyGql.Heap PyGql.Heap.Own

private theorem nodup_of_map {α β : Type} (f : α → β) {l : List α} (h : (l.map f).Nodup) : l.Nodup := by
  rw [List.Nodup, List.pairwise_map] at h
  exact h.imp (fun hne heq => hne (congrArg f heq))

private theorem dirReadable_of_wfs {chk : Ref → Bool} {h : Heap} {s : Schema} (w : WFs chk h s) :
    ∀ e, e ∈ s.dirs → DirReadable h e.2 := by
  intro e' he'
  have hs := w.dirs e' he'
  simp only [dirShape] at hs
  split at hs
  · rename_i d hd
    simp only [List.all_eq_true] at hs
    exact ⟨d, hd, fun x hx => by obtain ⟨g, hg, _⟩ := (argShape_iff _ h x).mp (hs x hx); exact ⟨g, hg⟩⟩
  · cases hs

/-- FULL `clone_refines` for DIRECTIVES: same names, same order, same by-name views -/
theorem clone_refines_directives (cfg : Cfg) (hd : cfg.deepClone = true) (hk : cfg.keepAllTypes = true) (fuel : Nat)
    (s : Schema) (h h' : Heap) (s' : Schema) (hc : closedB h s = true) (hw : wfB h s = true) (hnd : (s.dirs.map (·.1)).Nodup)
    (e : clone cfg fuel s h = some (h', s')) :
    s'.dirs.map (fun c => (c.1, dirV h' c.2)) = s.dirs.map (fun e => (e.1, dirV h e.2)) := by
  have w := wfs_of_closedB hc hw
  obtain ⟨ed, hv⟩ := clone_refines_directives_partial cfg hd hk fuel s h h' s' hc hw e
  obtain ⟨pt, _⟩ := cloneTypes_ok h.size cfg hd s.types h (inv_self h)
  have growT : ShowsSrc h (cloneTypes cfg h s.types).1 := (ShowsSrc.refl' h).of_pres pt
  obtain ⟨_, cs, e2, v2⟩ := cloneDirs_view cfg hd h s.dirs (cloneTypes cfg h s.types).1 growT (dirReadable_of_wfs w)
  have hnames : cs.map (·.1) = s.dirs.map (·.1) := by
    have := congrArg (List.map Prod.fst) v2
    simpa [List.map_map, Function.comp_def] using this
  have hdirs : s'.dirs = cs := by
    rw [ed]
    simp only [cloneStart, replaceCore]
    rw [e2, replaceDirs_append cs [] (by rw [hnames]; exact hnd) (fun _ _ => rfl)]
    rfl
  rw [hdirs, ← v2]
  apply List.map_congr_left
  intro c _
  rw [hv c.2]
  rfl

/-- by name: the directive registered under `n` in the clone has the view of the one registered under `n` in the source -/
theorem clone_refines_directive_at (cfg : Cfg) (hd : cfg.deepClone = true) (hk : cfg.keepAllTypes = true) (fuel : Nat)
    (s : Schema) (h h' : Heap) (s' : Schema) (hc : closedB h s = true) (hw : wfB h s = true) (hnd : (s.dirs.map (·.1)).Nodup)
    (e : clone cfg fuel s h = some (h', s')) :
    s'.dirs.map (·.1) = s.dirs.map (·.1) ∧
    ∀ e0, e0 ∈ s.dirs → ∃ a', lookup s'.dirs e0.1 = some a' ∧ dirV h' a' = dirV h e0.2 := by
  have hl := clone_refines_directives cfg hd hk fuel s h h' s' hc hw hnd e
  have hnames : s'.dirs.map (·.1) = s.dirs.map (·.1) := by
    have := congrArg (List.map Prod.fst) hl
    simpa [List.map_map, Function.comp_def] using this
  refine ⟨hnames, ?_⟩
  intro e0 he0
  have hm : (e0.1, dirV h e0.2) ∈ s'.dirs.map (fun c => (c.1, dirV h' c.2)) := by
    rw [hl]; exact List.mem_map.mpr ⟨e0, he0, rfl⟩
  obtain ⟨c, hc', hq⟩ := List.mem_map.mp hm
  simp only [Prod.mk.injEq] at hq
  refine ⟨c.2, ?_, hq.2⟩
  rw [← hq.1]
  exact lookup_of_mem_nodup (by rw [hnames]; exact hnd) hc'

/-- a directive with an argument, for the non-vacuity of the directive theorems: `directive @lim(n: String) on FIELD` -/
def hDir : Heap := ⟨h0.objs ++ [
  .arg { name := "n", ty := sStr, py := "py_n", dflt := some "'x'", desc := some "d" },
  .dir { name := "lim", args := [7], locs := ["FIELD"], desc := some "limit" }]⟩
def sDir : Schema := { s0 with dirs := [("lim", 8)] }

example : closedB hDir sDir = true ∧ wfB hDir sDir = true ∧ (sDir.dirs.map (·.1)).Nodup ∧ (clone Cfg.fixed 8 sDir hDir).isSome = true := by
  decide

/-- on the witness: the clone's directive is a NEW object (address ≠ 8) with the same view -/
theorem clone_refines_directives_witness :
    (clone Cfg.fixed 8 sDir hDir).map (fun r => (r.2.dirs.map (·.1), r.2.dirs.all (fun c => c.2 != 8),
      r.2.dirs.map (fun c => dirV r.1 c.2) == sDir.dirs.map (fun e => dirV hDir e.2))) = some (["lim"], true, true) := by decide

/-! ### the `types` dict as a list -/

/-- FULL: the exact order of the clone's `types` dict is that of `Schema.__init__`'s type map (`cloneRegistry`) -/
theorem clone_types_order (cfg : Cfg) (hd : cfg.deepClone = true) (hk : cfg.keepAllTypes = true) (fuel : Nat)
    (s : Schema) (h h' : Heap) (s' : Schema) (hc : closedB h s = true) (hw : wfB h s = true) (e : clone cfg fuel s h = some (h', s')) :
    names s' = (cloneRegistry cfg s h).map (·.1) := by
  obtain ⟨et, _, _⟩ := clone_is_copy_then_exact_heal cfg hd hk fuel s h h' s' hc hw e
  simp only [names, et, cloneStart, replaceCore]
  exact replaceTypes_order cfg _ _ _ (cloneTypes_some cfg s.types h)

/-- FULL: as a list of (name, by-name view of the registered object) the clone's `types` is a permutation of the source's -/
theorem clone_types_perm (cfg : Cfg) (hd : cfg.deepClone = true) (hk : cfg.keepAllTypes = true) (fuel : Nat)
    (s : Schema) (h h' : Heap) (s' : Schema) (hc : closedB h s = true) (hw : wfB h s = true) (e : clone cfg fuel s h = some (h', s')) :
    (s'.types.map (fun c => (c.1, typeV h' c.2))).Perm (s.types.map (fun e => (e.1, typeV h e.2))) := by
  have w := wfs_of_closedB hc hw
  have hview := clone_types_view cfg hd hk fuel s h h' s' hc hw e
  have hnd' : (s'.types.map (·.1)).Nodup := by
    have := clone_types_order cfg hd hk fuel s h h' s' hc hw e
    simp only [names] at this
    rw [this]
    exact cloneRegistry_nodup cfg s h w.nodup
  have nd1 : (s'.types.map (fun c => (c.1, typeV h' c.2))).Nodup := by
    apply nodup_of_map Prod.fst
    simpa [List.map_map, Function.comp_def] using hnd'
  have nd2 : (s.types.map (fun e => (e.1, typeV h e.2))).Nodup := by
    apply nodup_of_map Prod.fst
    simpa [List.map_map, Function.comp_def] using w.nodup
  rw [List.perm_ext_iff_of_nodup nd1 nd2]
  intro p
  constructor
  · intro hp
    obtain ⟨c, hcm, rfl⟩ := List.mem_map.mp hp
    obtain ⟨e0, h1, h2, h3⟩ := hview c hcm
    exact List.mem_map.mpr ⟨e0, h1, by rw [h2, h3]⟩
  · intro hp
    obtain ⟨e0, he0, rfl⟩ := List.mem_map.mp hp
    have hn : e0.1 ∈ names s' := clone_intact cfg hd hk fuel s h h' s' e e0.1 (List.mem_map.mpr ⟨e0, he0, rfl⟩)
    obtain ⟨c, hcm, hcn⟩ := List.mem_map.mp hn
    obtain ⟨e1, h1, h2, h3⟩ := hview c hcm
    have l0 := lookup_of_mem_nodup w.nodup he0
    have l1 := lookup_of_mem_nodup w.nodup h1
    rw [h2, hcn, l0] at l1
    simp only [Option.some.injEq] at l1
    exact List.mem_map.mpr ⟨c, hcm, by rw [hcn, h3, ← l1]⟩

/-- the statement "a clone lists its types in the order of its source" -/
def CloneKeepsTypesOrder (cfg : Cfg) : Prop :=
  ∀ fuel s h h' s', closedB h s = true → wfB h s = true → clone cfg fuel s h = some (h', s') → names s' = names s

/-- REFUTED for today's code (every variant): `Schema.__init__` re-collects the types from the roots. Witness: Dog / Pet -/
theorem clone_types_order_refuted : ¬ CloneKeepsTypesOrder Cfg.fixed := by
  intro hf
  have := hf 8 s0 h0 _ _ (by decide) (by decide) (by decide : clone Cfg.fixed 8 s0 h0 = some ((clone Cfg.fixed 8 s0 h0).get (by decide)))
  revert this
  decide

/-- … while the clone OF A CLONE keeps the order (the order of `Schema.__init__` is a fixpoint), on the witness -/
theorem clone_types_order_fixpoint_witness :
    ((clone Cfg.fixed 8 s0 h0).bind fun r => (clone Cfg.fixed 8 r.2 r.1).map fun r2 => (names r.2, names r2.2))
      = some (["String", "Query", "Pet", "Dog"], ["String", "Query", "Pet", "Dog"]) := by decide

/-- the variant in the working tree -/
theorem current_clone_refines_directives (fuel : Nat)
    (s : Schema) (h h' : Heap) (s' : Schema) (hc : closedB h s = true) (hw : wfB h s = true) (hnd : (s.dirs.map (·.1)).Nodup)
    (e : clone PyGql.Generated.HeapCfg.currentCfg fuel s h = some (h', s')) :
    s'.dirs.map (fun c => (c.1, dirV h' c.2)) = s.dirs.map (fun e => (e.1, dirV h e.2)) :=
  clone_refines_directives _ cur_deepClone cur_keepAllTypes fuel s h h' s' hc hw hnd e

end PyGql.Props.C14

/-
  C04 — execution yields the specified result: theorems about the model (`PyGqlModel/Exec.lean`)
  and the specification (`PyGqlModel/Spec/ExecSpec.lean`).
-/
import PyGqlModel.Exec
import PyGqlModel.Spec.ExecSpec

set_option linter.unusedSimpArgs false
set_option linter.unusedVariables false

namespace PyGql.Props.C04
open PyGql PyGql.Exec PyGql.Spec

/-! ## @skip / @include -/

/-- `_skip_selection` = "`@skip(if: true)` or `@include(if: false)`", whenever both directive arguments
    can be read (they always can in a validated operation with accepted variables). -/
theorem skip_include (vars : Vars) (dirs : List Dir) (sk inc : Option Bool)
    (h1 : dirIf vars dirs "skip" = .ok sk) (h2 : dirIf vars dirs "include" = .ok inc) :
    skipSelection vars dirs = .ok (sk == some true || inc == some false) := by
  simp only [skipSelection, h1, h2, bind, Except.bind, pure, Except.pure]
  cases sk with
  | none => cases inc with
    | none => rfl
    | some b => cases b <;> rfl
  | some a => cases a <;> cases inc with
    | none => rfl
    | some b => cases b <;> rfl

/-- a skipped field contributes nothing to the grouped field set -/
theorem skip_include_field (s : SchemaD) (doc : Doc) (vars : Vars) rec obj key name loc dirs args hs sub rest seen g
    (h : skipSelection vars dirs = .ok true) :
    collectStep s doc vars rec obj (.field key name loc dirs args hs sub :: rest) seen g
      = collectStep s doc vars rec obj rest seen g := by
  simp [collectStep, h, bind, Except.bind]

/-- an included field is appended to the group of its response key (alias if present) -/
theorem included_field (s : SchemaD) (doc : Doc) (vars : Vars) rec obj key name loc dirs args hs sub rest seen g
    (h : skipSelection vars dirs = .ok false) :
    collectStep s doc vars rec obj (.field key name loc dirs args hs sub :: rest) seen g
      = collectStep s doc vars rec obj rest seen
          (g.extend key [{ key := key, name := name, loc := loc, args := args, hasSub := hs, sub := sub }]) := by
  simp [collectStep, h, bind, Except.bind]

/-- a skipped inline fragment contributes nothing (its selections are not even visited) -/
theorem skip_include_inline (s : SchemaD) (doc : Doc) (vars : Vars) rec obj on dirs sub rest seen g
    (h : skipSelection vars dirs = .ok true) :
    collectStep s doc vars rec obj (.inline on dirs sub :: rest) seen g
      = collectStep s doc vars rec obj rest seen g := by
  simp [collectStep, h, bind, Except.bind, pure, Except.pure]

/-- an inline fragment whose type condition does not apply to the runtime object type contributes nothing -/
theorem inline_type_condition (s : SchemaD) (doc : Doc) (vars : Vars) rec obj on dirs sub rest seen g
    (h : skipSelection vars dirs = .ok false) (ha : fragmentTypeApplies s obj on = .ok false) :
    collectStep s doc vars rec obj (.inline on dirs sub :: rest) seen g
      = collectStep s doc vars rec obj rest seen g := by
  simp [collectStep, h, ha, bind, Except.bind, pure, Except.pure]

/-- a fragment applies exactly when its type condition is absent, is the object type itself, or is an
    abstract type of which the object type is a possible type -/
theorem fragment_applies_iff (s : SchemaD) (obj c : String) (k : Kind) (hk : kindOf s c = some k) :
    fragmentTypeApplies s obj (some c) = .ok (c == obj || (isAbstract s c && isPossibleType s c obj)) := by
  simp [fragmentTypeApplies, hk]

example : skipSelection [("v", .bool true)] [⟨"include", .lit true⟩, ⟨"skip", .var "v"⟩] = .ok true := by
  simp [skipSelection, dirIf, Vars.get?, truthy, bind, Except.bind, pure, Except.pure]
example : skipSelection [] [⟨"skip", .var "v"⟩] = .error (.internal "CoercionError") := by
  simp [skipSelection, dirIf, Vars.get?, bind, Except.bind]

/-! ## grouped fields: one group per response key, keys in first-occurrence order -/

private theorem extend_keys (g : Grouped) (k : String) (ns : List FNode) :
    (g.extend k ns).keys = if k ∈ g.keys then g.keys else g.keys ++ [k] := by
  induction g with
  | nil => simp [Grouped.extend, Grouped.keys]
  | cons kv rest ih =>
    obtain ⟨k', ms⟩ := kv
    simp only [Grouped.extend]
    by_cases h : k' = k
    · subst h; simp [Grouped.keys]
    · have h' : (k' == k) = false := by simpa using h
      simp only [h', Bool.false_eq_true, if_false]
      simp only [Grouped.keys, List.map_cons] at ih ⊢
      rw [ih]
      have hne : ¬ k = k' := fun e => h e.symm
      by_cases hc : k ∈ List.map (fun x => x.1) rest
      · simp [hc]
      · simp [hc, hne]

/-- adding nodes never creates a second group for a key -/
private theorem extend_nodup (g : Grouped) (k : String) (ns : List FNode) (h : g.keys.Nodup) :
    (g.extend k ns).keys.Nodup := by
  rw [extend_keys]
  by_cases hc : k ∈ g.keys
  · simp [hc, h]
  · simp only [hc, if_false]
    rw [List.nodup_append]
    refine ⟨h, by simp, ?_⟩
    intro a ha b hb
    simp at hb; subst hb
    intro e; subst e
    exact hc ha

/-- existing keys keep their position (document order of first occurrence is never disturbed) -/
private theorem extend_keys_prefix (g : Grouped) (k : String) (ns : List FNode) :
    g.keys <+: (g.extend k ns).keys := by
  rw [extend_keys]; split <;> simp

private theorem mergeInto_nodup (src into : Grouped) (h : into.keys.Nodup) : (src.mergeInto into).keys.Nodup := by
  unfold Grouped.mergeInto
  induction src generalizing into with
  | nil => simpa
  | cons kv rest ih => simp only [List.foldl_cons]; exact ih _ (extend_nodup _ _ _ h)

private theorem mergeInto_keys_prefix (src into : Grouped) : into.keys <+: (src.mergeInto into).keys := by
  unfold Grouped.mergeInto
  induction src generalizing into with
  | nil => simp
  | cons kv rest ih =>
    simp only [List.foldl_cons]
    exact List.IsPrefix.trans (extend_keys_prefix _ _ _) (ih _)

/-- invariant of a grouped field set: every node sits in the group of its own response key -/
def KeysOk (g : Grouped) : Prop := ∀ kv ∈ g, ∀ n ∈ kv.2, n.key = kv.1

private theorem extend_keysOk (g : Grouped) (k : String) (ns : List FNode) (hg : KeysOk g) (hn : ∀ n ∈ ns, n.key = k) :
    KeysOk (g.extend k ns) := by
  induction g with
  | nil => intro kv hkv n hn'; simp [Grouped.extend] at hkv; subst hkv; exact hn n hn'
  | cons kv rest ih =>
    obtain ⟨k', ms⟩ := kv
    simp only [Grouped.extend]
    by_cases h : k' = k
    · subst h
      simp only [beq_self_eq_true, if_true]
      intro kv hkv n hn'
      simp at hkv
      rcases hkv with rfl | hkv
      · simp at hn'
        rcases hn' with h1 | h1
        · exact hg (k', ms) (by simp) n h1
        · exact hn n h1
      · exact hg kv (by simp [hkv]) n hn'
    · have h' : (k' == k) = false := by simpa using h
      simp only [h', Bool.false_eq_true, if_false]
      intro kv hkv n hn'
      simp at hkv
      rcases hkv with rfl | hkv
      · exact hg (k', ms) (by simp) n hn'
      · exact ih (fun kv hkv => hg kv (by simp [hkv])) kv hkv n hn'

private theorem mergeInto_keysOk (src into : Grouped) (hs : KeysOk src) (hi : KeysOk into) : KeysOk (src.mergeInto into) := by
  unfold Grouped.mergeInto
  induction src generalizing into with
  | nil => simpa
  | cons kv rest ih =>
    simp only [List.foldl_cons]
    exact ih _ (fun kv' hkv => hs kv' (by simp [hkv])) (extend_keysOk _ _ _ hi (fun n hn => hs kv (by simp) n hn))

/-- the two invariants together -/
def GroupedOk (g : Grouped) : Prop := g.keys.Nodup ∧ KeysOk g

private theorem collectStep_ok (s : SchemaD) (doc : Doc) (vars : Vars)
    (rec : String → List Sel → List String → R (Grouped × List String))
    (hrec : ∀ obj sels seen g seen', rec obj sels seen = .ok (g, seen') → GroupedOk g)
    (obj : String) : ∀ (sels : List Sel) (seen : List String) (g : Grouped) (g' : Grouped) (seen' : List String),
      GroupedOk g → collectStep s doc vars rec obj sels seen g = .ok (g', seen') → GroupedOk g' ∧ g.keys <+: g'.keys := by
  intro sels
  induction sels with
  | nil =>
    intro seen g g' seen' hg h
    simp [collectStep] at h
    obtain ⟨rfl, rfl⟩ := h
    exact ⟨hg, List.prefix_refl _⟩
  | cons sel rest ih =>
    intro seen g g' seen' hg h
    cases sel with
    | field key name loc dirs args hs sub =>
      simp only [collectStep, bind, Except.bind] at h
      cases hsk : skipSelection vars dirs with
      | error e => simp [hsk] at h
      | ok b =>
        simp only [hsk] at h
        cases b with
        | true => simp at h; exact ih _ _ _ _ hg h
        | false =>
          simp at h
          have hg2 : GroupedOk (g.extend key [{ key := key, name := name, loc := loc, args := args, hasSub := hs, sub := sub }]) :=
            ⟨extend_nodup _ _ _ hg.1, extend_keysOk _ _ _ hg.2 (by simp)⟩
          obtain ⟨h1, h2⟩ := ih _ _ _ _ hg2 h
          exact ⟨h1, List.IsPrefix.trans (extend_keys_prefix _ _ _) h2⟩
    | inline on dirs sub =>
      simp only [collectStep, bind, Except.bind, pure, Except.pure] at h
      cases hsk : skipSelection vars dirs with
      | error e => simp [hsk] at h
      | ok b =>
        simp only [hsk] at h
        cases b with
        | true => simp at h; exact ih _ _ _ _ hg h
        | false =>
          simp only [Bool.false_eq_true, if_false] at h
          cases hap : fragmentTypeApplies s obj on with
          | error e => simp [hap] at h
          | ok a =>
            simp only [hap] at h
            cases a with
            | false => simp at h; exact ih _ _ _ _ hg h
            | true =>
              simp only [Bool.not_true, Bool.false_eq_true, if_false] at h
              cases hr : rec obj sub seen with
              | error e => simp [hr] at h
              | ok p =>
                obtain ⟨gs, seens⟩ := p
                simp only [hr] at h
                have hgs := hrec _ _ _ _ _ hr
                have hg2 : GroupedOk (gs.mergeInto g) := ⟨mergeInto_nodup _ _ hg.1, mergeInto_keysOk _ _ hgs.2 hg.2⟩
                obtain ⟨h1, h2⟩ := ih _ _ _ _ hg2 h
                exact ⟨h1, List.IsPrefix.trans (mergeInto_keys_prefix _ _) h2⟩
    | spread name dirs =>
      simp only [collectStep, bind, Except.bind, pure, Except.pure] at h
      cases hf : doc.fragment? name with
      | none => simp [hf] at h
      | some fr =>
        simp only [hf] at h
        cases hsk : skipSelection vars dirs with
        | error e => simp [hsk] at h
        | ok b =>
          simp only [hsk] at h
          cases b with
          | true => simp at h; exact ih _ _ _ _ hg h
          | false =>
            simp only [Bool.false_eq_true, if_false] at h
            by_cases hseen : seen.contains name
            · simp only [hseen, if_true] at h; simp at h; exact ih _ _ _ _ hg h
            · simp only [hseen, Bool.false_eq_true, if_false] at h
              cases hap : fragmentTypeApplies s obj (some fr.on) with
              | error e => simp [hap] at h
              | ok a =>
                simp only [hap] at h
                cases a with
                | false => simp at h; exact ih _ _ _ _ hg h
                | true =>
                  simp only [Bool.not_true, Bool.false_eq_true, if_false] at h
                  cases hr : rec obj fr.sels seen with
                  | error e => simp [hr] at h
                  | ok p =>
                    obtain ⟨gs, seens⟩ := p
                    simp only [hr] at h
                    have hgs := hrec _ _ _ _ _ hr
                    have hg2 : GroupedOk (gs.mergeInto g) := ⟨mergeInto_nodup _ _ hg.1, mergeInto_keysOk _ _ hgs.2 hg.2⟩
                    obtain ⟨h1, h2⟩ := ih _ _ _ _ hg2 h
                    exact ⟨h1, List.IsPrefix.trans (mergeInto_keys_prefix _ _) h2⟩

/-- **alias_merge**: whatever the document (fragments, aliases, directives, the `_seen_fragments` quirk), the
    grouped field set has ONE group per response key, and each group holds exactly nodes with that response
    key (alias if present, else field name) — same-key fields are merged, different keys never are. -/
theorem alias_merge (s : SchemaD) (doc : Doc) (vars : Vars) (fuel : Nat) (obj : String) (sels : List Sel)
    (seen : List String) (g : Grouped) (seen' : List String)
    (h : collectFields s doc vars fuel obj sels seen = .ok (g, seen')) : g.keys.Nodup ∧ KeysOk g := by
  induction fuel generalizing obj sels seen g seen' with
  | zero => simp [collectFields] at h
  | succ n ih =>
    simp only [collectFields] at h
    exact (collectStep_ok s doc vars _ (fun obj sels seen g seen' hh => ih _ _ _ _ _ hh) obj sels seen [] g seen'
      ⟨by simp [Grouped.keys], by intro kv hkv; simp at hkv⟩ h).1

/-- **keys_document_order** (collection half): processing further selections only APPENDS new response keys;
    keys already present keep their position. Hence the key order is the order of first occurrence in the
    depth-first document order in which `collect_fields` visits selections. -/
theorem keys_document_order_collect (s : SchemaD) (doc : Doc) (vars : Vars) (fuel : Nat) (obj : String)
    (sels : List Sel) (seen : List String) (g0 g : Grouped) (seen' : List String) (hg0 : GroupedOk g0)
    (h : collectStep s doc vars (collectFields s doc vars fuel) obj sels seen g0 = .ok (g, seen')) :
    g0.keys <+: g.keys :=
  (collectStep_ok s doc vars _ (fun obj sels seen g seen' hh => alias_merge s doc vars fuel _ _ _ _ _ hh)
    obj sels seen g0 g seen' hg0 h).2

/-! ## execution of a grouped field set -/

/-- **siblings_undisturbed**: the loop over response keys is compositional — the entry computed for one key
    (data and errors) does not depend on the groups before or after it; results are concatenated in order. -/
theorem siblings_undisturbed (s : SchemaD) (w : World) (execSub) (parent : String) (path : Path) (g1 g2 : Grouped) :
    executeGroups s w execSub parent path (g1 ++ g2) =
      (do let (kv1, e1) ← executeGroups s w execSub parent path g1
          let (kv2, e2) ← executeGroups s w execSub parent path g2
          pure (kv1 ++ kv2, e1 ++ e2)) := by
  induction g1 with
  | nil =>
    simp only [List.nil_append, executeGroups, bind, Except.bind, pure, Except.pure]
    cases executeGroups s w execSub parent path g2 with
    | error e => rfl
    | ok p => simp
  | cons kv rest ih =>
    obtain ⟨key, nodes⟩ := kv
    cases nodes with
    | nil => simp [executeGroups, bind, Except.bind]
    | cons node more =>
      simp only [List.cons_append, executeGroups]
      split
      · split
        · rw [ih]
          simp only [bind, Except.bind, pure, Except.pure]
          cases executeGroups s w execSub parent path rest with
          | error e => rfl
          | ok p1 =>
            cases executeGroups s w execSub parent path g2 with
            | error e => rfl
            | ok p2 => simp
        · split <;> simp [bind, Except.bind]
      · split
        · exact ih
        · rw [ih]
          simp only [bind, Except.bind, pure, Except.pure]
          cases resolveField s w execSub parent (path ++ [Seg.key key]) (node :: more) _ with
          | error e => rfl
          | ok pd =>
            cases executeGroups s w execSub parent path rest with
            | error e => rfl
            | ok p1 =>
              cases executeGroups s w execSub parent path g2 with
              | error e => rfl
              | ok p2 => simp

/-- response keys of an executed selection set = keys of the grouped field set whose field exists, in order -/
def definedKeys (s : SchemaD) (parent : String) : Grouped → List String
  | [] => []
  | (k, ns) :: rest =>
    match ns with
    | [] => definedKeys s parent rest
    | n :: _ =>
      if isMeta n.name || (fieldOf s parent n.name).isSome then k :: definedKeys s parent rest
      else definedKeys s parent rest

/-- **keys_document_order** (execution half): the response object has exactly the keys of the grouped field
    set (minus undefined fields), in the same order. -/
theorem keys_document_order (s : SchemaD) (w : World) (execSub) (parent : String) (path : Path) (g : Grouped)
    (kvs : List (String × Data)) (es : List Err)
    (h : executeGroups s w execSub parent path g = .ok (kvs, es)) : kvs.map (·.1) = definedKeys s parent g := by
  induction g generalizing kvs es with
  | nil => simp [executeGroups] at h; simp [h.1, definedKeys]
  | cons kv rest ih =>
    obtain ⟨key, nodes⟩ := kv
    cases nodes with
    | nil => simp [executeGroups] at h
    | cons node more =>
      simp only [executeGroups] at h
      simp only [definedKeys]
      by_cases hm : isMeta node.name
      · simp only [hm, if_true] at h
        by_cases ht : node.name = "__typename"
        · simp only [ht, beq_self_eq_true, if_true, bind, Except.bind, pure, Except.pure] at h
          cases hr : executeGroups s w execSub parent path rest with
          | error e => simp [hr] at h
          | ok p =>
            simp [hr] at h
            obtain ⟨rfl, rfl⟩ := h
            simp [hm, ih _ _ hr]
        · have : (node.name == "__typename") = false := by simpa using ht
          simp only [this, Bool.false_eq_true, if_false] at h
          split at h <;> simp at h
      · simp only [hm, Bool.false_eq_true, if_false] at h
        cases hf : fieldOf s parent node.name with
        | none => simp only [hf] at h; simp [hm, hf, ih _ _ h]
        | some fd =>
          simp only [hf, bind, Except.bind, pure, Except.pure] at h
          cases hr1 : resolveField s w execSub parent (path ++ [Seg.key key]) (node :: more) fd with
          | error e => simp [hr1] at h
          | ok pd =>
            simp only [hr1] at h
            cases hr : executeGroups s w execSub parent path rest with
            | error e => simp [hr] at h
            | ok p =>
              simp [hr] at h
              obtain ⟨rfl, rfl⟩ := h
              simp [hm, hf, ih _ _ hr]


/-! ## abstract types -/

/-- **abstract_possible_type**: a non-null value at an interface/union position completes successfully only
    through an OBJECT type that is a possible type of the abstract type; its sub-selections (merged over all
    same-key nodes) are then executed against that runtime type. Anything else is an internal error. -/
theorem abstract_possible_type (s : SchemaD) (execSub) (nodes : List FNode) (n : String) (path : Path) (v : RVal)
    (d : Data) (es : List Err) (ha : isAbstract s n = true) (hv : v ≠ .null)
    (h : completeValue s execSub nodes (.named n) path v = .ok (d, es)) :
    ∃ rt, v = .obj rt ∧ kindOf s rt = some .object ∧ rt ∈ possibleTypes s n ∧
      execSub rt path (mergedSelections nodes) = .ok (d, es) := by
  have hk : kindOf s n = some .interface ∨ kindOf s n = some .union := by
    unfold isAbstract at ha
    cases hkk : kindOf s n with
    | none => simp [hkk] at ha
    | some k => cases k <;> simp_all
  cases v with
  | null => exact absurd rfl hv
  | leaf j => rcases hk with hk | hk <;> simp [completeValue, hk] at h
  | list vs => rcases hk with hk | hk <;> simp [completeValue, hk] at h
  | raise vs msg ext => rcases hk with hk | hk <;> simp [completeValue, hk] at h
  | obj rt =>
    refine ⟨rt, rfl, ?_⟩
    rcases hk with hk | hk
    all_goals
      simp only [completeValue, hk] at h
      cases hr : kindOf s rt with
      | none => simp [hr] at h
      | some k =>
        cases k <;> simp only [hr] at h <;> try (simp at h)
        by_cases hp : isPossibleType s n rt
        · simp only [hp, if_true] at h
          refine ⟨rfl, ?_, h⟩
          unfold isPossibleType at hp
          simp at hp
          exact hp.2
        · simp [hp] at h

/-! ## field errors: null at exactly the failing position, one error, no propagation -/

/-- a resolver raising `ResolverError` (with or without extensions): the field is `null` and there is exactly
    ONE error, carrying the response path and the location of the (first) field node -/
theorem resolver_error_null_one_error (s : SchemaD) (w : World) (execSub) (parent : String) (path : Path)
    (node : FNode) (more : List FNode) (fd : FieldD) (a msg : String) (ext : Option J)
    (ha : (node.args.find? (·.1 == parent)).map (·.2) = some (some a))
    (hw : w parent fd.name path a = .err msg ext) :
    resolveField s w execSub parent path (node :: more) fd
      = .ok (.null, [{ path := path, locs := [node.loc], kind := .resolver msg ext }]) := by
  simp [resolveField, ha, hw]

/-- a null in a non-nullable position: `null` stays AT that position (no propagation to the parent) and exactly
    one error with that path and the locations of the field nodes is appended -/
theorem nonnull_violation_null_one_error (s : SchemaD) (execSub) (nodes : List FNode) (t : Ty) (path : Path) (v : RVal)
    (es : List Err) (h : completeValue s execSub nodes t path v = .ok (.null, es)) :
    completeValue s execSub nodes (.nonNull t) path v
      = .ok (.null, es ++ [{ path := path, locs := nodeLocs nodes, kind := .nonnull }]) := by
  simp [completeValue, h, bind, Except.bind, pure, Except.pure, Data.isNull]

/-- a non-null result passes through a non-null wrapper unchanged: no error is invented -/
theorem nonnull_ok_no_error (s : SchemaD) (execSub) (nodes : List FNode) (t : Ty) (path : Path) (v : RVal)
    (d : Data) (es : List Err) (hd : d.isNull = false) (h : completeValue s execSub nodes t path v = .ok (d, es)) :
    completeValue s execSub nodes (.nonNull t) path v = .ok (d, es) := by
  simp [completeValue, h, bind, Except.bind, pure, Except.pure, hd]

/-- a `null` from the resolver in a NULLABLE position is not an error -/
theorem nullable_null_no_error (s : SchemaD) (execSub) (nodes : List FNode) (t : Ty) (path : Path)
    (ht : t.isNonNull = false) : completeValue s execSub nodes t path .null = .ok (.null, []) := by
  cases t with
  | named n => simp [completeValue]
  | list t => simp [completeValue]
  | nonNull t => simp [Ty.isNonNull] at ht

/-- errors of list items carry the item index; items are completed independently and in order -/
theorem list_items_independent (f : Path → RVal → R (Data × List Err)) (path : Path) (i : Nat) (v : RVal) (vs : List RVal)
    (d : Data) (e : List Err) (ds : List Data) (es : List Err)
    (h1 : f (path ++ [.idx i]) v = .ok (d, e)) (h2 : completeList f path (i + 1) vs = .ok (ds, es)) :
    completeList f path i (v :: vs) = .ok (d :: ds, e ++ es) := by
  simp [completeList, h1, h2, bind, Except.bind, pure, Except.pure, Functor.map, Except.map]

/-- a `ResolverError` raised while a LATER item is completed interrupts the list, and the errors of the items already
    completed stay recorded (the error accumulator is not rolled back) -/
theorem list_interrupted_keeps_errors (f : Path → RVal → R (Data × List Err)) (path : Path) (i : Nat) (v : RVal) (vs : List RVal)
    (d : Data) (e : List Err) (k : ErrKind) (l : Option (List Nat)) (inner : List Err)
    (h1 : f (path ++ [.idx i]) v = .ok (d, e)) (h2 : completeList f path (i + 1) vs = .error (.raised k l inner)) :
    completeList f path i (v :: vs) = .error (.raised k l (e ++ inner)) := by
  simp [completeList, h1, h2, bind, Except.bind, pure, Except.pure, Functor.map, Except.map]

/-- **completion_error_is_field_error**: a `ResolverError` raised while the value of a field is being completed
    (`resolve_type` raising, a lazy iterable raising, a sub-selection whose `@skip/@include` condition cannot be
    evaluated) makes THAT field null with one error carrying its response path; errors recorded before stay. -/
theorem completion_error_is_field_error (s : SchemaD) (w : World) (execSub) (parent : String) (path : Path)
    (node : FNode) (more : List FNode) (fd : FieldD) (a : String) (v : RVal) (k : ErrKind) (l : Option (List Nat)) (inner : List Err)
    (ha : (node.args.find? (·.1 == parent)).map (·.2) = some (some a)) (hw : w parent fd.name path a = .val v)
    (hc : completeValue s execSub (node :: more) fd.type path v = .error (.raised k l inner)) :
    resolveField s w execSub parent path (node :: more) fd
      = .ok (.null, inner ++ [{ path := path, locs := l.getD [node.loc], kind := k }]) := by
  simp [resolveField, ha, hw, hc]

/-- position of a response value inside a `Data` tree -/
def Data.at : Data → Path → Option Data
  | d, [] => some d
  | .obj kvs, .key k :: p => match kvs.find? (·.1 == k) with
    | some kv => Data.at kv.2 p
    | none => none
  | .list l, .idx i :: p => match l[i]? with
    | some d => Data.at d p
    | none => none
  | _, _ => none

/-- The null/error correspondence over a whole response - ONE DIRECTION ONLY (audit C04-F3: the name says more than the
    statement; kept because evidence and DESIGN refer to it; `errors_at_or_below_nulls` is the same theorem under an
    honest name). Stated: error paths are pairwise distinct, and every error lies at or below an error whose path holds
    `null`. NOT stated globally: every `null` caused by a resolver error / a non-null violation has exactly one error with
    that path - only the one-step lemmas `resolver_error_null_one_error`, `nonnull_violation_null_one_error`,
    `completion_error_is_field_error` (about `resolveField` / `completeValue` in isolation) say so; a global converse
    needs a `NullSite` predicate over (document, world) and an induction over `executeFields` (open).
    PROVED in `Props/C04_nulls.lean` (`null_error_bijection`):
    no two errors share a path, and every error sits AT or BELOW an error whose path is a position of the data holding
    `null`. "Below" happens exactly when a `ResolverError` interrupts the completion of a field value (7b8e151): the
    field becomes `null` and the errors already recorded for the items completed before stay in the response. -/
def NullErrorBijection (s : SchemaD) (doc : Doc) (vars : Vars) (w : World) (cf fuel : Nat) (root : String) (sels : List Sel) : Prop :=
  ∀ d es, executeFields s doc vars w cf fuel root [] sels = .ok (d, es) →
    (es.map (·.path)).Nodup ∧
    ∀ e ∈ es, ∃ e' ∈ es, ∃ suf, e.path = e'.path ++ suf ∧ Data.at d e'.path = some .null

/-! ## independence from earlier requests (`Schema._possible_types`) -/

/-- the per-schema cache that survives across requests -/
abbrev PCache := List (String × List String)

/-- `Schema.get_possible_types` with its cache -/
def getPossibleTypesC (s : SchemaD) (cache : PCache) (n : String) : List String × PCache :=
  match cache.find? (·.1 == n) with
  | some kv => (kv.2, cache)
  | none => (possibleTypes s n, cache ++ [(n, possibleTypes s n)])

/-- `Schema.is_possible_type` through the cache -/
def isPossibleTypeC (s : SchemaD) (cache : PCache) (abstract obj : String) : Bool × PCache :=
  if kindOf s obj == some .object then
    let (l, c) := getPossibleTypesC s cache abstract
    (l.contains obj, c)
  else (false, cache)

def CacheOk (s : SchemaD) (cache : PCache) : Prop := ∀ kv ∈ cache, kv.2 = possibleTypes s kv.1

theorem cache_step (s : SchemaD) (cache : PCache) (n : String) (h : CacheOk s cache) :
    (getPossibleTypesC s cache n).1 = possibleTypes s n ∧ CacheOk s (getPossibleTypesC s cache n).2 := by
  unfold getPossibleTypesC
  cases hf : cache.find? (·.1 == n) with
  | some kv =>
    have hm := List.mem_of_find?_eq_some hf
    have hk := List.find?_some hf
    simp at hk
    simp [h kv hm, hk, h]
  | none =>
    refine ⟨rfl, ?_⟩
    intro kv hkv
    simp at hkv
    rcases hkv with hkv | rfl
    · exact h kv hkv
    · rfl

/-- the cache after an arbitrary history of earlier lookups (earlier requests, in any order) -/
def afterHistory (s : SchemaD) : PCache → List String → PCache
  | c, [] => c
  | c, n :: rest => afterHistory s (getPossibleTypesC s c n).2 rest

theorem afterHistory_ok (s : SchemaD) (c : PCache) (hist : List String) (h : CacheOk s c) : CacheOk s (afterHistory s c hist) := by
  induction hist generalizing c with
  | nil => exact h
  | cons n rest ih => exact ih _ (cache_step s c n h).2

/-- **exec_pure**: the executor model is a function of (schema, document, variables, world) only — it consults
    the schema only through `isPossibleType`/`kindOf`/`fieldOf`; and the one piece of per-schema state that
    survives requests, the `_possible_types` cache, answers every lookup exactly as the stateless function does
    after ANY history of earlier lookups. Hence a response cannot depend on requests served before. -/
theorem exec_pure (s : SchemaD) (history : List String) (abstract obj : String) :
    (isPossibleTypeC s (afterHistory s [] history) abstract obj).1 = isPossibleType s abstract obj := by
  have hc : CacheOk s (afterHistory s [] history) := afterHistory_ok s [] history (by intro kv h; simp at h)
  unfold isPossibleTypeC isPossibleType
  by_cases hk : kindOf s obj = some .object
  · simp [hk, (cache_step s _ abstract hc).1]
  · have : (kindOf s obj == some Kind.object) = false := by simpa using hk
    simp [this]

/-- the request-level model literally has no other input. TRUE BY CONSTRUCTION (`subst; rfl`, congruence of a function):
    the statement records that `execute` takes no hidden parameter, it has no further content. What ties "the response is
    a function of (schema, document, variables, world)" to the code is the correspondence (same request repeated, history
    streams of `corr/C04.py`), not this theorem. -/
theorem exec_deterministic (s : SchemaD) (doc : Doc) (vars : Vars) (w w' : World) (op : Option String) (f c : Nat)
    (hw : w = w') : execute s doc vars w op f c = execute s doc vars w' op f c := by subst hw; rfl

end PyGql.Props.C04

/-
  C10 (and C01, which uses the same `index_to_loc`): the hand-written model of `_string_utils.index_to_loc`
  (`Response.indexToLoc`, about which `loc_bounds` / `index_to_loc_total_iff` and the response theorems are stated)
  EQUALS the definition the translator derives from the source text on every run
  (`Generated/TrIndexToLoc.lean`). An edit of the Python function changes the right-hand side and re-opens this proof.
-/
import PyGqlModel.Response
import PyGqlModel.Generated.TrIndexToLoc

namespace PyGql.Props.C10
open PyGql PyGql.Response PyGql.Generated

/-- how a result of the model (`none` = IndexError, naturals) reads as a result of the translated code -/
def locOfModel : Option (Nat × Nat) → Except String (Int × Int)
  | some (l, c) => .ok ((l : Int), (c : Int))
  | none => .error "IndexError"

private theorem slice_next {α} (pre : List α) (x : α) (rest : List α) :
    Py.slice (pre ++ x :: rest) ((pre.length : Int) + 1) ((pre.length : Int) + 2) = rest.take 1 := by
  have h1 : ¬ ((pre.length : Int) + 1 < 0) := by omega
  have h2 : ¬ ((pre.length : Int) + 2 < 0) := by omega
  have e1 : ((pre.length : Int) + 1).toNat = pre.length + 1 := by omega
  have e2 : ((pre.length : Int) + 2).toNat = pre.length + 2 := by omega
  simp only [Py.slice, Py.normIdx, h1, h2, if_false, e1, e2, List.length_append, List.length_cons]
  rw [List.drop_take]
  have : min (pre.length + 1) (pre.length + (rest.length + 1)) = pre.length + 1 := by omega
  rw [this]
  have hd : List.drop (pre.length + 1) (pre ++ x :: rest) = rest := by
    rw [show pre ++ x :: rest = (pre ++ [x]) ++ rest by simp]
    exact List.drop_left' (by simp)
  rw [hd]
  cases rest with
  | nil => simp
  | cons y ys =>
    have : min (pre.length + 2) (pre.length + ((y :: ys).length + 1)) - (pre.length + 1) = 1 := by
      simp only [List.length_cons]; omega
    rw [this]

private def finish : Py.Flow String (Int × Int) (Int × Int) → Except String (Int × Int)
  | .ret r => .ok r
  | .raise e => .error e
  | .fall (l, c) => .ok (l + 1, c + 1)

private theorem loop_eq : ∀ (rest pre : List Nat) (q l c : Nat),
    finish (Tr.index_to_loc.loop1 (pre ++ rest) ((pre.length : Int) + q) (Py.enumerateFrom (pre.length : Int) rest) l c)
      = locOfModel (some (indexToLocLoop rest q l c))
  | [], pre, q, l, c => by
    simp [Py.enumerateFrom, Tr.index_to_loc.loop1, finish, indexToLocLoop, locOfModel]
  | ch :: rest, pre, 0, l, c => by
    simp [Py.enumerateFrom, Tr.index_to_loc.loop1, finish, indexToLocLoop, locOfModel]
  | ch :: rest, pre, q + 1, l, c => by
    have ih := loop_eq rest (pre ++ [ch]) q
    have hb : pre ++ [ch] ++ rest = pre ++ ch :: rest := by simp
    have hl : (((pre ++ [ch]).length : Nat) : Int) = (pre.length : Int) + 1 := by simp
    have hp : (((pre ++ [ch]).length : Nat) : Int) + (q : Int) = (pre.length : Int) + ((q + 1 : Nat) : Int) := by
      simp; omega
    rw [hb, hp, hl] at ih
    have hne : ((pre.length : Int) == (pre.length : Int) + ((q + 1 : Nat) : Int)) = false := by
      simp; omega
    rw [Py.enumerateFrom, Tr.index_to_loc.loop1, indexToLocLoop]
    simp only [hne, Bool.false_eq_true, if_false]
    by_cases h10 : ch = 10
    · subst h10
      have := ih (l + 1) 0
      simpa using this
    · by_cases h13 : ch = 13
      · subst h13
        rw [slice_next]
        cases rest with
        | nil => have := ih (l + 1) 0; simpa using this
        | cons y ys =>
          by_cases hy : y = 10
          · subst hy; have := ih l c; simpa using this
          · have := ih (l + 1) 0; simpa [hy] using this
      · have := ih l (c + 1)
        simpa [h10, h13] using this

/-- **`index_to_loc`: model = source.** For every body and every non-negative position the translated Python function
    and the hand-written model agree (IndexError ↔ `none`, otherwise the same line and column). -/
theorem index_to_loc_model_eq_source (body : Text) (position : Nat) :
    Tr.index_to_loc body (position : Int) = locOfModel (indexToLoc body position) := by
  unfold Tr.index_to_loc indexToLoc
  cases body with
  | nil =>
    cases position with
    | zero => simp [locOfModel]
    | succ n =>
      simp [Py.len, locOfModel]
      omega
  | cons ch rest =>
    by_cases hgt : position > (ch :: rest).length
    · have : ((position : Nat) : Int) > Py.len (ch :: rest) := by simp [Py.len] at *; omega
      have hgt' : rest.length + 1 < position := by simpa using hgt
      simp [this, hgt', locOfModel]
    · have h1 : ¬ (((position : Nat) : Int) > Py.len (ch :: rest)) := by simp [Py.len] at *; omega
      have h2 : ¬ (((position : Nat) : Int) < 0) := by omega
      have := loop_eq (ch :: rest) [] position 0 0
      simp only [List.nil_append, List.length_nil, Int.natCast_zero, Int.zero_add] at this
      simp only [List.isEmpty_cons, Bool.not_false, Bool.not_true, Bool.false_and, Bool.false_eq_true, if_false, h1, h2,
        decide_false, Bool.or_self, hgt, Bool.and_false, Py.enumerate]
      revert this
      cases Tr.index_to_loc.loop1 (ch :: rest) position (Py.enumerateFrom 0 (ch :: rest)) ((0 : Nat) : Int) ((0 : Nat) : Int) with
      | ret r => intro h; simpa [finish] using h
      | raise e => intro h; simpa [finish] using h
      | fall s => intro h; obtain ⟨a, b⟩ := s; simpa [finish] using h

/-- a negative position is an `IndexError` in the source (the model has no negative positions) -/
theorem index_to_loc_source_negative (body : Text) (position : Int) (h : position < 0) :
    Tr.index_to_loc body position = .error "IndexError" := by
  unfold Tr.index_to_loc
  have : position ≠ 0 := by omega
  simp [this, h]

example : Tr.index_to_loc [97, 13, 10, 98] 3 = .ok (2, 1) := by rfl
example : indexToLoc [97, 13, 10, 98] 3 = some (2, 1) := by decide

end PyGql.Props.C10

/-
  C13 — the uniqueness clauses of the specification that `validate_schema` does NOT implement because live schema
  objects cannot violate them, as NAMED clauses: type names and directive names are unique (`Schema.types` /
  `Schema.directives` are dicts keyed by name) and the value names of an enum are unique (June-2018 §3.9;
  `EnumType._set_values` raises `ValueError("Duplicate enum value ...")` at construction). `ValidSchemaSpec` =
  the implemented rules + these construction invariants; on descriptions of live objects the validator decides it.
-/
import PyGqlModel.Props.C13

namespace PyGql.Props.C13
open PyGql PyGql.SchemaValid PyGql.SchemaValidSpec

/-- what the construction of live schema objects guarantees and no validation rule re-checks -/
structure ConstructionInvariants (s : SchemaD) : Prop where
  typeNames : (s.types.map (·.name)).Nodup
  directiveNames : (s.directives.map (·.name)).Nodup
  enumValues : ∀ t ∈ s.types, t.kind = .enum → (t.values.map (·.name)).Nodup

/-- the type-system rules of the specification: the implemented ones and the uniqueness clauses -/
def ValidSchemaSpec (s : SchemaD) (rv : Bool := true) : Prop := ValidSchema s rv ∧ ConstructionInvariants s

/-- on the description of a live schema (construction invariants hold) the validator decides the specification's
    rules, uniqueness clauses included -/
theorem validate_iff_spec (s : SchemaD) (rv : Bool) (ci : ConstructionInvariants s) :
    validate s rv = [] ↔ ValidSchemaSpec s rv := by
  rw [validate_iff]; exact ⟨fun h => ⟨h, ci⟩, fun h => h.1⟩

/-- ...and the invariants are NOT consequences of `ValidSchema` (so they are genuinely extra clauses): an enum
    description with a repeated value name passes every implemented rule -/
theorem enum_uniqueness_not_implemented :
    ∃ s : SchemaD, validate s true = [] ∧ ¬ ConstructionInvariants s := by
  refine ⟨{ query := some "Query",
            types := [{ kind := .scalar, name := "Int", builtin := true },
                      { kind := .enum, name := "E", values := [{ name := "A", value := .str "A" }, { name := "A", value := .str "A" }] },
                      { kind := .object, name := "Query", fields := [{ name := "a", type := .named "Int" }] }] },
    by decide, fun h => ?_⟩
  have := h.enumValues _ (List.mem_cons_of_mem _ List.mem_cons_self) rfl
  simp at this

end PyGql.Props.C13

/-
  C11 — theorems about the model of the PUBLIC `extend_schema(schema, document, strict)` (PyGqlModel/SdlExtend.lean).
  (`extend_rejects`, `collectExtensions_rejects` are in Props/C11_rejects.lean, next to the lemmas they use.)

  * `strict_refines` / `extend_strict_refines`: `strict=True` only ADDS `ExtensionError`s — whenever the strict call
    returns a schema, the non-strict call returns the same schema.
  * `collect_strict_exact`: in strict mode nothing of the document is dropped: every type definition, directive definition,
    type extension and schema extension is kept, in document order; there is no `schema` block; no definition takes the
    name of a type / directive of the schema.
  * `collect_lax_kept`: in non-strict mode the definitions that are kept are exactly those whose name is new.
  * `extend_noop`: a document without type-system definitions returns the schema unchanged.
-/
import PyGqlModel.SdlExtend
import PyGqlModel.Props.C11_flags

set_option linter.unusedVariables false
set_option linter.unusedSimpArgs false

namespace PyGql.Props.C11
open PyGql PyGql.Sdl PyGql.SdlSpec

/-! ### strict only adds rejections -/

theorem collectExtStep_strict (ht hd : String → Bool) (acc acc' : ExtCollected) (d : Def)
    (h : collectExtStep ht hd true acc d = .ok acc') : collectExtStep ht hd false acc d = .ok acc' := by
  cases d <;> simp only [collectExtStep, extErr, pure, Except.pure] at h ⊢
  all_goals (repeat' (split at h))
  all_goals first
    | (cases h; done)
    | (simp_all; done)
    | exact h

theorem foldl_strict (ht hd : String → Bool) : ∀ (doc : Doc) (acc c : ExtCollected),
    doc.foldlM (collectExtStep ht hd true) acc = .ok c → doc.foldlM (collectExtStep ht hd false) acc = .ok c := by
  intro doc
  induction doc with
  | nil => intro acc c h; exact h
  | cons d ds ih =>
    intro acc c h
    rw [List.foldlM_cons] at h ⊢
    obtain ⟨a, ha, h2⟩ := bind_ok _ _ _ h
    rw [collectExtStep_strict ht hd acc a d ha]
    exact ih a c h2

theorem filterTargets_strict (ht : String → Bool) (nd : List TypeDef) : ∀ (es r : List TypeDef),
    filterTargets ht true nd es = .ok r → filterTargets ht false nd es = .ok r := by
  intro es
  induction es with
  | nil => intro r h; exact h
  | cons x xs ih =>
    intro r h
    simp only [filterTargets] at h ⊢
    split at h
    · rename_i hc
      obtain ⟨a, ha, h2⟩ := bind_ok _ _ _ h
      simp only [hc, if_true]
      rw [ih a ha]; exact h2
    · simp [extErr] at h

/-- **strict=True only adds ExtensionErrors** (collection): what the strict call keeps, the non-strict call keeps -/
theorem strict_refines (live : Live) (doc : Doc) (c : ExtCollected) (h : collectExtensions live doc true = .ok c) :
    collectExtensions live doc false = .ok c := by
  unfold collectExtensions at h ⊢
  obtain ⟨a, ha, h2⟩ := bind_ok _ _ _ h
  obtain ⟨t, ht, h3⟩ := bind_ok _ _ _ h2
  rw [foldl_strict _ _ doc _ a ha]
  simp only [bind, Except.bind]
  rw [filterTargets_strict _ _ _ t ht]
  exact h3

/-- **strict=True only adds ExtensionErrors** (the whole call): if `extend_schema(s, doc, strict=True)` returns a schema,
    `extend_schema(s, doc, strict=False)` returns the same schema -/
theorem extend_strict_refines (baseDefs : List TypeDef) (baseDirs : List DirDef) (live r : Live) (doc : Doc)
    (h : extendSchemaPublic baseDefs baseDirs live doc true = .ok r) : extendSchemaPublic baseDefs baseDirs live doc false = .ok r := by
  unfold extendSchemaPublic at h ⊢
  obtain ⟨c, hc, h2⟩ := bind_ok _ _ _ h
  rw [strict_refines live doc c hc]
  exact h2

/-- … and a failure of the strict call that the non-strict call does not share is an `ExtensionError` of the collection -/
theorem extend_strict_only_ext (baseDefs : List TypeDef) (baseDirs : List DirDef) (live r : Live) (doc : Doc) (e : Err)
    (hs : extendSchemaPublic baseDefs baseDirs live doc true = .error e)
    (hl : extendSchemaPublic baseDefs baseDirs live doc false = .ok r) : e = .lib .ext := by
  unfold extendSchemaPublic at hs
  cases hc : collectExtensions live doc true with
  | error e' =>
    rw [hc] at hs
    simp only [bind, Except.bind] at hs
    cases hs
    exact collectExtensions_rejects live doc true _ hc
  | ok c =>
    rw [hc] at hs
    have := strict_refines live doc c hc
    unfold extendSchemaPublic at hl
    rw [this] at hl
    simp only [bind, Except.bind] at hs hl
    rw [hl] at hs
    cases hs

/-! ### what strict mode keeps: everything -/

theorem step_strict_exact (ht hd : String → Bool) (acc acc' : ExtCollected) (d : Def)
    (h : collectExtStep ht hd true acc d = .ok acc') :
    acc'.typeDefs = acc.typeDefs ++ typeDefs [d] ∧ acc'.dirDefs = acc.dirDefs ++ dirDefs [d] ∧
    acc'.typeExts = acc.typeExts ++ typeExts [d] ∧ acc'.schemaExts = acc.schemaExts ++ schemaExtensions [d] ∧
    schemaDefs [d] = [] ∧ (∀ t ∈ typeDefs [d], ht t.name = false) ∧ (∀ x ∈ dirDefs [d], hd x.name = false) := by
  cases d <;> simp only [collectExtStep, extErr, pure, Except.pure] at h
  all_goals (repeat' (split at h))
  all_goals first
    | (cases h; done)
    | (cases h; simp_all [typeDefs, dirDefs, typeExts, schemaExtensions, schemaDefs]; done)

theorem foldl_strict_exact (ht hd : String → Bool) : ∀ (doc : Doc) (acc c : ExtCollected),
    doc.foldlM (collectExtStep ht hd true) acc = .ok c →
    c.typeDefs = acc.typeDefs ++ typeDefs doc ∧ c.dirDefs = acc.dirDefs ++ dirDefs doc ∧
    c.typeExts = acc.typeExts ++ typeExts doc ∧ c.schemaExts = acc.schemaExts ++ schemaExtensions doc ∧
    schemaDefs doc = [] ∧ (∀ t ∈ typeDefs doc, ht t.name = false) ∧ (∀ x ∈ dirDefs doc, hd x.name = false) := by
  intro doc
  induction doc with
  | nil => intro acc c h; cases h; simp [typeDefs, dirDefs, typeExts, schemaExtensions, schemaDefs]
  | cons d ds ih =>
    intro acc c h
    rw [List.foldlM_cons] at h
    obtain ⟨a, ha, h2⟩ := bind_ok _ _ _ h
    obtain ⟨s1, s2, s3, s4, s5, s6, s7⟩ := step_strict_exact ht hd acc a d ha
    obtain ⟨i1, i2, i3, i4, i5, i6, i7⟩ := ih a c h2
    have e1 : typeDefs (d :: ds) = typeDefs [d] ++ typeDefs ds := by
      simp only [typeDefs]; rw [← List.filterMap_append]; rfl
    have e2 : dirDefs (d :: ds) = dirDefs [d] ++ dirDefs ds := by
      simp only [dirDefs]; rw [← List.filterMap_append]; rfl
    have e3 : typeExts (d :: ds) = typeExts [d] ++ typeExts ds := by
      simp only [typeExts]; rw [← List.filterMap_append]; rfl
    have e4 : schemaExtensions (d :: ds) = schemaExtensions [d] ++ schemaExtensions ds := by
      simp only [schemaExtensions]; rw [← List.filterMap_append]; rfl
    have e5 : schemaDefs (d :: ds) = schemaDefs [d] ++ schemaDefs ds := by
      simp only [schemaDefs]; rw [← List.filterMap_append]; rfl
    refine ⟨by rw [i1, s1, e1, List.append_assoc], by rw [i2, s2, e2, List.append_assoc], by rw [i3, s3, e3, List.append_assoc],
      by rw [i4, s4, e4, List.append_assoc], by rw [e5, s5, i5]; rfl, ?_, ?_⟩
    · intro t ht'
      rw [e1] at ht'
      rcases List.mem_append.mp ht' with h' | h'
      · exact s6 t h'
      · exact i6 t h'
    · intro t ht'
      rw [e2] at ht'
      rcases List.mem_append.mp ht' with h' | h'
      · exact s7 t h'
      · exact i7 t h'

theorem filterTargets_strict_all (ht : String → Bool) (nd : List TypeDef) : ∀ (es r : List TypeDef),
    filterTargets ht true nd es = .ok r → r = es := by
  intro es
  induction es with
  | nil => intro r h; cases h; rfl
  | cons x xs ih =>
    intro r h
    simp only [filterTargets] at h
    split at h
    · obtain ⟨a, ha, h2⟩ := bind_ok _ _ _ h
      cases h2
      rw [ih a ha]
    · simp [extErr] at h

/-- **strict mode drops nothing**: when the strict collection succeeds it keeps EVERY type definition, directive
    definition, type extension and schema extension of the document, in document order; the document has no `schema`
    block and none of its definitions takes the name of a type or directive of the schema. -/
theorem collect_strict_exact (live : Live) (doc : Doc) (c : ExtCollected) (h : collectExtensions live doc true = .ok c) :
    c.typeDefs = typeDefs doc ∧ c.dirDefs = dirDefs doc ∧ c.typeExts = typeExts doc ∧ c.schemaExts = schemaExtensions doc ∧
    schemaDefs doc = [] ∧ (∀ t ∈ typeDefs doc, live.hasType t.name = false) ∧ (∀ x ∈ dirDefs doc, live.hasDirective x.name = false) := by
  unfold collectExtensions at h
  obtain ⟨a, ha, h2⟩ := bind_ok _ _ _ h
  obtain ⟨t, ht, h3⟩ := bind_ok _ _ _ h2
  obtain ⟨i1, i2, i3, i4, i5, i6, i7⟩ := foldl_strict_exact _ _ doc _ a ha
  have := filterTargets_strict_all _ _ _ t ht
  cases h3
  simp only [List.nil_append] at i1 i2 i3 i4
  exact ⟨i1, i2, by rw [this, i3], i4, i5, i6, i7⟩

/-! ### a document without type-system definitions -/

/-- `extend_schema(schema, "{ a }")` returns the schema itself -/
theorem extend_noop (baseDefs : List TypeDef) (baseDirs : List DirDef) (live : Live) (strict : Bool) (n : Nat) :
    extendSchemaPublic baseDefs baseDirs live (List.replicate n .other) strict = .ok live := by
  have hf : ∀ acc, (List.replicate n Def.other).foldlM (collectExtStep live.hasType live.hasDirective strict) acc = .ok acc := by
    induction n with
    | zero => intro acc; rfl
    | succ k ih => intro acc; rw [List.replicate_succ, List.foldlM_cons]; simp only [collectExtStep, pure, Except.pure, bind, Except.bind]; exact ih acc
  simp [extendSchemaPublic, collectExtensions, hf, bind, Except.bind, filterTargets, pure, Except.pure]

/-! ### `build_schema`'s extension pass IS the public function (non-strict, same document) -/

theorem typeExtensions_eq_filter (live : Live) (doc : Doc) :
    typeExtensions live doc = (typeExts doc).filter (fun e => live.hasType e.name) := by
  induction doc with
  | nil => rfl
  | cons d ds ih =>
    cases d with
    | ext e =>
      have h1 : typeExts (.ext e :: ds) = e :: typeExts ds := rfl
      rw [h1, List.filter_cons, ← ih]
      unfold typeExtensions Live.hasType
      rw [List.filterMap_cons]
      by_cases hc : (isDefaultName e.name || live.types.any (fun x => x.name == e.name)) = true
      · simp only [hc, if_true]
      · simp only [hc, if_false]; rfl
    | type t => simpa [typeExtensions, typeExts] using ih
    | directive t => simpa [typeExtensions, typeExts] using ih
    | schema t => simpa [typeExtensions, typeExts] using ih
    | schemaExt t => simpa [typeExtensions, typeExts] using ih
    | other => simpa [typeExtensions, typeExts] using ih

private theorem filterTargets_lax_nil (ht : String → Bool) : ∀ (es : List TypeDef),
    filterTargets ht false [] es = .ok (es.filter fun e => ht e.name) := by
  intro es
  induction es with
  | nil => rfl
  | cons x xs ih =>
    simp only [filterTargets, List.any_nil, Bool.false_or, List.filter_cons]
    cases ht x.name <;> simp [ih, bind, Except.bind, pure, Except.pure]

private theorem foldl_lax_self (live : Live) : ∀ (doc : Doc) (acc : ExtCollected),
    (∀ t ∈ typeDefs doc, live.hasType t.name = true) → (∀ d ∈ dirDefs doc, live.hasDirective d.name = true) →
    doc.foldlM (collectExtStep live.hasType live.hasDirective false) acc
      = .ok { acc with schemaExts := acc.schemaExts ++ schemaExtensions doc, typeExts := acc.typeExts ++ typeExts doc } := by
  intro doc
  induction doc with
  | nil => intro acc _ _; simp [schemaExtensions, typeExts, pure, Except.pure]
  | cons d ds ih =>
    intro acc hT hD
    have hT' : ∀ t ∈ typeDefs ds, live.hasType t.name = true := fun t ht => hT t (by
      cases d <;> simp_all [typeDefs])
    have hD' : ∀ t ∈ dirDefs ds, live.hasDirective t.name = true := fun t ht => hD t (by
      cases d <;> simp_all [dirDefs])
    rw [List.foldlM_cons]
    cases d with
    | type t =>
      have : live.hasType t.name = true := hT t (by simp [typeDefs])
      simp only [collectExtStep, this, if_true, Bool.false_eq_true, if_false, pure, Except.pure, bind, Except.bind]
      rw [ih acc hT' hD']; simp [schemaExtensions, typeExts]
    | directive t =>
      have : live.hasDirective t.name = true := hD t (by simp [dirDefs])
      simp only [collectExtStep, this, if_true, Bool.false_eq_true, if_false, pure, Except.pure, bind, Except.bind]
      rw [ih acc hT' hD']; simp [schemaExtensions, typeExts]
    | schema t =>
      simp only [collectExtStep, Bool.false_eq_true, if_false, pure, Except.pure, bind, Except.bind]
      rw [ih acc hT' hD']; simp [schemaExtensions, typeExts]
    | other =>
      simp only [collectExtStep, pure, Except.pure, bind, Except.bind]
      rw [ih acc hT' hD']; simp [schemaExtensions, typeExts]
    | ext e =>
      simp only [collectExtStep, pure, Except.pure, bind, Except.bind]
      rw [ih _ hT' hD']; simp [schemaExtensions, typeExts]
    | schemaExt e =>
      simp only [collectExtStep, pure, Except.pure, bind, Except.bind]
      rw [ih _ hT' hD']; simp [schemaExtensions, typeExts]

/-- on the document the schema was built from, the non-strict collection skips every definition and keeps exactly the
    extension blocks `Sdl.typeExtensions` / `Sdl.schemaExtensions` select -/
theorem collect_lax_self (live : Live) (doc : Doc)
    (hT : ∀ t ∈ typeDefs doc, live.hasType t.name = true) (hD : ∀ d ∈ dirDefs doc, live.hasDirective d.name = true) :
    collectExtensions live doc false
      = .ok { schemaExts := schemaExtensions doc, typeDefs := [], dirDefs := [], typeExts := typeExtensions live doc } := by
  unfold collectExtensions
  rw [foldl_lax_self live doc {} hT hD]
  simp only [bind, Except.bind, List.nil_append]
  rw [filterTargets_lax_nil, typeExtensions_eq_filter]
  rfl

/-- **the extension pass of `build_schema` is the public `extend_schema(schema, document, strict=False)`** on the same
    document (as in the code, where `build_schema` calls `extend_schema`): one returns a schema iff the other does, and
    it is the same schema.  (Only the ORDER in which the two models meet a rejection differs.) -/
theorem extendSchema_is_public (doc : Doc) (live r : Live)
    (hT : ∀ t ∈ typeDefs doc, live.hasType t.name = true) (hD : ∀ d ∈ dirDefs doc, live.hasDirective d.name = true) :
    extendSchema (Env.of (typeDefs doc)) live doc [] = .ok r ↔
    extendSchemaPublic (typeDefs doc) (directiveDefs doc) live doc false = .ok r := by
  have hdir : ∀ eX, reDefaultDirective (Env.of (typeDefs doc)) eX doc
      = reDefaultDirectiveIn (Env.of (typeDefs doc)) eX (directiveDefs doc) := fun eX => by funext d; rfl
  have hcomm : ((schemaExtensions doc).isEmpty && (typeExtensions live doc).isEmpty) = ((typeExtensions live doc).isEmpty && (schemaExtensions doc).isEmpty) :=
    Bool.and_comm _ _
  constructor
  · intro h
    unfold extendSchema at h
    simp only [] at h
    unfold extendSchemaPublic
    rw [collect_lax_self live doc hT hD]
    simp only [bind, Except.bind, List.isEmpty_nil, Bool.and_true, hcomm]
    split at h
    · rename_i hs
      simp only [hs, if_true]; exact h
    · rename_i hs
      simp only [hs, if_false]
      obtain ⟨_, hB, h⟩ := bind_ok _ _ _ h
      obtain ⟨c, h1, h⟩ := bind_ok _ _ _ h
      obtain ⟨ts, h2, h⟩ := bind_ok _ _ _ h
      obtain ⟨ds, h3, h⟩ := bind_ok _ _ _ h
      obtain ⟨_, hC, h⟩ := bind_ok _ _ _ h
      obtain ⟨ro, h4, h⟩ := bind_ok _ _ _ h
      rw [hdir] at h3
      simp only [List.append_nil, h3, List.mapM_nil, pure, Except.pure, hB, h1, h2, hC, h4, List.any_nil]
      simpa [referencedAdditional, pure, Except.pure, failIf] using h
  · intro h
    unfold extendSchemaPublic at h
    rw [collect_lax_self live doc hT hD] at h
    simp only [bind, Except.bind, List.isEmpty_nil, Bool.and_true, hcomm] at h
    unfold extendSchema
    simp only []
    split at h
    · rename_i hs
      simp only [hs, if_true]; exact h
    · rename_i hs
      simp only [hs, if_false]
      simp only [List.append_nil, List.mapM_nil, pure, Except.pure] at h
      split at h
      · cases h
      · rename_i ds h3
        split at h
        · cases h
        · rename_i u hB
          split at h
          · cases h
          · rename_i c h1
            split at h
            · cases h
            · rename_i ts h2
              split at h
              · cases h
              · rename_i u2 hC
                split at h
                · cases h
                · rename_i ro h4
                  rw [← hdir] at h3
                  simp only [bind, Except.bind, hB, h1, h2, h3, hC, h4]
                  simpa [referencedAdditional, pure, Except.pure, failIf] using h

/-- non-vacuity of `extendSchema_is_public`: `type Query { a: Int }` + two extension blocks, against the schema of the
    definition alone: the hypotheses hold and both sides return a schema (with the fields a, b, c) -/
def liveQ : Live := { types := [{ kind := .object, name := "Query", fields := [{ name := "a", type := .named "Int" }] }],
                      directives := [], roots := { query := some "Query" } }
example : (∀ t ∈ typeDefs twoExt, liveQ.hasType t.name = true) ∧ (∀ d ∈ dirDefs twoExt, liveQ.hasDirective d.name = true) := by
  constructor <;> decide
example : ((extendSchemaPublic (typeDefs twoExt) (directiveDefs twoExt) liveQ twoExt false).toOption.map
    fun l => l.types.map fun t => t.fields.map (·.name)) = some [["a", "b", "c"]] := by decide

/-! ### evaluated instances (non-vacuity): `extend_schema(build(A), B)` is `build(A ++ B)` -/

def exA : Doc := [.type exQuery, .type { kind := .enum, name := "E", values := [{ name := "A" }] },
  .type { kind := .input, name := "I", inputFields := [{ name := "x", type := .named "Int" }] },
  .ext { kind := .object, name := "Query", fields := [{ name := "f", type := .named "Int", args := [{ name := "i", type := .named "I", default := some (.obj []) }] }] }]

/-- new type + extension BEFORE its definition + extension of old types (a new input field with a default, which
    completes the old default `{}` of `Query.f(i:)`) + a new root -/
def exB : Doc := [
  .ext { kind := .object, name := "M", fields := [{ name := "e", type := .named "E" }] },
  .type { kind := .object, name := "M", fields := [{ name := "m", type := .named "Int" }] },
  .ext { kind := .input, name := "I", inputFields := [{ name := "y", type := .named "E", default := some (.enum "B") }] },
  .ext { kind := .enum, name := "E", values := [{ name := "B" }] },
  .schemaExt { ops := [("mutation", "M")] }]

/-- everything a schema records except the VALUES of the defaults (their presence is kept) -/
def digest (s : SchemaD) : List (String × List String) :=
  (s.types.map fun t => (t.name, t.interfaces ++ t.members ++ t.values.map (·.name)
      ++ (t.fields.flatMap fun f => f.name :: f.type.render :: f.args.flatMap fun a => [a.name, a.type.render, toString a.hasDefault])
      ++ t.inputFields.flatMap fun a => [a.name, a.type.render, toString a.hasDefault]))
  ++ (s.directives.map fun d => ("@" ++ d.name, d.args.map (·.name)))
  ++ [("roots", s.query.toList ++ "/" :: s.mutation.toList ++ "/" :: s.subscription.toList)]

/-- the completed default of `Query.f(i:)` -/
def fDefault (s : SchemaD) : Option J :=
  (s.types.find? (·.name == "Query")).bind fun q => (q.fields.find? (·.name == "f")).bind fun f => f.args.head?.map (·.default)

/-- `{y: "B"}`: the old default `{}` completed with the default of the field an extension block of B adds, whose
    value `B` is itself added to `E` by B -/
def isYB : Option J → Bool
  | some (.obj [(k, .str v)]) => k == "y" && v == "B"
  | _ => false

def sameSchema (a : R (R SchemaD)) (b : R SchemaD) : Bool :=
  match a, b with
  | .ok (.ok s), .ok s' => digest s == digest s' && isYB (fDefault s) && isYB (fDefault s')
  | _, _ => false

example : sameSchema (buildThenExtend exA exB true) (build (exA ++ exB)) = true := by decide
example : sameSchema (buildThenExtend exA exB false) (build (exA ++ exB)) = true := by decide

/-- strict refuses a redefinition, non-strict ignores it and applies the rest -/
def exBredef : Doc := .type exQuery :: exB
example : (match buildThenExtend exA exBredef true with | .ok (.error (.lib .ext)) => true | _ => false) = true := by decide
example : sameSchema (buildThenExtend exA exBredef false) (build (exA ++ exB)) = true := by decide

/-- non-vacuity of `collect_strict_exact` / `strict_refines`: the strict collection of `exB` succeeds -/
example : (collectExtensions { types := [{ kind := .enum, name := "E" }, { kind := .input, name := "I" }], directives := [], roots := {} } exB true).toBool = true := by decide

end PyGql.Props.C11

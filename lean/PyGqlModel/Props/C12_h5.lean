/-
  C12 — the boundary of finding H5, as a precise predicate: lang3's `descTextOK` is SUFFICIENT for a description to
  survive `to_string` + parsing (`print_schema_text_parses`); every clause of it is NECESSARY — for each excluded shape a
  description violating only that clause is, machine-checked, not read back (or the text does not parse at all).
-/
import PyGqlModel.Props.C12_order

set_option linter.unusedVariables false

namespace PyGql.Props.C12
open PyGql PyGql.Sdl PyGql.SdlPrint PyGql.SdlText

/-- `"""d""" type Query { f: Int }` as a schema description -/
def descSchema (d : String) : SchemaD :=
  { types := [{ kind := .object, name := "Query", desc := some d, fields := [{ name := "f", type := .named "Int" }] }] }

/-- the description of the first definition after printing and parsing: `none` = the printed text does not parse,
    `some none` = no description is read, `some (some t)` = the description read back (code points) -/
def readBack (d : String) : Option (Option Text) :=
  match parseSdlTextT (SdlPrintT.printSchemaT {} (descSchema d)) with
  | none => none
  | some doc =>
    match doc.definitions with
    | (.objectTypeDefinition desc _ _ _ _ _) :: _ => some (desc.map (·.value))
    | _ => some none

/-- the description survives -/
abbrev Survives (d : String) : Prop := readBack d = some (some (T d))

/-! ### descriptions inside the boundary survive (instances of lang3's theorem, evaluated) -/

set_option maxRecDepth 1000000 in
theorem survives_plain : Survives "fine" := by decide

set_option maxRecDepth 1000000 in
theorem survives_unicode : Survives "é ✓ 😀" := by decide

set_option maxRecDepth 1000000 in
/-- the description shapes the generators use are inside the boundary (that they survive is lang3's
    `print_schema_text_parses`; the kernel evaluation of the multi-line layouts is too slow to repeat here) -/
theorem generator_descriptions_ok :
    (["fine", "two\n\nparagraphs", "ends with quote\"", "  indented first line", "triple \"\"\" inside", "back\\slash inside",
      "a\n  b\n  c", "é ✓ 😀"].all (descTextOK 0)) = true := by decide

/-! ### each excluded shape: outside `descTextOK`, and really lost -/

set_option maxRecDepth 1000000 in
/-- EMPTY description: not printed at all -/
theorem h5_empty : descTextOK 0 "" = false ∧ readBack "" = some none := by decide

set_option maxRecDepth 1000000 in
/-- TRAILING blank line: removed by block-string semantics -/
theorem h5_trailing_newline : descTextOK 0 "a\n" = false ∧ readBack "a\n" = some (some (T "a")) := by decide

set_option maxRecDepth 1000000 in
/-- LEADING blank line: removed by block-string semantics -/
theorem h5_leading_newline : descTextOK 0 "\na" = false ∧ ¬ Survives "\na" := by decide

set_option maxRecDepth 1000000 in
/-- one-line description ending in a BACKSLASH: `"""a\"""` is an unterminated block string — the text does not parse -/
theorem h5_trailing_backslash : descTextOK 0 "a\\" = false ∧ readBack "a\\" = none := by decide

set_option maxRecDepth 1000000 in
/-- CONTROL character: printed raw, rejected by the lexer -/
theorem h5_control_character : descTextOK 0 "a\x07b" = false ∧ readBack "a\x07b" = none := by decide

set_option maxRecDepth 1000000 in
/-- CARRIAGE RETURN (fix D3, hunt3 C12/3): a block string would read it back as a line feed; the printer now writes the
    description as a quoted string with `\r` escaped and the value survives.  It stays outside `descTextOK` only because
    the text-level theorem is stated for block-string descriptions. -/
theorem h5_carriage_return : descTextOK 0 "a\rb" = false ∧ Survives "a\rb" ∧ descTextOK 0 "a\nb" = true ∧
    SdlPrintT.printDescription {} (some "a\rb") = T "\"a\\rb\"\n" := by decide

set_option maxRecDepth 1000000 in
/-- every line INDENTED (first line included; fix D1, hunt3 C12/1): in a block string the common indentation of the
    following lines would be removed; the printer now writes the description as the quoted string `"  a\n  b"` (that
    the value is read back is checked on the implementation in every run: corr/C12_text.py, description shapes; the
    kernel evaluation through the lexer model is too slow); with an unindented later line the block form is kept and
    the description is inside `descTextOK` -/
theorem h5_common_indent : descTextOK 0 "  a\n  b" = false ∧
    SdlPrintT.printDescription {} (some "  a\n  b") = T "\"  a\\n  b\"\n" ∧
    descTextOK 0 "  a\n  b\nc" = true := by decide

/-! ### finding H12: lines longer than the wrap width -/

/-- a 121-character line with one break opportunity -/
def longLine : String := String.ofList (List.replicate 60 'w' ++ [' '] ++ List.replicate 60 'v')

set_option maxRecDepth 1000000 in
/-- the width clause of `descTextOK` (`lines.all (l.length ≤ 120 - indent)`) is what keeps finding H12 — `wrapped_lines`
    breaking over-long lines at word boundaries — out of the text-level theorem: a 121-character line is outside the
    predicate, a 120-character line is inside. (That the 121-character description is really changed is measured on the
    implementation in every run — `corr/C12.py: run_long_descriptions`, signature `H12:description-rewrapped:*`; its
    kernel evaluation through the lexer model takes minutes and is not repeated here.) -/
theorem h12_width_boundary :
    longLine.length = 121 ∧ descTextOK 0 longLine = false ∧ descTextOK 0 (String.ofList (List.replicate 120 'w')) = true := by
  decide

end PyGql.Props.C12

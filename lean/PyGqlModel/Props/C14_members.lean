/-
  C14 — `transform_preserves_untouched_members` (FULL): member-level preservation through clone-based transforms.

  For `transform_schema(source, *visitors)` with any list of VisibilitySchemaTransform (arbitrary predicates),
  CamelCaseSchemaTransform (arbitrary renaming) and heal visitors, on a closed well-formed source, every non-protected type
  the result registers is — for the source type `t0` of the same name — `TRel ρ h h' t0 a'`:
  * a type object with exactly `t0`'s kind, name, description, default resolver, type resolver and ENUM VALUES (`TAttr`);
  * whose FIELDS (object / interface) are, IN ORDER, copies of a sub-list of `t0`'s fields and nothing else (`Sub2`): each
    copy has the source field's description, deprecation, resolver, subscription resolver, python name, the same type by
    name, and the name `ρ name` (`FAttr`; `ρ` = the composition of the camel-case renamings applied, `renAll`; the identity
    for visibility); its ARGUMENTS are in turn, in order, copies of a sub-list of the source field's arguments with the same
    python name, default, description and type by name (`AAttr`);
  * whose INPUT FIELDS (input object) are likewise copies of a sub-list of `t0`'s.
  This is an UPPER bound (the members are copies of a SUB-list: nothing is added, nothing renamed otherwise, nothing reordered).
  The LOWER bounds — what is not targeted IS there — are separate theorems: identity visitor / clone `clone_members_exact`,
  `clone_refines`; camel-casing `camel_case_exact` (Props/C14_camel.lean: exact by-name view up to the renaming, none dropped);
  visibility without hidden types `visibility_members_exact` (Props/C14_visible.lean: every member list is the source's FILTERED by
  the predicate); what the predicates hide is absent: `visibility_hides_members`, `visibility_hides_directives`,
  `directive_drops_fields` (Props/C14_hidden.lean). OPEN (named `VisibleMembersKept`, Props/C14_visible.lean): when TYPES are
  hidden too, that every member not mentioning a hidden type survives the healing rounds is not proved.
  With `clone_frames_source`, `transform_closed`, `visibility_hides_type_transform` and `transform_preserves_untouched`
  this covers "never mutates its source, and yields a schema in which everything the transform did not touch is preserved".
-/
import PyGqlModel.Lemmas.HeapMembersClone
import PyGqlModel.Props.C14_transform

set_option linter.unusedSimpArgs false
set_option linter.unusedVariables false

namespace PyGql.Props.C14
open PyGql.Heap PyGql.Heap.Own

theorem transform_preserves_untouched_members (cfg : Cfg) (hd : cfg.deepClone = true) (fuel : Nat) (vs : List Visitor)
    (hv : ∀ v, v ∈ vs → NoWrap v) (s : Schema) (h h' : Heap) (s' : Schema) (hc : closedB h s = true) (hw : wfB h s = true)
    (e : transform cfg fuel vs s h = some (h', s')) :
    ∀ e', e' ∈ s'.types → isProtected e'.1 = true ∨
      ∃ e0, e0 ∈ s.types ∧ e0.1 = e'.1 ∧ ∀ t0, h.readType e0.2 = some t0 → TRel (renAll vs id) h h' t0 e'.2 := by
  simp only [transform] at e
  split at e
  · cases e
  · rename_i r hr
    obtain ⟨h1, s1⟩ := r
    have hm := clone_mem cfg hd fuel s h h1 s1 hc (wfs_of_closedB hc hw) hr
    exact transformFrom_mem cfg fuel h s.types vs hv id h1 s1 h' s' hm e

/-- the same for an in-place visitor on a schema (no clone): provenance relative to the schema before the visitor ran -/
theorem visitor_preserves_untouched_members (cfg : Cfg) (fuel : Nat) (v : Visitor) (hv : NoWrap v) (s : Schema) (h h' : Heap) (s' : Schema)
    (hw : wfB h s = true) (e : onSchema cfg fuel v s h = some (h', s')) :
    ∀ e', e' ∈ s'.types → isProtected e'.1 = true ∨
      ∃ e0, e0 ∈ s.types ∧ e0.1 = e'.1 ∧ ∀ t0, h.readType e0.2 = some t0 → TRel (renAfter v id) h h' t0 e'.2 := by
  have w := wfs_of_wfB hw
  apply onSchema_mem cfg fuel v hv id h s.types s h h' s' _ e
  intro e' he'
  right
  refine ⟨e', he', rfl, fun t0 ht0 => ⟨t0, ht0, TAttr.refl t0, ?_⟩⟩
  -- every member is related to itself
  have hr := membersReadable_of_shape _ h e'.2 t0 ht0 (w.types e' he')
  have hargs : ∀ (as : List Addr), (∀ a, a ∈ as → ∃ g, h.readArg a = some g) → Sub2 (ARel id h h) as as := by
    intro as
    induction as with
    | nil => intro _; exact Sub2.nil
    | cons a as ih =>
      intro hx
      obtain ⟨g, hg⟩ := hx a (by simp)
      exact Sub2.cons ⟨g, g, hg, hg, AAttr.refl g⟩ (ih fun x hxm => hx x (by simp [hxm]))
  have hfields : ∀ (as : List Addr), (∀ a, a ∈ as → ∃ f, h.readField a = some f ∧ ∀ x, x ∈ f.args → ∃ g, h.readArg x = some g) →
      Sub2 (FRel id h h) as as := by
    intro as
    induction as with
    | nil => intro _; exact Sub2.nil
    | cons a as ih =>
      intro hx
      obtain ⟨f, hf, hfa⟩ := hx a (by simp)
      exact Sub2.cons ⟨f, f, hf, hf, FAttr.refl f, hargs f.args hfa⟩ (ih fun x hxm => hx x (by simp [hxm]))
  simp only [MRel, MembersReadable] at hr ⊢
  cases hk : t0.kind <;> simp only [hk] at hr ⊢
  · exact hfields _ hr
  · exact hfields _ hr
  · exact hargs _ hr

/-- instances: visibility keeps names, camel-casing converts them -/
theorem renAll_vis (p : VisP) : renAll [.vis p] id = id := rfl
theorem renAll_camel (ren : String → String) : renAll [.camel ren] id = ren := rfl
theorem renAll_vis_camel (p : VisP) (ren : String → String) : renAll [.vis p, .camel ren] id = ren := rfl

/-- reading the relation: the fields of an object / interface type of the result -/
theorem trel_fields {ρ : String → String} {h0 h : Heap} {t0 : TypeO} {a' : Addr} (r : TRel ρ h0 h t0 a')
    (hk : t0.kind = Kind.object ∨ t0.kind = Kind.interface) :
    ∃ t', h.readType a' = some t' ∧ SameHead (.type t0) (.type t') ∧ Sub2 (FRel ρ h0 h) t0.fields t'.fields := by
  obtain ⟨t', ht', hat, hm⟩ := r
  refine ⟨t', ht', hat, ?_⟩
  rcases hk with hk | hk <;> simpa [MRel, hk] using hm

/-- … and the input fields of an input object type -/
theorem trel_input_fields {ρ : String → String} {h0 h : Heap} {t0 : TypeO} {a' : Addr} (r : TRel ρ h0 h t0 a') (hk : t0.kind = Kind.input) :
    ∃ t', h.readType a' = some t' ∧ SameHead (.type t0) (.type t') ∧ Sub2 (ARel ρ h0 h) t0.fields t'.fields := by
  obtain ⟨t', ht', hat, hm⟩ := r
  exact ⟨t', ht', hat, by simpa [MRel, hk] using hm⟩

/-- non-vacuity on the witness -/
example : closedB h0 s0 = true ∧ wfB h0 s0 = true ∧ (transform Cfg.fixed 8 [.vis hideDog, .camel id] s0 h0).isSome = true ∧
    NoWrap (.vis hideDog) ∧ NoWrap (.camel id) := ⟨by decide, by decide, by decide, trivial, trivial⟩

end PyGql.Props.C14

/-
  C11 — the public `extend_schema` on a document that DEFINES new types and directives and extends old and new ones.

  `extend_exact_general`: `base` a document without extension blocks, `live` the schema `build_schema` builds from it,
  `B` ANY document the strict collection accepts.  If the concatenation `base ++ B` is valid (`SdlOK`) and — when `base`
  has no `schema` block — `B` defines no type named Query / Mutation / Subscription, then
  `extend_schema(live, B, strict=True)` (and therefore `strict=False`) returns exactly the content `base` and `B`
  declare together.  The side condition is NECESSARY (`extend_roots_not_rederived`): `extend_schema` keeps the roots of
  the schema it extends and never re-derives them from the default names.
-/
import PyGqlModel.Props.C11_skel

set_option linter.unusedVariables false
set_option linter.unusedSimpArgs false

namespace PyGql.Props.C11
open PyGql PyGql.Sdl PyGql.SdlSpec

/-! ### helpers -/

theorem all₂_append {α β} (P : α → β → Prop) : ∀ (l₁ : List α) (r₁ : List β) (l₂ : List α) (r₂ : List β),
    All₂ P l₁ r₁ → All₂ P l₂ r₂ → All₂ P (l₁ ++ l₂) (r₁ ++ r₂) := by
  intro l₁ r₁ l₂ r₂ h1 h2
  induction h1 with
  | nil => exact h2
  | cons p _ ih => exact All₂.cons p ih

theorem all₂_of_forall {α β} (f : α → R β) (P : α → β → Prop) (hP : ∀ a b, f a = .ok b → P a b) :
    ∀ (l : List α) (r : List β), l.mapM f = .ok r → All₂ P l r := by
  intro l r h
  exact all₂_imp _ _ hP _ _ (mapM_forall₂ _ _ _ h)

/-- when `addOps` succeeds its result is the fold of `set` -/
theorem addOps_result (res : String → Bool) (errE : Err) : ∀ (ops : List (String × String)) (r r' : Roots),
    addOps res errE r ops = .ok r' → r' = ops.foldl (fun r (o : String × String) => r.set o.1 o.2) r := by
  intro ops
  induction ops with
  | nil => intro r r' h; cases h; rfl
  | cons o os ih =>
    intro r r' h
    obtain ⟨op, ty⟩ := o
    simp only [addOps] at h
    split at h
    · cases h
    · split at h
      · simp [sdlErr] at h
      · exact ih _ _ h

private theorem hasDup_nodup (l : List String) : hasDup l = false ↔ l.Nodup := by
  induction l with
  | nil => simp [hasDup]
  | cons x xs ih =>
    simp only [hasDup, Bool.or_eq_false_iff, List.nodup_cons, ih]
    constructor
    · rintro ⟨h1, h2⟩; exact ⟨by simpa using h1, h2⟩
    · rintro ⟨h1, h2⟩; exact ⟨by simpa using h1, h2⟩

private theorem failIf_false (c : Bool) (e : Err) (h : failIf c e = .ok ()) : c = false := by
  unfold failIf at h
  cases c <;> simp_all

/-- if the merged definition builds in the extension step's way, so does the definition alone (its members are a prefix) -/
theorem buildX_base_of_merged (eB eX : Env) (hide : Option String) (X : List TypeDef) (t : TypeDef) (r : TypeD)
    (hm : buildTypeDefX eB eX hide (mergeDef X t) = .ok r) : ∃ bt, buildTypeDefX eB eX hide t = .ok bt := by
  obtain ⟨s1, s2, s3, s4, s5, s6, s7, s8⟩ := mergeDef_spec X t
  unfold buildTypeDefX at hm ⊢
  rw [s1] at hm
  cases hk : t.kind <;> simp only [hk] at hm ⊢
  · exact ⟨_, rfl⟩
  · obtain ⟨fs', hfs', hm1⟩ := bind_ok _ _ _ hm
    obtain ⟨_, hc, _⟩ := bind_ok _ _ _ hm1
    rw [s4] at hfs'
    obtain ⟨r₁, _, h1, _, _⟩ := mapM_append_inv _ _ _ _ hfs'
    rw [s5] at hc
    have hc1 := (checkNames_append_inv eB _ _ hc).1
    exact ⟨_, by rw [h1, hc1]; rfl⟩
  · obtain ⟨fs', hfs', _⟩ := bind_ok _ _ _ hm
    rw [s4] at hfs'
    obtain ⟨r₁, _, h1, _, _⟩ := mapM_append_inv _ _ _ _ hfs'
    exact ⟨_, by rw [h1]; rfl⟩
  · obtain ⟨_, hc, _⟩ := bind_ok _ _ _ hm
    rw [s6] at hc
    have hc1 := (checkNames_append_inv eB _ _ hc).1
    exact ⟨_, by rw [hc1]; rfl⟩
  · obtain ⟨_, hf, hm1⟩ := bind_ok _ _ _ hm
    obtain ⟨vs', hvs', _⟩ := bind_ok _ _ _ hm1
    have hd := failIf_false _ _ hf
    rw [s7, List.map_append, hasDup_nodup] at hd
    have hd1 : hasDup (t.values.map (·.name)) = false := (hasDup_nodup _).mpr (List.nodup_append.mp hd).1
    rw [s7] at hvs'
    obtain ⟨r₁, _, h1, _, _⟩ := mapM_append_inv _ _ _ _ hvs'
    exact ⟨_, by rw [hd1, h1]; rfl⟩
  · obtain ⟨fs', hfs', _⟩ := bind_ok _ _ _ hm
    rw [s8] at hfs'
    obtain ⟨r₁, _, h1, _, _⟩ := mapM_append_inv _ _ _ _ hfs'
    exact ⟨_, by rw [h1]; rfl⟩

/-- what `build_schema_ignoring_extensions` registers, for a document whose definitions do not take specified names -/
theorem buildCollected_parts (c : Collected) (env : Env) (live : Live) (h : buildCollected c [] = .ok (env, live))
    (hN : ∀ t ∈ c.types, isDefaultName t.name = false) :
    env = Env.of c.types [] ∧ All₂ Skel c.types live.types ∧
    All₂ (fun (dd : DirDef) (ld : DirectiveD) => ld.name = dd.name) c.directives live.directives ∧
    buildRoots env c.schemaDef live.types = .ok live.roots := by
  unfold buildCollected at h
  simp only [] at h
  obtain ⟨_, _, h⟩ := bind_ok _ _ _ h
  obtain ⟨dirs, hdirs, h⟩ := bind_ok _ _ _ h
  obtain ⟨built, hbuilt, h⟩ := bind_ok _ _ _ h
  obtain ⟨_, _, h⟩ := bind_ok _ _ _ h
  obtain ⟨roots, hroots, h⟩ := bind_ok _ _ _ h
  obtain ⟨_, _, h⟩ := bind_ok _ _ _ h
  have := ok_inj h
  simp only [Prod.mk.injEq] at this
  obtain ⟨he, hl⟩ := this
  subst hl
  subst he
  have hskel : All₂ Skel c.types (built.filterMap id) := by
    have hall := mapM_forall₂ _ _ _ hbuilt
    have : ∀ (l : List TypeDef) (bs : List (Option TypeD)), (∀ t ∈ l, isDefaultName t.name = false) →
        All₂ (fun t o => buildType (Env.of c.types []) t = .ok o) l bs → All₂ Skel l (bs.filterMap id) := by
      intro l bs hl hh
      induction hh with
      | nil => exact All₂.nil
      | @cons a b as bs' p _ ih =>
        have ha := hl a (by simp)
        unfold buildType at p
        simp only [ha, Bool.false_eq_true, if_false] at p
        have hfa : (Env.of c.types []).findAdditional a.name = none := by simp [Env.of]
        rw [hfa] at p
        simp only [] at p
        obtain ⟨bt, hbt, h2⟩ := bind_ok _ _ _ p
        have := ok_inj h2; subst this
        simp only [List.filterMap_cons, id]
        exact All₂.cons (skel_of_build _ _ _ hbt) (ih (fun t ht => hl t (by simp [ht])))
    exact this _ _ hN hall
  have hextra : referencedAdditional [] (built.filterMap id) dirs roots = [] := by simp [referencedAdditional]
  simp only [hextra, List.append_nil]
  refine ⟨trivial, hskel, ?_, hroots⟩
  exact all₂_of_forall _ _ (fun a b hab => buildDirective_name _ a b hab) _ _ hdirs

theorem mapM_split {α β} (f : α → R β) (l l₁ l₂ : List α) (h : l = l₁ ++ l₂) (r : List β) (hm : l.mapM f = .ok r) :
    ∃ r₁ r₂, l₁.mapM f = .ok r₁ ∧ l₂.mapM f = .ok r₂ ∧ r = r₁ ++ r₂ := by
  subst h; exact mapM_append_inv f l₁ l₂ r hm

theorem mapM_join {α β} (f : α → R β) (l₁ l₂ : List α) (r₁ r₂ : List β) (h1 : l₁.mapM f = .ok r₁) (h2 : l₂.mapM f = .ok r₂) :
    (l₁ ++ l₂).mapM f = .ok (r₁ ++ r₂) := by
  induction l₁ generalizing r₁ with
  | nil => cases h1; simpa using h2
  | cons x xs ih =>
    rw [List.mapM_cons] at h1
    obtain ⟨b, hb, h3⟩ := bind_ok _ _ _ h1
    obtain ⟨bs, hbs, h4⟩ := bind_ok _ _ _ h3
    have := ok_inj h4; subst this
    rw [List.cons_append, List.mapM_cons, hb, ih bs hbs]
    rfl

theorem schemaDefs_append (a b : Doc) : schemaDefs (a ++ b) = schemaDefs a ++ schemaDefs b := by simp [schemaDefs, List.filterMap_append]

private theorem declaredRoots_eq' (doc : Doc) (types : List TypeD) :
    declaredRoots doc types = (schemaExtensions doc).foldl (fun r se => se.ops.foldl (fun r (o : String × String) => r.set o.1 o.2) r)
      (baseRoots doc types) := by
  unfold declaredRoots baseRoots
  cases schemaDefs doc with
  | nil => rfl
  | cons sd _ => rfl

private theorem any_obj_named_false (rs : List TypeD) (n : String) (h : ∀ r ∈ rs, r.name ≠ n) :
    rs.any (fun t => t.name == n && t.kind == .object) = false := by
  rw [List.any_eq_false]
  intro r hr
  have := h r hr
  simp [this]

/-- **extend_exact_general**: `extend_schema(build_schema(base), B, strict=True)` on a document `B` that defines new types and
    directives and extends old and new types (in any order): if the strict collection accepts `B`, `base ++ B` is valid, and
    `B` defines no type with a default root name unless `base` has a `schema` block, the result is exactly the content
    `base` and `B` declare together — every new definition, every extension block merged into its (old or new) target in
    document order, every default (old ones included) evaluated in the extended types, roots kept and extended. -/
theorem extend_exact_general (base B : Doc) (hb : NoExt base) (env : Env) (live : Live)
    (hbuild : buildIgnoringExtensions base [] = .ok (env, live))
    (c : ExtCollected) (hc : collectExtensions live B true = .ok c)
    (hne : ¬ (c.schemaExts.isEmpty && c.typeDefs.isEmpty && c.typeExts.isEmpty && c.dirDefs.isEmpty) = true)
    (d : SchemaD) (v : SdlOK (base ++ B) d)
    (hroot : schemaDefs base ≠ [] ∨ ∀ t ∈ typeDefs B, t.name ≠ "Query" ∧ t.name ≠ "Mutation" ∧ t.name ≠ "Subscription") :
    ∃ r, extendSchemaPublic (typeDefs base) (directiveDefs base) live B true = .ok r ∧ toSchemaD r = d := by
  obtain ⟨s1, s2, s3, s4, s5, _, _⟩ := collect_strict_exact live B c hc
  unfold buildIgnoringExtensions at hbuild
  obtain ⟨cb, hcb, hcol⟩ := bind_ok _ _ _ hbuild
  have hTD : typeDefs (base ++ B) = typeDefs base ++ typeDefs B := typeDefs_append _ _
  have hDD : dirDefs (base ++ B) = dirDefs base ++ dirDefs B := dirDefs_append _ _
  have hXD : typeExts (base ++ B) = typeExts B := by rw [typeExts_append, hb.1, List.nil_append]
  have hSX : schemaExtensions (base ++ B) = schemaExtensions B := by rw [schemaExtensions_append, hb.2, List.nil_append]
  have hSD : schemaDefs (base ++ B) = schemaDefs base := by rw [schemaDefs_append, s5, List.append_nil]
  -- what the first pass collected
  have huT : ((typeDefs base).map (·.name)).Nodup := by
    have := v.uniqueTypes; rw [hTD, List.map_append] at this; exact (List.nodup_append.mp this).1
  have huD : ((dirDefs base).map (·.name)).Nodup := by
    have := v.uniqueDirectives; rw [hDD, List.map_append] at this; exact (List.nodup_append.mp this).1
  have hNbase : ∀ t ∈ typeDefs base, isDefaultName t.name = false :=
    fun t ht => v.noBuiltinNames t (by rw [hTD]; exact List.mem_append_left _ ht)
  obtain ⟨cb', hcb', hct, hcd, hcs⟩ := collect_ok base huT huD (by rw [← hSD]; exact v.oneSchema) hNbase
  rw [hcb] at hcb'
  have := ok_inj hcb'; subst this
  obtain ⟨henv, hskel, hdn, hr0⟩ := buildCollected_parts cb env live hcol (by rw [hct]; exact hNbase)
  rw [hct] at hskel
  rw [hcd] at hdn
  rw [hcs] at hr0
  -- the declared content, built in the extension step's way
  have hX : (Env.of (typeDefs (base ++ B))).extended (typeExts (base ++ B)) = Env.of (merged (base ++ B)) := extended_eq _ _
  have hres := extended_resolves (Env.of (typeDefs (base ++ B))) (typeExts (base ++ B))
  obtain ⟨hts, hds, hd⟩ := declared_parts _ d v.declares
  have hrsX : (typeDefs (base ++ B)).mapM (fun t => buildTypeDefX (Env.of (typeDefs (base ++ B)))
      ((Env.of (typeDefs (base ++ B))).extended (typeExts (base ++ B))) (hideFor t.kind t.name) (mergeDef (typeExts (base ++ B)) t)) = .ok d.types := by
    rw [mapM_congr_mem _ _ _ v.selfDefaults, ← mapM_map_eq]
    refine mapM_of_ok _ _ (buildTypeDefX_of_ok _ _ hres) _ _ ?_
    rw [hX]; exact hts
  -- the new definitions build on their own (`build_type`)
  obtain ⟨rs₁, rs₂, hrs₁, hrs₂, hrs⟩ := mapM_split _ _ _ _ hTD _ hrsX
  obtain ⟨bn, hbn⟩ := mapM_ok_of_forall (fun d => buildTypeDefX (Env.of (typeDefs (base ++ B)))
      ((Env.of (typeDefs (base ++ B))).extended (typeExts (base ++ B))) (hideFor d.kind d.name) d) (typeDefs B) (by
    intro t ht
    obtain ⟨r, hr⟩ := mapM_all_ok _ _ _ hrs₂ t ht
    exact buildX_base_of_merged _ _ _ _ t r hr)
  have hskelN : All₂ Skel (typeDefs B) bn := all₂_of_forall _ _ (fun a b hab => skel_of_buildX _ _ _ a b hab) _ _ hbn
  have hcur : All₂ Skel (typeDefs (base ++ B)) (live.types ++ bn) := by rw [hTD]; exact all₂_append _ _ _ _ _ hskel hskelN
  obtain ⟨cs, hcs', hre⟩ := ext_types_skel (typeDefs (base ++ B)) (typeExts (base ++ B)) (live.types ++ bn) d.types
    v.uniqueTypes v.extTargets hcur hrsX v.membersUnique
  obtain ⟨cs₁, cs₂, hcs₁, hcs₂, hcse⟩ := mapM_append_inv _ _ _ _ hcs'
  obtain ⟨r₁, r₂, hr₁, hr₂, hre'⟩ := mapM_split _ _ _ _ hcse _ hre
  -- directives
  obtain ⟨ds₁, ds₂, hds₁, hds₂, hdse⟩ := mapM_split _ _ _ _ hDD _ hds
  have holdD : live.directives.mapM (reDefaultDirectiveIn (Env.of (typeDefs (base ++ B)))
      ((Env.of (typeDefs (base ++ B))).extended (typeExts (base ++ B))) (directiveDefs base)) = .ok ds₁ := by
    refine mapM_link _ _ _ _ _ _ hdn (mapM_forall₂ _ _ _ hds₁) ?_
    intro dd ld r hdd _ hname hm
    unfold reDefaultDirectiveIn
    have hf : (directiveDefs base).find? (·.name == ld.name) = some dd := by
      rw [hname]; exact find_name_of_mem (·.name) _ huD dd hdd
    rw [hf]
    refine buildDirectiveX_of_ok _ _ hres dd r ?_
    rw [hX]; exact hm
  have hnewD : (dirDefs B).mapM (buildDirectiveX (Env.of (typeDefs (base ++ B)))
      ((Env.of (typeDefs (base ++ B))).extended (typeExts (base ++ B)))) = .ok ds₂ := by
    refine mapM_of_ok _ _ (fun dd r hm => buildDirectiveX_of_ok _ _ hres dd r ?_) _ _ hds₂
    rw [hX]; exact hm
  -- no extension targets a specified type
  have hkind : (typeExts (base ++ B)).any (fun e => isDefaultName e.name && e.kind != builtinKind e.name) = false := by
    rw [List.any_eq_false]
    intro e he
    obtain ⟨t, ht, hn, _⟩ := v.extTargets e he
    have := v.noBuiltinNames t ht
    rw [hn] at this
    simp [this]
  -- r₁, r₂ are the two halves of the declared types
  have hlen : r₁.length = rs₁.length := by
    have l1 := all₂_length _ _ _ (mapM_forall₂ _ _ _ hr₁)
    have l2 := all₂_length _ _ _ (mapM_forall₂ _ _ _ hcs₁)
    have l3 := all₂_length _ _ _ hskel
    have l4 := all₂_length _ _ _ (mapM_forall₂ _ _ _ hrs₁)
    omega
  have hsplit : r₁ = rs₁ ∧ r₂ = rs₂ := List.append_inj (by rw [← hre', ← hrs]) hlen
  have hA : All₂ (fun (t : TypeDef) (r : TypeD) => r.name = t.name ∧ r.kind = t.kind) (typeDefs base) r₁ := by
    rw [hsplit.1]
    refine all₂_of_forall _ _ ?_ _ _ hrs₁
    intro a b hab
    have := skel_of_buildX _ _ _ _ b hab
    exact ⟨this.name.trans (mergeDef_spec _ a).2.1, this.kind.trans (mergeDef_spec _ a).1⟩
  have hAn : All₂ (fun (t : TypeDef) (r : TypeD) => r.name = t.name) (typeDefs B) r₂ := by
    rw [hsplit.2]
    refine all₂_of_forall _ _ ?_ _ _ hrs₂
    intro a b hab
    exact (skel_of_buildX _ _ _ _ b hab).name.trans (mergeDef_spec _ a).2.1
  have hcyc : hasEagerCycle (r₁ ++ r₂) = false := by rw [← hre']; exact v.noEagerCycle
  have hspec : ds₂.any (fun x => specifiedDirectives.contains x.name) = false := by
    have := v.noSpecified; rw [hdse, List.any_append, Bool.or_eq_false_iff] at this; exact this.2
  have hbase : live.roots = baseRoots (base ++ B) d.types := by
    unfold baseRoots
    rw [hSD]
    unfold buildRoots at hr0
    cases hh : (schemaDefs base).head? with
    | some sd =>
      rw [hh] at hr0
      simp only [] at hr0 ⊢
      exact addOps_result _ _ _ _ _ hr0
    | none =>
      rw [hh] at hr0
      simp only [pure, Except.pure] at hr0 ⊢
      have e0 := ok_inj hr0
      have hB' : ∀ t ∈ typeDefs B, t.name ≠ "Query" ∧ t.name ≠ "Mutation" ∧ t.name ≠ "Subscription" := by
        rcases hroot with h | h
        · exfalso; apply h
          cases hsd : schemaDefs base with
          | nil => rfl
          | cons x xs => rw [hsd] at hh; simp at hh
        · exact h
      have hold : All₂ (fun (t r : TypeD) => r.name = t.name ∧ r.kind = t.kind) live.types r₁ :=
        all₂_join _ _ _ (fun a b c hab hac => ⟨hac.1.trans hab.name.symm, hac.2.trans hab.kind.symm⟩) _ _ _ hskel hA
      have hnew : ∀ r ∈ r₂, r.name ≠ "Query" ∧ r.name ≠ "Mutation" ∧ r.name ≠ "Subscription" := by
        intro r hr
        obtain ⟨t, ht, hn⟩ := all₂_mem_right _ _ _ hAn r hr
        rw [hn]; exact hB' t ht
      have h1 := defaultRoots_all₂ live.types r₁ hold
      have h2 : defaultRoots (r₁ ++ r₂) = defaultRoots r₁ := by
        simp only [defaultRoots, List.any_append, any_obj_named_false r₂ "Query" (fun r hr => (hnew r hr).1),
          any_obj_named_false r₂ "Mutation" (fun r hr => (hnew r hr).2.1),
          any_obj_named_false r₂ "Subscription" (fun r hr => (hnew r hr).2.2), Bool.or_false]
      rw [hre', h2, ← h1, e0]
  have hroots : (schemaExtensions (base ++ B)).foldlM (fun r se => addOps (fun n => isDefaultName n || d.types.any (·.name == n)) (.lib .ext) r se.ops) live.roots
      = .ok ⟨d.query, d.mutation, d.subscription⟩ := by
    rw [hbase, addOps_blocks_ok _ _ _ _ v.extOpsNew v.extOps, declared_roots _ d v.declares, declaredRoots_eq']
  rw [hre'] at hroots
  -- assemble the run of `extend_schema`
  refine ⟨{ types := r₁ ++ r₂, directives := ds₁ ++ ds₂, roots := ⟨d.query, d.mutation, d.subscription⟩ }, ?_, ?_⟩
  · unfold extendSchemaPublic
    rw [hc]
    simp only [bind, Except.bind, hne, if_false]
    rw [s1, s2, s3, s4, ← hTD, ← hXD, ← hSX]
    simp only [holdD, hnewD, hkind, failIf, hcs₁, hr₁, hbn, hcs₂, hr₂, hcyc, hroots, hspec, Bool.false_eq_true, if_false, pure, Except.pure]
  · calc toSchemaD { types := r₁ ++ r₂, directives := ds₁ ++ ds₂, roots := ⟨d.query, d.mutation, d.subscription⟩ }
        = { types := d.types, directives := d.directives, query := d.query, mutation := d.mutation, subscription := d.subscription } := by
          simp only [toSchemaD, hre', hdse]
      _ = d := hd.symm

/-- the same without the side condition on what the collection found: a document with no type-system definition at all
    returns the schema unchanged, which is the declared content too -/
theorem extend_exact_strict (base B : Doc) (hb : NoExt base) (env : Env) (live : Live)
    (hbuild : buildIgnoringExtensions base [] = .ok (env, live))
    (c : ExtCollected) (hc : collectExtensions live B true = .ok c)
    (d : SchemaD) (v : SdlOK (base ++ B) d)
    (hroot : schemaDefs base ≠ [] ∨ ∀ t ∈ typeDefs B, t.name ≠ "Query" ∧ t.name ≠ "Mutation" ∧ t.name ≠ "Subscription") :
    ∃ r, extendSchemaPublic (typeDefs base) (directiveDefs base) live B true = .ok r ∧ toSchemaD r = d := by
  by_cases hne : (c.schemaExts.isEmpty && c.typeDefs.isEmpty && c.typeExts.isEmpty && c.dirDefs.isEmpty) = true
  · obtain ⟨s1, s2, s3, s4, s5, _, _⟩ := collect_strict_exact live B c hc
    simp only [Bool.and_eq_true, List.isEmpty_iff] at hne
    obtain ⟨⟨⟨h1, h2⟩, h3⟩, h4⟩ := hne
    have hP : PureExt B := ⟨by rw [← s1]; exact h2, by rw [← s2]; exact h4, s5⟩
    obtain ⟨r, hr, hd⟩ := extend_exact base B hb hP env live hbuild d v
    have hs : extendSchemaPublic (typeDefs base) (directiveDefs base) live B true = .ok live := by
      unfold extendSchemaPublic
      rw [hc]
      simp only [bind, Except.bind, h1, h2, h3, h4, List.isEmpty_nil, Bool.and_self, if_true, pure, Except.pure]
    have := extend_strict_refines _ _ _ _ _ hs
    rw [this] at hr
    cases hr
    exact ⟨live, hs, hd⟩
  · exact extend_exact_general base B hb env live hbuild c hc hne d v hroot

/-- … and the non-strict call returns the same schema -/
theorem extend_exact_lax (base B : Doc) (hb : NoExt base) (env : Env) (live : Live)
    (hbuild : buildIgnoringExtensions base [] = .ok (env, live))
    (c : ExtCollected) (hc : collectExtensions live B true = .ok c)
    (d : SchemaD) (v : SdlOK (base ++ B) d)
    (hroot : schemaDefs base ≠ [] ∨ ∀ t ∈ typeDefs B, t.name ≠ "Query" ∧ t.name ≠ "Mutation" ∧ t.name ≠ "Subscription") :
    ∃ r, extendSchemaPublic (typeDefs base) (directiveDefs base) live B false = .ok r ∧ toSchemaD r = d := by
  obtain ⟨r, hr, hd⟩ := extend_exact_strict base B hb env live hbuild c hc d v hroot
  exact ⟨r, extend_strict_refines _ _ _ _ _ hr, hd⟩

/-! ### the side condition is necessary: `extend_schema` never re-derives the roots from the default names -/

def rBase : Doc := [.type exQuery]
def rB : Doc := [.type { kind := .object, name := "Mutation", fields := [{ name := "m", type := .named "Int" }] }]

/-- `extend_schema(build_schema("type Query { a: Int }"), "type Mutation { m: Int }")` has NO mutation root, whereas
    `build_schema` of the two definitions together has `Mutation` — reproduced on the real code (both values of `strict`).
    Not a rule of the specification that `extend_schema` breaks: an observation about what "extension" means. -/
theorem extend_roots_not_rederived :
    ((buildThenExtend rBase rB true).toOption.bind fun x => x.toOption.map (·.mutation)) = some none ∧
    ((buildThenExtend rBase rB false).toOption.bind fun x => x.toOption.map (·.mutation)) = some none ∧
    ((build (rBase ++ rB)).toOption.map (·.mutation)) = some (some "Mutation") ∧
    (Declared (rBase ++ rB)).map (·.mutation) = some (some "Mutation") := by
  refine ⟨by decide, by decide, by decide, by decide⟩

/-! ### non-vacuity: a document with a new type (extended BEFORE its definition), a new directive, extensions of old
types of three kinds, a default that needs a value the same document adds, and a new root -/

def gBase : Doc := [.type exQuery, .type { kind := .enum, name := "E", values := [{ name := "A" }] },
  .type { kind := .input, name := "I", inputFields := [{ name := "x", type := .named "Int" }] }]

def gB : Doc := [
  .ext { kind := .object, name := "M", fields := [{ name := "e", type := .named "E" }] },
  .type { kind := .object, name := "M", fields := [{ name := "m", type := .named "Int" }] },
  .ext { kind := .input, name := "I", inputFields := [{ name := "y", type := .named "E" }] },
  .ext { kind := .enum, name := "E", values := [{ name := "B" }] },
  .ext { kind := .object, name := "Query", fields := [{ name := "g", type := .named "Int", args := [{ name := "e", type := .named "E", default := some (.enum "B") }, { name := "i", type := .named "I", default := some (.obj []) }] }] },
  .directive { name := "nd", args := [{ name := "a", type := .named "E", default := some (.enum "A") }], locations := ["FIELD"] },
  .schemaExt { ops := [("mutation", "M")] }]

theorem gDeclares : (Declared (gBase ++ gB)).isSome = true := by decide

theorem gBoth_ok : SdlOK (gBase ++ gB) ((Declared (gBase ++ gB)).get gDeclares) :=
  { uniqueTypes := by decide, uniqueDirectives := by decide, oneSchema := by decide, noBuiltinNames := by decide,
    extTargets := by decide, declares := by simp,
    baseDefaults := baseDefaults_of_B _ (by decide),
    selfDefaults := by
      intro t ht
      by_cases hk : t.kind = .input
      · exact selfDefaults_of_noDefaults _ _ _ _ _ (by rw [(mergeDef_spec _ t).1]; exact hk) (by revert t; decide)
      · exact selfDefaults_of_kind _ _ t _ hk,
    membersUnique := by decide, noThunkCycle := by decide, noEagerCycle := by decide, noSpecified := by decide,
    schemaOps := by decide, extOps := by decide, extOpsNew := by decide }

example : ∃ env live r, buildIgnoringExtensions gBase [] = .ok (env, live) ∧
    extendSchemaPublic (typeDefs gBase) (directiveDefs gBase) live gB true = .ok r ∧
    toSchemaD r = (Declared (gBase ++ gB)).get gDeclares := by
  cases h : buildIgnoringExtensions gBase [] with
  | error e => have : (buildIgnoringExtensions gBase []).toBool = true := by decide
               rw [h] at this; cases this
  | ok p =>
    obtain ⟨env, live⟩ := p
    have hcb : (match buildIgnoringExtensions gBase [] with
                | .ok (_, l) => (collectExtensions l gB true).toBool
                | .error _ => false) = true := by decide
    rw [h] at hcb
    simp only [] at hcb
    cases hc : collectExtensions live gB true with
    | error e => rw [hc] at hcb; cases hcb
    | ok c =>
      obtain ⟨r, hr, hd⟩ := extend_exact_strict gBase gB ⟨rfl, rfl⟩ env live h c hc _ gBoth_ok (Or.inr (by decide))
      exact ⟨env, live, r, rfl, hr, hd⟩

end PyGql.Props.C11

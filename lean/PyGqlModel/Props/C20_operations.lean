/-
  C20 — "Whenever no breaking change is reported, every operation valid against the old schema is valid
  against the new one", for the declarative validity predicate `Spec.ValidDoc` (the one the executor's
  soundness theorem `validated_no_internal_error` of C05 assumes: fields exist on the static parent type,
  leaf ⇔ no sub-selection, type conditions name composite types, spreads are defined, fragments are
  well-typed, acyclic and uniquely named, every operation kind has its root type).

  `operations_stay_valid`: if `diff_schema(old, new, min_severity=BREAKING)` is empty then every document
  that is `ValidDoc` on the old schema is `ValidDoc` on the new one, under the same variables.
  The hypotheses on the two schema descriptions are facts about every dump of a `Schema` object: type names
  are unique (the type map is a dictionary), only object and interface types carry fields, and the new
  schema does not re-define a built-in scalar name as a non-scalar.
-/
import PyGqlModel.Diff
import PyGqlModel.Spec.ValidDoc
import PyGqlModel.Props.C20_diff
import PyGqlModel.Props.C20_nobreaking
import PyGqlModel.Props.C20_edits

set_option linter.unusedSimpArgs false
set_option linter.unusedVariables false

namespace PyGql.Props.C20
open PyGql PyGql.Differ PyGql.Diff PyGql.Generated.Differ PyGql.Exec PyGql.Spec

/-! ### a safe type change keeps the named type at the bottom of the type expression -/

private theorem iter_base (k : Nat) : ∀ o n : Ty, o.size + n.size ≤ k →
    ((iter k).1 o n = true → o.base = n.base) ∧ ((iter k).2 o n = true → o.base = n.base) := by
  induction k with
  | zero => intro o n h; have := o.size_pos; omega
  | succ k ih =>
    intro o n h
    cases o with
    | named a =>
      cases n with
      | named b => simp [iter, safeInStep, safeOutStep, Ty.isNamed, Ty.isList, Ty.isNonNull, Ty.name, Ty.base]
      | list b => simp [iter, safeInStep, safeOutStep, Ty.isNamed, Ty.isList, Ty.isNonNull, Ty.name, Ty.base]
      | nonNull b =>
        simp only [Ty.size] at h
        have := (ih (.named a) b (by simp [Ty.size]; omega)).2
        simp [iter, safeInStep, safeOutStep, Ty.isNamed, Ty.isList, Ty.isNonNull, Ty.name, Ty.base, Ty.inner]
        simpa [Ty.base] using this
    | list a =>
      simp only [Ty.size] at h
      cases n with
      | named b => simp [iter, safeInStep, safeOutStep, Ty.isNamed, Ty.isList, Ty.isNonNull, Ty.name, Ty.base]
      | list b =>
        simp only [Ty.size] at h
        have := (ih a b (by omega)).1
        simp [iter, safeInStep, safeOutStep, Ty.isNamed, Ty.isList, Ty.isNonNull, Ty.name, Ty.base, Ty.inner]
        first | exact ⟨this, this⟩ | exact this
      | nonNull b =>
        simp only [Ty.size] at h
        have := (ih (.list a) b (by simp [Ty.size]; omega)).2
        simp [iter, safeInStep, safeOutStep, Ty.isNamed, Ty.isList, Ty.isNonNull, Ty.name, Ty.base, Ty.inner]
        simpa [Ty.base] using this
    | nonNull a =>
      simp only [Ty.size] at h
      cases n with
      | named b =>
        have := (ih a (.named b) (by simp [Ty.size] at *; omega)).1
        simp [iter, safeInStep, safeOutStep, Ty.isNamed, Ty.isList, Ty.isNonNull, Ty.name, Ty.base, Ty.inner]
        simpa [Ty.base] using this
      | list b =>
        have := (ih a (.list b) (by simp [Ty.size] at *; omega)).1
        simp [iter, safeInStep, safeOutStep, Ty.isNamed, Ty.isList, Ty.isNonNull, Ty.name, Ty.base, Ty.inner]
        simpa [Ty.base] using this
      | nonNull b =>
        simp only [Ty.size] at h
        have h1 := (ih a b (by omega)).1
        have h2 := (ih a b (by omega)).2
        simp [iter, safeInStep, safeOutStep, Ty.isNamed, Ty.isList, Ty.isNonNull, Ty.name, Ty.base, Ty.inner]
        exact ⟨h1, h2⟩

/-- an output type change classified safe never changes the named type a field finally returns -/
theorem safeOut_base (o n : Ty) (h : safeOut o n = true) : o.base = n.base :=
  (iter_base _ o n (Nat.le_refl _)).2 h

/-- same for input positions -/
theorem safeIn_base (o n : Ty) (h : safeIn o n = true) : o.base = n.base :=
  (iter_base _ o n (Nat.le_refl _)).1 h

/-! ### what "no breaking change" gives about the three schema accessors of `ValidDoc` -/

private theorem sev_ge (c : String) (k : List (String × String)) (h : sev c false = 2) : 2 ≤ (mk c k).severity := by
  rw [show (mk c k).severity = sev c false from rfl, h]; exact Nat.le_refl 2

/-- facts about schema descriptions that hold for every dump of a `Schema` object -/
structure DumpWf (s : SchemaD) : Prop where
  uniq : Uniq TypeD.name s.types
  /-- only object and interface types list fields -/
  fieldsOn : ∀ t ∈ s.types, t.fields ≠ [] → t.kind = .object ∨ t.kind = .interface
  /-- a type carrying the name of a built-in scalar is a scalar -/
  builtins : ∀ t ∈ s.types, builtinScalars.contains t.name = true → t.kind = .scalar

private theorem mem_of_findType {s : SchemaD} {x : String} {t : TypeD} (h : s.findType x = some t) :
    t ∈ s.types ∧ t.name = x := by
  unfold SchemaD.findType at h
  exact ⟨List.mem_of_find?_eq_some h, by simpa using List.find?_some h⟩

private theorem findType_of_mem {s : SchemaD} (u : Uniq TypeD.name s.types) {t : TypeD} (h : t ∈ s.types) :
    s.findType t.name = some t := by
  unfold SchemaD.findType
  exact u t h

private theorem find_filter_of_find {α} (l : List α) (p q : α → Bool) (x : α)
    (h : l.find? p = some x) (hq : q x = true) : (l.filter q).find? p = some x := by
  induction l with
  | nil => simp at h
  | cons a l ih =>
    simp only [List.find?_cons] at h
    by_cases hqa : q a = true
    · simp only [List.filter_cons, hqa, if_true, List.find?_cons]
      cases hp : p a with
      | true => simp [hp] at h; simp [h]
      | false => simp [hp] at h; exact ih h
    · have hqa' : q a = false := by simpa using hqa
      simp only [List.filter_cons, hqa']
      cases hp : p a with
      | true => simp [hp] at h; subst h; simp [hq] at hqa'
      | false => simp [hp] at h; exact ih h

/-- a type of the old schema and its namesake in the new one form a matching pair of their common kind -/
private theorem matching_of_find (o n : SchemaD) (t t' : TypeD) (k : Kind) (ht : t ∈ o.types)
    (hf : n.findType t.name = some t') (hk : t.kind = k) (hk' : t'.kind = k) :
    (t, t') ∈ matchingPairs o n k := by
  unfold matchingPairs
  apply List.mem_filterMap.mpr
  refine ⟨t, List.mem_filter.mpr ⟨ht, by simp [hk]⟩, ?_⟩
  unfold SchemaD.findType at hf
  rw [find_filter_of_find n.types (fun y => y.name == t.name) (fun y => y.kind == k) t' hf (by simp [hk'])]

/-- kinds of named types are preserved -/
theorem nobreaking_kindOf (o n : SchemaD) (h : diffSchema o n 2 = []) (wn : DumpWf n)
    (x : String) (k : Kind) (hk : kindOf o x = some k) : kindOf n x = some k := by
  unfold kindOf at hk ⊢
  cases ho : o.findType x with
  | some t =>
    rw [ho] at hk
    obtain ⟨htm, htn⟩ := mem_of_findType ho
    have hs := nobreaking_types_kept o n h t htm
    rw [htn] at hs
    cases hn : n.findType x with
    | none => rw [hn] at hs; simp at hs
    | some t' =>
      have := nobreaking_kinds_kept o n h t t' htm (by rw [htn]; exact hn)
      simp only [Option.some.injEq] at hk ⊢
      rw [← this]; exact hk
  | none =>
    rw [ho] at hk
    by_cases hb : builtinScalars.contains x = true
    · rw [if_pos hb] at hk
      cases hn : n.findType x with
      | none =>
        show (if builtinScalars.contains x = true then some Kind.scalar else none) = some k
        rw [if_pos hb]; exact hk
      | some t' =>
        obtain ⟨htm, htn⟩ := mem_of_findType hn
        have := wn.builtins t' htm (by rw [htn]; exact hb)
        show some t'.kind = some k
        rw [this]; exact hk
    · rw [if_neg hb] at hk; cases hk

/-- fields are preserved, and they keep returning the same named type -/
theorem nobreaking_fieldOf (o n : SchemaD) (h : diffSchema o n 2 = []) (wo : DumpWf o)
    (T name : String) (fd : FieldD) (hf : fieldOf o T name = some fd) :
    ∃ fd', fieldOf n T name = some fd' ∧ fd'.type.base = fd.type.base := by
  unfold fieldOf at hf ⊢
  cases ho : o.findType T with
  | none => rw [ho] at hf; simp at hf
  | some t =>
    rw [ho] at hf
    obtain ⟨htm, htn⟩ := mem_of_findType ho
    have hfm : fd ∈ t.fields := List.mem_of_find?_eq_some hf
    have hfn : fd.name = name := by simpa using List.find?_some hf
    have hne : t.fields ≠ [] := by intro e; rw [e] at hfm; simp at hfm
    have hs := nobreaking_types_kept o n h t htm
    cases hn : n.findType t.name with
    | none => rw [hn] at hs; simp at hs
    | some t' =>
      have hkk := nobreaking_kinds_kept o n h t t' htm hn
      have hhost : FieldHost o n t t' := by
        rcases wo.fieldsOn t htm hne with hk | hk
        · exact Or.inl (matching_of_find o n t t' .object htm hn hk (by rw [← hkk]; exact hk))
        · exact Or.inr (matching_of_find o n t t' .interface htm hn hk (by rw [← hkk]; exact hk))
      rw [← htn, hn]
      simp only
      cases hg : t'.fields.find? (·.name == fd.name) with
      | none =>
        exfalso
        have := reported_at_severity o n _ 2 (removed_field_reported_any o n t t' fd hhost hfm hg) (sev_ge _ _ (by decide))
        rw [h] at this; exact absurd this (List.not_mem_nil)
      | some g =>
        rw [← hfn, hg]
        refine ⟨g, rfl, ?_⟩
        cases hso : safeOut fd.type g.type with
        | true => exact (safeOut_base _ _ hso).symm
        | false =>
          exfalso
          have := reported_at_severity o n _ 2 (retyped_field_reported_any o n t t' fd g hhost hfm hg hso) (sev_ge _ _ (by decide))
          rw [h] at this; exact absurd this (List.not_mem_nil)

/-- root operation types are preserved -/
theorem nobreaking_rootType (o n : SchemaD) (h : diffSchema o n 2 = []) (kind r : String)
    (hr : rootType o kind = some r) : rootType n kind = some r := by
  have key : ∀ op, (op = "query" ∨ op = "mutation" ∨ op = "subscription") → rootOf o op = some r → rootOf n op = some r := by
    intro op hop ho
    cases hn : rootOf n op with
    | none =>
      exfalso
      have := reported_at_severity o n _ 2 (root_type_removed_reported o n op r hop ho hn) (sev_ge _ _ (by decide))
      rw [h] at this; exact absurd this (List.not_mem_nil)
    | some b =>
      by_cases hb : r = b
      · rw [hb]
      · exfalso
        have := reported_at_severity o n _ 2 (root_type_changed_reported o n op r b hop ho hn hb) (sev_ge _ _ (by decide))
        rw [h] at this; exact absurd this (List.not_mem_nil)
  unfold rootType at hr ⊢
  by_cases h1 : kind = "query"
  · subst h1; simpa [rootOf] using key "query" (Or.inl rfl) (by simpa [rootOf] using hr)
  · by_cases h2 : kind = "mutation"
    · subst h2; simpa [rootOf] using key "mutation" (Or.inr (Or.inl rfl)) (by simpa [rootOf] using hr)
    · by_cases h3 : kind = "subscription"
      · subst h3; simpa [rootOf] using key "subscription" (Or.inr (Or.inr rfl)) (by simpa [rootOf] using hr)
      · simp [h1, h2, h3] at hr

/-! ### the selection-level induction -/

private theorem isComposite_kept (o n : SchemaD) (h : diffSchema o n 2 = []) (wn : DumpWf n) (c : String)
    (hc : isComposite o c = true) : isComposite n c = true := by
  unfold isComposite at hc ⊢
  cases hk : kindOf o c with
  | none => simp [hk] at hc
  | some k =>
    rw [nobreaking_kindOf o n h wn c k hk]
    rw [hk] at hc
    exact hc

mutual
private theorem selOk_kept (o n : SchemaD) (h : diffSchema o n 2 = []) (wo : DumpWf o) (wn : DumpWf n)
    (doc : Doc) (vars : Vars) : ∀ (T : String) (x : Sel), selOk o doc vars T x = true → selOk n doc vars T x = true
  | T, .field key name loc dirs args hasSub sub, hx => by
    simp only [selOk, Bool.and_eq_true] at hx ⊢
    refine ⟨hx.1, ?_⟩
    have h2 := hx.2
    by_cases hn : name == "__typename"
    · simpa [hn] using h2
    · simp only [hn] at h2 ⊢
      by_cases hm : isMeta name
      · simp [hm] at h2
      · simp only [hm] at h2 ⊢
        cases hf : fieldOf o T name with
        | none => simp [hf] at h2
        | some fd =>
          obtain ⟨fd', hf', hb⟩ := nobreaking_fieldOf o n h wo T name fd hf
          simp only [hf, hf'] at h2 ⊢
          rw [hb]
          cases hk : kindOf o fd.type.base with
          | none => simp [hk] at h2
          | some k =>
            rw [nobreaking_kindOf o n h wn _ k hk]
            rw [hk] at h2
            cases k <;> simp at h2 ⊢ <;> try exact h2
            all_goals exact ⟨h2.1, selsOk_kept o n h wo wn doc vars _ sub h2.2⟩
  | T, .inline on dirs sub, hx => by
    simp only [selOk, Bool.and_eq_true] at hx ⊢
    refine ⟨hx.1, ?_⟩
    cases on with
    | none => exact selsOk_kept o n h wo wn doc vars T sub hx.2
    | some c =>
      have h2 := hx.2
      simp only [Bool.and_eq_true] at h2 ⊢
      exact ⟨isComposite_kept o n h wn c h2.1, selsOk_kept o n h wo wn doc vars c sub h2.2⟩
  | T, .spread name dirs, hx => by
    simpa [selOk] using hx
private theorem selsOk_kept (o n : SchemaD) (h : diffSchema o n 2 = []) (wo : DumpWf o) (wn : DumpWf n)
    (doc : Doc) (vars : Vars) : ∀ (T : String) (xs : List Sel), selsOk o doc vars T xs = true → selsOk n doc vars T xs = true
  | _, [], _ => by simp [selsOk]
  | T, x :: xs, hx => by
    simp only [selsOk, Bool.and_eq_true] at hx ⊢
    exact ⟨selOk_kept o n h wo wn doc vars T x hx.1, selsOk_kept o n h wo wn doc vars T xs hx.2⟩
end

/-- **Operations stay valid - STRUCTURAL validity only (PARTIAL; the name is kept because the evidence refers to it).**
    If no BREAKING change is reported between `o` and `n`, every document that satisfies `ValidDoc` on `o` satisfies it
    on `n`, for all documents and variables. `ValidDoc` is the structural predicate of C05 (Spec/ValidDoc.lean): fields
    exist on their parent type, leaf ⇔ no sub-selection, type conditions composite, spreads defined, fragments
    acyclic, operations rooted. It OMITS arguments, argument values, variable positions, directives and
    OverlappingFieldsCanBeMerged. The clause as worded is `OperationsStayValidFull` (Props/C20_full.lean), REFUTED by
    `operations_stay_valid_full_refuted` (findings G4, G6); what holds of the validator model is
    `operations_stay_valid_all_but_overlap_partial`. -/
theorem operations_stay_valid (o n : SchemaD) (h : diffSchema o n 2 = []) (wo : DumpWf o) (wn : DumpWf n)
    (doc : Doc) (vars : Vars) (hv : ValidDoc o doc vars) : ValidDoc n doc vars := by
  unfold ValidDoc validDocB at hv ⊢
  simp only [Bool.and_eq_true] at hv ⊢
  obtain ⟨⟨⟨hops, hfr⟩, hac⟩, hun⟩ := hv
  refine ⟨⟨⟨?_, ?_⟩, hac⟩, hun⟩
  · unfold opsOk at hops ⊢
    rw [List.all_eq_true] at hops ⊢
    intro op hop
    have := hops op hop
    cases hr : rootType o op.kind with
    | none => simp [hr] at this
    | some r =>
      rw [nobreaking_rootType o n h op.kind r hr]
      rw [hr] at this
      exact selsOk_kept o n h wo wn doc vars r op.sels this
  · unfold fragsOk at hfr ⊢
    rw [List.all_eq_true] at hfr ⊢
    intro f hf
    have := hfr f hf
    simp only [Bool.and_eq_true] at this ⊢
    exact ⟨isComposite_kept o n h wn f.on this.1, selsOk_kept o n h wo wn doc vars f.on f.sels this.2⟩

/-! ### positions: arguments of interface fields and of directives (object fields and input fields are in
    `C20_diff.lean` / `C20_nobreaking.lean`) -/

private theorem absurd_of_breaking {o n : SchemaD} (h : diffSchema o n 2 = []) {c : Change}
    (hc : c ∈ diffSchema o n 0) (hs : 2 ≤ c.severity) : False := by
  have := reported_at_severity o n c 2 hc hs
  rw [h] at this; exact absurd this (List.not_mem_nil)

private theorem sev_ge_req (c : String) (k : List (String × String)) (h : sev c true = 2) : 2 ≤ (mk c k true).severity := by
  rw [show (mk c k true).severity = sev c true from rfl, h]; exact Nat.le_refl 2

/-- **Arguments of object AND interface fields**: with no BREAKING change every argument of a kept field is
    kept, accepts every value it accepted before, and no required argument is added. -/
theorem nobreaking_field_arguments_any (o n : SchemaD) (h : diffSchema o n 2 = []) (ot nt : TypeD)
    (hp : FieldHost o n ot nt) (f g : FieldD) (hf : f ∈ ot.fields) (hg : nt.fields.find? (·.name == f.name) = some g) :
    (∀ a ∈ f.args, ∃ b, g.args.find? (·.name == a.name) = some b ∧ InCompat a.type b.type)
    ∧ (∀ b ∈ g.args, f.args.find? (·.name == b.name) = none → ArgD.required b = false) := by
  constructor
  · intro a ha
    cases hb : g.args.find? (·.name == a.name) with
    | none => exact (absurd_of_breaking h (removed_argument_reported o n ot nt f g a hp hf hg ha hb) (sev_ge _ _ (by decide))).elim
    | some b =>
      refine ⟨b, rfl, safeIn_sound _ _ ?_⟩
      cases hs : safeIn a.type b.type with
      | true => rfl
      | false => exact (absurd_of_breaking h (retyped_argument_reported o n ot nt f g a b hp hf hg ha hb hs) (sev_ge _ _ (by decide))).elim
  · intro b hb hnew
    cases hr : ArgD.required b with
    | false => rfl
    | true =>
      have := added_argument_reported o n ot nt f g b hp hf hg hb hnew
      rw [hr] at this
      exact (absurd_of_breaking h this (sev_ge_req _ _ (by decide))).elim

/-- **Output positions of object AND interface fields** — PARTIAL like `nobreaking_fields_strict_partial`
    (list-free types; the list-item case is finding G1). -/
theorem nobreaking_fields_strict_any_partial (o n : SchemaD) (h : diffSchema o n 2 = []) (ot nt : TypeD)
    (hp : FieldHost o n ot nt) (f g : FieldD) (hf : f ∈ ot.fields) (hg : nt.fields.find? (·.name == f.name) = some g)
    (wf : f.type.wf = true) (wg : g.type.wf = true) (lf : listFree f.type = true) (lg : listFree g.type = true) :
    OutCompat f.type g.type := by
  apply (safeOut_iff_partial f.type g.type wf wg lf lg).mp
  cases hs : safeOut f.type g.type with
  | true => rfl
  | false => exact (absurd_of_breaking h (retyped_field_reported_any o n ot nt f g hp hf hg hs) (sev_ge _ _ (by decide))).elim

/-- **Directives**: with no BREAKING change every directive is kept with all its locations, every argument is
    kept and accepts every value it accepted before, and no required argument is added (directive applications
    in operations stay valid). -/
theorem nobreaking_directives (o n : SchemaD) (h : diffSchema o n 2 = []) (d : DirectiveD) (hd : d ∈ o.directives) :
    ∃ e, n.directives.find? (·.name == d.name) = some e
      ∧ (∀ l ∈ d.locations, l ∈ e.locations)
      ∧ (∀ a ∈ d.args, ∃ b, e.args.find? (·.name == a.name) = some b ∧ InCompat a.type b.type)
      ∧ (∀ b ∈ e.args, d.args.find? (·.name == b.name) = none → ArgD.required b = false) := by
  cases he : n.directives.find? (·.name == d.name) with
  | none => exact (absurd_of_breaking h (removed_directive_reported o n d hd he) (sev_ge _ _ (by decide))).elim
  | some e =>
    refine ⟨e, rfl, ?_, ?_, ?_⟩
    · intro l hl
      by_cases hm : l ∈ e.locations
      · exact hm
      · exact (absurd_of_breaking h (removed_location_reported o n d e l hd he hl hm) (sev_ge _ _ (by decide))).elim
    · intro a ha
      cases hb : e.args.find? (·.name == a.name) with
      | none => exact (absurd_of_breaking h (removed_directive_argument_reported o n d e a hd he ha hb) (sev_ge _ _ (by decide))).elim
      | some b =>
        refine ⟨b, rfl, safeIn_sound _ _ ?_⟩
        cases hs : safeIn a.type b.type with
        | true => rfl
        | false => exact (absurd_of_breaking h (retyped_directive_argument_reported o n d e a b hd he ha hb hs) (sev_ge _ _ (by decide))).elim
    · intro b hb hnew
      cases hr : ArgD.required b with
      | false => rfl
      | true =>
        have := added_directive_argument_reported o n d e b hd he hb hnew
        rw [hr] at this
        exact (absurd_of_breaking h this (sev_ge_req _ _ (by decide))).elim

/-! ### no element BECOMES required (repair G3: removing the default of a non-null argument was only DANGEROUS) -/

/-- a safe input type change never ADDS a non-null wrapper -/
private theorem nonNull_of_safeIn (a b : Ty) (hs : safeIn a b = true) (hb : b.isNonNull = true) : a.isNonNull = true := by
  rw [safeIn_eq_sub] at hs
  cases a with
  | nonNull _ => simp [Ty.isNonNull]
  | named x => cases b <;> simp_all [sub, Ty.isNonNull]
  | list x => cases b <;> simp_all [sub, Ty.isNonNull]

/-- under a safe type change an element can only become required by losing its default value -/
private theorem becameRequired_defaultChanged (a b : ArgD) (h : becameRequired a b = true)
    (hs : safeIn a.type b.type = true) : defaultChanged a b = true := by
  unfold becameRequired ArgD.required at h
  simp only [Bool.and_eq_true, Bool.not_eq_true'] at h
  have hbn := h.1.1
  have han := nonNull_of_safeIn a.type b.type hs hbn
  unfold defaultChanged
  cases ha : a.hasDefault <;> cases hb : b.hasDefault <;> simp_all

/-- **No argument becomes required**: with no BREAKING change, an argument of a kept field that operations could
    omit (nullable, or with a default) can still be omitted. -/
theorem nobreaking_no_argument_becomes_required (o n : SchemaD) (h : diffSchema o n 2 = []) (ot nt : TypeD)
    (hp : FieldHost o n ot nt) (f g : FieldD) (hf : f ∈ ot.fields) (hg : nt.fields.find? (·.name == f.name) = some g)
    (a b : ArgD) (ha : a ∈ f.args) (hb : g.args.find? (·.name == a.name) = some b) :
    becameRequired a b = false := by
  cases hr : becameRequired a b with
  | false => rfl
  | true =>
    exfalso
    cases hs : safeIn a.type b.type with
    | false => exact absurd_of_breaking h (retyped_argument_reported o n ot nt f g a b hp hf hg ha hb hs) (sev_ge _ _ (by decide))
    | true =>
      have := argument_default_change_reported o n ot nt f g a b hp hf hg ha hb hs (becameRequired_defaultChanged a b hr hs)
      rw [hr] at this
      exact absurd_of_breaking h this (sev_ge_req _ _ (by decide))

/-- same for input fields -/
theorem nobreaking_no_input_field_becomes_required (o n : SchemaD) (h : diffSchema o n 2 = []) (ot nt : TypeD)
    (hp : (ot, nt) ∈ matchingPairs o n .input) (f g : ArgD) (hf : f ∈ ot.inputFields)
    (hg : nt.inputFields.find? (·.name == f.name) = some g) : becameRequired f g = false := by
  cases hr : becameRequired f g with
  | false => rfl
  | true =>
    exfalso
    cases hs : safeIn f.type g.type with
    | false => exact absurd_of_breaking h (retyped_input_field_reported o n ot nt f g hp hf hg hs) (sev_ge _ _ (by decide))
    | true =>
      have := input_field_default_change_reported o n ot nt f g hp hf hg hs (becameRequired_defaultChanged f g hr hs)
      rw [hr] at this
      exact absurd_of_breaking h this (sev_ge_req _ _ (by decide))

/-- same for directive arguments -/
theorem nobreaking_no_directive_argument_becomes_required (o n : SchemaD) (h : diffSchema o n 2 = []) (d e : DirectiveD)
    (hd : d ∈ o.directives) (he : n.directives.find? (·.name == d.name) = some e) (a b : ArgD) (ha : a ∈ d.args)
    (hb : e.args.find? (·.name == a.name) = some b) : becameRequired a b = false := by
  cases hr : becameRequired a b with
  | false => rfl
  | true =>
    exfalso
    cases hs : safeIn a.type b.type with
    | false => exact absurd_of_breaking h (retyped_directive_argument_reported o n d e a b hd he ha hb hs) (sev_ge _ _ (by decide))
    | true =>
      have := directive_argument_default_change_reported o n d e a b hd he ha hb hs (becameRequired_defaultChanged a b hr hs)
      rw [hr] at this
      exact absurd_of_breaking h this (sev_ge_req _ _ (by decide))

/-! ### non-vacuity: a concrete compatible evolution and a document that uses fragments and abstract types -/

private def exOld : SchemaD :=
  { types := [{ kind := .object, name := "Query",
                fields := [{ name := "pet", type := .named "Pet" }, { name := "n", type := .named "Int" }] },
              { kind := .interface, name := "Pet", fields := [{ name := "name", type := .named "String" }] },
              { kind := .object, name := "Dog", interfaces := ["Pet"],
                fields := [{ name := "name", type := .named "String" }, { name := "bark", type := .named "Int" }] }] }

/-- new schema: a field added, an output type made non-null, a type added -/
private def exNew : SchemaD :=
  { types := [{ kind := .object, name := "Query",
                fields := [{ name := "pet", type := .named "Pet" }, { name := "n", type := .nonNull (.named "Int") },
                           { name := "extra", type := .named "Boolean" }] },
              { kind := .interface, name := "Pet", fields := [{ name := "name", type := .named "String" }] },
              { kind := .object, name := "Dog", interfaces := ["Pet"],
                fields := [{ name := "name", type := .named "String" }, { name := "bark", type := .named "Int" }] },
              { kind := .object, name := "Cat", interfaces := ["Pet"], fields := [{ name := "name", type := .named "String" }] }] }

/-- `{ n pet { name ... on Dog { bark } ...F } } fragment F on Pet { __typename }` -/
private def exDoc : Doc :=
  { ops := [{ kind := "query", name := none,
              sels := [.field "n" "n" 0 [] [] false [],
                       .field "pet" "pet" 0 [] [] true
                         [.field "name" "name" 0 [] [] false [],
                          .inline (some "Dog") [] [.field "bark" "bark" 0 [] [] false []],
                          .spread "F" []]] }],
    frags := [{ name := "F", on := "Pet", sels := [.field "__typename" "__typename" 0 [] [] false []] }] }

example : diffSchema exOld exNew 2 = [] ∧ (diffSchema exOld exNew 0).length = 3 := by decide
example : ValidDoc exOld exDoc [] := by unfold ValidDoc; decide
example : DumpWf exOld ∧ DumpWf exNew := by
  refine ⟨⟨?_, ?_, ?_⟩, ⟨?_, ?_, ?_⟩⟩ <;> simp [Uniq, exOld, exNew, builtinScalars]
/-- the conclusion, obtained through the theorem -/
example : ValidDoc exNew exDoc [] :=
  operations_stay_valid exOld exNew (by decide) (by
    refine ⟨?_, ?_, ?_⟩ <;> simp [Uniq, exOld, builtinScalars]) (by
    refine ⟨?_, ?_, ?_⟩ <;> simp [Uniq, exNew, builtinScalars]) exDoc [] (by unfold ValidDoc; decide)
/-- and the hypothesis matters: after a BREAKING change (field removed) the same document is no longer valid -/
example : diffSchema exNew exOld 2 ≠ [] := by decide

end PyGql.Props.C20

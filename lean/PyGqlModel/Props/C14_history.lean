/-
  C14 — ANY HISTORY: "all sequences of clone / transform / extend operations" where each operation is applied to the source or to
  the RESULT OF ANY EARLIER operation (a tree of derivations growing on one heap).

  `Reach cfg fuel h ss h' ss'`: from heap `h` holding the schemas `ss`, some sequence of `transform_schema(ss[i], *visitors)`
  (any visitors — visibility, camel-case, drop/wrap directive visitor, heal; `[]` = `clone()`) and `extend_schema(ss[i], ext)`
  (documents that only use defined names and define new, non-reserved, distinct type names) steps, each appending its result, leads
  to heap `h'` holding `ss'`.
  `history_closed_framed` (FULL, induction over the history): if every schema of `ss` is closed and well-formed in `h`, then
  * no object that existed in `h` is written (`Frame h h'`) — in particular none of any schema of `ss`;
  * every schema of `ss'` — the old ones and every result, whenever it was produced — is closed and well-formed in `h'`;
  * `ss` is a prefix of `ss'` (results are only added).
  So a schema can be extended, cloned and transformed again any number of times, in any order, together with everything derived
  from it. (What each result PRESERVES of its source is `ResultIntact` / `ExtIntact` / `transform_chain_untouched_preserved`.)
-/
import PyGqlModel.Props.C14_sequence
import PyGqlModel.Props.C14_extend_closed

set_option linter.unusedSimpArgs false
set_option linter.unusedVariables false

namespace PyGql.Props.C14
open PyGql.Heap PyGql.Heap.Own

inductive Reach (cfg : Cfg) (fuel : Nat) : Heap → List Schema → Heap → List Schema → Prop
  | done (h : Heap) (ss : List Schema) : Reach cfg fuel h ss h ss
  | transform {h : Heap} {ss : List Schema} {h' : Heap} {ss' : List Schema} (i : Nat) (vs : List Visitor) (s : Schema) (r : Heap × Schema) :
      ss[i]? = some s → transform cfg (2 + fuel) vs s h = some r → Reach cfg fuel r.1 (ss ++ [r.2]) h' ss' → Reach cfg fuel h ss h' ss'
  | extend {h : Heap} {ss : List Schema} {h' : Heap} {ss' : List Schema} (i : Nat) (ext : Ext) (s : Schema) :
      ss[i]? = some s → ExtOK s ext → (∀ e, e ∈ ext.newTypes → isProtected e.1 = false) →
      Reach cfg fuel (extend cfg ext s h).1 (ss ++ [(extend cfg ext s h).2]) h' ss' → Reach cfg fuel h ss h' ss'

/-- every schema of the list is closed and well-formed in the heap -/
def AllGood (h : Heap) (ss : List Schema) : Prop := ∀ s, s ∈ ss → closedB h s = true ∧ wfB h s = true

theorem AllGood.frame {h h' : Heap} (f : Frame h h') {ss : List Schema} (g : AllGood h ss) : AllGood h' ss :=
  fun s hs => ⟨closedB_frame f s (g s hs).1, wfB_frame f s (g s hs).2⟩

/-- FULL (see the header) -/
theorem history_closed_framed (cfg : Cfg) (hd : cfg.deepClone = true) (hk : cfg.keepAllTypes = true) (hacc : cfg.accumulateBusted = true)
    (hx : cfg.extKeepAll = true) (hin : cfg.extInputFieldExtended = true) (fuel : Nat) (h : Heap) (ss : List Schema) (h' : Heap) (ss' : List Schema)
    (r : Reach cfg fuel h ss h' ss') (g : AllGood h ss) : Frame h h' ∧ AllGood h' ss' ∧ ∃ more, ss' = ss ++ more := by
  induction r with
  | done h ss => exact ⟨Frame.refl h, g, [], by simp⟩
  | @transform h ss h' ss' i vs s r hi e _ ih =>
    obtain ⟨h1, s1⟩ := r
    obtain ⟨hc, hw⟩ := g s (List.mem_of_getElem? hi)
    have f1 : Frame h h1 := clone_frames_source cfg hd (2 + fuel) vs s h h1 s1 hc e
    obtain ⟨c1, w1⟩ := transform_closed cfg hd hk hacc fuel vs s h h1 s1 hc hw e
    have g1 : AllGood h1 (ss ++ [s1]) := by
      intro x hx'
      rcases List.mem_append.mp hx' with hx' | hx'
      · exact (g.frame f1) x hx'
      · simp only [List.mem_singleton] at hx'; subst hx'; exact ⟨c1, w1⟩
    obtain ⟨f2, g2, more, em⟩ := ih g1
    exact ⟨f1.trans f2, g2, [s1] ++ more, by rw [em]; simp⟩
  | @extend h ss h' ss' i ext s hi hok hnp _ ih =>
    obtain ⟨hc, hw⟩ := g s (List.mem_of_getElem? hi)
    have f1 : Frame h (extend cfg ext s h).1 := extend_frames_source cfg ext s h
    obtain ⟨c1, w1⟩ := extend_closed_wf cfg hx hin ext s h hc hw hok hnp
    have g1 : AllGood (extend cfg ext s h).1 (ss ++ [(extend cfg ext s h).2]) := by
      intro x hx'
      rcases List.mem_append.mp hx' with hx' | hx'
      · exact (g.frame f1) x hx'
      · simp only [List.mem_singleton] at hx'; subst hx'; exact ⟨c1, w1⟩
    obtain ⟨f2, g2, more, em⟩ := ih g1
    exact ⟨f1.trans f2, g2, [(extend cfg ext s h).2] ++ more, by rw [em]; simp⟩

private theorem extOK_zed : ExtOK s0 zed := by
  refine ⟨⟨?_, ?_, ?_, ?_, ?_⟩, by decide, by decide⟩
  · intro nm f hf; simp [zed, assocD] at hf
  · intro nm g hg; simp [zed, assocD] at hg
  · intro nm m hm; simp [zed, assocD] at hm
  · intro e f he hf
    simp only [zed, List.mem_singleton] at he
    subst he
    simp only [List.mem_singleton] at hf
    subst hf
    exact ⟨Or.inl (by decide), fun g hg => by cases hg⟩
  · intro e g he hg; simp [zed] at he

/-- non-vacuity: a history on the witness — extend the source, then CLONE THE EXTENSION RESULT, then hide `Dog` in the source -/
example : AllGood h0 [s0] ∧ ∃ h' ss', Reach Cfg.fixed 6 h0 [s0] h' ss' ∧ ss'.length = 4 := by
  refine ⟨fun s hs => by simp only [List.mem_singleton] at hs; subst hs; exact ⟨by decide, by decide⟩, ?_⟩
  have e1 : (transform Cfg.fixed (2 + 6) [] (extend Cfg.fixed zed s0 h0).2 (extend Cfg.fixed zed s0 h0).1).isSome = true := by decide
  obtain ⟨r1, hr1⟩ := Option.isSome_iff_exists.mp e1
  have e2 := transform_closed_total Cfg.fixed rfl rfl rfl [.vis hideDog] s0 r1.1
  have f0 : Frame h0 (extend Cfg.fixed zed s0 h0).1 := extend_frames_source _ _ _ _
  have c1 := extend_closed_wf Cfg.fixed rfl rfl zed s0 h0 (by decide) (by decide) extOK_zed (by decide)
  have f1 : Frame (extend Cfg.fixed zed s0 h0).1 r1.1 := clone_frames_source Cfg.fixed rfl (2 + 6) [] _ _ r1.1 r1.2 c1.1 hr1
  obtain ⟨h2, s2, hr2, _, _⟩ := e2 (closedB_frame (f0.trans f1) s0 (by decide)) (wfB_frame (f0.trans f1) s0 (by decide)) 6
  exact ⟨h2, _, Reach.extend 0 zed s0 rfl extOK_zed (by decide)
    (Reach.transform 1 [] (extend Cfg.fixed zed s0 h0).2 r1 rfl hr1
      (Reach.transform 0 [.vis hideDog] s0 (h2, s2) rfl hr2 (Reach.done _ _))), rfl⟩

/-- the variant in the working tree -/
theorem current_history_closed_framed
    (fuel : Nat) (h : Heap) (ss : List Schema) (h' : Heap) (ss' : List Schema)
    (r : Reach PyGql.Generated.HeapCfg.currentCfg fuel h ss h' ss') (g : AllGood h ss) :
    Frame h h' ∧ AllGood h' ss' ∧ ∃ more, ss' = ss ++ more :=
  history_closed_framed _ cur_deepClone cur_keepAllTypes cur_accumulateBusted cur_extKeepAll cur_extInputFieldExtended fuel h ss h' ss' r g

end PyGql.Props.C14

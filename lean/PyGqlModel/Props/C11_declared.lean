/-
  C11 — the declared content meets the INDEPENDENT specification `DeclaredSpec` (Spec/SdlDeclared.lean; audit 3,
  finding F2).

  * per member builder: `deprecationReason_spec`, `buildArgument_spec`, `buildField_spec`, `buildEnumValue_spec`,
    `buildTypeDef_spec`, `buildDirective_spec` — what the builder returns satisfies the attribute-by-attribute
    relation (name, type, description, deprecation reason, default, locations, member lists, nothing else);
  * `declared_meets_spec : Declared doc = some c → DeclaredSpec doc c`;
  * `build_exact_final_spec`, `build_exact_spec_independent`: the exactness theorems against the independent
    specification;
  * the relation is not loose: `declaresArg_unique` … `spec_determines` — two contents that satisfy it are EQUAL, so
    a builder that dropped a description, mis-read `@deprecated(reason:)`, lost a location or reordered members would
    falsify `declared_meets_spec`.
  Defaults go through the shared coercion `CoercesTo` (= `valueFromAst`); roots: `declaredRoots_spec` (the fold of
  `Roots.set` is the last binding of each operation; `DeclaresRoot`).
-/
import PyGqlModel.Spec.SdlDeclared
import PyGqlModel.Props.C11_rules
import PyGqlModel.Props.C11_valid

set_option linter.unusedVariables false
set_option linter.unusedSimpArgs false

namespace PyGql.Props.C11
open PyGql PyGql.Sdl PyGql.SdlSpec

theorem mapM_forall2 {α β} (f : α → R β) (P : α → β → Prop) (hP : ∀ x y, f x = .ok y → P x y) :
    ∀ (l : List α) (rs : List β), l.mapM f = .ok rs → Each₂ P l rs := by
  intro l
  induction l with
  | nil => intro rs h; simp [pure, Except.pure] at h; subst h; exact Each₂.nil
  | cons x xs ih =>
    intro rs h
    rw [List.mapM_cons] at h
    obtain ⟨b, hb, h2⟩ := bind_ok _ _ _ h
    obtain ⟨bs, hbs, h3⟩ := bind_ok _ _ _ h2
    have := ok_inj h3; subst this
    exact Each₂.cons (hP x b hb) (ih bs hbs)

/-! ### member builders -/

theorem deprecationReason_spec (ds : List DirApp) (r : Option String) (h : deprecationReason ds = .ok r) : DeclaresDeprecation ds r := by
  unfold deprecationReason at h
  cases hf : ds.find? (·.name == "deprecated") with
  | none => rw [hf] at h; have := ok_inj h; subst this; exact .absent hf
  | some d =>
    rw [hf] at h
    simp only [] at h
    cases hl : lookupLast d.args "reason" with
    | none => rw [hl] at h; have := ok_inj h; subst this; exact .byDefault d hf hl
    | some l =>
      rw [hl] at h
      cases l <;> simp only [] at h
      case null => have := ok_inj h; subst this; exact .null d hf hl
      case str s => have := ok_inj h; subst this; exact .reason d s hf hl
      all_goals (simp [sdlErr] at h)

theorem defaultValue_spec (env : Env) (l : Lit) (ty : Ty) (v : J) (h : defaultValue env l ty = .ok v) : CoercesTo env ty l v := by
  unfold defaultValue at h
  unfold CoercesTo
  cases hv : valueFromAst env coerceFuel l ty with
  | none => rw [hv] at h; cases h
  | some o =>
    rw [hv] at h
    cases o with
    | none => simp [sdlErr] at h
    | some w => have := ok_inj h; subst this; rfl

theorem buildArgument_spec (env : Env) (a : InputValDef) (r : ArgD) (h : buildArgument env a = .ok r) : DeclaresArg env a r := by
  unfold buildArgument at h
  obtain ⟨_, _, h⟩ := bind_ok _ _ _ h
  cases hd : a.default with
  | none =>
    rw [hd] at h
    have := ok_inj h; subst this
    exact ⟨rfl, rfl, rfl, rfl, fun _ => ⟨rfl, rfl⟩, fun l hl => (by rw [hd] at hl; cases hl)⟩
  | some l =>
    rw [hd] at h
    simp only [] at h
    obtain ⟨v, hv, h⟩ := bind_ok _ _ _ h
    have := ok_inj h; subst this
    exact ⟨rfl, rfl, rfl, rfl, fun hn => (by rw [hd] at hn; cases hn), fun l' hl' => (by rw [hd] at hl'; cases hl'; exact ⟨rfl, defaultValue_spec env l a.type v hv⟩)⟩

theorem fieldDeprecation_eq (r : Option String) : fieldDeprecation r = fieldReason r := by
  unfold fieldDeprecation fieldReason
  rfl

theorem buildField_spec (env : Env) (f : FieldDef) (r : FieldD) (h : buildField env f = .ok r) : DeclaresField env f r := by
  unfold buildField at h
  obtain ⟨_, _, h⟩ := bind_ok _ _ _ h
  obtain ⟨args, hargs, h⟩ := bind_ok _ _ _ h
  obtain ⟨reason, hr, h⟩ := bind_ok _ _ _ h
  have := ok_inj h; subst this
  exact ⟨rfl, rfl, rfl, mapM_forall2 _ _ (buildArgument_spec env) _ _ hargs,
    ⟨reason, deprecationReason_spec _ _ hr, fieldDeprecation_eq reason⟩, rfl, rfl⟩

theorem buildEnumValue_spec (v : EnumValDef) (r : EnumValD) (h : buildEnumValue v = .ok r) : DeclaresEnumValue v r := by
  unfold buildEnumValue at h
  obtain ⟨_, _, h⟩ := bind_ok _ _ _ h
  obtain ⟨reason, hr, h⟩ := bind_ok _ _ _ h
  have := ok_inj h; subst this
  exact ⟨rfl, rfl, rfl, deprecationReason_spec _ _ hr⟩

/-- **what `_build_<kind>_type` returns is the declared content of the definition** -/
theorem buildTypeDef_spec (env : Env) (d : TypeDef) (r : TypeD) (h : buildTypeDef env d = .ok r) : DeclaresType env d r := by
  unfold buildTypeDef at h
  cases hk : d.kind <;> simp only [hk] at h
  · have := ok_inj h; subst this
    exact ⟨rfl, hk.symm, rfl, ⟨by simp [hk], by simp [hk], by simp [hk], by simp [hk], by simp [hk]⟩, rfl, rfl⟩
  · obtain ⟨fs, hfs, h⟩ := bind_ok _ _ _ h
    obtain ⟨_, _, h⟩ := bind_ok _ _ _ h
    have := ok_inj h; subst this
    have hF := mapM_forall2 _ _ (buildField_spec env) _ _ hfs
    exact ⟨rfl, hk.symm, rfl, ⟨by simpa [hk] using hF, by simp [hk], by simp [hk], by simp [hk], by simp [hk]⟩, rfl, rfl⟩
  · obtain ⟨fs, hfs, h⟩ := bind_ok _ _ _ h
    have := ok_inj h; subst this
    have hF := mapM_forall2 _ _ (buildField_spec env) _ _ hfs
    exact ⟨rfl, hk.symm, rfl, ⟨by simpa [hk] using hF, by simp [hk], by simp [hk], by simp [hk], by simp [hk]⟩, rfl, rfl⟩
  · obtain ⟨_, _, h⟩ := bind_ok _ _ _ h
    have := ok_inj h; subst this
    exact ⟨rfl, hk.symm, rfl, ⟨by simp [hk], by simp [hk], by simp [hk], by simp [hk], by simp [hk]⟩, rfl, rfl⟩
  · obtain ⟨_, _, h⟩ := bind_ok _ _ _ h
    obtain ⟨vs, hvs, h⟩ := bind_ok _ _ _ h
    have := ok_inj h; subst this
    have hV := mapM_forall2 _ _ buildEnumValue_spec _ _ hvs
    exact ⟨rfl, hk.symm, rfl, ⟨by simp [hk], by simp [hk], by simp [hk], by simpa [hk] using hV, by simp [hk]⟩, rfl, rfl⟩
  · obtain ⟨fs, hfs, h⟩ := bind_ok _ _ _ h
    have := ok_inj h; subst this
    have hF := mapM_forall2 _ _ (buildArgument_spec env) _ _ hfs
    exact ⟨rfl, hk.symm, rfl, ⟨by simp [hk], by simp [hk], by simp [hk], by simp [hk], by simpa [hk] using hF⟩, rfl, rfl⟩

theorem buildDirective_spec (env : Env) (d : DirDef) (r : DirectiveD) (h : buildDirective env d = .ok r) : DeclaresDirective env d r := by
  unfold buildDirective at h
  obtain ⟨args, hargs, h⟩ := bind_ok _ _ _ h
  have := ok_inj h; subst this
  exact ⟨rfl, rfl, rfl, mapM_forall2 _ _ (buildArgument_spec env) _ _ hargs⟩

/-! ### roots -/

def RootOp (op : String) : Prop := op = "query" ∨ op = "mutation" ∨ op = "subscription"

theorem get_set_eq (r : Roots) (op ty : String) (h : RootOp op) : (r.set op ty).get op = some ty := by
  rcases h with rfl | rfl | rfl <;> rfl

theorem lastBinding_cons (o : String × String) (os : List (String × String)) (op : String) :
    lastBinding (o :: os) op = match lastBinding os op with | some ty => some ty | none => if o.1 == op then some o.2 else none := by
  unfold lastBinding
  rw [List.reverse_cons, List.find?_append]
  cases h : os.reverse.find? (·.1 == op) with
  | some x => simp
  | none =>
    simp only [Option.none_or, List.find?_cons, List.find?_nil, Option.map_none]
    by_cases hc : (o.1 == op) = true
    · simp [hc]
    · simp [hc]

theorem foldSet_get (op : String) (h : RootOp op) : ∀ (ops : List (String × String)) (r0 : Roots),
    (ops.foldl (fun r (o : String × String) => r.set o.1 o.2) r0).get op =
      match lastBinding ops op with | some ty => some ty | none => r0.get op := by
  intro ops
  induction ops with
  | nil => intro r0; rfl
  | cons o os ih =>
    intro r0
    rw [List.foldl_cons, ih, lastBinding_cons]
    cases lastBinding os op with
    | some ty => rfl
    | none =>
      simp only []
      by_cases hc : (o.1 == op) = true
      · have : o.1 = op := by simpa using hc
        simp only [hc, if_true]; rw [this, get_set_eq _ _ _ h]
      · have hne : op ≠ o.1 := fun e => hc (by simp [e])
        simp only [hc]; exact get_set_ne _ _ _ _ hne

theorem foldBlocks_flat (f : Roots → String × String → Roots) : ∀ (blocks : List SchemaDef) (r0 : Roots),
    blocks.foldl (fun r se => se.ops.foldl f r) r0 = (blocks.flatMap (·.ops)).foldl f r0 := by
  intro blocks
  induction blocks with
  | nil => intro _; rfl
  | cons b bs ih => intro r0; rw [List.foldl_cons, ih, List.flatMap_cons, List.foldl_append]

theorem setFun_eq : (fun (r : Roots) (x : String × String) => match x with | (op, ty) => r.set op ty) = (fun r o => r.set o.1 o.2) := by
  funext r x; cases x; rfl

theorem declaredRoots_get (doc : Doc) (types : List TypeD) (op : String) (h : RootOp op) :
    (declaredRoots doc types).get op = match lastBinding (declaredOps doc) op with
      | some ty => some ty
      | none => match schemaDefs doc with | _ :: _ => none | [] => (defaultRoots types).get op := by
  unfold declaredRoots declaredOps
  simp only []
  rw [setFun_eq, foldBlocks_flat]
  cases hs : schemaDefs doc with
  | nil =>
    simp only [List.nil_append]
    rw [foldSet_get op h]
  | cons sd rest =>
    simp only []
    rw [← List.foldl_append, foldSet_get op h]
    cases lastBinding (sd.ops ++ (schemaExtensions doc).flatMap (·.ops)) op with
    | some ty => rfl
    | none => rcases h with rfl | rfl | rfl <;> rfl

theorem pick_spec (types : List TypeD) (dflt : String) (r : Option String)
    (hr : r = if types.any (fun t => t.name == dflt && t.kind == .object) then some dflt else none) :
    ((∃ t ∈ types, t.name = dflt ∧ t.kind = .object) → r = some dflt) ∧
    ((¬ ∃ t ∈ types, t.name = dflt ∧ t.kind = .object) → r = none) := by
  have hiff : types.any (fun t => t.name == dflt && t.kind == .object) = true ↔ ∃ t ∈ types, t.name = dflt ∧ t.kind = .object := by
    simp [List.any_eq_true]
  constructor
  · intro h; rw [hr, if_pos (hiff.mpr h)]
  · intro h; rw [hr, if_neg (fun c => h (hiff.mp c))]

theorem declaresRoot_of_get (doc : Doc) (types : List TypeD) (op dflt : String) (h : RootOp op)
    (hd : (defaultRoots types).get op = if types.any (fun t => t.name == dflt && t.kind == .object) then some dflt else none) :
    DeclaresRoot doc types op dflt ((declaredRoots doc types).get op) := by
  unfold DeclaresRoot
  rw [declaredRoots_get doc types op h]
  cases lastBinding (declaredOps doc) op with
  | some ty => rfl
  | none =>
    simp only []
    cases hs : schemaDefs doc with
    | nil => exact pick_spec types dflt _ hd
    | cons _ _ => rfl

/-- **the roots of the declared content, declaratively** -/
theorem declaredRoots_spec (doc : Doc) (types : List TypeD) :
    DeclaresRoot doc types "query" "Query" (declaredRoots doc types).query ∧
    DeclaresRoot doc types "mutation" "Mutation" (declaredRoots doc types).mutation ∧
    DeclaresRoot doc types "subscription" "Subscription" (declaredRoots doc types).subscription :=
  ⟨declaresRoot_of_get doc types "query" "Query" (Or.inl rfl) rfl,
   declaresRoot_of_get doc types "mutation" "Mutation" (Or.inr (Or.inl rfl)) rfl,
   declaresRoot_of_get doc types "subscription" "Subscription" (Or.inr (Or.inr rfl)) rfl⟩

/-! ### the declared content -/

/-- **`Declared` meets the independent specification**: every registered type / directive is, attribute by attribute,
    what the merged definition says. -/
theorem declared_meets_spec (doc : Doc) (c : SchemaD) (h : Declared doc = some c) : DeclaredSpec doc c := by
  unfold Declared at h
  simp only [] at h
  cases h1 : (merged doc).mapM (buildTypeDef (Env.of (merged doc))) with
  | error e => rw [h1] at h; simp at h
  | ok ts =>
    cases h2 : (dirDefs doc).mapM (buildDirective (Env.of (merged doc))) with
    | error e => rw [h1, h2] at h; simp at h
    | ok ds =>
      rw [h1, h2] at h
      simp only [Option.some.injEq] at h
      subst h
      obtain ⟨rq, rm, rs⟩ := declaredRoots_spec doc ts
      exact ⟨mapM_forall2 _ _ (buildTypeDef_spec _) _ _ h1, mapM_forall2 _ _ (buildDirective_spec _) _ _ h2, rq, rm, rs, rfl⟩

/-- **build_exact against the independent specification**: a document that satisfies `SdlOK` builds, and what is built
    is, attribute by attribute, the content the document declares. -/
theorem build_exact_final_spec (doc : Doc) (d : SchemaD) (v : SdlOK doc d) : build doc = .ok d ∧ DeclaredSpec doc d :=
  ⟨build_exact_final doc d v, declared_meets_spec doc d v.declares⟩

/-- the same from the specification's rules (`build_exact_spec`) -/
theorem build_exact_spec_independent (doc : Doc) (d : SchemaD) (r : SdlRules doc d) (x : Residue doc) :
    ∃ s, build doc = .ok s ∧ DeclaredSpec doc s :=
  ⟨d, build_exact_final doc d (sdlOK_of_rules doc d r x), declared_meets_spec doc d r.declares⟩

/-! ### the relation is tight: it has at most one solution -/

theorem declaresDeprecation_unique (ds : List DirApp) (r r' : Option String) (h : DeclaresDeprecation ds r) (h' : DeclaresDeprecation ds r') :
    r = r' := by
  cases h <;> cases h' <;> simp_all

theorem forall2_unique {α β} (P : α → β → Prop) (hP : ∀ a b b', P a b → P a b' → b = b') :
    ∀ (l : List α) (r r' : List β), Each₂ P l r → Each₂ P l r' → r = r' := by
  intro l r r' h
  induction h generalizing r' with
  | nil => intro h'; cases h'; rfl
  | cons p _ ih => intro h'; cases h' with | cons p' t' => rw [hP _ _ _ p p', ih _ t']

theorem declaresArg_unique (env : Env) (a : InputValDef) (r r' : ArgD) (h : DeclaresArg env a r) (h' : DeclaresArg env a r') : r = r' := by
  obtain ⟨n, t, d, p, nd, df⟩ := h
  obtain ⟨n', t', d', p', nd', df'⟩ := h'
  cases r; cases r'
  simp only [ArgD.mk.injEq]
  simp only [] at n t d p nd df n' t' d' p' nd' df'
  cases hd : a.default with
  | none =>
    obtain ⟨a1, a2⟩ := nd hd
    obtain ⟨b1, b2⟩ := nd' hd
    exact ⟨n.trans n'.symm, t.trans t'.symm, a1.trans b1.symm, a2.trans b2.symm, d.trans d'.symm, p.trans p'.symm⟩
  | some l =>
    obtain ⟨a1, a2⟩ := df l hd
    obtain ⟨b1, b2⟩ := df' l hd
    unfold CoercesTo at a2 b2
    rw [a2] at b2
    simp only [Option.some.injEq] at b2
    exact ⟨n.trans n'.symm, t.trans t'.symm, a1.trans b1.symm, b2, d.trans d'.symm, p.trans p'.symm⟩

theorem declaresField_unique (env : Env) (f : FieldDef) (r r' : FieldD) (h : DeclaresField env f r) (h' : DeclaresField env f r') : r = r' := by
  obtain ⟨n, t, d, a, ⟨x, hx, dx⟩, r1, r2⟩ := h
  obtain ⟨n', t', d', a', ⟨x', hx', dx'⟩, r1', r2'⟩ := h'
  have := declaresDeprecation_unique _ _ _ hx hx'; subst this
  have ha := forall2_unique _ (declaresArg_unique env) _ _ _ a a'
  cases r; cases r'
  simp only [FieldD.mk.injEq]
  simp only [] at n t d dx r1 r2 n' t' d' dx' r1' r2' ha
  exact ⟨n.trans n'.symm, t.trans t'.symm, ha, dx.trans dx'.symm, d.trans d'.symm, r1.trans r1'.symm, r2.trans r2'.symm⟩

theorem declaresEnumValue_unique (v : EnumValDef) (r r' : EnumValD) (h : DeclaresEnumValue v r) (h' : DeclaresEnumValue v r') : r = r' := by
  obtain ⟨n, t, d, x⟩ := h
  obtain ⟨n', t', d', x'⟩ := h'
  have hx := declaresDeprecation_unique _ _ _ x x'
  cases r; cases r'
  simp only [EnumValD.mk.injEq]
  simp only [] at n t d hx n' t' d'
  exact ⟨n.trans n'.symm, t.trans t'.symm, hx, d.trans d'.symm⟩

theorem declaresType_unique (env : Env) (d : TypeDef) (r r' : TypeD) (h : DeclaresType env d r) (h' : DeclaresType env d r') : r = r' := by
  obtain ⟨n, k, ds, ⟨f, i, m, v, inp⟩, p1, p2⟩ := h
  obtain ⟨n', k', ds', ⟨f', i', m', v', inp'⟩, p1', p2'⟩ := h'
  have hf : r.fields = r'.fields := by
    by_cases c : d.kind = .object ∨ d.kind = .interface
    · rw [if_pos c] at f f'; exact forall2_unique _ (declaresField_unique env) _ _ _ f f'
    · rw [if_neg c] at f f'; rw [f, f']
  have hv : r.values = r'.values := by
    by_cases c : d.kind = .enum
    · rw [if_pos c] at v v'; exact forall2_unique _ declaresEnumValue_unique _ _ _ v v'
    · rw [if_neg c] at v v'; rw [v, v']
  have hi : r.inputFields = r'.inputFields := by
    by_cases c : d.kind = .input
    · rw [if_pos c] at inp inp'; exact forall2_unique _ (declaresArg_unique env) _ _ _ inp inp'
    · rw [if_neg c] at inp inp'; rw [inp, inp']
  cases r; cases r'
  simp only [TypeD.mk.injEq]
  simp only [] at n k ds i m p1 p2 n' k' ds' i' m' p1' p2' hf hv hi
  exact ⟨k.trans k'.symm, n.trans n'.symm, ds.trans ds'.symm, i.trans i'.symm, hf, m.trans m'.symm, hv, hi, p1.trans p1'.symm, p2.trans p2'.symm⟩

theorem declaresDirective_unique (env : Env) (d : DirDef) (r r' : DirectiveD) (h : DeclaresDirective env d r) (h' : DeclaresDirective env d r') : r = r' := by
  obtain ⟨n, l, ds, a⟩ := h
  obtain ⟨n', l', ds', a'⟩ := h'
  have ha := forall2_unique _ (declaresArg_unique env) _ _ _ a a'
  cases r; cases r'
  simp only [DirectiveD.mk.injEq]
  simp only [] at n l ds n' l' ds' ha
  exact ⟨n.trans n'.symm, l.trans l'.symm, ha, ds.trans ds'.symm⟩

theorem declaresRoot_unique (doc : Doc) (types : List TypeD) (op dflt : String) (r r' : Option String)
    (h : DeclaresRoot doc types op dflt r) (h' : DeclaresRoot doc types op dflt r') : r = r' := by
  unfold DeclaresRoot at h h'
  cases hl : lastBinding (declaredOps doc) op with
  | some ty => rw [hl] at h h'; exact h.trans h'.symm
  | none =>
    rw [hl] at h h'
    simp only [] at h h'
    cases hs : schemaDefs doc with
    | cons _ _ => rw [hs] at h h'; exact h.trans h'.symm
    | nil =>
      rw [hs] at h h'
      by_cases c : ∃ t ∈ types, t.name = dflt ∧ t.kind = .object
      · exact (h.1 c).trans (h'.1 c).symm
      · exact (h.2 c).trans (h'.2 c).symm

/-- **the specification determines the content**: two schema descriptions that satisfy `DeclaredSpec doc` are equal.
    With `declared_meets_spec`: `DeclaredSpec doc c ↔ Declared doc = some c` whenever the document declares anything. -/
theorem spec_determines (doc : Doc) (c c' : SchemaD) (h : DeclaredSpec doc c) (h' : DeclaredSpec doc c') : c = c' := by
  obtain ⟨t, d, q, m, s, r⟩ := h
  obtain ⟨t', d', q', m', s', r'⟩ := h'
  have ht := forall2_unique _ (declaresType_unique _) _ _ _ t t'
  have hd := forall2_unique _ (declaresDirective_unique _) _ _ _ d d'
  cases c; cases c'
  simp only [SchemaD.mk.injEq]
  simp only [] at q m s r q' m' s' r' ht hd
  subst ht
  exact ⟨rfl, hd, declaresRoot_unique _ _ _ _ _ _ q q', declaresRoot_unique _ _ _ _ _ _ m m', declaresRoot_unique _ _ _ _ _ _ s s', r.trans r'.symm⟩

/-- the specification is equivalent to the computed `Declared` on every document that declares something -/
theorem declaredSpec_iff (doc : Doc) (c₀ : SchemaD) (h₀ : Declared doc = some c₀) (c : SchemaD) : DeclaredSpec doc c ↔ Declared doc = some c :=
  ⟨fun h => by rw [h₀, spec_determines doc c c₀ h (declared_meets_spec doc c₀ h₀)], declared_meets_spec doc c⟩

/-! ### non-vacuity, and what the specification excludes -/

example : ∃ c, Declared extDoc = some c ∧ DeclaredSpec extDoc c :=
  ⟨(Declared extDoc).get extDeclares, by simp, declared_meets_spec _ _ (by simp)⟩

/-- `@deprecated(reason: "old")` declares the reason "old" and nothing else; without `reason:` the default text -/
example : DeclaresDeprecation [{ name := "deprecated", args := [("reason", .str "old")] }] (some "old") := .reason _ "old" rfl rfl
example : ¬ DeclaresDeprecation [{ name := "deprecated", args := [("reason", .str "old")] }] none :=
  fun h => by have := declaresDeprecation_unique _ _ _ h (.reason _ "old" rfl rfl); cases this
example : DeclaresDeprecation [{ name := "deprecated" }] (some "No longer supported") := .byDefault _ rfl rfl

/-- a field built WITHOUT its description does not meet the specification -/
example : ¬ DeclaresField (Env.of []) { name := "a", desc := some "doc", type := .named "Int" } { name := "a", type := .named "Int" } :=
  fun h => by have := h.desc; cases this

end PyGql.Props.C11

/-
  C08 — finding E2r as a THEOREM PAIR (was: prose residual "callback bodies racing on two workers").
  STATUS: the `gather_nonatomic_*` / `gather_terminates_nonatomic_refuted` theorems are about the machine /repo had BEFORE fix
  6013951; the code as shipped is `RuntimeRaceShipped.lean` / `Props/C08_race_shipped.lean` (variant re-extracted on every run).

  * `gather_nonatomic_lost_update` / `gather_terminates_nonatomic_refuted`: with the read-modify-write of
    `done += 1` split into LOAD and STORE on two workers there is an interleaving after which BOTH
    `on_finish` callbacks have returned, `done = 1 < target_count = 2`, and the aggregate Future was never
    set — `gather_futures` never completes although every resolver completed.
  * `gather_locked_sets_outer`: the same for the NON-atomic micro-steps under a lock held from LOAD to STORE.
  * `gather_atomic_sets_outer`: with an ATOMIC increment (LOAD+STORE one step; the TEST still separate and
    interleaved arbitrarily) — for EVERY number of workers and EVERY schedule — once all callbacks have
    returned the aggregate has been set, exactly once.
-/
import PyGqlModel.RuntimeRace

set_option linter.unusedVariables false
set_option linter.unusedSimpArgs false

namespace PyGql.Props.C08
open PyGql.AsyncExec.Race

/-- "execution always completes once all resolvers have completed", at the level of `gather_futures`'
    callbacks running concurrently with NON-atomic `done += 1`. -/
def GatherTerminatesNonAtomic : Prop :=
  ∀ (plain n : Nat) (sched : List Nat),
    (run (St.init plain n) sched).allFinished = true → (run (St.init plain n) sched).outerSet = true

/-- **gather_nonatomic_lost_update** (refutation witness). Two pending futures, workers 0 and 1:
    `LOAD₀ LOAD₁ STORE₀ STORE₁ TEST₀ TEST₁`. Both callbacks return, one increment is lost
    (`done = 1`, `target = 2`) and `outer.set_result` was never called. (PRE-FIX machine: /repo takes the increment under a lock since fix 6013951 - `gather_shipped_sets_outer_once`, `gather_shipped_variant` in Props/C08_race_shipped.lean are about the code as shipped; this theorem documents why the fix was needed.) -/
theorem gather_nonatomic_lost_update :
    let s := run (St.init 0 2) [0, 1, 0, 1, 0, 1]
    s.allFinished = true ∧ s.done = 1 ∧ s.target = 2 ∧ s.sets = 0 ∧ s.outerSet = false := by
  decide

/-- **gather_nonatomic_lost_update_preempted** — the interleaving that `probe_gather_lost_update` (harness/corr/C08.py)
    forces on the REAL `gather_futures` with an opcode tracer: worker 0 is preempted between its LOAD and its STORE,
    worker 1 runs its whole callback in between (`LOAD₀ | LOAD₁ STORE₁ TEST₁ | STORE₀ TEST₀`). Same outcome. (PRE-FIX machine: /repo takes the increment under a lock since fix 6013951 - `gather_shipped_sets_outer_once`, `gather_shipped_variant` in Props/C08_race_shipped.lean are about the code as shipped; this theorem documents why the fix was needed.) -/
theorem gather_nonatomic_lost_update_preempted :
    let s := run (St.init 0 2) [0, 1, 1, 1, 0, 0]
    s.allFinished = true ∧ s.done = 1 ∧ s.target = 2 ∧ s.outerSet = false := by
  decide

/-- under the lock the same schedule makes worker 1 wait (its steps are no-ops until the lock is released); retried
    afterwards, nothing is lost -/
example : (lrun (St.init 0 2) [0, 1, 1, 1, 0, 0, 1, 1, 1]).outerSet = true := by decide

/-- the same with a plain (non-future) entry in the source list and three workers: two updates lost (PRE-FIX machine: /repo takes the increment under a lock since fix 6013951 - `gather_shipped_sets_outer_once`, `gather_shipped_variant` in Props/C08_race_shipped.lean are about the code as shipped; this theorem documents why the fix was needed.) -/
theorem gather_nonatomic_lost_update_3 :
    let s := run (St.init 1 3) [0, 1, 2, 0, 1, 2, 0, 1, 2]
    s.allFinished = true ∧ s.done = 2 ∧ s.target = 4 ∧ s.outerSet = false := by
  decide

/-- **gather_terminates_nonatomic_refuted.** `gather_terminates` is FALSE once callback bodies interleave
    between the LOAD and the STORE of `done += 1`. (PRE-FIX machine: /repo takes the increment under a lock since fix 6013951 - `gather_shipped_sets_outer_once`, `gather_shipped_variant` in Props/C08_race_shipped.lean are about the code as shipped; this theorem documents why the fix was needed.) -/
theorem gather_terminates_nonatomic_refuted : ¬ GatherTerminatesNonAtomic := by
  intro h
  have := h 0 2 [0, 1, 0, 1, 0, 1] (by decide)
  exact absurd this (by decide)

/-- the sequential interleaving (what the atomic model of `Runtime.lean` describes) does set the aggregate:
    the refutation is about the interleaving, not about the machine -/
example : (run (St.init 0 2) [0, 0, 0, 1, 1, 1]).outerSet = true ∧ (run (St.init 0 2) [0, 0, 0, 1, 1, 1]).sets = 1 := by
  decide

/-! ### atomic increment -/

def countStart : List PC → Nat
  | [] => 0
  | .start :: r => countStart r + 1
  | _ :: r => countStart r

private theorem countStart_set_start (l : List PC) (i : Nat) (x : PC) (hx : x ≠ .start) (h : l[i]? = some .start) :
    countStart (l.set i x) + 1 = countStart l := by
  induction l generalizing i with
  | nil => simp at h
  | cons a r ih =>
    cases i with
    | zero =>
      simp at h; subst h
      cases x <;> simp_all [countStart, List.set]
    | succ j =>
      simp at h
      have := ih j h
      cases a <;> simp [countStart, List.set] <;> omega

private theorem countStart_set_other (l : List PC) (i : Nat) (x y : PC) (hx : x ≠ .start) (hy : y ≠ .start)
    (h : l[i]? = some y) : countStart (l.set i x) = countStart l := by
  induction l generalizing i with
  | nil => simp at h
  | cons a r ih =>
    cases i with
    | zero =>
      simp at h; subst h
      cases x <;> cases a <;> simp_all [countStart, List.set]
    | succ j =>
      simp at h
      have := ih j h
      cases a <;> simp [countStart, List.set] <;> omega

private theorem mem_set_self (l : List PC) (i : Nat) (x : PC) (h : i < l.length) : x ∈ l.set i x := by
  induction l generalizing i with
  | nil => simp at h
  | cons a r ih =>
    cases i with
    | zero => simp [List.set]
    | succ j => simp [List.set]; right; exact ih j (by simpa using h)

private theorem countStart_zero_of_all_finished (l : List PC) (h : l.all (· == .finished) = true) :
    countStart l = 0 ∧ PC.stored ∉ l := by
  induction l with
  | nil => simp [countStart]
  | cons a r ih =>
    simp at h
    obtain ⟨ha, hr⟩ := h
    subst ha
    have := ih (by simpa using hr)
    simp [countStart, this]

/-- invariant of the atomic machine: (1) `done` counts exactly the workers that have incremented;
    (2) no worker is between LOAD and STORE; (3) the aggregate is set, or some worker still has to run its
    TEST, or not everybody has incremented yet; (4) the aggregate is set at most once. -/
structure AInv (s : St) : Prop where
  count : s.done + countStart s.pcs = s.target
  noLoaded : ∀ t, PC.loaded t ∉ s.pcs
  progress : s.sets ≠ 0 ∨ PC.stored ∈ s.pcs ∨ s.done < s.target
  once : s.sets ≤ 1

private theorem ainv_init (plain n : Nat) (hn : 0 < n) : AInv (St.init plain n) := by
  have hc : ∀ n, countStart (List.replicate n PC.start) = n := by
    intro n; induction n with
    | zero => rfl
    | succ k ih => simp [List.replicate, countStart, ih]
  refine ⟨?_, ?_, ?_, ?_⟩
  · simp [St.init, hc]
  · intro t h; simp [St.init, List.mem_replicate] at h
  · right; right; simp [St.init]; omega
  · simp [St.init]

private theorem test_fields (s : St) :
    s.test.done = s.done ∧ s.test.target = s.target ∧ s.test.pcs = s.pcs ∧ s.sets ≤ s.test.sets
      ∧ (s.sets ≤ 1 → s.test.sets ≤ 1) ∧ (s.done = s.target → s.test.sets ≠ 0) := by
  unfold St.test
  by_cases h1 : s.done = s.target <;> by_cases h2 : s.sets = 0 <;> simp [h1, h2] <;> omega

private theorem ainv_astep (s : St) (i : Nat) (h : AInv s) : AInv (astep s i) := by
  unfold astep
  cases hp : s.pcs[i]? with
  | none => simpa using h
  | some pc =>
    have hlt : i < s.pcs.length := by
      rcases Nat.lt_or_ge i s.pcs.length with hl | hl
      · exact hl
      · simp [List.getElem?_eq_none hl] at hp
    have hmem : pc ∈ s.pcs := List.mem_of_getElem? hp
    cases pc with
    | start =>
      have hc := countStart_set_start s.pcs i .stored (by simp) hp
      refine ⟨?_, ?_, ?_, ?_⟩
      · simp; have := h.count; omega
      · intro t hm
        simp at hm
        rcases List.mem_or_eq_of_mem_set hm with hm | hm
        · exact h.noLoaded t hm
        · cases hm
      · right; left; simpa using mem_set_self s.pcs i .stored hlt
      · simpa using h.once
    | loaded t => exact absurd hmem (h.noLoaded t)
    | stored =>
      obtain ⟨hd, ht, hpc, hmono, honce, hset⟩ := test_fields s
      have hc := countStart_set_other s.pcs i .finished .stored (by simp) (by simp) hp
      refine ⟨?_, ?_, ?_, ?_⟩
      · simp [hd, ht, hpc, hc]; exact h.count
      · intro t hm
        simp [hpc] at hm
        rcases List.mem_or_eq_of_mem_set hm with hm | hm
        · exact h.noLoaded t hm
        · cases hm
      · simp only [hd, ht]
        by_cases hdt : s.done = s.target
        · left; exact hset hdt
        · right; right; have := h.count; omega
      · simpa using honce h.once
    | finished => simpa [hp] using h

private theorem ainv_arun (sched : List Nat) (s : St) (h : AInv s) : AInv (arun s sched) := by
  induction sched generalizing s with
  | nil => simpa [arun] using h
  | cons i rest ih => simp only [arun]; exact ih _ (ainv_astep s i h)

/-- **gather_atomic_sets_outer.** With an ATOMIC `done += 1` (LOAD and STORE one indivisible step — a lock
    around the statement, or the whole callback serialised), for every number `n > 0` of pending futures,
    every number of plain entries and EVERY interleaving of the increments and the `done == target_count`
    tests of the `n` workers: once all callbacks have returned, `outer.set_result` has succeeded exactly
    once and `done = target_count`. (`n = 0`: `gather_futures` returns the list itself, no Future.) -/
theorem gather_atomic_sets_outer (plain n : Nat) (hn : 0 < n) (sched : List Nat)
    (hfin : (arun (St.init plain n) sched).allFinished = true) :
    (arun (St.init plain n) sched).outerSet = true ∧ (arun (St.init plain n) sched).sets = 1
      ∧ (arun (St.init plain n) sched).done = (arun (St.init plain n) sched).target := by
  have h := ainv_arun sched _ (ainv_init plain n hn)
  generalize arun (St.init plain n) sched = s at h hfin
  obtain ⟨hz, hns⟩ := countStart_zero_of_all_finished s.pcs (by simpa [St.allFinished] using hfin)
  have hc := h.count
  have hsets : s.sets ≠ 0 := by
    rcases h.progress with hp | hp | hp
    · exact hp
    · exact absurd hp hns
    · omega
  have := h.once
  refine ⟨by simp [St.outerSet, hsets], by omega, by omega⟩

/-- non-vacuity: three workers, increments and tests interleaved (both orders mixed) -/
example : (arun (St.init 1 3) [2, 0, 2, 1, 0, 1]).allFinished = true := by decide

/-- the atomic machine on the very interleaving that loses an update above (each worker's LOAD/STORE pair
    collapses into its first step; the extra indices are no-ops or tests) sets the aggregate -/
example : (arun (St.init 0 2) [0, 1, 0, 1, 0, 1]).outerSet = true := by decide

/-! ### non-atomic steps under a lock -/

def countLoaded : List PC → Nat
  | [] => 0
  | p :: r => p.isLoaded.toNat + countLoaded r

private theorem countLoaded_set (l : List PC) (i : Nat) (x y : PC) (h : l[i]? = some y) :
    countLoaded (l.set i x) + y.isLoaded.toNat = countLoaded l + x.isLoaded.toNat := by
  induction l generalizing i with
  | nil => simp at h
  | cons a r ih =>
    cases i with
    | zero => simp at h; subst h; simp [countLoaded, List.set]; omega
    | succ j =>
      simp at h
      have := ih j h
      simp [countLoaded, List.set]; omega

private theorem countLoaded_zero_of_unlocked (l : List PC) (h : l.any PC.isLoaded = false) : countLoaded l = 0 := by
  induction l with
  | nil => rfl
  | cons a r ih =>
    simp at h
    simp [countLoaded, h.1, ih (by simpa using h.2)]

private theorem no_loaded_of_count_zero (l : List PC) (h : countLoaded l = 0) : ∀ t, PC.loaded t ∉ l := by
  induction l with
  | nil => simp
  | cons a r ih =>
    intro t hm
    simp [countLoaded] at h
    rcases List.mem_cons.mp hm with hm | hm
    · subst hm; simp [PC.isLoaded] at h
    · exact ih h.2 t hm

private theorem mem_set_of_ne (l : List PC) (i : Nat) (a x y : PC) (ha : a ∈ l) (h : l[i]? = some y) (hne : a ≠ y) :
    a ∈ l.set i x := by
  induction l generalizing i with
  | nil => simp at ha
  | cons b r ih =>
    cases i with
    | zero =>
      simp at h; subst h
      rcases List.mem_cons.mp ha with ha | ha
      · exact absurd ha hne
      · simp [List.set, ha]
    | succ j =>
      simp at h
      rcases List.mem_cons.mp ha with ha | ha
      · simp [List.set, ha]
      · simp [List.set]; right; exact ih j ha h

private theorem counts_zero_of_all_finished (l : List PC) (h : l.all (· == .finished) = true) : countLoaded l = 0 := by
  induction l with
  | nil => rfl
  | cons a r ih =>
    simp at h
    obtain ⟨ha, hr⟩ := h
    subst ha
    simp [countLoaded, PC.isLoaded, ih (by simpa using hr)]

/-- invariant of the locked machine -/
structure LInv (s : St) : Prop where
  count : s.done + countStart s.pcs + countLoaded s.pcs = s.target
  val : ∀ t, PC.loaded t ∈ s.pcs → t = s.done
  one : countLoaded s.pcs ≤ 1
  progress : s.sets ≠ 0 ∨ PC.stored ∈ s.pcs ∨ s.done < s.target
  once : s.sets ≤ 1

private theorem linv_init (plain n : Nat) (hn : 0 < n) : LInv (St.init plain n) := by
  have hc : ∀ n, countStart (List.replicate n PC.start) = n := by
    intro n; induction n with
    | zero => rfl
    | succ k ih => simp [List.replicate, countStart, ih]
  have hl : ∀ n, countLoaded (List.replicate n PC.start) = 0 := by
    intro n; induction n with
    | zero => rfl
    | succ k ih => simp [List.replicate, countLoaded, PC.isLoaded, ih]
  refine ⟨?_, ?_, ?_, ?_, ?_⟩
  · simp [St.init, hc, hl]
  · intro t h; simp [St.init, List.mem_replicate] at h
  · simp [St.init, hl]
  · right; right; simp [St.init]; omega
  · simp [St.init]

private theorem linv_lstep (s : St) (i : Nat) (h : LInv s) : LInv (lstep s i) := by
  unfold lstep
  cases hp : s.pcs[i]? with
  | none => simpa [step, hp] using h
  | some pc =>
    have hlt : i < s.pcs.length := by
      rcases Nat.lt_or_ge i s.pcs.length with hl | hl
      · exact hl
      · simp [List.getElem?_eq_none hl] at hp
    have hmem : pc ∈ s.pcs := List.mem_of_getElem? hp
    cases pc with
    | start =>
      simp only
      by_cases hlk : s.locked = true
      · simpa [hlk] using h
      · have hlk' : s.locked = false := by simpa using hlk
        simp only [hlk', Bool.false_eq_true, if_false, step, hp]
        have hz := countLoaded_zero_of_unlocked s.pcs (by simpa [St.locked] using hlk')
        have hcs := countStart_set_start s.pcs i (.loaded s.done) (by simp) hp
        have hcl := countLoaded_set s.pcs i (.loaded s.done) .start hp
        simp [PC.isLoaded] at hcl
        refine ⟨?_, ?_, ?_, ?_, ?_⟩
        · simp; have := h.count; omega
        · intro t hm
          simp at hm
          rcases List.mem_or_eq_of_mem_set hm with hm | hm
          · exact h.val t hm
          · cases hm; rfl
        · simp; omega
        · rcases h.progress with hq | hq | hq
          · exact .inl hq
          · right; left; simpa using mem_set_of_ne s.pcs i .stored (.loaded s.done) .start hq hp (by simp)
          · exact .inr (.inr hq)
        · simpa using h.once
    | loaded t =>
      have ht : t = s.done := h.val t hmem
      subst ht
      simp only [step, hp]
      have hcs := countStart_set_other s.pcs i .stored (.loaded s.done) (by simp) (by simp) hp
      have hcl := countLoaded_set s.pcs i .stored (.loaded s.done) hp
      simp [PC.isLoaded] at hcl
      have hone := h.one
      have hz : countLoaded (s.pcs.set i .stored) = 0 := by omega
      refine ⟨?_, ?_, ?_, ?_, ?_⟩
      · simp [hcs, hz]; have := h.count; omega
      · intro t hm; exact absurd hm (no_loaded_of_count_zero _ hz t)
      · simp [hz]
      · right; left; simpa using mem_set_self s.pcs i .stored hlt
      · simpa using h.once
    | stored =>
      simp only [step, hp]
      obtain ⟨hd, ht, hpc, hmono, honce, hset⟩ := test_fields s
      have hcs := countStart_set_other s.pcs i .finished .stored (by simp) (by simp) hp
      have hcl := countLoaded_set s.pcs i .finished .stored hp
      simp [PC.isLoaded] at hcl
      refine ⟨?_, ?_, ?_, ?_, ?_⟩
      · simp [hd, ht, hpc, hcs, hcl]; exact h.count
      · intro t hm
        simp [hpc] at hm
        rcases List.mem_or_eq_of_mem_set hm with hm | hm
        · simpa [hd] using h.val t hm
        · cases hm
      · simp [hpc, hcl]; exact h.one
      · simp only [hd, ht]
        by_cases hdt : s.done = s.target
        · left; exact hset hdt
        · right; right; have := h.count; omega
      · simpa using honce h.once
    | finished => simpa [step, hp] using h

private theorem linv_lrun (sched : List Nat) (s : St) (h : LInv s) : LInv (lrun s sched) := by
  induction sched generalizing s with
  | nil => simpa [lrun] using h
  | cons i rest ih => simp only [lrun]; exact ih _ (linv_lstep s i h)

/-- **gather_locked_sets_outer.** The NON-atomic micro-steps (LOAD, STORE, TEST) of `n > 0` workers under a lock
    held from LOAD to STORE, EVERY interleaving (including workers that spin on the taken lock): once all callbacks
    have returned no update was lost (`done = target_count`) and `outer.set_result` has succeeded exactly once —
    the lost-update trace of `gather_nonatomic_lost_update` cannot happen. -/
theorem gather_locked_sets_outer (plain n : Nat) (hn : 0 < n) (sched : List Nat)
    (hfin : (lrun (St.init plain n) sched).allFinished = true) :
    (lrun (St.init plain n) sched).outerSet = true ∧ (lrun (St.init plain n) sched).sets = 1
      ∧ (lrun (St.init plain n) sched).done = (lrun (St.init plain n) sched).target := by
  have h := linv_lrun sched _ (linv_init plain n hn)
  generalize lrun (St.init plain n) sched = s at h hfin
  have hall : s.pcs.all (· == .finished) = true := by simpa [St.allFinished] using hfin
  obtain ⟨hz, hns⟩ := countStart_zero_of_all_finished s.pcs hall
  have hl := counts_zero_of_all_finished s.pcs hall
  have hc := h.count
  have hsets : s.sets ≠ 0 := by
    rcases h.progress with hp | hp | hp
    · exact hp
    · exact absurd hp hns
    · omega
  have := h.once
  refine ⟨by simp [St.outerSet, hsets], by omega, by omega⟩

/-- non-vacuity: the very schedule that loses an update without the lock — worker 1's LOAD finds the lock taken
    and is retried later — runs both callbacks to the end -/
example : (lrun (St.init 0 2) [0, 1, 0, 1, 0, 1, 1, 1]).allFinished = true
    ∧ (lrun (St.init 0 2) [0, 1, 0, 1, 0, 1, 1, 1]).done = 2 := by decide

end PyGql.Props.C08

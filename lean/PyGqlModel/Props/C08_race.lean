/-
  C08 — finding E2 as a THEOREM PAIR (was: prose residual "callback bodies racing on two workers").

  * `gather_nonatomic_lost_update` / `gather_terminates_nonatomic_refuted`: with the read-modify-write of
    `done += 1` split into LOAD and STORE on two workers there is an interleaving after which BOTH
    `on_finish` callbacks have returned, `done = 1 < target_count = 2`, and the aggregate Future was never
    set — `gather_futures` never completes although every resolver completed.
  * `gather_atomic_sets_outer`: with an ATOMIC increment (LOAD+STORE one step; the TEST still separate and
    interleaved arbitrarily) — for EVERY number of workers and EVERY schedule — once all callbacks have
    returned the aggregate has been set, exactly once.
-/
import PyGqlModel.RuntimeRace

set_option linter.unusedVariables false
set_option linter.unusedSimpArgs false

namespace PyGql.Props.C08
open PyGql.AsyncExec.Race

/-- "execution always completes once all resolvers have completed", at the level of `gather_futures`'
    callbacks running concurrently with NON-atomic `done += 1`. -/
def GatherTerminatesNonAtomic : Prop :=
  ∀ (plain n : Nat) (sched : List Nat),
    (run (St.init plain n) sched).allFinished = true → (run (St.init plain n) sched).outerSet = true

/-- **gather_nonatomic_lost_update** (refutation witness). Two pending futures, workers 0 and 1:
    `LOAD₀ LOAD₁ STORE₀ STORE₁ TEST₀ TEST₁`. Both callbacks return, one increment is lost
    (`done = 1`, `target = 2`) and `outer.set_result` was never called. -/
theorem gather_nonatomic_lost_update :
    let s := run (St.init 0 2) [0, 1, 0, 1, 0, 1]
    s.allFinished = true ∧ s.done = 1 ∧ s.target = 2 ∧ s.sets = 0 ∧ s.outerSet = false := by
  decide

/-- the same with a plain (non-future) entry in the source list and three workers: two updates lost -/
theorem gather_nonatomic_lost_update_3 :
    let s := run (St.init 1 3) [0, 1, 2, 0, 1, 2, 0, 1, 2]
    s.allFinished = true ∧ s.done = 2 ∧ s.target = 4 ∧ s.outerSet = false := by
  decide

/-- **gather_terminates_nonatomic_refuted.** `gather_terminates` is FALSE once callback bodies interleave
    between the LOAD and the STORE of `done += 1`. -/
theorem gather_terminates_nonatomic_refuted : ¬ GatherTerminatesNonAtomic := by
  intro h
  have := h 0 2 [0, 1, 0, 1, 0, 1] (by decide)
  exact absurd this (by decide)

/-- the sequential interleaving (what the atomic model of `Runtime.lean` describes) does set the aggregate:
    the refutation is about the interleaving, not about the machine -/
example : (run (St.init 0 2) [0, 0, 0, 1, 1, 1]).outerSet = true ∧ (run (St.init 0 2) [0, 0, 0, 1, 1, 1]).sets = 1 := by
  decide

/-! ### atomic increment -/

def countStart : List PC → Nat
  | [] => 0
  | .start :: r => countStart r + 1
  | _ :: r => countStart r

private theorem countStart_set_start (l : List PC) (i : Nat) (x : PC) (hx : x ≠ .start) (h : l[i]? = some .start) :
    countStart (l.set i x) + 1 = countStart l := by
  induction l generalizing i with
  | nil => simp at h
  | cons a r ih =>
    cases i with
    | zero =>
      simp at h; subst h
      cases x <;> simp_all [countStart, List.set]
    | succ j =>
      simp at h
      have := ih j h
      cases a <;> simp [countStart, List.set] <;> omega

private theorem countStart_set_other (l : List PC) (i : Nat) (x y : PC) (hx : x ≠ .start) (hy : y ≠ .start)
    (h : l[i]? = some y) : countStart (l.set i x) = countStart l := by
  induction l generalizing i with
  | nil => simp at h
  | cons a r ih =>
    cases i with
    | zero =>
      simp at h; subst h
      cases x <;> cases a <;> simp_all [countStart, List.set]
    | succ j =>
      simp at h
      have := ih j h
      cases a <;> simp [countStart, List.set] <;> omega

private theorem mem_set_self (l : List PC) (i : Nat) (x : PC) (h : i < l.length) : x ∈ l.set i x := by
  induction l generalizing i with
  | nil => simp at h
  | cons a r ih =>
    cases i with
    | zero => simp [List.set]
    | succ j => simp [List.set]; right; exact ih j (by simpa using h)

private theorem countStart_zero_of_all_finished (l : List PC) (h : l.all (· == .finished) = true) :
    countStart l = 0 ∧ PC.stored ∉ l := by
  induction l with
  | nil => simp [countStart]
  | cons a r ih =>
    simp at h
    obtain ⟨ha, hr⟩ := h
    subst ha
    have := ih (by simpa using hr)
    simp [countStart, this]

/-- invariant of the atomic machine: (1) `done` counts exactly the workers that have incremented;
    (2) no worker is between LOAD and STORE; (3) the aggregate is set, or some worker still has to run its
    TEST, or not everybody has incremented yet; (4) the aggregate is set at most once. -/
structure AInv (s : St) : Prop where
  count : s.done + countStart s.pcs = s.target
  noLoaded : ∀ t, PC.loaded t ∉ s.pcs
  progress : s.sets ≠ 0 ∨ PC.stored ∈ s.pcs ∨ s.done < s.target
  once : s.sets ≤ 1

private theorem ainv_init (plain n : Nat) (hn : 0 < n) : AInv (St.init plain n) := by
  have hc : ∀ n, countStart (List.replicate n PC.start) = n := by
    intro n; induction n with
    | zero => rfl
    | succ k ih => simp [List.replicate, countStart, ih]
  refine ⟨?_, ?_, ?_, ?_⟩
  · simp [St.init, hc]
  · intro t h; simp [St.init, List.mem_replicate] at h
  · right; right; simp [St.init]; omega
  · simp [St.init]

private theorem test_fields (s : St) :
    s.test.done = s.done ∧ s.test.target = s.target ∧ s.test.pcs = s.pcs ∧ s.sets ≤ s.test.sets
      ∧ (s.sets ≤ 1 → s.test.sets ≤ 1) ∧ (s.done = s.target → s.test.sets ≠ 0) := by
  unfold St.test
  by_cases h1 : s.done = s.target <;> by_cases h2 : s.sets = 0 <;> simp [h1, h2] <;> omega

private theorem ainv_astep (s : St) (i : Nat) (h : AInv s) : AInv (astep s i) := by
  unfold astep
  cases hp : s.pcs[i]? with
  | none => simpa using h
  | some pc =>
    have hlt : i < s.pcs.length := by
      rcases Nat.lt_or_ge i s.pcs.length with hl | hl
      · exact hl
      · simp [List.getElem?_eq_none hl] at hp
    have hmem : pc ∈ s.pcs := List.mem_of_getElem? hp
    cases pc with
    | start =>
      have hc := countStart_set_start s.pcs i .stored (by simp) hp
      refine ⟨?_, ?_, ?_, ?_⟩
      · simp; have := h.count; omega
      · intro t hm
        simp at hm
        rcases List.mem_or_eq_of_mem_set hm with hm | hm
        · exact h.noLoaded t hm
        · cases hm
      · right; left; simpa using mem_set_self s.pcs i .stored hlt
      · simpa using h.once
    | loaded t => exact absurd hmem (h.noLoaded t)
    | stored =>
      obtain ⟨hd, ht, hpc, hmono, honce, hset⟩ := test_fields s
      have hc := countStart_set_other s.pcs i .finished .stored (by simp) (by simp) hp
      refine ⟨?_, ?_, ?_, ?_⟩
      · simp [hd, ht, hpc, hc]; exact h.count
      · intro t hm
        simp [hpc] at hm
        rcases List.mem_or_eq_of_mem_set hm with hm | hm
        · exact h.noLoaded t hm
        · cases hm
      · simp only [hd, ht]
        by_cases hdt : s.done = s.target
        · left; exact hset hdt
        · right; right; have := h.count; omega
      · simpa using honce h.once
    | finished => simpa [hp] using h

private theorem ainv_arun (sched : List Nat) (s : St) (h : AInv s) : AInv (arun s sched) := by
  induction sched generalizing s with
  | nil => simpa [arun] using h
  | cons i rest ih => simp only [arun]; exact ih _ (ainv_astep s i h)

/-- **gather_atomic_sets_outer.** With an ATOMIC `done += 1` (LOAD and STORE one indivisible step — a lock
    around the statement, or the whole callback serialised), for every number `n > 0` of pending futures,
    every number of plain entries and EVERY interleaving of the increments and the `done == target_count`
    tests of the `n` workers: once all callbacks have returned, `outer.set_result` has succeeded exactly
    once and `done = target_count`. (`n = 0`: `gather_futures` returns the list itself, no Future.) -/
theorem gather_atomic_sets_outer (plain n : Nat) (hn : 0 < n) (sched : List Nat)
    (hfin : (arun (St.init plain n) sched).allFinished = true) :
    (arun (St.init plain n) sched).outerSet = true ∧ (arun (St.init plain n) sched).sets = 1
      ∧ (arun (St.init plain n) sched).done = (arun (St.init plain n) sched).target := by
  have h := ainv_arun sched _ (ainv_init plain n hn)
  generalize arun (St.init plain n) sched = s at h hfin
  obtain ⟨hz, hns⟩ := countStart_zero_of_all_finished s.pcs (by simpa [St.allFinished] using hfin)
  have hc := h.count
  have hsets : s.sets ≠ 0 := by
    rcases h.progress with hp | hp | hp
    · exact hp
    · exact absurd hp hns
    · omega
  have := h.once
  refine ⟨by simp [St.outerSet, hsets], by omega, by omega⟩

/-- non-vacuity: three workers, increments and tests interleaved (both orders mixed) -/
example : (arun (St.init 1 3) [2, 0, 2, 1, 0, 1]).allFinished = true := by decide

/-- the atomic machine on the very interleaving that loses an update above (each worker's LOAD/STORE pair
    collapses into its first step; the extra indices are no-ops or tests) sets the aggregate -/
example : (arun (St.init 0 2) [0, 1, 0, 1, 0, 1]).outerSet = true := by decide

end PyGql.Props.C08

/-
  C06 - property theorems, part 13: `OverlappingFieldsCanBeMergedChecker` (5.3.2), the SOUNDNESS half
  (a silent run implies the clause), step 1: documents WITHOUT FRAGMENT SPREADS (inline fragments allowed).
  Side conditions: validation does not raise (`NoCrash`: no `RecursionError` = the model's fuel, no
  `AttributeError`), and the three routes along which the code computes the parent type of a selection set agree
  (`Spec.ParentsAgree`; the code caches the first one). Together with `Props/C06_overlap.lean` this gives the full
  equivalence on such documents. Open: documents with fragment spreads (the compared-pairs memo and the
  compared-fragments set), see `OverlapFullStatement`.
-/
import PyGqlModel.Props.C06_overlap
import PyGqlModel.Lemmas.ValidateOverlapSoundWalk
namespace PyGql.Props.C06
open PyGql PyGql.Validate PyGql.Validate.Spec

/-- **5.3.2 soundness, spread-free documents (PARTIAL)**: if the rule, run alone, reports nothing and validation does
    not raise, then no selection set of the document contains two conflicting fields -/
theorem rule_overlapping_fields_sound_spreadfree_partial (s : SchemaD) (fx : Fixes) (h7 : fx.v7 = true) (d : Doc)
    (hns : Spec.NoSpreads d) (hpa : Spec.ParentsAgree s d) (hnc : NoCrash s fx d) :
    Silent s fx .overlappingFieldsCanBeMerged d → Spec.overlappingFieldsCanBeMerged s d := by
  intro hs
  exact ov_document_sound_sf s fx d h7 hns hpa hs hnc

/-- **5.3.2 on spread-free documents: the full equivalence** (`OverlapFullStatement` restricted to `NoSpreads`) -/
theorem rule_overlapping_fields_iff_spreadfree_partial (s : SchemaD) (fx : Fixes) (h7 : fx.v7 = true) (d : Doc)
    (hns : Spec.NoSpreads d) (hpa : Spec.ParentsAgree s d) (hnc : NoCrash s fx d) :
    Silent s fx .overlappingFieldsCanBeMerged d ↔ Spec.overlappingFieldsCanBeMerged s d :=
  ⟨rule_overlapping_fields_sound_spreadfree_partial s fx h7 d hns hpa hnc,
   rule_overlapping_fields_can_be_merged_no_false_alarm_partial s fx h7 d⟩

/-! ### non-vacuity -/

/-- `type Query { a: Int  b: String }`, query root `Query` -/
def oSchema : SchemaD :=
  { types := [
      { kind := .scalar, name := "Int" }, { kind := .scalar, name := "String" },
      { kind := .object, name := "Query", fields := [{ name := "a", type := .named "Int" }, { name := "b", type := .named "String" }] }],
    query := some "Query",
    directives := [] }

/-- `{ a  y: a }` -/
def oDocOk : Doc := ⟨[opV [] 1 [fld none "a", fld (some "y") "a"]]⟩
/-- `{ x: a  x: b }` -/
def oDocBad : Doc := ⟨[opV [] 1 [fld (some "x") "a", fld (some "x") "b"]]⟩

private theorem noSpreads_two (f1 f2 : Sel) (h1 : ∃ al n, f1 = fld al n) (h2 : ∃ al n, f2 = fld al n) :
    Spec.NoSpreads ⟨[opV [] 1 [f1, f2]]⟩ := by
  obtain ⟨al1, n1, rfl⟩ := h1
  obtain ⟨al2, n2, rfl⟩ := h2
  intro n hn name dirs e
  subst e
  simp [nodes, opV, fld, defNodes, selsNodes, selNodes, argsNodes, dirsNodes] at hn

theorem parentsAgree_twoFields (f1 f2 : Sel) (h1 : ∃ al n, f1 = fld al n) (h2 : ∃ al n, f2 = fld al n) :
    Spec.ParentsAgree oSchema ⟨[opV [] 1 [f1, f2]]⟩ := by
  obtain ⟨al1, n1, rfl⟩ := h1
  obtain ⟨al2, n2, rfl⟩ := h2
  have key : ∀ i p, Adm oSchema ⟨[opV [] 1 [fld al1 n1, fld al2 n2]]⟩ i p → p = some "Query" := by
    intro i p h
    induction h with
    | walk hm =>
      simp only [typedNodes, opV, fld, tnDef, tnSels, tnSel, tnDirs, withView, argsNodes, List.flatMap_cons,
        List.flatMap_nil, List.map_nil, List.append_nil, List.nil_append, Bool.false_eq_true, ↓reduceIte, List.mem_cons,
        Prod.mk.injEq, reduceCtorEq, false_and, false_or, List.not_mem_nil, or_false, List.mem_append] at hm
      obtain ⟨_, rfl⟩ := hm
      show compositeBase oSchema ((rootType oSchema "query").map Ty.named) = some "Query"
      decide
    | frag hg => simp [fragTable, fragDefs, opV, AL.get?_nil] at hg
    | @sub i0 sels0 p0 rn0 e0 _ hs hc hsub _ =>
      have hsels : sels0 = [fld al1 n1, fld al2 n2] := by
        simp [SelSet, nodes, opV, fld, defNodes, selsNodes, selNodes, argsNodes, dirsNodes] at hs
        exact hs.2
      subst hsels
      cases hc with
      | field hm =>
        simp only [fld, List.mem_cons, Sel.field.injEq, List.not_mem_nil, or_false] at hm
        rcases hm with ⟨_, _, _, _, rfl, _⟩ | ⟨_, _, _, _, rfl, _⟩ <;> simp at hsub
      | inline hm _ => simp [fld] at hm
  intro i p q hp hq
  rw [key i p hp, key i q hq]

/-- `{ a  y: a }`: the hypotheses hold, the rule is silent, and so the clause holds -/
example : Spec.overlappingFieldsCanBeMerged oSchema oDocOk :=
  rule_overlapping_fields_sound_spreadfree_partial oSchema Fixes.all rfl oDocOk
    (noSpreads_two _ _ ⟨_, _, rfl⟩ ⟨_, _, rfl⟩) (parentsAgree_twoFields _ _ ⟨_, _, rfl⟩ ⟨_, _, rfl⟩)
    (by unfold NoCrash; decide +kernel) (by unfold Silent; decide +kernel)

/-- `{ x: a  x: b }`: the hypotheses hold, the rule reports, and the clause fails -/
example : ¬ Spec.overlappingFieldsCanBeMerged oSchema oDocBad := fun h =>
  absurd ((rule_overlapping_fields_iff_spreadfree_partial oSchema Fixes.all rfl oDocBad
    (noSpreads_two _ _ ⟨_, _, rfl⟩ ⟨_, _, rfl⟩) (parentsAgree_twoFields _ _ ⟨_, _, rfl⟩ ⟨_, _, rfl⟩)
    (by unfold NoCrash; decide +kernel)).mpr h) (by unfold Silent; decide +kernel)

end PyGql.Props.C06

/-
  C10 — property theorems, part 4: the sites of `null_error_bijection` are pairwise distinct, each is
  null in `data`, hence every site is matched by EXACTLY ONE error and every error by a site.
-/
import PyGqlModel.Response
import PyGqlModel.Spec.NullSites
import PyGqlModel.Props.C10_bijection
import PyGqlModel.Lemmas.ExecCapture

namespace PyGql.Props.C10
open PyGql PyGql.Response PyGql.Spec.NullSites PyGql.Lemmas.ExecCapture

/-! #### shape of the relative paths -/

mutual
private theorem list_shape (it : Ty) : ∀ (i : Nat) (items : OutList) (p : Path), p ∈ sitesList it i items →
    ∃ j q, i ≤ j ∧ p = Seg.idx j :: q
  | i, .nil, p, h => by simp [sitesList] at h
  | i, .cons o rest, p, h => by
    rw [sitesList, List.mem_append] at h
    rcases h with h | h
    · simp only [List.mem_map] at h
      obtain ⟨q, _, rfl⟩ := h
      exact ⟨i, q, Nat.le_refl _, rfl⟩
    · obtain ⟨j, q, hj, rfl⟩ := list_shape it (i + 1) rest p h
      exact ⟨j, q, by omega, rfl⟩
end

mutual
private theorem fields_shape : ∀ (fs : FldList) (p : Path), p ∈ sitesFields fs →
    ∃ k q, k ∈ keysOf fs ∧ p = Seg.key k :: q
  | .nil, p, h => by simp [sitesFields] at h
  | .cons key ty nodes o rest, p, h => by
    rw [sitesFields, List.mem_append] at h
    rcases h with h | h
    · simp only [List.mem_map] at h
      obtain ⟨q, _, rfl⟩ := h
      exact ⟨key, q, by simp [keysOf], rfl⟩
    · obtain ⟨k, q, hk, rfl⟩ := fields_shape rest p h
      exact ⟨k, q, by simp [keysOf, hk], rfl⟩
end

private theorem inner_ne_nil (t : Ty) (o : Out) (p : Path) (h : p ∈ sitesInner t o) : p ≠ [] := by
  cases o with
  | null => simp [sitesInner] at h
  | leaf v => simp [sitesInner] at h
  | raised m e => simp [sitesInner] at h
  | list items =>
    cases t with
    | list it =>
      simp only [sitesInner] at h
      obtain ⟨j, q, _, rfl⟩ := list_shape it 0 items p h
      simp
    | named n => simp [sitesInner] at h
    | nonNull u => simp [sitesInner] at h
  | obj fields =>
    simp only [sitesInner] at h
    obtain ⟨k, q, _, rfl⟩ := fields_shape fields p h
    simp

/-! #### Nodup -/

private theorem nodup_with_self (l : List Path) (c : Bool) (hl : l.Nodup) (hne : ∀ p ∈ l, p ≠ []) :
    (l ++ (if c then [[]] else [])).Nodup := by
  cases c with
  | false => simpa using hl
  | true =>
    simp only [if_true]
    rw [List.nodup_append]
    refine ⟨hl, by simp, ?_⟩
    intro a ha b hb
    simp only [List.mem_singleton] at hb
    subst hb
    exact hne a ha

private theorem nodup_map_cons (s : Seg) (l : List Path) (hl : l.Nodup) : (l.map (s :: ·)).Nodup := by
  unfold List.Nodup at *
  rw [List.pairwise_map]
  exact hl.imp (fun h hc => h (by simpa using hc))

mutual
private theorem nodup_inner (t : Ty) : ∀ (o : Out), keysDistinct o = true → (sitesInner t o).Nodup
  | .null, _ => by simp [sitesInner]
  | .leaf _, _ => by simp [sitesInner]
  | .raised _ _, _ => by simp [sitesInner]
  | .list items, h => by
    cases t with
    | list it =>
      simp only [sitesInner]
      exact nodup_list it 0 items (by simpa [keysDistinct] using h)
    | named n => simp [sitesInner]
    | nonNull u => simp [sitesInner]
  | .obj fields, h => by
    simp only [sitesInner]
    simp only [keysDistinct, Bool.and_eq_true, decide_eq_true_eq] at h
    exact nodup_fields fields h.1 h.2

private theorem nodup_list (it : Ty) : ∀ (i : Nat) (items : OutList), keysDistinctList items = true →
    (sitesList it i items).Nodup
  | i, .nil, _ => by simp [sitesList]
  | i, .cons o rest, h => by
    simp only [keysDistinctList, Bool.and_eq_true] at h
    rw [sitesList, List.nodup_append]
    refine ⟨nodup_map_cons _ _ (nodup_with_self _ _ (nodup_inner (innerTy it) o h.1) (inner_ne_nil _ _)),
      nodup_list it (i + 1) rest h.2, ?_⟩
    intro a ha b hb
    simp only [List.mem_map] at ha
    obtain ⟨q, _, rfl⟩ := ha
    obtain ⟨j, q', hj, rfl⟩ := list_shape it (i + 1) rest b hb
    intro hc
    simp at hc
    omega

private theorem nodup_fields : ∀ (fs : FldList), (keysOf fs).Nodup → keysDistinctFields fs = true →
    (sitesFields fs).Nodup
  | .nil, _, _ => by simp [sitesFields]
  | .cons key ty nodes o rest, hk, h => by
    simp only [keysDistinctFields, Bool.and_eq_true] at h
    simp only [keysOf, List.nodup_cons] at hk
    rw [sitesFields, List.nodup_append]
    refine ⟨nodup_map_cons _ _ (nodup_with_self _ _ (nodup_inner (innerTy ty) o h.1) (inner_ne_nil _ _)),
      nodup_fields rest hk.2 h.2, ?_⟩
    intro a ha b hb
    simp only [List.mem_map] at ha
    obtain ⟨q, _, rfl⟩ := ha
    obtain ⟨k, q', hk', rfl⟩ := fields_shape rest b hb
    intro hc
    simp at hc
    exact hk.1 (hc.1 ▸ hk')
end

/-- the executed root selection has pairwise distinct response keys at every level (the executor
    groups fields by response key; observed by the correspondence on every tree) -/
def RootKeysDistinct (root : FldList) : Prop := (keysOf root).Nodup ∧ keysDistinctFields root = true

/-- **sites are pairwise distinct** -/
theorem null_sites_nodup (root : FldList) (h : RootKeysDistinct root) : (sitesFields root).Nodup :=
  nodup_fields root h.1 h.2

/-! #### every site is null in `data` -/

private theorem dataAt_nil (v : J) : dataAt v [] = some v := by
  cases v <;> simp [dataAt]

/-- the flagged position itself: value null -/
private theorem self_null {b : Bool} {t : Ty} {nodes : List Nat} {p : Path} {o : Out} {v : J} {es : List Err}
    (hi : completeInner b t nodes p o = some (v, es)) (c : (o.isRaised || completesNull o) = true) : v = .null := by
  apply isNull_eq
  rw [inner_null_iff hi]
  cases o <;> simp_all [Out.isRaised, completesNull]

mutual
private theorem data_inner (b : Bool) (t : Ty) (nodes : List Nat) (path : Path) :
    ∀ (o : Out) (v : J) (es : List Err), completeInner b t nodes path o = some (v, es) → keysDistinct o = true →
      ∀ p ∈ sitesInner t o, dataAt v p = some .null
  | .null, v, es, h, _ => by simp [sitesInner]
  | .raised _ _, v, es, h, _ => by simp [sitesInner]
  | .leaf x, v, es, h, _ => by simp [sitesInner]
  | .list items, v, es, h, hk => by
    cases t with
    | list it =>
      simp [completeInner] at h
      obtain ⟨vs, h1, rfl⟩ := h
      intro p hp
      simp only [sitesInner] at hp
      obtain ⟨k, q, x, rfl, hx, hq⟩ := data_list it nodes path 0 items vs es h1 (by simpa [keysDistinct] using hk) p hp
      simp only [Nat.zero_add] at *
      simp [dataAt, hx, hq]
    | named n => simp [completeInner] at h
    | nonNull u => simp [completeInner] at h
  | .obj fields, v, es, h, hk => by
    cases t with
    | named n =>
      simp [completeInner] at h
      obtain ⟨kvs, h1, rfl⟩ := h
      intro p hp
      simp only [sitesInner] at hp
      simp only [keysDistinct, Bool.and_eq_true, decide_eq_true_eq] at hk
      obtain ⟨k, q, x, rfl, _, hx, hq⟩ := data_fields path fields kvs es h1 hk.1 hk.2 p hp
      simp [dataAt, hx, hq]
    | list it => simp [completeInner] at h
    | nonNull u => simp [completeInner] at h

private theorem data_list (it : Ty) (nodes : List Nat) (path : Path) :
    ∀ (i : Nat) (items : OutList) (vs : List J) (es : List Err), completeList it nodes path i items = some (vs, es) →
      keysDistinctList items = true →
      ∀ p ∈ sitesList it i items, ∃ k q x, p = Seg.idx (i + k) :: q ∧ vs[k]? = some x ∧ dataAt x q = some .null
  | i, .nil, vs, es, h, _ => by simp [sitesList]
  | i, .cons o rest, vs, es, h, hk => by
    rw [completeList] at h
    split at h
    · simp at h
    · rename_i v e1 hw
      split at h
      · simp at h
      · rename_i vs' e2 hr
        simp only [Option.some.injEq, Prod.mk.injEq] at h
        obtain ⟨rfl, _⟩ := h
        obtain ⟨es0, hi, _⟩ := wrap_inv hw
        simp only [keysDistinctList, Bool.and_eq_true] at hk
        intro p hp
        rw [sitesList, List.mem_append] at hp
        rcases hp with hp | hp
        · simp only [List.mem_map, List.mem_append] at hp
          obtain ⟨q, hq, rfl⟩ := hp
          refine ⟨0, q, v, by simp, by simp, ?_⟩
          rcases hq with hq | hq
          · exact data_inner false (innerTy it) nodes _ o v es0 hi hk.1 q hq
          · by_cases c : (it.isNonNull && completesNull o) = true
            · simp [c] at hq; subst hq
              rw [dataAt_nil]
              have : v = .null := self_null hi (by simp at c; simp [c.2])
              rw [this]
            · simp [c] at hq
        · obtain ⟨k, q, x, rfl, hx, hq⟩ := data_list it nodes path (i + 1) rest vs' e2 hr hk.2 p hp
          exact ⟨k + 1, q, x, by simp; omega, by simpa using hx, hq⟩

private theorem data_fields (path : Path) :
    ∀ (fs : FldList) (kvs : List (String × J)) (es : List Err), executeFields path fs = some (kvs, es) →
      (keysOf fs).Nodup → keysDistinctFields fs = true →
      ∀ p ∈ sitesFields fs, ∃ k q x, p = Seg.key k :: q ∧ k ∈ keysOf fs ∧
        kvs.find? (·.1 == k) = some (k, x) ∧ dataAt x q = some .null
  | .nil, kvs, es, h, _, _ => by simp [sitesFields]
  | .cons key ty nodes o rest, kvs, es, h, hn, hk => by
    rw [executeFields] at h
    split at h
    · simp at h
    · rename_i v e1 hw
      split at h
      · simp at h
      · rename_i kvs' e2 hr
        simp only [Option.some.injEq, Prod.mk.injEq] at h
        obtain ⟨rfl, _⟩ := h
        obtain ⟨es0, hi, _⟩ := wrap_inv hw
        simp only [keysDistinctFields, Bool.and_eq_true] at hk
        simp only [keysOf, List.nodup_cons] at hn
        intro p hp
        rw [sitesFields, List.mem_append] at hp
        rcases hp with hp | hp
        · simp only [List.mem_map, List.mem_append] at hp
          obtain ⟨q, hq, rfl⟩ := hp
          refine ⟨key, q, v, rfl, by simp [keysOf], by simp, ?_⟩
          rcases hq with hq | hq
          · exact data_inner true (innerTy ty) nodes _ o v es0 hi hk.1 q hq
          · by_cases c : (o.isRaised || ty.isNonNull && completesNull o) = true
            · simp only [c, if_true, List.mem_singleton] at hq; subst hq
              rw [dataAt_nil]
              have : v = .null := self_null hi (by
                simp only [Bool.or_eq_true, Bool.and_eq_true] at c ⊢
                rcases c with c | c
                · exact Or.inl c
                · exact Or.inr c.2)
              rw [this]
            · simp [c] at hq
        · obtain ⟨k, q, x, rfl, hmem, hx, hq⟩ := data_fields path rest kvs' e2 hr hn.2 hk.2 p hp
          refine ⟨k, q, x, rfl, by simp [keysOf, hmem], ?_, hq⟩
          have hne : (key == k) = false := by
            rw [beq_eq_false_iff_ne]
            intro hc
            exact hn.1 (hc ▸ hmem)
          simp [List.find?, hne, hx]
end

/-- **every site is a null in `data`** -/
theorem null_sites_are_null (root : FldList) (data : J) (errs : List Err)
    (h : execute root = some (data, errs)) (hk : RootKeysDistinct root) :
    ∀ p ∈ sitesFields root, dataAt data p = some .null := by
  unfold execute at h
  simp at h
  obtain ⟨kvs, h1, rfl⟩ := h
  intro p hp
  obtain ⟨k, q, x, rfl, _, hx, hq⟩ := data_fields [] root kvs errs h1 hk.1 hk.2 p hp
  simp [dataAt, hx, hq]

/-! #### exactly one -/

private theorem exactly_one_of_map {α β : Type} (f : α → Option β) :
    ∀ (s : List β) (l : List α), l.map f = s.map some → s.Nodup → ∀ p ∈ s,
      ∃ l1 e l2, l = l1 ++ e :: l2 ∧ f e = some p ∧ ∀ e' ∈ l1 ++ l2, f e' ≠ some p
  | [], l, _, _, p, hp => by simp at hp
  | a :: s', l, hm, hn, p, hp => by
    cases l with
    | nil => simp at hm
    | cons e l' =>
      simp only [List.map_cons, List.cons.injEq] at hm
      simp only [List.nodup_cons] at hn
      by_cases hpa : p = a
      · subst hpa
        refine ⟨[], e, l', rfl, hm.1, ?_⟩
        intro e' he' hc
        simp only [List.nil_append] at he'
        have : f e' ∈ l'.map f := List.mem_map_of_mem he'
        rw [hm.2, hc] at this
        simp only [List.mem_map, Option.some.injEq, exists_eq_right] at this
        exact hn.1 this
      · have hp' : p ∈ s' := by
          simp only [List.mem_cons] at hp
          rcases hp with hp | hp
          · exact absurd hp hpa
          · exact hp
        obtain ⟨l1, e0, l2, rfl, h1, h2⟩ := exactly_one_of_map f s' l' hm.2 hn.2 p hp'
        refine ⟨e :: l1, e0, l2, rfl, h1, ?_⟩
        intro e' he'
        simp only [List.cons_append, List.mem_cons] at he'
        rcases he' with rfl | he'
        · rw [hm.1]; intro hc; exact hpa (Option.some.inj hc).symm
        · exact h2 e' he'

/-- **null_error_bijection (exactly one).** In every completed execution with distinct response
    keys: (1) each site the statement names — a field whose resolver raised the resolver error (or
    whose arguments failed to coerce), a null at a non-null position — is a null in `data` and is
    matched by EXACTLY ONE error carrying its path; (2) every collected error carries the path of
    such a site. -/
theorem exactly_one_error_per_site (root : FldList) (data : J) (errs : List Err)
    (h : execute root = some (data, errs)) (hk : RootKeysDistinct root) :
    (∀ p ∈ sitesFields root, dataAt data p = some .null ∧
        ∃ l1 e l2, errs = l1 ++ e :: l2 ∧ e.path? = some p ∧ ∀ e' ∈ l1 ++ l2, e'.path? ≠ some p) ∧
    (∀ e ∈ errs, ∃ p ∈ sitesFields root, e.path? = some p) := by
  have hb := null_error_bijection root data errs h
  refine ⟨fun p hp => ⟨null_sites_are_null root data errs h hk p hp,
    exactly_one_of_map Err.path? _ errs hb (null_sites_nodup root hk) p hp⟩, ?_⟩
  intro e he
  have : e.path? ∈ errs.map Err.path? := List.mem_map_of_mem he
  rw [hb] at this
  simp only [List.mem_map] at this
  obtain ⟨p, hp, hpe⟩ := this
  exact ⟨p, hp, hpe.symm⟩

/-- non-vacuity: `{ os { w id } }` over two items, `w` failing for both (the shape of the seeded
    defect: one error per item, paths `os[0].w` and `os[1].w`, not twice the last one) -/
private def twoItems : FldList :=
  .cons "os" (.list (.nonNull (.named "Obj"))) [21]
    (.list (.cons (.obj (.cons "w" (.named "Int") [26] (.raised "x must not be null" none) (.cons "id" (.nonNull (.named "ID")) [35] (.leaf (.str "1")) .nil)))
           (.cons (.obj (.cons "w" (.named "Int") [26] (.raised "x must not be null" none) (.cons "id" (.nonNull (.named "ID")) [35] (.leaf (.str "2")) .nil))) .nil))) .nil

example : RootKeysDistinct twoItems ∧
    sitesFields twoItems = [[.key "os", .idx 0, .key "w"], [.key "os", .idx 1, .key "w"]] ∧
    (execute twoItems).map (fun r => r.2.map Err.path?) =
      some [some [.key "os", .idx 0, .key "w"], some [.key "os", .idx 1, .key "w"]] := by
  refine ⟨⟨by decide, by decide⟩, by decide, by decide⟩

end PyGql.Props.C10

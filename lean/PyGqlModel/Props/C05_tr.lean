/-
  C05 shares the executor model of C04: the equations model = translated source for `_skip_selection` and
  `_fragment_type_applies` (proved in `Props/C04_tr.lean`) are obligations of C05 as well, so that an edit of either
  function re-opens C05's theorems about `collectFields`.
-/
import PyGqlModel.Props.C04_tr

namespace PyGql.Props.C05
open PyGql PyGql.Exec PyGql.Generated

theorem skip_selection_model_eq_source (vars : Vars) (dirs : List Dir) :
    skipSelection vars dirs = Tr._skip_selection Fail.internal (fun name ds vs => dirIf vs ds name) dirs vars :=
  C04.skip_selection_model_eq_source vars dirs

theorem fragment_type_applies_model_eq_source (s : SchemaD) (obj : String) (cond : Option String) :
    fragmentTypeApplies s obj cond
      = Tr._fragment_type_applies Fail.internal (C04.getTypeFromLiteral s) (isAbstract s) (isPossibleType s) obj cond :=
  C04.fragment_type_applies_model_eq_source s obj cond

end PyGql.Props.C05

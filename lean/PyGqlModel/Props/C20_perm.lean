/-
  C20 — `diff_perm`: the report of `diff_schema` does not depend on the ORDER in which the type and
  directive definitions of either schema are listed (the property's last sentence: "The result does not
  depend on hash ordering or on the order of type definitions"). Both type lists and both directive lists
  may be permuted independently; the report is then a permutation of the original report (the same
  multiset of changes), at every severity filter.
-/
import PyGqlModel.Diff
import PyGqlModel.Props.C20_diff

set_option linter.unusedSimpArgs false
set_option linter.unusedVariables false

namespace PyGql.Props.C20
open PyGql PyGql.Differ PyGql.Diff

/-- `find?` does not depend on the order of a list in which at most one element satisfies the predicate -/
private theorem find_perm {α} {l l' : List α} (p : α → Bool) (h : l.Perm l')
    (u : ∀ x ∈ l, ∀ y ∈ l, p x = true → p y = true → x = y) : l.find? p = l'.find? p := by
  cases hf : l.find? p with
  | none =>
    have hn := List.find?_eq_none.mp hf
    exact (List.find?_eq_none.mpr (fun x hx => hn x (h.mem_iff.mpr hx))).symm
  | some x =>
    have hpx := List.find?_some hf
    have hxl := List.mem_of_find?_eq_some hf
    cases hf' : l'.find? p with
    | none =>
      have hn := List.find?_eq_none.mp hf'
      exact absurd hpx (hn x (h.mem_iff.mp hxl))
    | some y =>
      have hpy := List.find?_some hf'
      have hyl := h.mem_iff.mpr (List.mem_of_find?_eq_some hf')
      rw [u x hxl y hyl hpx hpy]

/-- in a list with unique names two elements carrying the same name are equal -/
private theorem uniq_inj {α} {name : α → String} {l : List α} (h : Uniq name l) (nm : String) :
    ∀ x ∈ l, ∀ y ∈ l, (name x == nm) = true → (name y == nm) = true → x = y := by
  intro x hx y hy px py
  have ex : name x = nm := by simpa using px
  have ey : name y = nm := by simpa using py
  have h1 := h x hx
  have h2 := h y hy
  rw [ex] at h1; rw [ey] at h2
  rw [h1] at h2
  exact Option.some.inj h2

private theorem find_name_perm {α} {name : α → String} {l l' : List α} (h : l.Perm l') (u : Uniq name l)
    (nm : String) : l.find? (fun y => name y == nm) = l'.find? (fun y => name y == nm) :=
  find_perm _ h (uniq_inj u nm)

private theorem find_name_filter_perm {α} {name : α → String} {l l' : List α} (q : α → Bool) (h : l.Perm l')
    (u : Uniq name l) (nm : String) :
    (l.filter q).find? (fun y => name y == nm) = (l'.filter q).find? (fun y => name y == nm) := by
  apply find_perm _ (h.filter q)
  intro x hx y hy px py
  exact uniq_inj u nm x (List.mem_filter.mp hx).1 y (List.mem_filter.mp hy).1 px py

private theorem flatMap_perm {α β} (f : α → List β) {l l' : List α} (h : l.Perm l') :
    (l.flatMap f).Perm (l'.flatMap f) := by
  induction h with
  | nil => exact List.Perm.refl _
  | cons a _ ih => simp only [List.flatMap_cons]; exact List.Perm.append (List.Perm.refl _) ih
  | swap a b l =>
    simp only [List.flatMap_cons, ← List.append_assoc]
    exact List.Perm.append List.perm_append_comm (List.Perm.refl _)
  | trans _ _ ih1 ih2 => exact ih1.trans ih2

/-- the schemas `s` and `s'` list the same type and directive definitions, possibly in another order
    (and name the same root operation types) -/
structure Reordered (s s' : SchemaD) : Prop where
  types : s.types.Perm s'.types
  directives : s.directives.Perm s'.directives
  query : s.query = s'.query
  mutation : s.mutation = s'.mutation
  subscription : s.subscription = s'.subscription

private theorem findType_perm {s s' : SchemaD} (h : Reordered s s') (u : Uniq TypeD.name s.types) (nm : String) :
    s.findType nm = s'.findType nm := by
  unfold SchemaD.findType
  exact find_name_perm h.types u nm

private theorem matchingPairs_perm {o o' n n' : SchemaD} (ho : Reordered o o') (hn : Reordered n n')
    (un : Uniq TypeD.name n.types) (k : Kind) : (matchingPairs o n k).Perm (matchingPairs o' n' k) := by
  unfold matchingPairs
  have e := fun nm => find_name_filter_perm (name := TypeD.name) (fun t => t.kind == k) hn.types un nm
  simp only [e]
  exact (ho.types.filter _).filterMap _

/-- **Order independence**: permuting the type definitions and the directive definitions of the old
    and of the new schema (names unique, as in every `Schema` object, whose type map is a dictionary)
    permutes the report: the same changes are reported, the same number of times, at every filter. -/
theorem diff_perm (o o' n n' : SchemaD) (ho : Reordered o o') (hn : Reordered n n')
    (uo : Uniq TypeD.name o.types) (un : Uniq TypeD.name n.types)
    (udo : Uniq DirectiveD.name o.directives) (udn : Uniq DirectiveD.name n.directives) (m : Nat) :
    (diffSchema o n m).Perm (diffSchema o' n' m) := by
  unfold diffSchema
  apply List.Perm.filter
  have en := fun nm => findType_perm hn un nm
  have eo := fun nm => findType_perm ho uo nm
  have edn := fun nm => find_name_perm (name := DirectiveD.name) hn.directives udn nm
  have edo := fun nm => find_name_perm (name := DirectiveD.name) ho.directives udo nm
  have h0 : (diffRootTypes o n).Perm (diffRootTypes o' n') := by
    unfold diffRootTypes
    rw [ho.query, ho.mutation, ho.subscription, hn.query, hn.mutation, hn.subscription]
  have h1 : (findRemovedTypes o n).Perm (findRemovedTypes o' n') := by
    unfold findRemovedTypes; simp only [en]; exact (ho.types.filter _).map _
  have h2 : (findAddedTypes o n).Perm (findAddedTypes o' n') := by
    unfold findAddedTypes; simp only [eo]; exact (hn.types.filter _).map _
  have h3 : (diffDirectives o n).Perm (diffDirectives o' n') := by
    unfold diffDirectives
    simp only [edn, edo]
    exact (flatMap_perm _ ho.directives).append ((hn.directives.filter _).map _)
  have h4 : (findChangedTypes o n).Perm (findChangedTypes o' n') := by
    unfold findChangedTypes; simp only [en]; exact ho.types.filterMap _
  have mp := fun k => matchingPairs_perm ho hn un k
  have h5 : (diffUnionTypes o n).Perm (diffUnionTypes o' n') := by
    unfold diffUnionTypes; exact flatMap_perm _ (mp _)
  have h6 : (diffEnumTypes o n).Perm (diffEnumTypes o' n') := by
    unfold diffEnumTypes; exact flatMap_perm _ (mp _)
  have h7 : (diffObjectTypes o n).Perm (diffObjectTypes o' n') := by
    unfold diffObjectTypes; exact flatMap_perm _ (mp _)
  have h8 : (diffInterfaceTypes o n).Perm (diffInterfaceTypes o' n') := by
    unfold diffInterfaceTypes; exact flatMap_perm _ (mp _)
  have h9 : (diffInputTypes o n).Perm (diffInputTypes o' n') := by
    unfold diffInputTypes; exact flatMap_perm _ (mp _)
  exact (((((((((h0.append h1).append h2).append h3).append h4).append h5).append h6).append h7).append h8).append h9)

/-- the report, read as a multiset, is the same: every change is reported equally often -/
theorem diff_perm_count (o o' n n' : SchemaD) (ho : Reordered o o') (hn : Reordered n n')
    (uo : Uniq TypeD.name o.types) (un : Uniq TypeD.name n.types)
    (udo : Uniq DirectiveD.name o.directives) (udn : Uniq DirectiveD.name n.directives) (m : Nat) (c : Change) :
    (diffSchema o n m).count c = (diffSchema o' n' m).count c :=
  (diff_perm o o' n n' ho hn uo un udo udn m).count_eq c

/-- in particular "no breaking change reported" does not depend on the order of definitions -/
theorem no_breaking_perm (o o' n n' : SchemaD) (ho : Reordered o o') (hn : Reordered n n')
    (uo : Uniq TypeD.name o.types) (un : Uniq TypeD.name n.types)
    (udo : Uniq DirectiveD.name o.directives) (udn : Uniq DirectiveD.name n.directives) :
    diffSchema o n 2 = [] ↔ diffSchema o' n' 2 = [] := by
  have h := diff_perm o o' n n' ho hn uo un udo udn 2
  constructor
  · intro e; rw [e] at h; exact List.Perm.nil_eq h |>.symm
  · intro e; rw [e] at h; exact List.Perm.eq_nil h

/-! non-vacuity: two schemas listing the same definitions in another order meet the hypotheses, and the
    (non-empty) report of the edit is the same multiset -/
private def tQ : TypeD :=
  { kind := .object, name := "Query", fields := [{ name := "a", type := .named "Int" }, { name := "b", type := .named "E" }] }
private def tQ' : TypeD := { kind := .object, name := "Query", fields := [{ name := "b", type := .named "E" }] }
private def tE : TypeD := { kind := .enum, name := "E", values := [{ name := "A" }, { name := "B" }] }
private def tE' : TypeD := { kind := .enum, name := "E", values := [{ name := "A" }] }
private def dD : DirectiveD := { name := "d", locations := ["FIELD"] }
private def dK : DirectiveD := { name := "k", locations := ["QUERY"] }
private def tP : TypeD := { kind := .object, name := "P", fields := [{ name := "p", type := .named "Int" }, { name := "q", type := .named "Int" }] }
private def tP' : TypeD := { kind := .object, name := "P", fields := [{ name := "p", type := .named "Int" }] }
private def oEx : SchemaD := { types := [tQ, tP, tE], directives := [dD, dK] }
private def oEx' : SchemaD := { types := [tP, tE, tQ], directives := [dK, dD] }
private def nEx : SchemaD := { types := [tQ', tP', tE'], directives := [dD] }
private def nEx' : SchemaD := { types := [tE', tQ', tP'], directives := [dD] }

example : Reordered oEx oEx' ∧ Reordered nEx nEx' ∧ Uniq TypeD.name oEx.types ∧ Uniq TypeD.name nEx.types
    ∧ Uniq DirectiveD.name oEx.directives ∧ Uniq DirectiveD.name nEx.directives := by
  refine ⟨⟨?_, ?_, rfl, rfl, rfl⟩, ⟨?_, ?_, rfl, rfl, rfl⟩, ?_, ?_, ?_, ?_⟩
  · exact (List.perm_append_comm (l₁ := [tQ]) (l₂ := [tP, tE]))
  · exact List.Perm.swap _ _ _
  · exact (List.perm_append_comm (l₁ := [tQ', tP']) (l₂ := [tE']))
  · exact List.Perm.refl _
  all_goals simp [Uniq, oEx, nEx, tQ, tE, tP, tQ', tE', tP', dD, dK]

/-- the two reports differ as lists (the changes come out in another order) and agree as multisets -/
example : (diffSchema oEx nEx).length = 4 ∧ diffSchema oEx nEx ≠ diffSchema oEx' nEx' := by decide

end PyGql.Props.C20

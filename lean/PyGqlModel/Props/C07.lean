/-
  C07 — property theorems: resolvers only receive arguments that conform to the declared input types.
  Model: PyGqlModel/Coerce.lean (the code WITH proposed fixes C07-A1..A5); specification: Spec/Coerce.lean.
  Every theorem holds for EVERY amount of fuel (recursion budget), every registry of named input types
  satisfying `RegOK`, every type expression, every JSON value / literal.
-/
import PyGqlModel.Lemmas.Coerce

set_option linter.unusedSimpArgs false
set_option linter.unusedVariables false

namespace PyGql.Props.C07
open PyGql PyGql.Coerce PyGql.Generated.Scalars

/-! ### soundness of the variable route (`coerce_value`) -/

private theorem coerceInt_sound {reg : Reg} {n : String} (hn : reg.get? n = some .int) {v : JV} {pv : PV}
    (h : coerceInt v = .ok pv) : Conforms reg (.named n) pv ∧ pv.isNone = false := by
  unfold coerceInt at h
  repeat' split at h
  all_goals first
    | (obtain ⟨rfl, hr⟩ := rangeChecked_ok h
       exact ⟨.int hn hr, rfl⟩)
    | cases h

private theorem coerceFloat_sound {reg : Reg} {n : String} (hn : reg.get? n = some .float) {v : JV} {pv : PV}
    (h : coerceFloat v = .ok pv) : Conforms reg (.named n) pv ∧ pv.isNone = false := by
  unfold coerceFloat at h
  repeat' split at h
  all_goals first
    | (obtain ⟨rfl, _⟩ := floatChecked_ok h; exact ⟨.float hn, rfl⟩)
    | cases h

private theorem pvOfJson_notNone {v : JV} (h : v.isNull = false) : (pvOfJson v).isNone = false := by
  cases v <;> simp_all [pvOfJson, PV.isNone, JV.isNull]

/-- `coerce_value` body: sound, and a non-null input never produces `None` -/
private theorem coerceCore_sound {reg : Reg} (hreg : RegOK reg) {rec : Ty → JV → R}
    (hrec : ∀ ty v pv, ty.wf = true → rec ty v = .ok pv → Conforms reg ty pv)
    {t : Ty} {v : JV} {pv : PV} (hwf : t.wf = true) (hnn : t.isNonNull = false)
    (h : coerceCore reg rec t v = .ok pv) :
    Conforms reg t pv ∧ (v.isNull = false → pv.isNone = false) := by
  unfold coerceCore at h
  split at h
  · rename_i hnull
    cases h
    exact ⟨.null hnn, fun h' => by simp [hnull] at h'⟩
  · rename_i hnull
    have hnull' : v.isNull = false := by simpa using hnull
    cases t with
    | nonNull t' => simp [Ty.isNonNull] at hnn
    | list t' =>
      simp only at h
      unfold coerceListValue at h
      split at h
      · rename_i l
        split at h
        · cases h
        · rename_i r hr
          cases h
          refine ⟨.list ?_, fun _ => rfl⟩
          exact mapE_ok_forall (P := fun y => Conforms reg t' y) ((mapEC_ok_iff _ _ _).1 hr) (fun x _ y hy => hrec t' x y (wf_list hwf) hy)
      · split at h
        · cases h
        · rename_i x hx
          cases h
          refine ⟨.list ?_, fun _ => rfl⟩
          intro y hy
          simp at hy; subst hy
          exact hrec t' _ _ (wf_list hwf) hx
    | named n =>
      simp only at h
      split at h
      · rename_i hk; have := coerceInt_sound hk h; exact ⟨this.1, fun _ => this.2⟩
      · rename_i hk; have := coerceFloat_sound hk h; exact ⟨this.1, fun _ => this.2⟩
      · rename_i hk
        unfold parseString at h
        split at h <;> first | (cases h; exact ⟨.string hk, fun _ => rfl⟩) | cases h
      · rename_i hk
        unfold parseBool at h
        split at h <;> first | (cases h; exact ⟨.boolean hk, fun _ => rfl⟩) | cases h
      · rename_i hk
        unfold parseId at h
        split at h <;> first | (cases h; exact ⟨.id hk, fun _ => rfl⟩) | cases h
      · rename_i hk
        have hv : reg.customParse n v = .value pv := by
          cases hp : reg.customParse n v <;> simp [hp, ParseOut.toR] at h
          subst h; rfl
        have hok : CustomOK reg n pv := .inl ⟨v, hnull', hv⟩
        exact ⟨.custom hk hok, fun _ => hreg.customNotNone n pv hk hok⟩
      · rename_i vs hk
        split at h
        · obtain ⟨p, hp, rfl, _⟩ := getValue_mem h
          exact ⟨.enum hk hp, fun _ => hreg.enumNotNone n vs hk p hp⟩
        · cases h
      · rename_i fs hk
        unfold coerceInputObject at h
        split at h
        · rename_i kvs
          split at h
          · cases h
          · rename_i r hr
            split at h
            · cases h
              have hcf : ConformsFields reg fs r := fieldLoop_sound
                (fun f hf v pv _ hpv => hrec f.type v pv (hreg.fieldWf n fs hk f hf) hpv)
                (fun f hf d hd => hreg.defaultsConform n fs hk f hf d hd) ((fieldLoopC_ok_iff _ _ _ _).1 hr)
              rw [dictOfAssignments_conforms (hreg.pyNamesDistinct n fs hk) hcf]
              exact ⟨.input hk hcf, fun _ => rfl⟩
            · cases h
        · cases h
      · cases h

/-- **variable_sound.** Whatever `coerce_value` accepts conforms to the declared type: non-null positions
    never hold `None`, enum names are replaced by internal values, input objects are dicts keyed by python
    names with defaults filled, list positions hold lists, Int values lie in the signed 32-bit range.
    For every registry, type expression (arbitrary nesting, recursive input objects), JSON value and fuel. -/
theorem variable_sound {reg : Reg} (hreg : RegOK reg) :
    ∀ (fuel : Nat) (ty : Ty) (v : JV) (pv : PV), ty.wf = true →
      coerceValue reg fuel ty v = .ok pv → Conforms reg ty pv := by
  intro fuel
  induction fuel with
  | zero => intro ty v pv _ h; simp [coerceValue] at h
  | succ fuel ih =>
    intro ty v pv hwf h
    simp only [coerceValue] at h
    split at h
    · cases h
    · rename_i hc
      cases ty with
      | nonNull t =>
        have ⟨hnn, hwf'⟩ := wf_nonNull hwf
        have hv : v.isNull = false := by simpa [Ty.isNonNull] using hc
        have := coerceCore_sound hreg ih hwf' hnn (by simpa [stripNN] using h)
        exact .nonNull (this.2 hv) this.1
      | named n => exact (coerceCore_sound hreg ih hwf rfl (by simpa [stripNN] using h)).1
      | list t => exact (coerceCore_sound hreg ih hwf rfl (by simpa [stripNN] using h)).1

/-! ### soundness of the literal route (`value_from_ast`) -/

private theorem parseLiteral_sound {reg : Reg} {n : String} {k : NamedT} (hk : reg.get? n = some k)
    (hne : ∀ vs, k ≠ .enum vs) (hni : ∀ fs, k ≠ .input fs) {l : Lit} {pv : PV}
    (h : parseLiteral k l = .ok pv) : Conforms reg (.named n) pv ∧ pv.isNone = false := by
  cases k with
  | enum vs => exact absurd rfl (hne vs)
  | input fs => exact absurd rfl (hni fs)
  | custom => simp [parseLiteral] at h
  | int =>
    cases l <;> simp only [parseLiteral] at h <;> split at h <;> try cases h
    obtain ⟨rfl, hr⟩ := rangeChecked_ok h; exact ⟨.int hk hr, rfl⟩
  | float =>
    cases l <;> simp only [parseLiteral] at h <;> split at h
    all_goals first
      | (obtain ⟨rfl, _⟩ := floatChecked_ok h; exact ⟨.float hk, rfl⟩)
      | cases h
      | (split at h
         · obtain ⟨rfl, _⟩ := floatChecked_ok h; exact ⟨.float hk, rfl⟩
         · cases h)
  | string =>
    cases l <;> simp only [parseLiteral] at h <;> split at h <;> try cases h
    all_goals exact ⟨.string hk, rfl⟩
  | boolean =>
    cases l <;> simp only [parseLiteral] at h <;> split at h <;> try cases h
    all_goals exact ⟨.boolean hk, rfl⟩
  | id =>
    cases l <;> simp only [parseLiteral] at h <;> split at h <;> try cases h
    all_goals exact ⟨.id hk, rfl⟩

private theorem extractVariable_sound {reg : Reg} {vars : Option (List (String × PV))} {ty : Ty} {x : String} {pv : PV}
    (hwf : ty.wf = true) (hfit : vars = none ∨ VarsFit reg vars ty (.var x)) (h : extractVariable vars ty x = .ok pv) :
    Conforms reg ty pv := by
  unfold extractVariable at h
  split at h
  · cases h
  · rename_i vs
    have hfit : VarsFit reg (some vs) ty (.var x) := by
      cases hfit with
      | inl h0 => cases h0
      | inr h1 => exact h1
    split at h
    · cases h
    · rename_i v hv
      split at h
      · cases h
      · rename_i hc
        cases h
        cases hfit with
        | leaf hl => simp [Lit.isLeaf] at hl
        | scalarPos _ _ hnv => exact absurd rfl (hnv x)
        | var hvar =>
          cases hnone : pv.isNone with
          | true =>
            cases pv <;> simp [PV.isNone] at hnone
            cases ty with
            | nonNull t => simp [Ty.isNonNull, PV.isNone] at hc
            | named n => exact .null rfl
            | list t => exact .null rfl
          | false =>
            have hc' := hvar vs pv rfl hv hnone
            cases ty with
            | nonNull t => exact .nonNull hnone (by simpa [stripNN] using hc')
            | named n => simpa [stripNN] using hc'
            | list t => simpa [stripNN] using hc'

/-- `value_from_ast` body -/
private theorem vfaCore_sound {reg : Reg} (hreg : RegOK reg) {vars : Option (List (String × PV))} {rec : Ty → Lit → R}
    (hrec : ∀ ty l pv, ty.wf = true → (vars = none ∨ VarsFit reg vars ty l) → rec ty l = .ok pv → Conforms reg ty pv)
    {ty t : Ty} {l : Lit} {pv : PV} (hst : stripNN ty = t) (hwf : t.wf = true) (hnn : t.isNonNull = false)
    (hfit : vars = none ∨ VarsFit reg vars ty l) (hl : ∀ x, l ≠ .var x)
    (h : vfaCore vars reg rec t l = .ok pv) :
    Conforms reg t pv ∧ (l.isNull = false → pv.isNone = false) := by
  unfold vfaCore at h
  split at h
  · rename_i hnull
    cases h
    exact ⟨.null hnn, fun h' => by simp [hnull] at h'⟩
  · rename_i hnull
    cases t with
    | nonNull t' => simp [Ty.isNonNull] at hnn
    | list t' =>
      simp only at h
      split at h
      · rename_i items
        split at h
        · cases h
        · rename_i r hr
          cases h
          refine ⟨.list ?_, fun _ => rfl⟩
          have hitems : ∀ i, i ∈ items → (vars = none ∨ VarsFit reg vars t' i) := by
            cases hfit with
            | inl h0 => exact fun _ _ => .inl h0
            | inr hfit =>
              cases hfit with
              | leaf hlf => simp [Lit.isLeaf] at hlf
              | listItems hs hi => rw [hst] at hs; cases hs; exact fun i hi' => .inr (hi i hi')
              | scalarPos hs _ _ => rw [hst] at hs; cases hs
          exact mapE_ok_forall (P := fun y => Conforms reg t' y) hr
            (fun x hx y hy => hrec t' x y (wf_list hwf) (hitems x hx) hy)
      · rename_i hnl
        split at h
        · cases h
        · rename_i x hx
          cases h
          refine ⟨.list ?_, fun _ => rfl⟩
          intro y hy
          simp at hy; subst hy
          have hfit' : vars = none ∨ VarsFit reg vars t' l := by
            cases hfit with
            | inl h0 => exact .inl h0
            | inr hfit =>
              cases hfit with
              | leaf hlf => exact .inr (.leaf hlf)
              | var _ => exact absurd rfl (hl _)
              | listItems hs hi => exact absurd rfl (hnl _)
              | listSingle hs hi => rw [hst] at hs; cases hs; exact .inr hi
              | obj hs hk _ => rw [hst] at hs; cases hs
              | scalarPos hs _ _ => rw [hst] at hs; cases hs
          exact hrec t' _ _ (wf_list hwf) hfit' hx
    | named n =>
      simp only at h
      split at h
      · rename_i fs hk
        split at h
        · rename_i lkvs
          unfold extractInputObject at h
          split at h
          · cases h
          · rename_i r hr
            split at h
            · cases h
              have hfields : ∀ f, f ∈ fs → ∀ l, lookupLast f.name lkvs = some l → (vars = none ∨ VarsFit reg vars f.type l) := by
                cases hfit with
                | inl h0 => exact fun _ _ _ _ => .inl h0
                | inr hfit =>
                  cases hfit with
                  | leaf hlf => simp [Lit.isLeaf] at hlf
                  | listSingle hs _ => rw [hst] at hs; cases hs
                  | obj hs hk' hf => rw [hst] at hs; cases hs; rw [hk] at hk'; cases hk'; exact fun f hf' l hl' => .inr (hf f hf' l hl')
                  | scalarPos hs hk' _ => rw [hst] at hs; cases hs; rw [hk] at hk'; cases hk'
              have hcf : ConformsFields reg fs r := fieldLoop_sound
                (fun f hf v pv hget hpv => hrec f.type v pv (hreg.fieldWf n fs hk f hf) (hfields f hf v hget) hpv)
                (fun f hf d hd => hreg.defaultsConform n fs hk f hf d hd) hr
              rw [dictOfAssignments_conforms (hreg.pyNamesDistinct n fs hk) hcf]
              exact ⟨.input hk hcf, fun _ => rfl⟩
            · cases h
        · cases h
      · rename_i vs hk
        split at h
        · obtain ⟨p, hp, rfl, _⟩ := getValue_mem h
          exact ⟨.enum hk hp, fun _ => hreg.enumNotNone n vs hk p hp⟩
        · cases h
      · rename_i hk
        split at h
        · rename_i hsl
          have hv : reg.customParseLiteral n (vars.getD []) l = .value pv := by
            cases hp : reg.customParseLiteral n (vars.getD []) l <;> simp [hp, ParseOut.toR] at h
            subst h; rfl
          have hok : CustomOK reg n pv := .inr ⟨l, vars.getD [], by simpa using hnull, hl, hsl, hv⟩
          exact ⟨.custom hk hok, fun _ => hreg.customNotNone n pv hk hok⟩
        · cases h
      · rename_i k hni hne hnc hk
        split at h
        · have := parseLiteral_sound hk (fun vs hv => hne vs hv) (fun fs hv => hni fs hv) h
          exact ⟨this.1, fun _ => this.2⟩
        · cases h
      · cases h

/-- **literal_sound.** Whatever `value_from_ast` accepts conforms to the declared type, for literals of any
    nesting: constant literals (no variable environment: the defaults of variable definitions), and literals
    with variables inside list and object literals whose (already coerced) values fit their positions (`VarsFit`). -/
theorem literal_sound {reg : Reg} (hreg : RegOK reg) (vars : Option (List (String × PV))) :
    ∀ (fuel : Nat) (ty : Ty) (l : Lit) (pv : PV), ty.wf = true → (vars = none ∨ VarsFit reg vars ty l) →
      valueFromAst reg vars fuel ty l = .ok pv → Conforms reg ty pv := by
  intro fuel
  induction fuel with
  | zero => intro ty l pv _ _ h; simp [valueFromAst] at h
  | succ fuel ih =>
    intro ty l pv hwf hfit h
    simp only [valueFromAst] at h
    split at h
    · exact extractVariable_sound hwf hfit h
    · rename_i hnv
      split at h
      · cases h
      · rename_i hc
        cases ty with
        | nonNull t =>
          have ⟨hnn, hwf'⟩ := wf_nonNull hwf
          have hv : l.isNull = false := by simpa [Ty.isNonNull] using hc
          have := vfaCore_sound hreg ih (ty := .nonNull t) rfl hwf' hnn hfit (fun x hx => hnv x hx) (by simpa [stripNN] using h)
          exact .nonNull (this.2 hv) this.1
        | named n => exact (vfaCore_sound hreg ih (ty := .named n) rfl hwf rfl hfit (fun x hx => hnv x hx) (by simpa [stripNN] using h)).1
        | list t => exact (vfaCore_sound hreg ih (ty := .list t) rfl hwf rfl hfit (fun x hx => hnv x hx) (by simpa [stripNN] using h)).1

end PyGql.Props.C07

/-
  C18 — what `visitor.py` says TODAY: statements about `Generated.VisitTable` (table + witness documents parsed by the
  real parser), closed by kernel evaluation (`decide +kernel`). Any edit of a `_visit_*` body re-opens them.
-/
import PyGqlModel.Props.C18

namespace PyGql.Props.C18
open PyGql.Visit PyGql.Generated.VisitTable

/-- W1–W3: the child positions of an executable document that are never entered
    (`query Q($v: [Int!] = 1 @d, $u: Int!) { ... on T { a } } fragment F($w: Int) on T { a }`) -/
theorem gaps_executable : gaps witnessExec = some
    [("VariableDefinition", "variable"), ("ListType", "type"), ("VariableDefinition", "directives"),
     ("NonNullType", "type"), ("InlineFragment", "type_condition"),
     ("FragmentDefinition", "variable_definitions"), ("FragmentDefinition", "type_condition")] := by decide +kernel

/-- W4: the `description` of none of the ten describable kinds is entered; nothing else is missing in an SDL document -/
theorem gaps_type_system : gaps witnessSdl = some
    [("ScalarTypeDefinition", "description"), ("ObjectTypeDefinition", "description"),
     ("FieldDefinition", "description"), ("InputValueDefinition", "description"),
     ("InterfaceTypeDefinition", "description"), ("UnionTypeDefinition", "description"),
     ("EnumTypeDefinition", "description"), ("EnumValueDefinition", "description"),
     ("InputObjectTypeDefinition", "description"), ("DirectiveDefinition", "description")] := by decide +kernel

/-- W5: siblings are not always entered in source order (default value before type; field type before arguments;
    operation types before the directives of `schema`) -/
theorem order_violated : orderOk witnessExec = some false ∧ orderOk witnessSdl = some false := by decide +kernel

/-- non-vacuity / positive instance: on `{ a(x: 1) @d b { c } }` the implementation meets the FULL specification -/
theorem coverage_full_on_plain_selection : implKeys 64 witnessSmall = some (specKeys witnessSmall) := by decide +kernel

/-- refutation of the full statement, with the witness document -/
theorem full_coverage_false : ¬ FullCoverage := by
  intro h
  have h1 : (implKeys 64 witnessExec).isSome = true ∧ implKeys 64 witnessExec ≠ some (specKeys witnessExec) := by decide +kernel
  cases hk : implKeys 64 witnessExec with
  | none => simp [hk] at h1
  | some ks => exact h1.2 (by rw [hk, h _ _ _ hk])

/-- every statement of every `_visit_*` body writes its result back (`P.a = …`): replacements and deletions
    returned for a child always reach the parent (holds with proposed fix C18-W5b; without it the
    `default_value` statement of `_visit_input_value_definition` discards its result) -/
theorem table_all_assign : table.methods.all (fun p => p.2.all (·.assign)) = true := by decide +kernel

/-- no `_visit_*` body traverses the same attribute twice (a node cannot be entered twice through its parent) -/
theorem table_steps_distinct : table.methods.all (fun p => decide ((p.2.map (·.attr)).Nodup)) = true := by decide +kernel

/-- every call target of every statement, every registry entry, resolves to a `@_visit_method` that exists -/
theorem table_closed :
    table.methods.all (fun p => p.2.all fun st =>
      match st.target with
      | .method m => (table.methods.lookup m).isSome
      | .disp d => (table.dispatchers.lookup d).isSome) = true ∧
    table.dispatchers.all (fun p => p.2.registry.all (fun q => (table.methods.lookup q.2).isSome) &&
      (match p.2.dflt with | some m => (table.methods.lookup m).isSome | none => true)) = true ∧
    table.visit.all (fun q => (table.methods.lookup q.2).isSome) = true := by decide +kernel

/-- `ASTVisitor.visit` handles every concrete node class of `lang/ast.py` except `Name` -/
theorem visit_total : table.slots.all (fun p => p.1 == "Name" || (table.visit.lookup p.1).isSome) = true := by decide +kernel

/-- `DispatchingVisitor`: `enter` and `leave` know exactly the kinds `visit` handles, in the same order -/
theorem dispatching_total :
    enterRegistry.map (·.1) = leaveRegistry.map (·.1) ∧
    table.visit.all (fun p => (enterRegistry.lookup p.1).isSome) = true ∧
    enterRegistry.all (fun p => (table.visit.lookup p.1).isSome) = true := by decide +kernel

end PyGql.Props.C18

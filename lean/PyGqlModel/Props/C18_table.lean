/-
  C18 — what `visitor.py` says TODAY: statements about `Generated.VisitTable` (table + witness documents parsed by the
  real parser), closed by kernel evaluation (`decide +kernel`). Any edit of a `_visit_*` body re-opens them.
-/
import PyGqlModel.Props.C18
import PyGqlModel.Props.C18_once
import PyGqlModel.Props.C18_edit

-- a FAILING `decide +kernel` must fail fast (the elaborator's diagnosis of a false instance would run for minutes):
-- the kernel evaluation of the true instances is not subject to this limit
set_option maxHeartbeats 3000

namespace PyGql.Props.C18
open PyGql.Visit PyGql.Generated.VisitTable

/-- W1–W3 (what is left after fixes C18-W2b / C18-W3b: directives of variable definitions and variable definitions of
    fragments ARE visited): the child positions of an executable document that are never entered
    (`query Q($v: [Int!] = 1 @d, $u: Int!) { ... on T { a } } fragment F($w: Int) on T { a }`) -/
theorem gaps_executable : gaps witnessExec = some
    [("VariableDefinition", "variable"), ("ListType", "type"), ("NonNullType", "type"),
     ("InlineFragment", "type_condition"), ("FragmentDefinition", "type_condition")] := by decide +kernel

/-- W4: the `description` of none of the ten describable kinds is entered; nothing else is missing in an SDL document -/
theorem gaps_type_system : gaps witnessSdl = some
    [("ScalarTypeDefinition", "description"), ("ObjectTypeDefinition", "description"),
     ("FieldDefinition", "description"), ("InputValueDefinition", "description"),
     ("InterfaceTypeDefinition", "description"), ("UnionTypeDefinition", "description"),
     ("EnumTypeDefinition", "description"), ("EnumValueDefinition", "description"),
     ("InputObjectTypeDefinition", "description"), ("DirectiveDefinition", "description")] := by decide +kernel

/-- W5: siblings are not always entered in source order (default value before type; field type before arguments;
    operation types before the directives of `schema`) -/
theorem order_violated : orderOk witnessExec = some false ∧ orderOk witnessSdl = some false := by decide +kernel

/-- non-vacuity / positive instance: on `{ a(x: 1) @d b { c } }` the implementation meets the FULL specification -/
theorem coverage_full_on_plain_selection : implKeys 64 witnessSmall = some (specKeys witnessSmall) := by decide +kernel

/-- refutation of the full statement, with the witness document -/
theorem full_coverage_false : ¬ FullCoverage := by
  intro h
  have h1 : (implKeys 64 witnessExec).isSome = true ∧ implKeys 64 witnessExec ≠ some (specKeys witnessExec) := by decide +kernel
  cases hk : implKeys 64 witnessExec with
  | none => simp [hk] at h1
  | some ks => exact h1.2 (by rw [hk, h _ _ _ hk])

/-- every statement of every `_visit_*` body writes its result back (`P.a = …`): replacements and deletions
    returned for a child always reach the parent (holds with proposed fix C18-W5b; without it the
    `default_value` statement of `_visit_input_value_definition` discards its result) -/
theorem table_all_assign : table.methods.all (fun p => p.2.all (·.assign)) = true := by decide +kernel

/-- no `_visit_*` body traverses the same attribute twice (a node cannot be entered twice through its parent) -/
theorem table_steps_distinct : table.methods.all (fun p => decide ((p.2.map (·.attr)).Nodup)) = true := by decide +kernel

/-- every call target of every statement, every registry entry, resolves to a `@_visit_method` that exists -/
theorem table_closed :
    table.methods.all (fun p => p.2.all fun st =>
      match st.target with
      | .method m => (table.methods.lookup m).isSome
      | .disp d => (table.dispatchers.lookup d).isSome) = true ∧
    table.dispatchers.all (fun p => p.2.registry.all (fun q => (table.methods.lookup q.2).isSome) &&
      (match p.2.dflt with | some m => (table.methods.lookup m).isSome | none => true)) = true ∧
    table.visit.all (fun q => (table.methods.lookup q.2).isSome) = true := by decide +kernel

/-- `ASTVisitor.visit` handles every concrete node class of `lang/ast.py` except `Name` -/
theorem visit_total : table.slots.all (fun p => p.1 == "Name" || (table.visit.lookup p.1).isSome) = true := by decide +kernel

/-- `DispatchingVisitor`: `enter` and `leave` know exactly the kinds `visit` handles, in the same order -/
theorem dispatching_total :
    enterRegistry.map (·.1) = leaveRegistry.map (·.1) ∧
    table.visit.all (fun p => (enterRegistry.lookup p.1).isSome) = true ∧
    enterRegistry.all (fun p => (table.visit.lookup p.1).isSome) = true := by decide +kernel

private theorem all_lookup {β : Type} (p : String × β → Bool) :
    ∀ (l : List (String × β)), l.all p = true → ∀ a b, l.lookup a = some b → ∃ a', p (a', b) = true := by
  intro l
  induction l with
  | nil => intro _ a b h; simp [List.lookup] at h
  | cons q r ih =>
    obtain ⟨c, z⟩ := q
    intro hall a b h
    simp only [List.all_cons, Bool.and_eq_true] at hall
    simp only [List.lookup] at h
    cases hac : a == c with
    | true => simp only [hac, Option.some.injEq] at h; subst h; exact ⟨c, hall.1⟩
    | false => simp only [hac] at h; exact ih hall.2 a b h

/-- today's table satisfies the hypothesis of `once` -/
theorem table_StepsDistinct : StepsDistinct table := by
  intro m steps h
  have hex := all_lookup (fun p : String × List Step => decide ((p.2.map (·.attr)).Nodup)) table.methods
    table_steps_distinct m steps h
  obtain ⟨a', hp⟩ := hex
  exact of_decide_eq_true hp

/-- **once**, for the traversal that `visitor.py` implements today -/
theorem once_today {σ : Type} (v : Visitor σ) (hv : Observer v) (fuel : Nat) (t : Node) (s : σ) (o : Out σ)
    (h : visit table v fuel t s = .ok o) (hnd : (idsNode t).Nodup) : (entered o.tr).Nodup :=
  (once table table_StepsDistinct v hv fuel t s o h hnd).1

/-! ### non-vacuity and bounded instances of the tree-level specification `Spec.editAt` -/

/-- the hypotheses of `identity_noop` / `balanced` / `coverage_partial` / `once` are met by real documents:
    the identity visit of each witness completes, and the witnesses have distinct identities -/
example : (implKeys 64 witnessSmall).isSome = true ∧ (implKeys 64 witnessExec).isSome = true ∧
    (implKeys 64 witnessSdl).isSome = true := by decide +kernel
example : (idsNode witnessSmall).Nodup ∧ (idsNode witnessExec).Nodup := by decide +kernel


/-- such a visitor that deletes or skips is identity preserving (hypothesis of `balanced`) -/
example (i : Nat) : IdPreserving (actAt i fun _ => .delete) := by
  intro n s; simp only [actAt]; cases n.id == i <;> simp
example (i : Nat) : IdPreserving (actAt i fun n => .skip n) := by
  intro n s; simp only [actAt]; cases n.id == i <;> simp

private def pathB : List (String × Option Nat) := [("definitions", some 0), ("selection_set", none), ("selections", some 1)]

private def sameTree (r : Res (Out Unit)) (e : Option (Option Node)) : Bool :=
  match r, e with
  | .ok o, some (some b) => (match o.ret with | some a => Node.beq a b | none => false)
  | _, _ => false

/-- `{ a(x: 1) @d b { c } }`, deleting field `b` (identity 10): the result is `Spec.editAt` (exactly that member
    removed), and the calls are those of the identity visit minus the inside of `b` -/
example : sameTree (visit table (actAt 10 fun _ => .delete) 64 witnessSmall ()) (Spec.editAt pathB .delete witnessSmall) = true ∧
    (match visit table (actAt 10 fun _ => .delete) 64 witnessSmall () with
     | .ok o => o.tr.map Ev.key
     | _ => []) = (specKeys witnessSmall).filter (fun k => !(k.2.1 == 12 || k.2.1 == 13 || (k.2.1 == 10 && !k.1))) := by
  decide +kernel

/-- skipping `b`: tree unchanged, same calls as for the deletion -/
example : sameTree (visit table (actAt 10 fun n => .skip n) 64 witnessSmall ()) (some (some witnessSmall)) = true ∧
    (match visit table (actAt 10 fun n => .skip n) 64 witnessSmall () with
     | .ok o => o.tr.map Ev.key
     | _ => []) = (specKeys witnessSmall).filter (fun k => !(k.2.1 == 12 || k.2.1 == 13 || (k.2.1 == 10 && !k.1))) := by
  decide +kernel

/-- replacing `b` by a fresh leaf field: the result is `Spec.editAt … (.replace r)` -/
example :
    let r : Node := .mk "Field" 100 [("name", .one none), ("alias", .one none), ("arguments", .many []), ("directives", .many []), ("selection_set", .one none)]
    sameTree (visit table (actAt 10 fun _ => .replace r) 64 witnessSmall ()) (Spec.editAt pathB (.replace r) witnessSmall) = true := by
  decide +kernel

/-! ### tree-level locality for today's table -/

/-- delete / replace / skip at ANY position reached by today's traversal give exactly `Spec.editAt` -/
theorem edits_today (x t : Node) (p : List (String × Option Nat)) (fuel : Nat) (o : Out Unit)
    (hr : ReachV table t p) (hnd : (idsNode t).Nodup) (hx : Spec.nodeAt p t = some x) :
    (visit table (actAt x.id fun _ => .delete) fuel t () = .ok o → Spec.editAt p .delete t = some o.ret) ∧
    (∀ r, x.id ∉ idsNode r → visit table (actAt x.id fun _ => .replace r) fuel t () = .ok o →
        Spec.editAt p (.replace r) t = some o.ret) ∧
    (visit table (actAt x.id fun n => .skip n) fuel t () = .ok o → o.ret = some t) :=
  ⟨delete_at table table_StepsDistinct x t p fuel o hr hnd hx,
   fun r hf => replace_at table table_StepsDistinct x t r p fuel o hr hnd hx hf,
   skip_at table table_StepsDistinct x t p fuel o hr hnd hx⟩

mutual
/-- paths of all non-name nodes of a tree (specification side: every child attribute) -/
def pathsNode : Node → List (List (String × Option Nat))
  | .mk _ _ a => [] :: pathsAttrs a
def pathsAttrs : List (String × Attr) → List (List (String × Option Nat))
  | [] => []
  | (name, a) :: r => pathsAttr name a ++ pathsAttrs r
def pathsAttr (name : String) : Attr → List (List (String × Option Nat))
  | .scalar _ => []
  | .one none => []
  | .one (some c) => if c.kind == "Name" then [] else (pathsNode c).map ((name, none) :: ·)
  | .many cs => pathsList name 0 cs
def pathsList (name : String) (i : Nat) : List Node → List (List (String × Option Nat))
  | [] => []
  | c :: r => (if c.kind == "Name" then [] else (pathsNode c).map ((name, some i) :: ·)) ++ pathsList name (i + 1) r
end

/-- non-vacuity: EVERY non-name position of `{ a(x: 1) @d b { c } }` (10 positions) is reached by today's traversal,
    so `edits_today` applies to all of them; in the executable witness 17 positions are reached and 8 are not (W1–W3, after fixes W2b / W3b) -/
example : (pathsNode witnessSmall).length = 10 ∧
    (pathsNode witnessSmall).all (fun p => reachVB table witnessSmall p) = true := by decide +kernel
example : ((pathsNode witnessExec).filter (fun p => reachVB table witnessExec p)).length = 17 ∧
    ((pathsNode witnessExec).filter (fun p => !reachVB table witnessExec p)).length = 8 := by decide +kernel
example : ReachV table witnessSmall pathB := reachVB_sound table _ _ (by decide +kernel)

/-- structurally equal siblings (`{ id name id friends { id } id }`, parsed without locations): deleting the SECOND `id`
    (identity 7, index 2) removes exactly that occurrence — the result is `Spec.editAt` at index 2, not at index 0 -/
example :
    sameTree (visit table (actAt 7 fun _ => .delete) 64 witnessDup ())
      (Spec.editAt [("definitions", some 0), ("selection_set", none), ("selections", some 2)] .delete witnessDup) = true ∧
    sameTree (visit table (actAt 7 fun _ => .delete) 64 witnessDup ())
      (Spec.editAt [("definitions", some 0), ("selection_set", none), ("selections", some 0)] .delete witnessDup) = false ∧
    (idsNode witnessDup).Nodup := by decide +kernel

/-! ### replacement by a node of another class (W7) -/

/-- the wrapper dispatches on the class of the node returned by `enter` (holds with proposed fix C18-W7; without it
    `_visit_field` goes on with a `FragmentSpread` and raises `AttributeError`) -/
theorem table_cross_kind : table.crossKind = true := by decide +kernel

/-- with that, a replacement of another class handled by `visit` is traversed by the method of ITS class -/
theorem cross_kind_body (m m' : String) (n r : Node) (hk : r.kind ≠ n.kind) (hv : table.visit.lookup r.kind = some m') :
    bodyMethod table m n r = .ok m' := by
  simp [bodyMethod, table_cross_kind, hk, hv]

/-- `{ a(x: 1) @d b { c } }`: the field `b` replaced by a fragment spread — the visit completes and the result is
    `Spec.editAt … (.replace r)` (`replace_at` states the same for every reached position and every fresh `r`) -/
example :
    let r : Node := .mk "FragmentSpread" 100 [("name", .one none), ("directives", .many [])]
    sameTree (visit table (actAt 10 fun _ => .replace r) 64 witnessSmall ()) (Spec.editAt pathB (.replace r) witnessSmall) = true := by
  decide +kernel

/-- `ChainedVisitor`: a member's `SkipNode` is its own (holds with proposed fix C18-W8; without it the loop is aborted:
    the members before the raiser are never left, the members after it never enter the node) -/
theorem table_chain_personal_skip : chainPersonalSkip = true := by decide +kernel

end PyGql.Props.C18

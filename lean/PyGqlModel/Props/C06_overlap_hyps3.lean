/-
  C06 - property theorems, part 17: DISCHARGING `OverlapHyps`, (3) FUEL SUFFICIENCY.

  `noCrash_of_ranks`: the run of `OverlappingFieldsCanBeMergedChecker` alone does not crash (`NoCrash`: neither the
  `RecursionError` of an exhausted fuel - the model's fuel is `overlapFuel` = 400 frames - nor the `AttributeError` of
  ledger V2, fixed at the head) on every document that passes the STATIC rank check `rankOkB s d ρ`
  (`Validate/OverlapRank.lean`): every selection set has a rank ≥ 2, at least 2 above the ranks of the sub-selections
  of its fields (those of its inline fragments included) and of the bodies of the fragments it spreads, and
  `2·rank + 2 ≤ overlapFuel`. The ranks `ρ` are arbitrary - only the check is trusted; `computeRanks d` proposes
  them (nesting / spread depth, times 2). Such ranks exist exactly for documents whose fragment spreads are acyclic and
  whose nesting depth (through spreads) stays below 100; no run of the search is needed to establish `NoCrash`.

  Proof: potentials for the five mutually recursive search functions
     find(f1,f2)         rank f1 + rank f2 + 5        sub(A,B)      rank A + rank B + 4
     between(fm1,fm2)    max fm1 + max fm2 + 6        fields/frag   max fm + rank (body g) + 6
     frag/frag           rank (body g1) + rank (body g2) + 6
  each call made with fuel `n` has potential ≤ `n`, and every callee's potential is smaller by at least 1
  (`Lemmas/ValidateOverlapFuel{,2,3,4}.lean`; the compared-pairs memo and the compared-fragments set only cut calls).

  `overlapHyps_of_wf_ranked`, `rule_overlapping_fields_can_be_merged_iff_ranked`: `OverlapHyps` and the equivalence of
  5.3.2 with the static checks `wfIdsB`, `noMetaSubsB`, `rankOkB` in place of the run observation `overlapNoCrashB`.
-/
import PyGqlModel.Props.C06_overlap_hyps2
import PyGqlModel.Lemmas.ValidateOverlapFuel3
import PyGqlModel.Lemmas.ValidateOverlapFuel4
namespace PyGql.Props.C06
open PyGql PyGql.Validate PyGql.Validate.Spec

/-- **(3) fuel sufficiency**: a document that passes the rank check never crashes the rule -/
theorem noCrash_of_ranks (s : SchemaD) (fx : Fixes) (h7 : fx.v7 = true) (d : Doc) (ρ : Nat → Nat)
    (h : rankOkB s d ρ = true) : NoCrash s fx d :=
  ov_document_nocrash s fx d ρ (rankOk_of_check s d ρ h) h7

/-- the static checks of the driver: identities, meta fields, ranks (given as a table) -/
structure DocChecksStatic (s : SchemaD) (d : Doc) (ranks : List (Nat × Nat)) : Prop where
  ids : wfIdsB d = true
  noMeta : noMetaSubsB d = true
  ranked : rankOkB s d (rankOf ranks) = true

/-- **`OverlapHyps` discharged, statically**: no run of the search among the hypotheses -/
theorem overlapHyps_of_wf_ranked (s : SchemaD) (fx : Fixes) (h7 : fx.v7 = true) (d : Doc) (ranks : List (Nat × Nat))
    (hck : DocChecksStatic s d ranks) (hne : NamesNonEmpty d)
    (hout : ∀ T name fd, fieldOf s T name = some fd → isOutputTy s fd.type = true)
    (hnd : Spec.uniqueFragmentNames d) (hac : Spec.noFragmentCycles d)
    (hsl : Spec.scalarLeafs s d) (hfc : Spec.fragmentsOnCompositeTypes s d) : OverlapHyps s fx d :=
  ⟨parentsAgree_of_rules s d hout hsl hfc ((noMetaSubsB_iff d).mp hck.noMeta) ((wfIdsB_iff d).mp hck.ids),
   overlapSide_of_wfB s d hck.ids hne hnd hac,
   noCrash_of_ranks s fx h7 d _ hck.ranked⟩

/-- **5.3.2, the equivalence with static checks only** -/
theorem rule_overlapping_fields_can_be_merged_iff_ranked (s : SchemaD) (fx : Fixes) (h7 : fx.v7 = true) (d : Doc)
    (ranks : List (Nat × Nat)) (hck : DocChecksStatic s d ranks) (hne : NamesNonEmpty d)
    (hout : ∀ T name fd, fieldOf s T name = some fd → isOutputTy s fd.type = true)
    (hnd : Spec.uniqueFragmentNames d) (hac : Spec.noFragmentCycles d)
    (hsl : Spec.scalarLeafs s d) (hfc : Spec.fragmentsOnCompositeTypes s d) :
    Silent s fx .overlappingFieldsCanBeMerged d ↔ Spec.overlappingFieldsCanBeMerged s d := by
  obtain ⟨hpa, hsc, hnc⟩ := overlapHyps_of_wf_ranked s fx h7 d ranks hck hne hout hnd hac hsl hfc
  exact rule_overlapping_fields_can_be_merged_iff_partial s fx h7 d hpa hsc hnc

/-! non-vacuity: the proposed ranks pass the check, by evaluation, on the documents of the earlier parts (a flat
    one, one with two fragments) and on a nested selection; a fragment spreading itself has no ranks: the proposal fails the check -/
example : DocChecksStatic oSchema oDocOk (computeRanks oDocOk) := ⟨by decide, by decide, by decide +kernel⟩
example : DocChecksStatic oSchema (oDocFrag "a") (computeRanks (oDocFrag "a")) := ⟨by decide, by decide, by decide +kernel⟩
example : NoCrash oSchema Fixes.all (oDocFrag "a") :=
  noCrash_of_ranks oSchema Fixes.all rfl _ (rankOf (computeRanks (oDocFrag "a"))) (by decide +kernel)
example : let dc : Doc := ⟨[opV [] 1 [.field none "o" [] [] true 2 [.field none "o" [] [] true 3 [fld none "a"]]]]⟩
    computeRanks dc = [(1, 6), (2, 4), (3, 2)] ∧ rankOkB oSchema dc (rankOf (computeRanks dc)) = true := by decide +kernel
example : let dc : Doc := ⟨[.frag "F" "Query" [] 1 [.spread "F" []]]⟩
    rankOkB oSchema dc (rankOf (computeRanks dc)) = false := by decide +kernel

end PyGql.Props.C06

/-
  C20 — the two extra hypotheses of the input-side preservation theorems cannot be dropped (machine-checked witnesses):

  * `fix_v9_necessary`: on the validator WITHOUT fix V9 (`parent_input_type` only looked at an UNWRAPPED input object)
    ValuesOfCorrectType is not preserved: `f(a: In!)` → `f(a: In)` is a safe change, `{ f(a: {nope: true}) }` was
    accepted (the unknown field of the wrapped `In!` was not looked at) and is rejected afterwards.
  * `values_rule_necessary`: VariablesInAllowedPosition alone is not preserved; ValuesOfCorrectType on the old schema
    is needed: `query ($v: String) { f(a: {nope: $v}) }` passes 5.8.5 on the old schema (the position of `$v` has no
    known type), an OPTIONAL input field `nope: Int` is added (not breaking), and `$v: String` is then at an `Int`
    position.
-/
import PyGqlModel.Props.C20_rules_all

set_option linter.unusedSimpArgs false
set_option linter.unusedVariables false

namespace PyGql.Props.C20
open PyGql PyGql.Differ PyGql.Diff PyGql.Validate PyGql.Validate.Spec

private def nb : List TypeD :=
  [{ kind := .scalar, name := "Int" }, { kind := .scalar, name := "String" }, { kind := .scalar, name := "Boolean" },
   { kind := .object, name := "__Schema" }, { kind := .object, name := "__Type" }]

private def nSchema (argTy : Ty) (fields : List ArgD) : SchemaD :=
  { query := some "Query",
    types := nb ++
      [{ kind := .input, name := "In", inputFields := fields },
       { kind := .object, name := "Query",
         fields := [{ name := "f", type := .named "Int", args := [{ name := "a", type := argTy }] }] }] }

private def inX : List ArgD := [{ name := "x", type := .named "Int" }]

/-- `f(a: In!)` -/
private def v9Old : SchemaD := nSchema (.nonNull (.named "In")) inX
/-- `f(a: In)` -/
private def v9New : SchemaD := nSchema (.named "In") inX
/-- `{ f(a: {nope: true}) }` -/
private def v9Doc : Doc :=
  { defs := [.op "query" none [] [] 0
      [.field none "f" [{ name := "a", value := .obj [.mk "nope" (.bool true)] }] [] false 0 []]] }

private def noV9 : Fixes := { v9 := false }

/-- **fix V9 is necessary** for `nobreaking_valuesOfCorrectType` -/
theorem fix_v9_necessary :
    ∃ (o n : SchemaD) (d : Doc) (fx : Fixes), diffSchema o n 2 = [] ∧ OldWf o ∧ NewWf n ∧ OldWfIn o ∧ NewWfIn n ∧
      OpsRooted o d ∧ SchemaRules o d ∧ valuesOfCorrectType o fx d ∧ ¬ valuesOfCorrectType n fx d := by
  refine ⟨v9Old, v9New, v9Doc, noV9, by decide +kernel, ?_, ?_, ?_, ?_, rooted_of_rootedB _ _ (by decide),
    rules_of_rulesB _ _ (by decide), ?_, ?_⟩
  · refine ⟨rfl, ?_, by decide, by decide, by decide⟩; decide
  · constructor <;> simp [Uniq, v9New, nSchema, nb]
  · refine ⟨?_, ?_, ?_⟩ <;> simp [ArgsWf, v9Old, nSchema, nb, inX, Ty.wf, Ty.isNonNull, Ty.base] <;> decide
  · constructor; simp [Uniq, v9New, nSchema, nb, inX]
  · exact (PyGql.Props.C06.rule_values_of_correct_type_iff v9Old noV9 v9Doc).mp
      (by unfold PyGql.Props.C06.Silent; decide +kernel)
  · intro h
    exact absurd ((PyGql.Props.C06.rule_values_of_correct_type_iff v9New noV9 v9Doc).mpr h)
      (by unfold PyGql.Props.C06.Silent; decide +kernel)

/-- `input In { x: Int }`, `f(a: In)` -/
private def vrOld : SchemaD := nSchema (.named "In") inX
/-- the same with an optional input field `nope: Int` added -/
private def vrNew : SchemaD := nSchema (.named "In") (inX ++ [{ name := "nope", type := .named "Int" }])
/-- `query ($v: String) { f(a: {nope: $v}) }` -/
private def vrDoc : Doc :=
  { defs := [.op "query" none [{ name := "v", type := .named "String", default := none }] [] 0
      [.field none "f" [{ name := "a", value := .obj [.mk "nope" (.var "v")] }] [] false 0 []]] }

/-- **ValuesOfCorrectType on the old schema is necessary** for `nobreaking_variablesInAllowedPosition` -/
theorem values_rule_necessary :
    ∃ (o n : SchemaD) (d : Doc), diffSchema o n 2 = [] ∧ OldWf o ∧ NewWf n ∧ OldWfIn o ∧
      OpsRooted o d ∧ SchemaRules o d ∧ variablesInAllowedPosition o d ∧ ¬ variablesInAllowedPosition n d ∧
      ¬ valuesOfCorrectType o {} d := by
  refine ⟨vrOld, vrNew, vrDoc, by decide +kernel, ?_, ?_, ?_, rooted_of_rootedB _ _ (by decide),
    rules_of_rulesB _ _ (by decide), ?_, ?_, ?_⟩
  · refine ⟨rfl, ?_, by decide, by decide, by decide⟩; decide
  · constructor <;> simp [Uniq, vrNew, nSchema, nb]
  · refine ⟨?_, ?_, ?_⟩ <;> simp [ArgsWf, vrOld, nSchema, nb, inX, Ty.wf, Ty.isNonNull, Ty.base] <;> decide
  · exact (PyGql.Props.C06.rule_variables_in_allowed_position_iff vrOld {} rfl rfl vrDoc).mp
      (by unfold PyGql.Props.C06.Silent; decide +kernel)
  · intro h
    exact absurd ((PyGql.Props.C06.rule_variables_in_allowed_position_iff vrNew {} rfl rfl vrDoc).mpr h)
      (by unfold PyGql.Props.C06.Silent; decide +kernel)
  · intro h
    exact absurd ((PyGql.Props.C06.rule_values_of_correct_type_iff vrOld {} vrDoc).mpr h)
      (by unfold PyGql.Props.C06.Silent; decide +kernel)

end PyGql.Props.C20

/-
  C07 — literal / variable equivalence, fuel-free, with the custom-scalar hypothesis at exactly the reachable positions
  (`Props/C07_equiv_at.lean`) — the form closest to the property's last sentence: "supplying a value inline or through a
  variable of the same type gives the resolver the same arguments"; and the converse `customAgree_necessary`: at a custom scalar
  the equivalence IS the agreement of the scalar's own two parsers, so the hypothesis cannot be weakened.
-/
import PyGqlModel.Props.C07_fuel
import PyGqlModel.Props.C07_equiv_at

set_option linter.unusedSimpArgs false
set_option linter.unusedVariables false

namespace PyGql.Props.C07
open PyGql PyGql.Coerce PyGql.Generated.Scalars

/-- **literal_variable_equiv_total_at**: fuel-free; only the custom scalars that are positions of `ty` have to agree -/
theorem literal_variable_equiv_total_at (reg : Reg) (ty : Ty) (hagree : CustomAgreeOn reg (Reach reg ty))
    (vars : Option (List (String × PV))) (j : JV) (l : Lit) (h : AstOfJson reg ty j l) :
    (valueFromAstT reg vars ty l).toOption = (coerceValueT reg ty j).toOption := by
  have hm := literal_variable_equiv_at reg ty hagree vars (max (fuelFor reg ty (sizeOf l)) (fuelFor reg ty (sizeOf j))) j l h
  rwa [valueFromAst_eq_total reg vars _ ty l (Nat.le_max_left _ _), coerceValue_eq_total reg _ ty j (Nat.le_max_right _ _)] at hm

/-- **same_arguments_builtin**: UNCONDITIONAL for types without custom-scalar positions — the resolver receives `pv` for the
    inline spelling iff it receives `pv` for the same value sent through a variable (and one route rejects iff the other does). -/
theorem same_arguments_builtin (reg : Reg) (ty : Ty) (hno : NoCustomAt reg ty)
    (vars : Option (List (String × PV))) (j : JV) (l : Lit) (h : AstOfJson reg ty j l) (pv : PV) :
    valueFromAstT reg vars ty l = .ok pv ↔ coerceValueT reg ty j = .ok pv := by
  have := literal_variable_equiv_total_at reg ty (fun n _ _ _ hS hk _ => absurd hk (hno n hS)) vars j l h
  revert this
  cases valueFromAstT reg vars ty l <;> cases coerceValueT reg ty j <;> simp [Except.toOption]
  · intro h; subst h; exact Iff.rfl

/-- **customAgree_necessary.** The hypothesis of `literal_variable_equiv_at` cannot be weakened at the base position: if inline and
    variable agree on every natural-kind value at a custom scalar `n`, then the scalar's own two parsers agree on every JSON scalar
    and its spelling (with the request's variables). So `CustomAgreeOn` at the reachable custom scalars is exactly what the
    equivalence amounts to there — an obligation of the scalar's author, not of the library. -/
theorem customAgree_necessary (reg : Reg) (n : String) (hk : reg.get? n = some .custom) (vars : Option (List (String × PV)))
    (h : ∀ j l, AstOfJson reg (.named n) j l → (valueFromAst reg vars 1 (.named n) l).toOption = (coerceValue reg 1 (.named n) j).toOption) :
    ∀ j l, LeafSpell j l → (reg.customParseLiteral n (vars.getD []) l).toR.toOption = (reg.customParse n j).toR.toOption := by
  intro j l hs
  have := h j l (.custom hk hs)
  cases hs <;> simpa [valueFromAst, coerceValue, vfaCore, coerceCore, Lit.isNull, JV.isNull, hk, isScalarLit, litAdmitted, Ty.base, Ty.isNonNull, stripNN] using this

/-- non-vacuity of the necessity direction: the library's own stand-in scalar (`default_scalar`) does NOT give the same
    arguments inline and through a variable — `5` inline is the text "5", through a variable the int 5 (finding A10) -/
theorem default_scalar_routes_differ :
    ¬ (∀ j l, AstOfJson (Reg.ofTypes [("Any", .custom)]) (.named "Any") j l →
        (valueFromAst (Reg.ofTypes [("Any", .custom)]) none 1 (.named "Any") l).toOption
          = (coerceValue (Reg.ofTypes [("Any", .custom)]) 1 (.named "Any") j).toOption) := by
  intro h
  have h5 := customAgree_necessary (Reg.ofTypes [("Any", .custom)]) "Any" rfl none h (.int 5) (.int 5) .int
  simp [Reg.ofTypes, defaultScalarParse, defaultScalarParseLiteral, untypedLiteral, ParseOut.toR, Except.toOption, pvOfJson, jvAllFinite] at h5

end PyGql.Props.C07

/-
  C06 - property theorems, part 21: `NoUnusedFragmentsChecker` against 5.5.1.4 itself.

  The visitor implements `Spec.everyFragmentSpreadSomewhere` (every fragment name is the name of SOME spread of the
  document, `rule_no_unused_fragments_iff_implemented`; ledger V6: a spread made from an unused fragment counts). The
  clause of the specification is `Spec.noUnusedFragments`: every fragment is reachable from an operation. On documents
  whose fragment names are unique and whose spreads are acyclic (the clauses of UniqueFragmentNames and
  NoFragmentCycles) the two are EQUIVALENT: climbing from a fragment to a definition that spreads it can repeat no name
  (that would be a cycle), so after at most `fragNames.length` steps it ends in an operation.
  Without acyclicity the implemented clause is strictly weaker: `fragment A {...B} fragment B {...A}` (witness below).
-/
import PyGqlModel.Props.C06_cycles3
import PyGqlModel.Props.C06_frags
namespace PyGql.Props.C06
open PyGql PyGql.Validate PyGql.Validate.Spec

def Node.isFragDef : Node → Bool | .fragmentDef .. => true | _ => false

theorem notFragDef_of_inert {n : Node} (h : Node.isCycNode n = false) : Node.isFragDef n = false := by
  cases n <;> simp_all [Node.isCycNode, Node.isFragDef]

mutual
theorem selNodes_no_fragmentDef : ∀ (x : Sel) (n : Node), n ∈ selNodes x → Node.isFragDef n = false
  | .field al name args dirs true id sub, n, h => by
    simp only [selNodes, ↓reduceIte, List.mem_cons, List.mem_append] at h
    rcases h with rfl | (ha | hd) | rfl | hs
    · rfl
    · exact notFragDef_of_inert (argsNodes_inert args n ha)
    · exact notFragDef_of_inert (dirsNodes_inert dirs n hd)
    · rfl
    · exact selsNodes_no_fragmentDef sub n hs
  | .field al name args dirs false id sub, n, h => by
    simp only [selNodes, Bool.false_eq_true, ↓reduceIte, List.mem_cons, List.mem_append, List.not_mem_nil, or_false] at h
    rcases h with rfl | ha | hd
    · rfl
    · exact notFragDef_of_inert (argsNodes_inert args n ha)
    · exact notFragDef_of_inert (dirsNodes_inert dirs n hd)
  | .spread nm dirs, n, h => by
    simp only [selNodes, List.mem_cons] at h
    rcases h with rfl | hd
    · rfl
    · exact notFragDef_of_inert (dirsNodes_inert dirs n hd)
  | .inline on dirs id sub, n, h => by
    simp only [selNodes, List.mem_cons, List.mem_append] at h
    rcases h with rfl | hd | rfl | hs
    · rfl
    · exact notFragDef_of_inert (dirsNodes_inert dirs n hd)
    · rfl
    · exact selsNodes_no_fragmentDef sub n hs
theorem selsNodes_no_fragmentDef : ∀ (xs : List Sel) (n : Node), n ∈ selsNodes xs → Node.isFragDef n = false
  | [], n, h => by simp [selsNodes] at h
  | x :: xs, n, h => by
    simp only [selsNodes, List.mem_append] at h
    rcases h with h | h
    · exact selNodes_no_fragmentDef x n h
    · exact selsNodes_no_fragmentDef xs n h
end

theorem varDefNodes_inert (v : VarDef) : ∀ n ∈ varDefNodes v, Node.isCycNode n = false := by
  intro n hn
  simp only [varDefNodes, List.mem_cons, List.mem_append, List.not_mem_nil, or_false] at hn
  rcases hn with rfl | hn | rfl | hn
  · rfl
  · cases hd : v.default with
    | none => rw [hd] at hn; cases hn
    | some dv =>
      rw [hd] at hn
      have := valueNodes_kinds _ n hn
      cases n <;> simp_all [Node.isValueish, Node.isCycNode]
  · rfl
  · exact dirsNodes_inert v.dirs n hn

theorem mem_directSpreads {sels : List Sel} {f : String} :
    f ∈ Spec.directSpreads sels ↔ ∃ ds, Node.spread f ds ∈ selsNodes sels := by
  unfold Spec.directSpreads
  rw [List.mem_filterMap]
  constructor
  · rintro ⟨n, hn, e⟩
    cases n <;> simp at e
    subst e
    exact ⟨_, hn⟩
  · rintro ⟨ds, h⟩
    exact ⟨_, h, rfl⟩

/-- where a spread node of the document sits: in the selections of an operation or of a fragment definition -/
theorem spread_node_home (d : Doc) (f : String) (ds : List Dir) (h : Node.spread f ds ∈ nodes d) :
    (∃ k n vs dirs i sels, Def.op k n vs dirs i sels ∈ d.defs ∧ f ∈ Spec.directSpreads sels) ∨
    (∃ g on dirs i sels, Def.frag g on dirs i sels ∈ d.defs ∧ f ∈ Spec.directSpreads sels) := by
  simp only [nodes, List.mem_cons, List.mem_flatMap, reduceCtorEq, false_or] at h
  obtain ⟨x, hx, hm⟩ := h
  cases x with
  | op k n vs dirs i sels =>
    left
    refine ⟨k, n, vs, dirs, i, sels, hx, mem_directSpreads.mpr ⟨ds, ?_⟩⟩
    simp only [defNodes, List.mem_cons, List.mem_append, List.mem_flatMap, reduceCtorEq, false_or] at hm
    rcases hm with (⟨v, _, hv⟩ | hd) | hs
    · exact absurd (varDefNodes_inert v _ hv) (by simp [Node.isCycNode])
    · exact absurd (dirsNodes_inert dirs _ hd) (by simp [Node.isCycNode])
    · exact hs
  | frag g on dirs i sels =>
    right
    refine ⟨g, on, dirs, i, sels, hx, mem_directSpreads.mpr ⟨ds, ?_⟩⟩
    simp only [defNodes, List.mem_cons, List.mem_append, reduceCtorEq, false_or] at hm
    rcases hm with hd | hs
    · exact absurd (dirsNodes_inert dirs _ hd) (by simp [Node.isCycNode])
    · exact hs
  | ts a b => simp [defNodes] at hm

theorem frag_mem_fragsOf {ds : List Def} {g on : String} {dirs : List Dir} {i : Nat} {sels : List Sel}
    (h : Def.frag g on dirs i sels ∈ ds) : (g, sels) ∈ fragsOf ds := by
  unfold fragsOf
  exact List.mem_filterMap.mpr ⟨_, h, rfl⟩

theorem frag_mem_fragNames {d : Doc} {g on : String} {dirs : List Dir} {i : Nat} {sels : List Sel}
    (h : Def.frag g on dirs i sels ∈ d.defs) : g ∈ Spec.fragNames d := by
  unfold Spec.fragNames
  exact List.mem_filterMap.mpr ⟨_, h, rfl⟩

/-- the selections `fragSels` returns, when not empty, are those of a definition of the document -/
theorem fragSels_home (d : Doc) (a : String) (f : String) (h : f ∈ Spec.directSpreads (Spec.fragSels d a)) :
    ∃ on dirs i sels, Def.frag a on dirs i sels ∈ d.defs ∧ f ∈ Spec.directSpreads sels := by
  unfold Spec.fragSels at h
  generalize hf : List.findSome? _ d.defs = o at h
  cases o with
  | none => simp [Spec.directSpreads, selsNodes] at h
  | some sels =>
    obtain ⟨x, hx, hs⟩ := List.exists_of_findSome?_eq_some hf
    cases x with
    | frag n on dirs i ss =>
      simp only at hs
      split at hs
      · rename_i hn
        cases hs
        have : n = a := by simpa using hn
        subst this
        exact ⟨on, dirs, i, _, hx, h⟩
      · cases hs
    | op => simp at hs
    | ts => simp at hs

/-- the last step of a path -/
theorem reach_last {d : Doc} {g f : String} (h : Spec.Reach d g f) : ∃ a, f ∈ Spec.directSpreads (Spec.fragSels d a) := by
  induction h with
  | step h => exact ⟨_, h⟩
  | trans _ _ _ ih => exact ih

theorem spread_node_of_direct {d : Doc} {x : Def} (hx : x ∈ d.defs) {sels : List Sel} {f : String}
    (hs : (∃ k n vs dirs i, x = Def.op k n vs dirs i sels) ∨ (∃ g on dirs i, x = Def.frag g on dirs i sels))
    (h : f ∈ Spec.directSpreads sels) : ∃ m ∈ nodes d, ∃ ds, m = Node.spread f ds := by
  obtain ⟨ds, hm⟩ := mem_directSpreads.mp h
  refine ⟨_, ?_, ds, rfl⟩
  simp only [nodes, List.mem_cons, List.mem_flatMap, reduceCtorEq, false_or]
  refine ⟨x, hx, ?_⟩
  rcases hs with ⟨k, n, vs, dirs, i, rfl⟩ | ⟨g, on, dirs, i, rfl⟩
  · simp only [defNodes, List.mem_cons, List.mem_append, reduceCtorEq, false_or]
    exact Or.inr hm
  · simp only [defNodes, List.mem_cons, List.mem_append, reduceCtorEq, false_or]
    exact Or.inr hm

/-- **5.5.1.4 ⇒ the implemented clause** (no hypothesis): a used fragment is the target of some spread -/
theorem no_unused_implies_spread_somewhere (d : Doc) (h : Spec.noUnusedFragments d) : Spec.everyFragmentSpreadSomewhere d := by
  intro n hn name on dirs e
  subst e
  have hf : name ∈ Spec.fragNames d := by
    simp only [nodes, List.mem_cons, List.mem_flatMap, reduceCtorEq, false_or] at hn
    obtain ⟨x, hx, hm⟩ := hn
    cases x with
    | op k n vs dirs' i sels =>
      simp only [defNodes, List.mem_cons, List.mem_append, List.mem_flatMap, reduceCtorEq, false_or] at hm
      rcases hm with (⟨v, _, hv⟩ | hd) | hs
      · exact absurd (varDefNodes_inert v _ hv) (by simp [Node.isCycNode])
      · exact absurd (dirsNodes_inert dirs' _ hd) (by simp [Node.isCycNode])
      · exact absurd (selsNodes_no_fragmentDef sels _ hs) (by simp [Node.isFragDef])
    | frag g on' dirs' i sels =>
      simp only [defNodes, List.mem_cons, List.mem_append, reduceCtorEq, false_or] at hm
      rcases hm with e | hd | hs
      · cases e; exact frag_mem_fragNames hx
      · exact absurd (dirsNodes_inert dirs' _ hd) (by simp [Node.isCycNode])
      · exact absurd (selsNodes_no_fragmentDef sels _ hs) (by simp [Node.isFragDef])
    | ts a b => simp [defNodes] at hm
  obtain ⟨x, hx, k, nm, vs, ds, i, sels, rfl, hu⟩ := h name hf
  rcases hu with hdir | ⟨g, _, hr⟩
  · exact spread_node_of_direct hx (Or.inl ⟨k, nm, vs, ds, i, rfl⟩) hdir
  · obtain ⟨a, ha⟩ := reach_last hr
    obtain ⟨on', dirs', i', sels', hmem, hd⟩ := fragSels_home d a name ha
    exact spread_node_of_direct hmem (Or.inr ⟨a, on', dirs', i', rfl⟩) hd

/-! ### the implemented clause ⇒ 5.5.1.4, on acyclic documents with unique fragment names -/

/-- under the implemented clause every fragment is spread by an operation or by a (defined) fragment -/
theorem spread_by_someone (d : Doc) (hnd : Spec.uniqueFragmentNames d) (h : Spec.everyFragmentSpreadSomewhere d)
    (f : String) (hf : f ∈ Spec.fragNames d) :
    (∃ x ∈ d.defs, ∃ k n vs ds i sels, x = Def.op k n vs ds i sels ∧ f ∈ Spec.directSpreads sels) ∨
    (∃ g ∈ Spec.fragNames d, f ∈ Spec.directSpreads (Spec.fragSels d g)) := by
  obtain ⟨x, hx, e⟩ := List.mem_filterMap.mp hf
  cases x with
  | frag n on dirs i sels =>
    simp only [Option.some.injEq] at e
    subst e
    have hnode : Node.fragmentDef n on dirs ∈ nodes d := by
      simp only [nodes, List.mem_cons, List.mem_flatMap, reduceCtorEq, false_or]
      exact ⟨_, hx, by simp [defNodes]⟩
    obtain ⟨m, hm, ds, rfl⟩ := h _ hnode n on dirs rfl
    rcases spread_node_home d n ds hm with ⟨k, nm, vs, dirs', i', sels', hmem, hd⟩ | ⟨g, on', dirs', i', sels', hmem, hd⟩
    · exact Or.inl ⟨_, hmem, k, nm, vs, dirs', i', sels', rfl, hd⟩
    · right
      refine ⟨g, frag_mem_fragNames hmem, ?_⟩
      have hnd' : ((fragsOf d.defs).map (·.1)).Nodup := by rw [← fragNames_eq_fragsOf]; exact hnd
      have : Spec.fragSels d g = sels' := fragSels_of_mem d.defs g sels' hnd' (frag_mem_fragsOf hmem)
      rw [this]; exact hd
  | op => simp at e
  | ts => simp at e

/-- climbing from `f` to the definitions that spread it; `visited` = `f` and names below it -/
theorem climb (d : Doc) (hnd : Spec.uniqueFragmentNames d) (hac : Spec.noFragmentCycles d)
    (h : Spec.everyFragmentSpreadSomewhere d) :
    ∀ (n : Nat) (f : String) (visited : List String), f ∈ Spec.fragNames d → visited.Nodup →
      visited ⊆ Spec.fragNames d → (∀ v ∈ visited, v = f ∨ Spec.Reach d f v) → f ∈ visited →
      (Spec.fragNames d).length ≤ visited.length + n →
      ∃ x ∈ d.defs, ∃ k nm vs ds i sels, x = Def.op k nm vs ds i sels ∧ Spec.UsedBy d sels f := by
  intro n
  induction n with
  | zero =>
    intro f visited hf hvn hvs hinv hfv hlen
    rcases spread_by_someone d hnd h f hf with ⟨x, hx, k, nm, vs, ds, i, sels, e, hd⟩ | ⟨g, hg, hd⟩
    · exact ⟨x, hx, k, nm, vs, ds, i, sels, e, Or.inl hd⟩
    · exfalso
      have hgv : g ∉ visited := by
        intro hgv
        rcases hinv g hgv with e | hr
        · subst e; exact hac g hg (.step hd)
        · exact hac f hf (.trans hr (.step hd))
      have hl : (g :: visited).length ≤ (Spec.fragNames d).length :=
        List.Nodup.length_le_of_subset (List.nodup_cons.mpr ⟨hgv, hvn⟩)
          (fun y hy => by rcases List.mem_cons.mp hy with rfl | hy; exact hg; exact hvs hy)
      simp only [List.length_cons] at hl
      omega
  | succ n ih =>
    intro f visited hf hvn hvs hinv hfv hlen
    rcases spread_by_someone d hnd h f hf with ⟨x, hx, k, nm, vs, ds, i, sels, e, hd⟩ | ⟨g, hg, hd⟩
    · exact ⟨x, hx, k, nm, vs, ds, i, sels, e, Or.inl hd⟩
    · have hgv : g ∉ visited := by
        intro hgv
        rcases hinv g hgv with e | hr
        · subst e; exact hac g hg (.step hd)
        · exact hac f hf (.trans hr (.step hd))
      obtain ⟨x, hx, k, nm, vs, ds, i, sels, e, hu⟩ := ih g (g :: visited) hg (List.nodup_cons.mpr ⟨hgv, hvn⟩)
        (fun y hy => by rcases List.mem_cons.mp hy with rfl | hy; exact hg; exact hvs hy)
        (fun v hv => by
          rcases List.mem_cons.mp hv with rfl | hv
          · exact Or.inl rfl
          · rcases hinv v hv with rfl | hr
            · exact Or.inr (.step hd)
            · exact Or.inr (.trans (.step hd) hr))
        (List.mem_cons_self ..) (by simp only [List.length_cons]; omega)
      refine ⟨x, hx, k, nm, vs, ds, i, sels, e, Or.inr ?_⟩
      rcases hu with hdir | ⟨g', hg', hr⟩
      · exact ⟨g, hdir, .step hd⟩
      · exact ⟨g', hg', .trans hr (.step hd)⟩

/-- **the implemented clause ⇒ 5.5.1.4** when fragment names are unique and spreads acyclic -/
theorem spread_somewhere_implies_no_unused (d : Doc) (hnd : Spec.uniqueFragmentNames d) (hac : Spec.noFragmentCycles d)
    (h : Spec.everyFragmentSpreadSomewhere d) : Spec.noUnusedFragments d := fun f hf =>
  climb d hnd hac h (Spec.fragNames d).length f [f] hf (by simp)
    (fun y hy => by rw [List.mem_singleton.mp hy]; exact hf) (fun v hv => Or.inl (List.mem_singleton.mp hv))
    (List.mem_singleton.mpr rfl) (by simp)

/-- **5.5.1.4 ⇔ what `NoUnusedFragmentsChecker` implements**, on documents that satisfy the clauses of
    UniqueFragmentNames and NoFragmentCycles -/
theorem no_unused_fragments_spec_iff_implemented (d : Doc) (hnd : Spec.uniqueFragmentNames d)
    (hac : Spec.noFragmentCycles d) : Spec.everyFragmentSpreadSomewhere d ↔ Spec.noUnusedFragments d :=
  ⟨spread_somewhere_implies_no_unused d hnd hac, no_unused_implies_spread_somewhere d⟩

/-- **NoUnusedFragmentsChecker against 5.5.1.4**: on such documents the visitor is silent iff every fragment is
    reachable from an operation -/
theorem rule_no_unused_fragments_iff (s : SchemaD) (fx : Fixes) (d : Doc) (hnd : Spec.uniqueFragmentNames d)
    (hac : Spec.noFragmentCycles d) : Silent s fx .noUnusedFragments d ↔ Spec.noUnusedFragments d :=
  (rule_no_unused_fragments_iff_implemented s fx d).trans (no_unused_fragments_spec_iff_implemented d hnd hac)

/-- the visitor never reports a fragment that 5.5.1.4 accepts (no hypothesis) -/
theorem rule_no_unused_fragments_no_false_alarm (s : SchemaD) (fx : Fixes) (d : Doc) (h : Spec.noUnusedFragments d) :
    Silent s fx .noUnusedFragments d :=
  (rule_no_unused_fragments_iff_implemented s fx d).mpr (no_unused_implies_spread_somewhere d h)

/-! without acyclicity the implemented clause is strictly weaker (ledger V6): two fragments spreading each other and no
    operation - every fragment is spread somewhere, none is used -/
def cycDoc : Doc := ⟨[.frag "A" "Query" [] 1 [.spread "B" []], .frag "B" "Query" [] 2 [.spread "A" []]]⟩

theorem cyc_witness : Spec.everyFragmentSpreadSomewhere cycDoc ∧ ¬ Spec.noUnusedFragments cycDoc := by
  constructor
  · intro n hn name on dirs e
    subst e
    simp [nodes, cycDoc, defNodes, dirsNodes, selsNodes, selNodes] at hn ⊢
    rcases hn with ⟨rfl, _⟩ | ⟨rfl, _⟩ <;> simp
  · intro h
    obtain ⟨x, hx, k, nm, vs, ds, i, sels, e, _⟩ := h "A" (by simp [Spec.fragNames, cycDoc])
    subst e
    simp [cycDoc] at hx

end PyGql.Props.C06

/-
  C08 — the lost update of the NON-atomic `done += 1` in `gather_futures.on_finish` (the PRE-FIX machine: /repo takes the
  increment under a lock since 6013951, see Props/C08_race_shipped.lean) for EVERY number of workers
  (`Props/C08_race.lean` has the witnesses for n = 2 and n = 3 by `decide`).

  Schedule: every worker LOADs, then every worker STOREs, then every worker TESTs
  (`List.range n ++ List.range n ++ List.range n`). All n workers read the same `done`, all write `done + 1`:
  n - 1 increments are lost, every callback returns, `done = plain + 1 < plain + n = target_count`, and the
  aggregate Future is never set.
-/
import PyGqlModel.RuntimeRace

set_option linter.unusedVariables false
set_option linter.unusedSimpArgs false

namespace PyGql.Props.C08
open PyGql.AsyncExec.Race

private theorem getElem?_mid {α : Type} (l₁ l₂ : List α) (a : α) : (l₁ ++ a :: l₂)[l₁.length]? = some a := by
  induction l₁ with
  | nil => rfl
  | cons x r ih => simpa using ih

private theorem set_mid {α : Type} (l₁ l₂ : List α) (a b : α) : (l₁ ++ a :: l₂).set l₁.length b = l₁ ++ b :: l₂ := by
  induction l₁ with
  | nil => rfl
  | cons x r ih => simp [List.set, ih]

private theorem run_append (s : St) (a b : List Nat) : run s (a ++ b) = run (run s a) b := by
  induction a generalizing s with
  | nil => rfl
  | cons i r ih => simp [run, ih]

private theorem snoc_replicate {α : Type} (pre : List α) (a : α) (m : Nat) :
    pre ++ a :: List.replicate m a = (pre ++ [a]) ++ List.replicate m a := by simp

/-- phase 1: the workers `|pre| … |pre|+m-1` LOAD one after the other: all read the same `done` -/
private theorem load_phase (d tg st sw : Nat) : ∀ (m : Nat) (pre : List PC),
    run ⟨d, tg, st, sw, pre ++ List.replicate m .start⟩ (List.range' pre.length m)
      = ⟨d, tg, st, sw, pre ++ List.replicate m (.loaded d)⟩
  | 0, pre => by simp [run]
  | m + 1, pre => by
    have ih := load_phase d tg st sw m (pre ++ [.loaded d])
    simp only [List.replicate_succ, List.range'_succ, run, step, getElem?_mid, set_mid]
    rw [snoc_replicate pre (.loaded d) m]
    simpa using ih

/-- phase 2: they STORE one after the other: everybody writes `t + 1` -/
private theorem store_phase (t tg st sw : Nat) : ∀ (m : Nat) (d : Nat) (pre : List PC),
    run ⟨d, tg, st, sw, pre ++ List.replicate m (.loaded t)⟩ (List.range' pre.length m)
      = ⟨if m = 0 then d else t + 1, tg, st, sw, pre ++ List.replicate m .stored⟩
  | 0, d, pre => by simp [run]
  | m + 1, d, pre => by
    have ih := store_phase t tg st sw m (t + 1) (pre ++ [.stored])
    simp only [List.replicate_succ, List.range'_succ, run, step, getElem?_mid, set_mid]
    rw [snoc_replicate pre .stored m]
    have : (if m = 0 then t + 1 else t + 1) = t + 1 := by split <;> rfl
    simp only [this] at ih
    simpa using ih

/-- phase 3: they TEST one after the other: `done ≠ target_count`, nobody sets the aggregate -/
private theorem test_phase (d tg st sw : Nat) (hne : (d == tg) = false) : ∀ (m : Nat) (pre : List PC),
    run ⟨d, tg, st, sw, pre ++ List.replicate m .stored⟩ (List.range' pre.length m)
      = ⟨d, tg, st, sw, pre ++ List.replicate m .finished⟩
  | 0, pre => by simp [run]
  | m + 1, pre => by
    have ih := test_phase d tg st sw hne m (pre ++ [.finished])
    simp only [List.replicate_succ, List.range'_succ, run, step, getElem?_mid, set_mid, St.test, hne]
    rw [snoc_replicate pre .finished m]
    simpa using ih

/-- **gather_nonatomic_lost_update_general.** For EVERY number `n ≥ 2` of pending futures (and every number of plain
    entries): all LOADs, then all STOREs, then all TESTs. Every `on_finish` callback has returned, `n - 1` increments
    are lost and `outer.set_result` was never called. -/
theorem gather_nonatomic_lost_update_general (plain n : Nat) (hn : 2 ≤ n) :
    let s := run (St.init plain n) (List.range n ++ List.range n ++ List.range n)
    s.allFinished = true ∧ s.done = plain + 1 ∧ s.target = plain + n ∧ s.sets = 0 ∧ s.outerSet = false := by
  have h1 := load_phase plain (plain + n) 0 0 n []
  have h2 := store_phase plain (plain + n) 0 0 n plain []
  have hne : ((plain + 1 == plain + n) = false) := by simp; omega
  have h3 := test_phase (plain + 1) (plain + n) 0 0 hne n []
  have hn0 : (if n = 0 then plain else plain + 1) = plain + 1 := by split <;> omega
  simp only [List.length_nil, List.nil_append, hn0] at h1 h2 h3
  have hinit : St.init plain n = ⟨plain, plain + n, 0, 0, List.replicate n .start⟩ := rfl
  simp only [List.range_eq_range', run_append, hinit, h1, h2, h3]
  simp [St.allFinished, St.outerSet]

/-- the general form of `gather_terminates_nonatomic_refuted`: for EVERY `n ≥ 2` there is an interleaving after which
    all callbacks have returned and the aggregate Future is not set -/
theorem gather_terminates_nonatomic_refuted_every_n (plain n : Nat) (hn : 2 ≤ n) :
    ∃ sched : List Nat, (run (St.init plain n) sched).allFinished = true ∧ (run (St.init plain n) sched).outerSet = false :=
  ⟨_, (gather_nonatomic_lost_update_general plain n hn).1, (gather_nonatomic_lost_update_general plain n hn).2.2.2.2⟩

/-- non-vacuity / agreement with the `decide` witness for n = 3, one plain entry -/
example : (run (St.init 1 3) (List.range 3 ++ List.range 3 ++ List.range 3)).done = 2 :=
  (gather_nonatomic_lost_update_general 1 3 (by omega)).2.1

/-- n = 1 is the boundary: a single worker cannot lose its own update -/
example : (run (St.init 0 1) (List.range 1 ++ List.range 1 ++ List.range 1)).outerSet = true := by decide

end PyGql.Props.C08

/-
  C08 — property theorems, part 2: the generic `Executor` on a deferred runtime, for EVERY schedule,
  against the `BlockingExecutor` (through the data specification `Spec/AsyncExecSpec.lean`).
  Helper lemmas: `Lemmas/ExecEv.lean`.
-/
import PyGqlModel.Lemmas.ExecErr
import PyGqlModel.Lemmas.ExecLive

set_option linter.unusedVariables false
set_option linter.unusedSimpArgs false

namespace PyGql.Props.C08
open PyGql.AsyncExec

/-- the blocking executor computes the specification -/
private theorem runBlocking_spec (op : Op) :
    match denFlds op.fields with
    | some kvs => ∃ errs, (runBlocking op).outcome = .ok (.obj kvs) errs
    | none => ∃ e, (runBlocking op).outcome = .failed e := by
  have h := blockFields_den op.fields [] {}
  unfold runBlocking
  cases hr : blockFields [] op.fields {} with
  | mk r s =>
    rw [hr] at h
    cases r with
    | ok kvs => simp [resOpt] at h; rw [← h]; exact ⟨_, rfl⟩
    | exc e => simp [resOpt] at h; rw [← h]; exact ⟨_, rfl⟩

private theorem outcome_of_inv (top : Node) (s : ExecSt) (o : Option V) (h : TopInv top (denToEv o)) :
    match outcomeOf top s with
    | .ok v _ => o = some v
    | .failed _ => o = none
    | .pending => True
    | .junk => False := by
  have hev := h.ev_eq
  cases top with
  | val x => cases x <;> cases o <;> simp_all [outcomeOf, ev, denToEv]
  | done r =>
    have hf := h.isFlat
    cases r with
    | val x => cases x <;> cases o <;> simp_all [outcomeOf, ev, denToEv]
    | _ => simp [flat] at hf
  | failed e => cases e <;> cases o <;> simp_all [outcomeOf, ev, evExc, denToEv]
  | task a b c d => simp [outcomeOf]
  | chain a b => simp [outcomeOf]
  | unwrap a => simp [outcomeOf]
  | gather a b c => simp [outcomeOf]

private theorem runAsync_spec (op : Op) (schedule : List Nat) :
    match (runAsync op schedule).outcome with
    | .ok v _ => (denFlds op.fields).map V.obj = some v
    | .failed _ => denFlds op.fields = none
    | .pending => True
    | .junk => False := by
  have h := execute_inv op {}
  unfold runAsync
  cases hr : execute op {} with
  | mk r s =>
    rw [hr] at h
    cases r with
    | exc e =>
      simp only at h ⊢
      unfold opSpec at h
      cases hd : denFlds op.fields <;> cases e <;> simp_all [evExc, denToEv]
    | ok top =>
      simp only at h ⊢
      have hinv := runSched_inv _ schedule top s [] h
      have := outcome_of_inv _ (runSched top s [] schedule).st _ hinv
      cases ho : outcomeOf (runSched top s [] schedule).top (runSched top s [] schedule).st <;>
        simp_all

/-- **async_outcome_agrees** (also covers failing and unfinished runs). For every operation,
    every assignment of resolvers to {sync, deferred, nested-deferred, already-finished} and EVERY schedule
    (any list of indices into the queue of outstanding tasks — complete or not): whenever the generic
    executor has produced the overall result, the blocking executor produces a result with the SAME data;
    whenever it has failed, the blocking executor fails too; and it never produces a malformed result.
    (The error lists are the subject of `async_eq_blocking`.) -/
theorem async_outcome_agrees (op : Op) (schedule : List Nat) :
    match (runAsync op schedule).outcome with
    | .ok v _ => ∃ errs', (runBlocking op).outcome = .ok v errs'
    | .failed _ => ∃ e', (runBlocking op).outcome = .failed e'
    | .pending => True
    | .junk => False := by
  have ha := runAsync_spec op schedule
  have hb := runBlocking_spec op
  cases ho : (runAsync op schedule).outcome with
  | ok v errs =>
    rw [ho] at ha
    simp only at ha ⊢
    cases hd : denFlds op.fields with
    | none => simp [hd] at ha
    | some kvs => rw [hd] at hb ha; simp at ha; subst ha; exact hb
  | failed e =>
    rw [ho] at ha
    simp only at ha ⊢
    rw [ha] at hb; exact hb
  | pending => trivial
  | junk => rw [ho] at ha; exact ha

private theorem runBlocking_errs (op : Op) (kvs : List (String × V)) (hk : denFlds op.fields = some kvs) :
    (runBlocking op).outcome = .ok (.obj kvs) (errsFlds [] op.fields) := by
  have h := blockFields_den op.fields [] {}
  unfold runBlocking
  cases hr : blockFields [] op.fields {} with
  | mk r s =>
    rw [hr] at h
    cases r with
    | exc e => simp [resOpt, hk] at h
    | ok kvs' =>
      simp [resOpt, hk] at h; subst h
      have := blockFields_errs op.fields [] {} kvs' s hr
      simp only [this]; simp

/-- **async_eq_blocking** (full strength of C08's first sentence on the model). For every operation, every
    assignment of resolvers to {sync, deferred, nested-deferred, already-finished} and EVERY schedule:
    when the generic executor on a deferred runtime has produced its result `(data, errors)`, the
    blocking executor produces the SAME data and its error list is a PERMUTATION of `errors`. -/
theorem async_eq_blocking (op : Op) (schedule : List Nat) (v : V) (errs : List Err)
    (h : (runAsync op schedule).outcome = .ok v errs) :
    ∃ errs', (runBlocking op).outcome = .ok v errs' ∧ errs.Perm errs' := by
  have ha := runAsync_spec op schedule
  rw [h] at ha
  simp only at ha
  cases hd : denFlds op.fields with
  | none => simp [hd] at ha
  | some kvs =>
    simp [hd] at ha; subst ha
    refine ⟨errsFlds [] op.fields, runBlocking_errs op kvs hd, ?_⟩
    have hden : denFlds op.fields ≠ none := by simp [hd]
    have hinv := execute_inv op {}
    have herr := execute_errs op {} hden
    unfold runAsync at h
    cases hr : execute op {} with
    | mk r s =>
      rw [hr] at hinv herr h
      cases r with
      | exc e => exact absurd herr id
      | ok top =>
        simp only at hinv herr h
        have hnf : (opSpec op).isFail = false := by simp [opSpec, hd, denToEv, EvR.isFail]
        have hE : ErrInv top s (errsFlds [] op.fields) := by
          intro e; have := herr e; simpa [cnt] using this
        have hfin := runSched_errs (errsFlds [] op.fields) (opSpec op) hnf schedule top s [] hinv hE
        have htop := runSched_inv (opSpec op) schedule top s [] hinv
        generalize (runSched top s [] schedule).top = t at hfin htop h
        generalize (runSched top s [] schedule).st = st at hfin h
        have hf := htop.isFlat
        apply List.perm_iff_count.mpr
        intro e
        have := hfin e
        cases t with
        | val x => cases x <;> simp [outcomeOf] at h; obtain ⟨_, he⟩ := h; subst he; simpa [pend, cnt] using this
        | done r =>
          cases r with
          | val x => cases x <;> simp [outcomeOf] at h; obtain ⟨_, he⟩ := h; subst he; simpa [pend, cnt] using this
          | _ => simp [flat] at hf
        | _ => simp [outcomeOf] at h

/-- **schedule_independent.** Two schedules that both produce the overall result produce the same data. -/
theorem schedule_independent (op : Op) (s1 s2 : List Nat) (v1 v2 : V) (e1 e2 : List Err)
    (h1 : (runAsync op s1).outcome = .ok v1 e1) (h2 : (runAsync op s2).outcome = .ok v2 e2) :
    (denFlds op.fields).map V.obj = some v1 ∧ (denFlds op.fields).map V.obj = some v2 := by
  have a1 := runAsync_spec op s1
  have a2 := runAsync_spec op s2
  rw [h1] at a1; rw [h2] at a2
  exact ⟨a1, a2⟩

/-- **unexpected_surfaces.** If the specification says the operation fails (an unexpected resolver
    exception, or a value `complete_value` rejects, somewhere in it — `denFlds … = none`), then the blocking
    executor fails, and under EVERY schedule the generic executor never returns a result: its overall
    outcome is `failed` or still `pending` (the latter is excluded once no task is outstanding — see
    `always_terminates`), never `ok`, never malformed. Conversely a failure only comes from such an exception. -/
theorem unexpected_surfaces (op : Op) (schedule : List Nat) :
    (denFlds op.fields = none →
      (∃ e, (runBlocking op).outcome = .failed e) ∧
      (match (runAsync op schedule).outcome with
       | .failed _ => True
       | .pending => True
       | _ => False)) ∧
    (∀ e, (runAsync op schedule).outcome = .failed e → denFlds op.fields = none) := by
  have ha := runAsync_spec op schedule
  have hb := runBlocking_spec op
  constructor
  · intro hd
    rw [hd] at hb
    refine ⟨hb, ?_⟩
    cases ho : (runAsync op schedule).outcome <;> rw [ho] at ha <;> simp_all
  · intro e he
    rw [he] at ha; exact ha

/-- The termination statement of C08 on the model: whenever no task is outstanding any more, the
    overall result is there (not pending) — for every operation and every schedule. -/
def AlwaysTerminatesFull : Prop :=
  ∀ (op : Op) (schedule : List Nat),
    match execute op {} with
    | (.exc _, _) => True
    | (.ok top, s) =>
      (runSched top s [] schedule).st.queue = [] →
      (runSched top s [] schedule).top.finished = true

/-- ASSUMPTION shared by every executor-level theorem of this file: a completion and the callbacks it triggers are ONE step
    (`deliver`). For the counter of `gather_futures` this is what the lock of fix 6013951 provides (`gather_shipped_sets_outer_once`,
    every interleaving of COUNT / TEST steps); for the other callback bodies (`chain`, `unwrap_future`, the executor's closures)
    it holds on one worker and is an assumption beyond. `always_terminates` is deadlock-freedom (`queue = [] → finished`); that the
    queue empties within `weight op` completions is `terminates_within_bound` (Props/C08_progress.lean). -/
def executorTheoremsAssumeAtomicCallbacks : Unit := ()

/-- **always_terminates.** For every operation, every assignment of resolver modes and EVERY schedule:
    in every reachable state a pending overall result implies an outstanding task — every pending Future
    in the tree waits (through exact `gather` counters `done = #finished < target`) for a task that is
    still in the queue. Hence once all resolver tasks have completed, the execution has completed
    (measure: outstanding tasks). Together with `unexpected_surfaces`: it has then either returned the
    blocking data or failed with an unexpected resolver exception — never left pending. -/
theorem always_terminates : AlwaysTerminatesFull := by
  intro op schedule
  have hinv := execute_inv op {}
  have hlive := execute_live op {}
  cases hr : execute op {} with
  | mk r s =>
    rw [hr] at hinv hlive
    cases r with
    | exc e => trivial
    | ok top =>
      simp only at hinv hlive ⊢
      intro hq
      have hl := runSched_live _ schedule top s [] hinv hlive
      rw [hq] at hl
      cases hf : (runSched top s [] schedule).top.finished with
      | true => rfl
      | false =>
        obtain ⟨id, hid⟩ := live_pending [] _ hl hf
        simp at hid

/-- non-vacuity: `{ a: deferred→[exc] b: deferred→1 }`, `b` completes first, then `a` — the result fails;
    and with `a` fine the data is the blocking data although `b` completed first. -/
example : (match (runAsync ⟨.query, .cons "a" .deferred .exc (.cons "b" .deferred (.ok (.leaf 1)) .nil)⟩ [1, 0]).outcome with
    | .failed .boom => true | _ => false) = true := by rfl
example : (match (runAsync ⟨.query, .cons "a" .deferred (.ok (.leaf 7)) (.cons "b" .nested (.ok (.leaf 1)) .nil)⟩ [1, 0, 0]).outcome with
    | .ok (.obj [("a", .leaf 7), ("b", .leaf 1)]) [] => true | _ => false) = true := by rfl

end PyGql.Props.C08

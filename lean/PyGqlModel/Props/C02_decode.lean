/-
  C02 (decoding part): literal values are decoded as the specification prescribes.
-/
import PyGqlModel.Lex
import PyGqlModel.Lemmas.LexBlockString
import PyGqlModel.Lemmas.LexChars
import PyGqlModel.Lemmas.LexRange
import PyGqlModel.Lemmas.LexUnicodePair

namespace PyGql.Props.C02
open PyGql.Lex PyGql.BlockString
open PyGql.Spec PyGql.Spec.Lexical

/-- `parse_block_string` IS the specification's `BlockStringValue()`, for every raw value:
    only LF | CR | CRLF split lines, only space / tab count as indentation or blank. -/
theorem block_string_spec (raw : Text) : parseBlockString raw = BlockStringValue raw := by
  simp only [parseBlockString, BlockStringValue, split_spec, commonIndent_spec, popLeading_spec,
    popTrailing_spec, joinLF_spec]
  cases Spec.commonIndent (splitByLineTerminator [] raw) with
  | none => rfl
  | some k =>
    cases splitByLineTerminator [] raw with
    | nil => simp
    | cons f r => simp

/-- U+2028, U+2029, U+0085, VT, FF are not line terminators and NBSP is not indentation (defects B1, B2 fixed) -/
example : parseBlockString [97, 0x2028, 98] = [97, 0x2028, 98] := by decide
example : parseBlockString [10, 0xA0, 97, 10, 0xA0, 98] = [0xA0, 97, 10, 0xA0, 98] := by decide
example : parseBlockString [10, 32, 32, 97, 13, 10, 32, 32, 32, 98, 13, 32, 32, 99, 10] = [97, 10, 32, 98, 10, 99] := by decide

/-- escape decoding, soundness: whatever `_read_string` accepts after the opening quote is
    StringCharacter* followed by the closing quote, and the token value is its semantic value -/
theorem escape_spec_sound (n : Nat) (s v rest : Text) (h : readStringBody n s = .ok (v, rest)) :
    ∃ body, s = body ++ 34 :: rest ∧ stringCharacters body = some v := by
  fun_induction readStringBody n s generalizing v with
  | case1 => cases h
  | case2 t =>
    simp only [Except.ok.injEq, Prod.mk.injEq] at h
    obtain ⟨rfl, rfl⟩ := h
    exact ⟨[], by simp, by rw [stringCharacters.eq_def]⟩
  | case3 _ => cases h
  | case4 e t1 ch hq v' r hrec _ ih =>
    simp only [Except.ok.injEq, Prod.mk.injEq] at h
    obtain ⟨rfl, rfl⟩ := h
    obtain ⟨body, rfl, hb⟩ := ih v' hrec
    have he : e ≠ 117 := by
      intro he; subst he
      rw [quoted_spec] at hq; simp [escapedCharacter] at hq
    refine ⟨92 :: e :: body, by simp, ?_⟩
    rw [quoted_spec] at hq
    rw [stringCharacters.eq_def]; simp [he, hq, hb]
  | case5 => cases h
  | case6 a b c' d ch hx cp e1 e2 a2 b2 c2 d2 t3 v' r hrec _ hq hp ih =>
    -- a surrogate pair of escapes
    simp only [Except.ok.injEq, Prod.mk.injEq] at h
    obtain ⟨rfl, rfl⟩ := h
    obtain ⟨body, rfl, hb⟩ := ih v' hrec
    refine ⟨92 :: 117 :: a :: b :: c' :: d :: e1 :: e2 :: a2 :: b2 :: c2 :: d2 :: body, by simp, ?_⟩
    rw [hex4_spec] at hx
    have hp' : pairedAt ch (e1 :: e2 :: a2 :: b2 :: c2 :: d2 :: body) = some cp := by
      rw [← pairAt_spec]; simpa [pairAt] using hp
    rw [stringCharacters_unicode_pair a b c' d ch e1 e2 a2 b2 c2 d2 cp body hx hp', hb]; rfl
  | case7 => cases h
  | case8 => cases h
  | case9 a b c' d t2 ch hx hnp v' r hrec _ hq ih =>
    -- an escape that is not the high half of a pair of escapes
    simp only [Except.ok.injEq, Prod.mk.injEq] at h
    obtain ⟨rfl, rfl⟩ := h
    obtain ⟨body, rfl, hb⟩ := ih v' hrec
    refine ⟨92 :: 117 :: a :: b :: c' :: d :: body, by simp, ?_⟩
    rw [hex4_spec] at hx
    have hnp' : pairedAt ch body = none := by
      rw [← pairAt_spec, ← pairAt_append_quote ch body r]; exact hnp
    rw [stringCharacters_unicode_nopair a b c' d ch body hx hnp', hb]; rfl
  | case10 => cases h
  | case11 => cases h
  | case12 => cases h
  | case13 => cases h
  | case14 => cases h
  | case15 => cases h
  | case16 c t h34 h92 hnl hp v' r hrec ih =>
    simp only [Except.ok.injEq, Prod.mk.injEq] at h
    obtain ⟨rfl, rfl⟩ := h
    obtain ⟨body, rfl, hb⟩ := ih v' hrec
    refine ⟨c :: body, by simp, ?_⟩
    have hsrc : isSourceChar c = true ∧ isLineTerm c = false := by
      have := isPrintable_spec c
      have hp' : isPrintable c = true := by simpa using hp
      rw [hp'] at this
      simpa [Bool.and_eq_true] using this.symm
    rw [stringCharacters.eq_def]; simp [h92, h34, hsrc.1, hsrc.2, hb]
  | case17 => cases h

/-- escape decoding, completeness: every StringCharacter* followed by a quote is read, with its semantic value -/
theorem escape_spec_complete (n : Nat) (body v rest : Text) (h : stringCharacters body = some v) :
    readStringBody n (body ++ 34 :: rest) = .ok (v, rest) := by
  fun_induction stringCharacters body generalizing v with
  | case1 =>
    simp only [Option.some.injEq] at h; subst h
    rw [readStringBody.eq_def]; simp
  | case2 => cases h
  | case3 => cases h
  | case4 a b c' d u hu cp e1 e2 a2 b2 c2 d2 t3 hp ih =>
    simp only [Option.map_eq_some_iff] at h
    obtain ⟨w, hw, rfl⟩ := h
    rw [← hex4_spec] at hu
    have hp' : pairAt u (e1 :: e2 :: a2 :: b2 :: c2 :: d2 :: (t3 ++ 34 :: rest)) = some cp := by
      rw [← pairAt_spec] at hp; simpa [pairAt] using hp
    simp only [List.cons_append]
    rw [readStringBody_unicode_pair n a b c' d u e1 e2 a2 b2 c2 d2 cp _ hu hp', ih w hw]; rfl
  | case5 => cases h
  | case6 a b c' d t2 u hu hnp ih =>
    simp only [Option.map_eq_some_iff] at h
    obtain ⟨w, hw, rfl⟩ := h
    rw [← hex4_spec] at hu
    have hnp' : pairAt u (t2 ++ 34 :: rest) = none := by
      rw [pairAt_append_quote, pairAt_spec]; exact hnp
    simp only [List.cons_append]
    rw [readStringBody_unicode_nopair n a b c' d u _ hu hnp', ih w hw]; rfl
  | case7 => cases h
  | case8 e t1 he u w hw hu ih =>
    simp only [Option.some.injEq] at h; subst h
    have := ih w hw
    rw [← quoted_spec] at hu
    rw [readStringBody.eq_def]
    simp [hu, this]
  | case9 => cases h
  | case10 => cases h
  | case11 c t h92 hbad ih =>
    simp only [Option.map_eq_some_iff] at h
    obtain ⟨w, hw, rfl⟩ := h
    have := ih w hw
    have h34 : c ≠ 34 := fun e => hbad (Or.inl e)
    have hlt : isLineTerm c = false := by
      cases hx : isLineTerm c <;> simp_all
    have hsrc : isSourceChar c = true := by
      cases hx : isSourceChar c <;> simp_all
    have hp : isPrintable c = true := by rw [isPrintable_spec]; simp [hsrc, hlt]
    have hnl : ¬ (c = 10 ∨ c = 13) := by
      simp [isLineTerm] at hlt; omega
    rw [readStringBody.eq_def]
    simp [h34, h92, hnl, hp, this]

/-- `escape_spec`: quoted-string decoding is exactly the specification's table —
    `\` EscapedCharacter, `\u` followed by exactly four characters of `[0-9A-Fa-f]` (defect L4 fixed) -/
theorem escape_spec (n : Nat) (s v rest : Text) :
    readStringBody n s = .ok (v, rest) ↔ ∃ body, s = body ++ 34 :: rest ∧ stringCharacters body = some v :=
  ⟨escape_spec_sound n s v rest, fun ⟨body, hs, hb⟩ => hs ▸ escape_spec_complete n body v rest hb⟩

/-- non-vacuity: `"aካ\n"` -/
example : (readStringBody 13 [97, 92, 117, 49, 50, 65, 98, 92, 110, 34]).toOption = some ([97, 0x12AB, 10], []) := by decide
/-- fix C02-U1: `"\\uD83D\\uDE00"` is ONE character U+1F600; an unpaired escape stays a lone code unit; a high escape
    followed by a LITERAL low surrogate is not combined -/
example : (readStringBody 14 [92, 117, 68, 56, 51, 68, 92, 117, 68, 69, 48, 48, 34]).toOption = some ([0x1F600], []) := by decide
example : (readStringBody 8 [92, 117, 68, 56, 51, 68, 34]).toOption = some ([0xD83D], []) := by decide
example : (readStringBody 9 [92, 117, 68, 56, 51, 68, 0xDE00, 34]).toOption = some ([0xD83D, 0xDE00], []) := by decide
example : (readStringBody 14 [92, 117, 68, 69, 48, 48, 92, 117, 68, 56, 51, 68, 34]).toOption = some ([0xDE00, 0xD83D], []) := by decide
/-- Arabic-Indic digits, `0x12`, a trailing blank are not hex escapes -/
example : (readStringBody 8 [92, 117, 0x661, 0x662, 0x663, 0x664, 34]).toOption = none := by decide
example : (readStringBody 8 [92, 117, 48, 120, 49, 50, 34]).toOption = none := by decide
example : (readStringBody 8 [92, 117, 49, 50, 51, 32, 34]).toOption = none := by decide

/-- numbers are kept verbatim: the token value is the exact source slice -/
theorem number_verbatim (n : Nat) (s rest : Text) (tok : Tok) (h : readNumber n s = .ok (tok, rest)) :
    tok.value = s.take (s.length - rest.length) ∧ (tok.kind = .int ∨ tok.kind = .float) := by
  unfold readNumber at h
  simp only [bind, Except.bind, pure, Except.pure] at h
  repeat' split at h
  all_goals first
    | (simp at h; done)
    | (simp only [Except.ok.injEq, Prod.mk.injEq] at h
       obtain ⟨rfl, rfl⟩ := h
       refine ⟨rfl, ?_⟩
       simp)

example : (readNumber 8 [45, 49, 46, 53, 101, 48, 53, 32]).toOption.map (·.1.value) = some [45, 49, 46, 53, 101, 48, 53] := by decide

end PyGql.Props.C02

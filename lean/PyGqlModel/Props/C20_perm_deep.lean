/-
  C20 — `diff_perm_deep`: the report of `diff_schema` does not depend on the order of ANY member list of the two
  schema descriptions, at any level: type definitions, directive definitions, the fields of a type, the arguments
  of a field or directive, enum values, input fields, union members, implemented interfaces, directive locations
  (the last three are the places where the implementation goes through Python `set`s / dict views, i.e. where
  hash ordering could enter: the model only asks `contains`, and this theorem shows that nothing else matters).
  All lists of both schemas may be reordered independently; the report is then a permutation of the original
  report (the same multiset of changes), at every severity filter. `diff_perm` (Props/C20_perm.lean) is the
  special case where only the two top-level lists move.

  Hypothesis: names are unique at every level of the NEW schema (`UniqSchema n`: it is the one that is searched by
  name); nothing is asked of the old one.
-/
import PyGqlModel.Diff
import PyGqlModel.Props.C20_diff
import PyGqlModel.Props.C20_refl
import PyGqlModel.Lemmas.ListEqv

set_option linter.unusedSimpArgs false
set_option linter.unusedVariables false

namespace PyGql.Props.C20
open PyGql PyGql.Differ PyGql.Diff PyGql.ListEqv

/-- the same field, its arguments possibly listed in another order -/
structure FieldEqv (f g : FieldD) : Prop where
  name : f.name = g.name
  type : f.type = g.type
  deprecated : f.deprecated = g.deprecated
  args : f.args.Perm g.args

/-- the same type definition up to the order of its members, interfaces, values, input fields, fields and their arguments -/
structure TypeEqv (t u : TypeD) : Prop where
  kind : t.kind = u.kind
  name : t.name = u.name
  members : t.members.Perm u.members
  interfaces : t.interfaces.Perm u.interfaces
  values : t.values.Perm u.values
  inputFields : t.inputFields.Perm u.inputFields
  fields : ListEqv FieldEqv t.fields u.fields

structure DirEqv (d e : DirectiveD) : Prop where
  name : d.name = e.name
  locations : d.locations.Perm e.locations
  args : d.args.Perm e.args

/-- the same schema up to the order of every list in it -/
structure SchemaEqv (s s' : SchemaD) : Prop where
  types : ListEqv TypeEqv s.types s'.types
  directives : ListEqv DirEqv s.directives s'.directives
  query : s.query = s'.query
  mutation : s.mutation = s'.mutation
  subscription : s.subscription = s'.subscription

private theorem contains_perm {l l' : List String} (h : l.Perm l') (x : String) : l.contains x = l'.contains x := by
  apply Bool.eq_iff_iff.mpr
  simp only [List.contains_iff_mem]
  exact h.mem_iff

/-! ### arguments / input fields (plain permutations) -/

private theorem args_find {news news' : List ArgD} (hn : news.Perm news') (u : Uniq ArgD.name news) (x : String) :
    news.find? (·.name == x) = news'.find? (·.name == x) := find_name_perm (name := ArgD.name) hn u x

private theorem args_none {olds olds' : List ArgD} (ho : olds.Perm olds') (x : String) :
    (olds.find? (·.name == x)).isNone = (olds'.find? (·.name == x)).isNone := findNone_perm _ ho

private theorem compatRetypes_perm (cls : String) (key : ArgD → ArgD → List (String × String))
    {olds olds' news news' : List ArgD} (ho : olds.Perm olds') (hn : news.Perm news') (u : Uniq ArgD.name news) :
    (compatRetypes cls key olds news).Perm (compatRetypes cls key olds' news') := by
  unfold compatRetypes
  simp only [args_find hn u]
  exact flatMap_perm_plain _ ho

private theorem diffDirectiveArguments_perm (od od' nd nd' : DirectiveD) (ho : DirEqv od od') (hn : DirEqv nd nd')
    (u : Uniq ArgD.name nd.args) : (diffDirectiveArguments od nd).Perm (diffDirectiveArguments od' nd') := by
  unfold diffDirectiveArguments
  simp only [args_find hn.args u, args_none ho.args, ← ho.name, ← hn.name]
  exact ((ho.args.filterMap _).append ((hn.args.filter _).map _)).append (compatRetypes_perm _ _ ho.args hn.args u)

private theorem diffFieldArguments_perm (parent : String) (of of' nf nf' : FieldD) (ho : FieldEqv of of')
    (hn : FieldEqv nf nf') (u : Uniq ArgD.name nf.args) :
    (diffFieldArguments parent of nf).Perm (diffFieldArguments parent of' nf') := by
  unfold diffFieldArguments
  simp only [args_find hn.args u, args_none ho.args, ← ho.name, ← hn.name]
  exact ((ho.args.filterMap _).append ((hn.args.filter _).map _)).append (compatRetypes_perm _ _ ho.args hn.args u)

private theorem diffField_perm (parent : String) (of of' nf nf' : FieldD) (ho : FieldEqv of of')
    (hn : FieldEqv nf nf') (u : Uniq ArgD.name nf.args) :
    (diffField parent of nf).Perm (diffField parent of' nf') := by
  unfold diffField
  simp only [← ho.name, ← hn.name, ← ho.type, ← hn.type, ← ho.deprecated, ← hn.deprecated]
  exact ((List.Perm.refl _).append (diffFieldArguments_perm parent of of' nf nf' ho hn u)).append (List.Perm.refl _)

/-! ### fields -/

private theorem fieldEqv_name : ∀ a b : FieldD, FieldEqv a b → FieldD.name a = FieldD.name b := fun _ _ h => h.name

private theorem diffFields_perm (ot ot' nt nt' : TypeD) (ho : TypeEqv ot ot') (hn : TypeEqv nt nt')
    (uf : Uniq FieldD.name nt.fields) (ua : ∀ f ∈ nt.fields, Uniq ArgD.name f.args) :
    (diffFields ot nt).Perm (diffFields ot' nt') := by
  unfold diffFields
  apply List.Perm.append
  · apply ListEqv.flatMap_perm ho.fields
    intro f f' hf r
    have hfind := ListEqv.find fieldEqv_name hn.fields uf f.name
    rw [← r.name]
    cases h1 : nt.fields.find? (fun y => y.name == f.name) <;>
      cases h2 : nt'.fields.find? (fun y => y.name == f.name) <;> rw [h1, h2] at hfind <;> simp only [OptRel] at hfind
    · simp only [← ho.name]; exact List.Perm.refl _
    · rename_i g g'
      simp only [← ho.name]
      exact diffField_perm ot.name f f' g g' r hfind (ua g (List.mem_of_find?_eq_some h1))
  · rw [← hn.name]
    apply ListEqv.map_perm (ListEqv.filter hn.fields _ _ ?_) _ _ (fun a b _ r => by rw [r.name])
    intro g g' _ r
    rw [← r.name]
    exact ListEqv.findNone fieldEqv_name ho.fields g.name

/-! ### per matching pair -/

private theorem union_pair (ou ou' nu nu' : TypeD) (ho : TypeEqv ou ou') (hn : TypeEqv nu nu') :
    (((ou.members.filter fun m => !nu.members.contains m).map fun m =>
        mk "TypeRemovedFromUnion" [("type_name", m), ("union", ou.name)])
    ++ ((nu.members.filter fun m => !ou.members.contains m).map fun m =>
        mk "TypeAddedToUnion" [("type_name", m), ("union", nu.name)])).Perm
    (((ou'.members.filter fun m => !nu'.members.contains m).map fun m =>
        mk "TypeRemovedFromUnion" [("type_name", m), ("union", ou'.name)])
    ++ ((nu'.members.filter fun m => !ou'.members.contains m).map fun m =>
        mk "TypeAddedToUnion" [("type_name", m), ("union", nu'.name)])) := by
  simp only [← contains_perm hn.members, ← contains_perm ho.members, ← ho.name, ← hn.name]
  exact ((ho.members.filter _).map _).append ((hn.members.filter _).map _)

private theorem enum_pair (oe oe' ne ne' : TypeD) (ho : TypeEqv oe oe') (hn : TypeEqv ne ne')
    (u : Uniq EnumValD.name ne.values) :
    ((oe.values.filterMap fun ov =>
      match ne.values.find? (·.name == ov.name) with
      | none => some (mk "EnumValueRemoved" [("enum", oe.name), ("value", ov.name)])
      | some nv =>
        let k := [("enum", oe.name), ("new_value", nv.name), ("old_value", ov.name)]
        match ov.deprecated, nv.deprecated with
        | some _, none => some (mk "EnumValueDeprecationRemoved" k)
        | some r, some r' => if r != r' then some (mk "EnumValueDeprecationReasonChanged" k) else none
        | none, some _ => some (mk "EnumValueDeprecated" k)
        | none, none => none)
    ++ ((ne.values.filter fun nv => (oe.values.find? (·.name == nv.name)).isNone).map fun nv =>
        mk "EnumValueAdded" [("enum", ne.name), ("value", nv.name)])).Perm
    ((oe'.values.filterMap fun ov =>
      match ne'.values.find? (·.name == ov.name) with
      | none => some (mk "EnumValueRemoved" [("enum", oe'.name), ("value", ov.name)])
      | some nv =>
        let k := [("enum", oe'.name), ("new_value", nv.name), ("old_value", ov.name)]
        match ov.deprecated, nv.deprecated with
        | some _, none => some (mk "EnumValueDeprecationRemoved" k)
        | some r, some r' => if r != r' then some (mk "EnumValueDeprecationReasonChanged" k) else none
        | none, some _ => some (mk "EnumValueDeprecated" k)
        | none, none => none)
    ++ ((ne'.values.filter fun nv => (oe'.values.find? (·.name == nv.name)).isNone).map fun nv =>
        mk "EnumValueAdded" [("enum", ne'.name), ("value", nv.name)])) := by
  have e1 := fun x => find_name_perm (name := EnumValD.name) hn.values u x
  have e2 := fun x => findNone_perm (fun y : EnumValD => y.name == x) ho.values
  simp only [e1, e2, ← ho.name, ← hn.name]
  exact (ho.values.filterMap _).append ((hn.values.filter _).map _)

private theorem input_pair (ot ot' nt nt' : TypeD) (ho : TypeEqv ot ot') (hn : TypeEqv nt nt')
    (u : Uniq ArgD.name nt.inputFields) :
    ((ot.inputFields.filterMap fun of =>
      match nt.inputFields.find? (·.name == of.name) with
      | none => some (mk "InputFieldRemoved" [("field", of.name), ("type", ot.name)])
      | some nf =>
        let k := [("new_field", nf.name), ("old_field", of.name), ("type", ot.name)]
        if !safeIn of.type nf.type then some (mk "InputFieldChangedType" k)
        else if defaultChanged of nf then some (mk "InputFieldDefaultValueChange" k (becameRequired of nf))
        else none)
    ++ ((nt.inputFields.filter fun nf => (ot.inputFields.find? (·.name == nf.name)).isNone).map fun nf =>
        mk "InputFieldAdded" [("field", nf.name), ("type", nt.name)] (ArgD.required nf))
    ++ compatRetypes "InputFieldChangedType"
        (fun of nf => [("new_field", nf.name), ("old_field", of.name), ("type", ot.name)]) ot.inputFields nt.inputFields).Perm
    ((ot'.inputFields.filterMap fun of =>
      match nt'.inputFields.find? (·.name == of.name) with
      | none => some (mk "InputFieldRemoved" [("field", of.name), ("type", ot'.name)])
      | some nf =>
        let k := [("new_field", nf.name), ("old_field", of.name), ("type", ot'.name)]
        if !safeIn of.type nf.type then some (mk "InputFieldChangedType" k)
        else if defaultChanged of nf then some (mk "InputFieldDefaultValueChange" k (becameRequired of nf))
        else none)
    ++ ((nt'.inputFields.filter fun nf => (ot'.inputFields.find? (·.name == nf.name)).isNone).map fun nf =>
        mk "InputFieldAdded" [("field", nf.name), ("type", nt'.name)] (ArgD.required nf))
    ++ compatRetypes "InputFieldChangedType"
        (fun of nf => [("new_field", nf.name), ("old_field", of.name), ("type", ot'.name)]) ot'.inputFields nt'.inputFields) := by
  simp only [args_find hn.inputFields u, args_none ho.inputFields, ← ho.name, ← hn.name]
  exact ((ho.inputFields.filterMap _).append ((hn.inputFields.filter _).map _)).append
    (compatRetypes_perm _ _ ho.inputFields hn.inputFields u)

/-! ### matching pairs -/

private theorem typeEqv_name : ∀ a b : TypeD, TypeEqv a b → TypeD.name a = TypeD.name b := fun _ _ h => h.name
private theorem dirEqv_name : ∀ a b : DirectiveD, DirEqv a b → DirectiveD.name a = DirectiveD.name b := fun _ _ h => h.name

def PairEqv (p q : TypeD × TypeD) : Prop := TypeEqv p.1 q.1 ∧ TypeEqv p.2 q.2

private theorem matchingPairs_eqv {o o' n n' : SchemaD} (ho : SchemaEqv o o') (hn : SchemaEqv n n')
    (un : Uniq TypeD.name n.types) (k : Kind) : ListEqv PairEqv (matchingPairs o n k) (matchingPairs o' n' k) := by
  unfold matchingPairs
  have hnk : ListEqv TypeEqv (n.types.filter (·.kind == k)) (n'.types.filter (·.kind == k)) :=
    ListEqv.filter hn.types _ _ fun a b _ r => by rw [r.kind]
  have unk : UniqN TypeD.name (n.types.filter (·.kind == k)) := uniq_filter un _
  apply ListEqv.filterMap (ListEqv.filter ho.types _ _ fun a b _ r => by rw [r.kind])
  intro t t' _ r
  have hfind := ListEqv.find typeEqv_name hnk unk t.name
  rw [← r.name]
  cases h1 : (n.types.filter (·.kind == k)).find? (fun y => y.name == t.name) <;>
    cases h2 : (n'.types.filter (·.kind == k)).find? (fun y => y.name == t.name) <;>
    rw [h1, h2] at hfind <;> simp only [OptRel] at hfind ⊢
  exact ⟨r, hfind⟩

private theorem mem_matching_new {o n : SchemaD} {k : Kind} {p : TypeD × TypeD} (h : p ∈ matchingPairs o n k) :
    p.2 ∈ n.types := by
  unfold matchingPairs at h
  obtain ⟨t, _, ht⟩ := List.mem_filterMap.mp h
  cases hf : (n.types.filter (·.kind == k)).find? (fun y => y.name == t.name) with
  | none => rw [hf] at ht; cases ht
  | some t' =>
    rw [hf] at ht
    have : p = (t, t') := (Option.some.inj ht).symm
    rw [this]
    exact (List.mem_filter.mp (List.mem_of_find?_eq_some hf)).1

/-- **Order independence at every level.** -/
theorem diff_perm_deep (o o' n n' : SchemaD) (ho : SchemaEqv o o') (hn : SchemaEqv n n') (un : UniqSchema n) (m : Nat) :
    (diffSchema o n m).Perm (diffSchema o' n' m) := by
  unfold diffSchema
  apply List.Perm.filter
  have h0 : (diffRootTypes o n).Perm (diffRootTypes o' n') := by
    unfold diffRootTypes
    rw [ho.query, ho.mutation, ho.subscription, hn.query, hn.mutation, hn.subscription]
  have h1 : (findRemovedTypes o n).Perm (findRemovedTypes o' n') := by
    unfold findRemovedTypes SchemaD.findType
    apply ListEqv.map_perm (ListEqv.filter ho.types _ _ ?_) _ _ (fun a b _ r => by rw [r.name])
    intro t t' _ r
    rw [← r.name]
    exact ListEqv.findNone typeEqv_name hn.types t.name
  have h2 : (findAddedTypes o n).Perm (findAddedTypes o' n') := by
    unfold findAddedTypes SchemaD.findType
    apply ListEqv.map_perm (ListEqv.filter hn.types _ _ ?_) _ _ (fun a b _ r => by rw [r.name])
    intro t t' _ r
    rw [← r.name]
    exact ListEqv.findNone typeEqv_name ho.types t.name
  have h3 : (diffDirectives o n).Perm (diffDirectives o' n') := by
    unfold diffDirectives
    apply List.Perm.append
    · apply ListEqv.flatMap_perm ho.directives
      intro d d' _ r
      have hfind := ListEqv.find dirEqv_name hn.directives un.directives d.name
      rw [← r.name]
      cases h1 : n.directives.find? (fun y => y.name == d.name) <;>
        cases h2 : n'.directives.find? (fun y => y.name == d.name) <;> rw [h1, h2] at hfind <;>
        simp only [OptRel] at hfind
      rename_i e e'
      simp only [← contains_perm hfind.locations, ← contains_perm r.locations]
      exact (((r.locations.filter _).map _).append ((hfind.locations.filter _).map _)).append
        (diffDirectiveArguments_perm d d' e e' r hfind (un.dargs e (List.mem_of_find?_eq_some h1)))
    · apply ListEqv.map_perm (ListEqv.filter hn.directives _ _ ?_) _ _ (fun a b _ r => by rw [r.name])
      intro d d' _ r
      rw [← r.name]
      exact ListEqv.findNone dirEqv_name ho.directives d.name
  have h4 : (findChangedTypes o n).Perm (findChangedTypes o' n') := by
    unfold findChangedTypes SchemaD.findType
    apply ListEqv.filterMap_perm ho.types
    intro t t' _ r
    have hfind := ListEqv.find typeEqv_name hn.types un.types t.name
    rw [← r.name]
    cases h1 : n.types.find? (fun y => y.name == t.name) <;>
      cases h2 : n'.types.find? (fun y => y.name == t.name) <;> rw [h1, h2] at hfind <;>
      simp only [OptRel] at hfind
    all_goals first | rfl | simp only [← r.kind, ← hfind.kind]
  have mp := fun k => matchingPairs_eqv ho hn un.types k
  have h5 : (diffUnionTypes o n).Perm (diffUnionTypes o' n') := by
    unfold diffUnionTypes
    exact ListEqv.flatMap_perm (mp _) _ _ fun p q _ r => union_pair p.1 q.1 p.2 q.2 r.1 r.2
  have h6 : (diffEnumTypes o n).Perm (diffEnumTypes o' n') := by
    unfold diffEnumTypes
    exact ListEqv.flatMap_perm (mp _) _ _ fun p q hp r =>
      enum_pair p.1 q.1 p.2 q.2 r.1 r.2 (un.values p.2 (mem_matching_new hp))
  have h7 : (diffObjectTypes o n).Perm (diffObjectTypes o' n') := by
    unfold diffObjectTypes
    apply ListEqv.flatMap_perm (mp _)
    intro p q hp r
    have hm := mem_matching_new hp
    simp only [← contains_perm r.1.interfaces, ← contains_perm r.2.interfaces, ← r.1.name]
    exact ((diffFields_perm p.1 q.1 p.2 q.2 r.1 r.2 (un.fields p.2 hm) (un.args p.2 hm)).append
      ((r.1.interfaces.filter _).map _)).append ((r.2.interfaces.filter _).map _)
  have h8 : (diffInterfaceTypes o n).Perm (diffInterfaceTypes o' n') := by
    unfold diffInterfaceTypes
    exact ListEqv.flatMap_perm (mp _) _ _ fun p q hp r =>
      diffFields_perm p.1 q.1 p.2 q.2 r.1 r.2 (un.fields p.2 (mem_matching_new hp)) (un.args p.2 (mem_matching_new hp))
  have h9 : (diffInputTypes o n).Perm (diffInputTypes o' n') := by
    unfold diffInputTypes
    exact ListEqv.flatMap_perm (mp _) _ _ fun p q hp r =>
      input_pair p.1 q.1 p.2 q.2 r.1 r.2 (un.inputs p.2 (mem_matching_new hp))
  exact (((((((((h0.append h1).append h2).append h3).append h4).append h5).append h6).append h7).append h8).append h9)

/-- the report, read as a multiset, is the same -/
theorem diff_perm_deep_count (o o' n n' : SchemaD) (ho : SchemaEqv o o') (hn : SchemaEqv n n') (un : UniqSchema n)
    (m : Nat) (c : Change) : (diffSchema o n m).count c = (diffSchema o' n' m).count c :=
  (diff_perm_deep o o' n n' ho hn un m).count_eq c

/-- "no breaking change reported" does not depend on any order -/
theorem no_breaking_perm_deep (o o' n n' : SchemaD) (ho : SchemaEqv o o') (hn : SchemaEqv n n') (un : UniqSchema n) :
    diffSchema o n 2 = [] → diffSchema o' n' 2 = [] := by
  intro e
  have h := diff_perm_deep o o' n n' ho hn un 2
  rw [e] at h
  exact (List.Perm.nil_eq h).symm

/-! ### non-vacuity: every list of the old schema reordered (types, fields, arguments, union members), a real edit -/

private def aX : ArgD := { name := "x", type := .named "Int" }
private def aY : ArgD := { name := "y", type := .named "Int" }
private def fF : FieldD := { name := "f", type := .named "Int", args := [aX, aY] }
private def fF' : FieldD := { name := "f", type := .named "Int", args := [aY, aX] }
private def fG : FieldD := { name := "g", type := .named "U" }
private def tQ1 : TypeD := { kind := .object, name := "Query", fields := [fF, fG] }
private def tQ2 : TypeD := { kind := .object, name := "Query", fields := [fG, fF'] }
private def tU1 : TypeD := { kind := .union, name := "U", members := ["A", "B"] }
private def tU2 : TypeD := { kind := .union, name := "U", members := ["B", "A"] }
private def dO : SchemaD := { types := [tU1, tQ1] }
private def dO' : SchemaD := { types := [tQ2, tU2] }
/-- new schema: both arguments and member `A` removed -/
private def dN : SchemaD :=
  { types := [{ kind := .union, name := "U", members := ["B"] },
              { kind := .object, name := "Query", fields := [{ name := "f", type := .named "Int" }, fG] }] }

private theorem fieldEqv_refl (f : FieldD) : FieldEqv f f := ⟨rfl, rfl, rfl, List.Perm.refl _⟩
private theorem f2_refl {α} {R : α → α → Prop} (hr : ∀ a, R a a) : ∀ l : List α, F2 R l l
  | [] => .nil
  | a :: l => .cons (hr a) (f2_refl hr l)
private theorem typeEqv_refl (t : TypeD) : TypeEqv t t :=
  ⟨rfl, rfl, List.Perm.refl _, List.Perm.refl _, List.Perm.refl _, List.Perm.refl _, ⟨_, List.Perm.refl _, f2_refl fieldEqv_refl _⟩⟩
/-- every schema description is `SchemaEqv` to itself -/
theorem SchemaEqv.refl (s : SchemaD) : SchemaEqv s s :=
  ⟨⟨_, List.Perm.refl _, f2_refl typeEqv_refl _⟩,
   ⟨_, List.Perm.refl _, f2_refl (fun d => ⟨rfl, List.Perm.refl _, List.Perm.refl _⟩) _⟩, rfl, rfl, rfl⟩

private theorem dO_eqv : SchemaEqv dO dO' := by
  refine ⟨⟨[tQ1, tU1], List.Perm.swap _ _ _, .cons ?_ (.cons ?_ .nil)⟩, ⟨[], List.Perm.refl _, .nil⟩, rfl, rfl, rfl⟩
  · exact ⟨rfl, rfl, List.Perm.refl _, List.Perm.refl _, List.Perm.refl _, List.Perm.refl _,
      ⟨[fG, fF], List.Perm.swap _ _ _, .cons (fieldEqv_refl _) (.cons ⟨rfl, rfl, rfl, List.Perm.swap _ _ _⟩ .nil)⟩⟩
  · exact ⟨rfl, rfl, List.Perm.swap _ _ _, List.Perm.refl _, List.Perm.refl _, List.Perm.refl _, ⟨[], List.Perm.refl _, .nil⟩⟩

private theorem dN_uniq : UniqSchema dN := by
  constructor <;> simp [Uniq, dN, fG]

/-- the two reports contain the same changes (here: three BREAKING ones, in another order), through the theorem -/
example : (diffSchema dO dN 2).Perm (diffSchema dO' dN 2) :=
  diff_perm_deep dO dO' dN dN dO_eqv (SchemaEqv.refl dN) dN_uniq 2
example : (diffSchema dO dN 2).length = 3 ∧ diffSchema dO dN 2 ≠ diffSchema dO' dN 2 := by decide

end PyGql.Props.C20

/-
  C07 — property theorems, part 13: every headline soundness theorem APPLIES to a registry with the stand-in scalar
  (non-vacuity after the repair of audit findings C07-F1 and C07-F2). Each theorem below discharges ALL hypotheses of one headline
  theorem on `StandIn.reg` (`scalar Any  enum Color  input Box {any: Any = "dflt", must: Any!, many: [Any!], n: Int! = 3, c: Color}`)
  for an input that reaches the stand-in scalar — at a non-null position, inside a list, inside an input object, through a
  variable, and as a list / object LITERAL at the scalar position (F2: `VarsFit.scalarPos`) — and uses it to conclude.
  The model values on the left of each `rfl` are what the real code answers (stream `standin` of harness/corr/C07.py).
-/
import PyGqlModel.Props.C07_regok

set_option linter.unusedSimpArgs false
set_option linter.unusedVariables false

namespace PyGql.Props.C07
open PyGql PyGql.Coerce

namespace StandIn

/-- `f(a: Any!, box: Box, d: Any = "dflt")`, as `build_schema` registers it (python names = names) -/
def argDefs : List InField :=
  [ { name := "a", pyName := "a", type := .nonNull (.named "Any"), default := none },
    { name := "box", pyName := "box", type := .named "Box", default := none },
    { name := "d", pyName := "d", type := .named "Any", default := some (.str "dflt") } ]

theorem argsOK : ArgsOK reg argDefs :=
  ⟨by intro d hd; simp [argDefs] at hd; rcases hd with rfl | rfl | rfl <;> rfl,
   by
    intro d hd v hv
    simp [argDefs] at hd
    rcases hd with rfl | rfl | rfl <;> simp at hv
    subst hv
    exact .custom get_any dflt_customOK,
   by decide⟩

/-- `{ k: f(a: [$v, 1], box: {must: $v}) }` -/
def args : List (String × Lit) := [("a", .list [.var "v", .int 1]), ("box", .obj [("must", .var "v")])]

private theorem notVar_list {items : List Lit} : ∀ x, Lit.list items ≠ .var x := fun x h => by cases h
private theorem notVar_obj {kvs : List (String × Lit)} : ∀ x, Lit.obj kvs ≠ .var x := fun x h => by cases h

/-- the variable `$v` holds the int 3, which the stand-in's `parse` produced from the JSON 3 -/
theorem three_customOK : CustomOK reg "Any" (.int 3) :=
  .inl ⟨.int 3, rfl, by simp [reg, Reg.ofTypes, defaultScalarParse, jvAllFinite, pvOfJson]⟩

theorem args_varsFit : ∀ d, d ∈ argDefs → ∀ l, lookupLast d.name args = some l → VarsFit reg (some [("v", .int 3)]) d.type l := by
  intro d hd l hl
  simp [argDefs] at hd
  rcases hd with rfl | rfl | rfl <;> simp [args, lookupLast] at hl
  · subst hl; exact .scalarPos (n := "Any") rfl get_any notVar_list
  · subst hl
    refine .obj (n := "Box") (fs := boxFields) rfl get_box (fun f hf l hl => ?_)
    simp [boxFields] at hf
    rcases hf with rfl | rfl | rfl | rfl | rfl <;> simp [lookupLast] at hl
    subst hl
    refine .var (fun vs v hvs hv _ => ?_)
    cases hvs
    simp [lookupLast] at hv; subst hv
    exact .custom get_any three_customOK

/-- `query ($v: Any!)` -/
def varDefs : List VarDef := [{ name := "v", type := .nonNull (.named "Any"), default := none }]

theorem args_varsAllowed : ∀ d, d ∈ argDefs → ∀ l, lookupLast d.name args = some l → VarsAllowed reg varDefs d.type d.default.isSome l := by
  intro d hd l hl
  simp [argDefs] at hd
  rcases hd with rfl | rfl | rfl <;> simp [args, lookupLast] at hl
  · subst hl; exact .scalarPos (n := "Any") rfl get_any notVar_list
  · subst hl
    refine .obj (n := "Box") (fs := boxFields) rfl get_box (fun f hf l hl => ?_)
    simp [boxFields] at hf
    rcases hf with rfl | rfl | rfl | rfl | rfl <;> simp [lookupLast] at hl
    subst hl
    refine .var (fun d hd _ => ?_)
    simp [varDefs] at hd; subst hd; rfl

def tbl : ArgTable := fun _ _ => some argDefs
def world : TWorld := fun _ _ _ _ => .leaf
def sels : List SelT := [SelT.mk "k" "f" args []]

/-- what the resolver of `k` receives for `{"v": {"x": 1}}` -/
def kwargs : List (String × PV) :=
  [("a", .list [.dict [("x", .int 1)], .str "1"]),
   ("box", .dict [("any", .str "dflt"), ("must", .dict [("x", .int 1)]), ("n", .int 3)]),
   ("d", .str "dflt")]

private theorem inTree_sels {sel : SelT} (h : InTree sel sels) : sel = SelT.mk "k" "f" args [] := by
  cases h with
  | here hm => simpa [sels] using hm
  | deeper hm hin =>
    rename_i s
    have hs : s = SelT.mk "k" "f" args [] := by simpa [sels] using hm
    subst hs
    cases hin with
    | here hm' => simp [SelT.sub] at hm'
    | deeper hm' _ => simp [SelT.sub] at hm'

end StandIn

open StandIn

/-- `variable_sound` applies: a JSON object for `Box` with a list holding a null at `must: Any!` and an object item in `many: [Any!]` -/
theorem variable_sound_applies_with_default_scalar :
    Conforms StandIn.reg (.named "Box")
      (.dict [("any", .str "dflt"), ("must", .list [.int 1, .none]), ("many", .list [.dict [("k", .bool true)]]), ("n", .int 3)]) :=
  variable_sound regOK_satisfiable_with_default_scalar 6 (.named "Box")
    (.obj [("must", .list [.int 1, .null]), ("many", .list [.obj [("k", .bool true)]])]) _ rfl (by rfl)

/-- `variable_sound_total` (no fuel) applies -/
theorem variable_sound_total_applies_with_default_scalar :
    Conforms StandIn.reg (.nonNull (.named "Any")) (.list [.int 1, .none]) :=
  variable_sound_total regOK_satisfiable_with_default_scalar (.nonNull (.named "Any")) (.list [.int 1, .null]) _ rfl (by rfl)

/-- `literal_sound` applies, with a variable environment, to an OBJECT LITERAL at `must: Any!` that contains a variable and `[null]` -/
theorem literal_sound_applies_with_default_scalar :
    Conforms StandIn.reg (.named "Box")
      (.dict [("any", .str "dflt"), ("must", .dict [("a", .int 3), ("b", .list [.none])]), ("n", .int 3), ("c", .str "RED")]) := by
  refine literal_sound regOK_satisfiable_with_default_scalar (some [("v", .int 3)]) 6 (.named "Box")
    (.obj [("must", .obj [("a", .var "v"), ("b", .list [.null])]), ("c", .enum "RED")]) _ rfl (.inr ?_) (by rfl)
  refine .obj (n := "Box") (fs := boxFields) rfl get_box (fun f hf l hl => ?_)
  simp [boxFields] at hf
  rcases hf with rfl | rfl | rfl | rfl | rfl <;> simp [lookupLast] at hl
  · subst hl; exact .scalarPos (n := "Any") rfl get_any (fun x h => by cases h)
  · subst hl; exact .leaf rfl

/-- `literal_sound_total` applies (constant literal: a default of a variable definition) -/
theorem literal_sound_total_applies_with_default_scalar :
    Conforms StandIn.reg (.list (.nonNull (.named "Any"))) (.list [.str "1", .list [.none]]) :=
  literal_sound_total regOK_satisfiable_with_default_scalar none (.list (.nonNull (.named "Any"))) (.list [.int 1, .list [.null]]) _ rfl
    (.inl rfl) (by rfl)

/-- `variables_sound` applies: `query ($v: Any!)` with `{"v": {"x": 1}}` -/
theorem variables_sound_applies_with_default_scalar :
    ∃ d, d ∈ varDefs ∧ d.name = "v" ∧ Conforms StandIn.reg d.type (.dict [("x", .int 1)]) :=
  variables_sound regOK_satisfiable_with_default_scalar 6 [("v", .obj [("x", .int 1)])] varDefs [("v", .dict [("x", .int 1)])]
    (by intro d hd; simp [varDefs] at hd; subst hd; rfl) (by rfl) ("v", .dict [("x", .int 1)]) (by simp)

/-- `arguments_sound` applies: `f(a: [$v, 1], box: {must: $v})` with `$v = 3`; the omitted `d: Any = "dflt"` gets its default -/
theorem arguments_sound_applies_with_default_scalar :
    ConformsFields StandIn.reg argDefs
      [("a", .list [.int 3, .str "1"]), ("box", .dict [("any", .str "dflt"), ("must", .int 3), ("n", .int 3)]), ("d", .str "dflt")] :=
  arguments_sound regOK_satisfiable_with_default_scalar 6 [("v", .int 3)] args argDefs _ argsOK args_varsFit (by rfl)

/-- `validated_arguments_sound` applies (variables coerced by the model, usages as the validator accepts them) -/
theorem validated_arguments_sound_applies_with_default_scalar : ConformsFields StandIn.reg argDefs kwargs :=
  validated_arguments_sound regOK_satisfiable_with_default_scalar 6 varDefs [("v", .obj [("x", .int 1)])]
    (by intro d hd; simp [varDefs] at hd; subst hd; rfl) [("v", .dict [("x", .int 1)])] (by rfl)
    args argDefs argsOK args_varsAllowed kwargs (by rfl)

/-- `every_call_conforms` / `every_validated_call_conforms` apply: the trace of `query ($v: Any!) { k: f(a: [$v, 1], box: {must: $v}) }`
    HAS a call, and its keyword arguments conform -/
theorem every_validated_call_conforms_applies_with_default_scalar :
    Ev.call "k" kwargs ∈ executeOp StandIn.reg 6 varDefs [("v", .obj [("x", .int 1)])] [{ key := "k", defs := argDefs, args := args }] ∧
    ∃ sel, sel ∈ [({ key := "k", defs := argDefs, args := args } : FieldSel)] ∧ sel.key = "k" ∧ ConformsFields StandIn.reg sel.defs kwargs := by
  have hmem : Ev.call "k" kwargs ∈ executeOp StandIn.reg 6 varDefs [("v", .obj [("x", .int 1)])] [{ key := "k", defs := argDefs, args := args }] := by
    have : executeOp StandIn.reg 6 varDefs [("v", .obj [("x", .int 1)])] [{ key := "k", defs := argDefs, args := args }] = [Ev.call "k" kwargs] := by rfl
    rw [this]; exact List.mem_singleton.2 rfl
  refine ⟨hmem, every_validated_call_conforms regOK_satisfiable_with_default_scalar 6 varDefs _ _
    (by intro d hd; simp [varDefs] at hd; subst hd; rfl)
    (by intro sel hs; simp at hs; subst hs; exact argsOK)
    (by intro sel hs d hd l hl; simp at hs; subst hs; exact args_varsAllowed d hd l hl) "k" kwargs hmem⟩

/-- `every_call_conforms_tree` / `every_validated_call_conforms_tree` apply: the whole-tree trace of the same operation HAS a call
    event, and it is a good one -/
theorem every_validated_call_conforms_tree_applies_with_default_scalar :
    TEv.call [.key "k"] "Query" "f" kwargs ∈ executeTree StandIn.reg 6 3 varDefs [("v", .obj [("x", .int 1)])] tbl world "Query" sels ∧
    GoodEv StandIn.reg tbl (TEv.call [.key "k"] "Query" "f" kwargs) := by
  have hmem : TEv.call [.key "k"] "Query" "f" kwargs ∈ executeTree StandIn.reg 6 3 varDefs [("v", .obj [("x", .int 1)])] tbl world "Query" sels := by
    have : executeTree StandIn.reg 6 3 varDefs [("v", .obj [("x", .int 1)])] tbl world "Query" sels = [TEv.call [.key "k"] "Query" "f" kwargs] := by rfl
    rw [this]; exact List.mem_singleton.2 rfl
  refine ⟨hmem, every_validated_call_conforms_tree regOK_satisfiable_with_default_scalar 6 3 varDefs _ tbl world "Query" sels
    (by intro d hd; simp [varDefs] at hd; subst hd; rfl) ?_ _ hmem⟩
  intro sel hin ty adefs hd
  cases inTree_sels hin
  cases hd
  exact ⟨argsOK, args_varsAllowed⟩

end PyGql.Props.C07

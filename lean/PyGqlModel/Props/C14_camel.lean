/-
  C14 — CamelCaseSchemaTransform, PER SCHEMA and EXACT: "camel-casing alone drops no member".

  `transform_preserves_untouched_members` relates every type of a transform result to its source type by the SUB-LIST relation
  `Sub2` (what visibility needs: members can be missing). For camel-casing alone the relation is exact:
  `camel_case_exact` (FULL): for `transform_schema(source, CamelCaseSchemaTransform())` on a closed well-formed source, every
  name the source registers is registered by the result, and every type the result registers has — for the source type `e0` of
  the same name — the BY-NAME VIEW (`typeV`: the type's attributes, interfaces / union members by name, and IN ORDER the views of
  its fields with the views of their arguments, or of its input fields)
      `typeV h' e'.2 = (typeV h e0.2).map (renV ren)`
  i.e. exactly the source's view with every field / argument / input-field NAME converted by `ren` (`renV`; `ren` stands for
  `snakecase_to_camelcase`, arbitrary here): no member dropped, none added, order kept, python names, defaults, descriptions,
  deprecations, resolvers, subscription resolvers, types by name, enum values, type resolvers unchanged.
  `camel_case_drops_no_member` reads the counts off it; `camel_inplace_exact` is the same for the visitor applied in place.
  Proof: clone is exact (`clone_types_view`), the visitor round rebuilds every member (Lemmas/HeapCamelView.lean), and the
  healing that follows the replacement is exact because every mentioned name is still registered (`healLoop_exact`).
-/
import PyGqlModel.Lemmas.HeapCamelView
import PyGqlModel.Props.C14_refine
import PyGqlModel.Props.C14_frames

set_option linter.unusedSimpArgs false
set_option linter.unusedVariables false

namespace PyGql.Props.C14
open PyGql.Heap PyGql.Heap.Own

private theorem nameIn_of_mem {reg : List (String × Addr)} {n : String} (hn : n ∈ regNames reg) : nameIn reg n := by
  simp only [regNames, List.mem_map] at hn
  obtain ⟨e, he, rfl⟩ := hn
  simp only [nameIn, lookup, Option.isSome_map, List.find?_isSome]
  exact ⟨e, he, by simp⟩

/-- FULL: the camel-case visitor applied IN PLACE to a closed well-formed schema: exact by-name view of every registered type -/
theorem camel_inplace_exact (cfg : Cfg) (fuel : Nat) (ren : String → String) (s : Schema) (h h' : Heap) (s' : Schema)
    (hc : closedB h s = true) (hw : wfB h s = true) (e : onSchema cfg fuel (.camel ren) s h = some (h', s')) :
    ∀ e', e' ∈ s'.types → ∃ e0, e0 ∈ s.types ∧ e0.1 = e'.1 ∧ typeV h' e'.2 = (typeV h e0.2).map (renV ren) := by
  have w := wfs_of_closedB hc hw
  have hread : ∀ e, e ∈ s.types → TypeReadable h e.2 := by
    intro e he
    obtain ⟨t, ht, _⟩ := (typeShape_iff _ h e.2).mp (w.types e he)
    exact ⟨t, ht, membersReadable_of_shape _ h e.2 t ht (w.types e he)⟩
  have hdirs : ∀ e, e ∈ s.dirs → ∃ d, h.readDir e.2 = some d ∧ ∀ x, x ∈ d.args → ∃ g, h.readArg x = some g := by
    intro e he
    have hs := w.dirs e he
    simp only [dirShape] at hs
    split at hs
    · rename_i d hd
      refine ⟨d, hd, fun x hx => ?_⟩
      obtain ⟨g, hg, _⟩ := (argShape_iff _ h x).mp (List.all_eq_true.mp hs x hx)
      exact ⟨g, hg⟩
    · cases hs
  obtain ⟨gT, cT, dT⟩ := visitTypes_camel_view ren s.types s.types h (fun e he _ => hread e he)
  have gD : ShowsSrc (visitTypes (.camel ren) s.types h s.types).1 (visitDirs (.camel ren) s.types (visitTypes (.camel ren) s.types h s.types).1 s.dirs).1 :=
    visitDirs_camel_grow ren s.types s.dirs _ (fun e he => by
      obtain ⟨d, hd, ha⟩ := hdirs e he
      exact ⟨d, gT.readDir hd, fun x hx => by obtain ⟨q, hq⟩ := ha x hx; exact ⟨q, gT.readArg hq⟩⟩)
  -- the registry after the replacement loop
  have hP : ∀ e', e' ∈ (replaceCore cfg s (visitAll (.camel ren) s h).2.1 (visitAll (.camel ren) s h).2.2).1.types →
      ∃ e0, e0 ∈ s.types ∧ e0.1 = e'.1 ∧ typeV (visitAll (.camel ren) s h).1 e'.2 = (typeV h e0.2).map (renV ren) := by
    simp only [replaceCore, visitAll]
    apply replaceTypes_pred cfg (fun e' => ∃ e0, e0 ∈ s.types ∧ e0.1 = e'.1 ∧
      typeV (visitDirs (.camel ren) s.types (visitTypes (.camel ren) s.types h s.types).1 s.dirs).1 e'.2 = (typeV h e0.2).map (renV ren))
    · intro x hx a' ea
      obtain ⟨a'', e1, e0, he0, hn0, _, hv⟩ := cT x hx
      rw [ea] at e1
      cases e1
      exact ⟨e0, he0, hn0, typeV_ren_grow gD (hread e0 he0) hv⟩
    · intro e0 he0
      by_cases hp : isProtected e0.1 = true
      · left
        refine ⟨e0, he0, rfl, ?_⟩
        obtain ⟨t0, ht0, hm0⟩ := hread e0 he0
        have hpl := w.prot e0 he0
        simp only [protLeaf, hp, Bool.not_true, Bool.false_or, ht0, beq_iff_eq] at hpl
        rw [typeV_keep_readable (gT.trans' gD) (hread e0 he0), typeV_of_read ht0]
        simp [tview, hpl, renV]
      · have hnp : isProtected e0.1 = false := by simpa using hp
        rcases dT e0 he0 hnp with ⟨x, hx, hxe⟩ | hv
        · exact Or.inr (List.mem_map.mpr ⟨x, hx, hxe⟩)
        · exact Or.inl ⟨e0, he0, rfl, typeV_ren_grow gD (hread e0 he0) hv⟩
  -- the healing that follows is exact
  have wOut := round_wf_out cfg (.camel ren) s h (refOK s.types) (compat_refOK _ _) w
  have hsome : ∀ x, x ∈ (visitAll (.camel ren) s h).2.1 → x.2 ≠ none := by
    intro x hx
    simp only [visitAll] at hx
    obtain ⟨a', e1, _⟩ := cT x hx
    rw [e1]; simp
  have hready : HealReady (visitAll (.camel ren) s h).1 (replaceCore cfg s (visitAll (.camel ren) s h).2.1 (visitAll (.camel ren) s h).2.2).1 := by
    apply healReady_of_wfs wOut
    intro r hr
    have h1 := out_refOK (.camel ren) s.types r hr
    simp only [refOK, beq_iff_eq] at h1
    have hmem : r.name ∈ regNames s.types := List.mem_map.mpr ⟨(r.name, r.addr), lookup_mem' h1, rfl⟩
    apply nameIn_of_mem
    simp only [replaceCore]
    exact replaceTypes_names cfg _ s.types false hsome r.name hmem
  simp only [onSchema, replaceTD] at e
  split at e
  · cases fuel with
    | zero => simp [healLoop] at e
    | succ k =>
      obtain ⟨h3, e3, n3⟩ := healLoop_exact cfg k _ _ hready
      rw [e3] at e
      cases e
      intro e' he'
      obtain ⟨e0, k1, k2, k3⟩ := hP e' (by simpa [healedRoots] using he')
      exact ⟨e0, k1, k2, by rw [typeV_nveq n3]; exact k3⟩
  · cases e
    exact hP

/-- FULL (see the header): `transform_schema(source, CamelCaseSchemaTransform())` -/
theorem camel_case_exact (cfg : Cfg) (hd : cfg.deepClone = true) (hk : cfg.keepAllTypes = true) (hacc : cfg.accumulateBusted = true)
    (fuel : Nat) (ren : String → String) (s : Schema) (h h' : Heap) (s' : Schema) (hc : closedB h s = true) (hw : wfB h s = true)
    (e : transform cfg (2 + fuel) [.camel ren] s h = some (h', s')) :
    (∀ n, n ∈ names s → n ∈ names s') ∧
    ∀ e', e' ∈ s'.types → ∃ e0, e0 ∈ s.types ∧ e0.1 = e'.1 ∧ typeV h' e'.2 = (typeV h e0.2).map (renV ren) := by
  refine ⟨transform_intact cfg hd hk (2 + fuel) [.camel ren] (fun v hv => by simp only [List.mem_singleton] at hv; subst hv; trivial) s h h' s' e, ?_⟩
  simp only [transform] at e
  split at e
  · cases e
  · rename_i r hr
    obtain ⟨h1, s1⟩ := r
    obtain ⟨c1, w1⟩ := clone_closed cfg hd hk hacc (2 + fuel) s h h1 s1 hc hw hr
    have v1 := clone_types_view cfg hd hk (2 + fuel) s h h1 s1 hc hw hr
    simp only [transformFrom] at e
    split at e
    · cases e
    · rename_i r2 hr2
      obtain ⟨h2, s2⟩ := r2
      cases e
      intro e' he'
      obtain ⟨e1, k1, k2, k3⟩ := camel_inplace_exact cfg (2 + fuel) ren s1 h1 h' s' c1 w1 hr2 e' he'
      obtain ⟨e0, j1, j2, j3⟩ := v1 e1 k1
      exact ⟨e0, j1, j2.trans k2, by rw [k3, j3]⟩

/-- "camel-casing alone drops no member": the member counts (fields, input fields) of every type are those of the source type,
    and so are the argument counts of every field (position by position) -/
theorem camel_case_drops_no_member (ren : String → String)
    (v0 : TypeO × List (Option (FieldO × List (Option ArgO))) × List (Option ArgO)) :
    (renV ren v0).2.1.length = v0.2.1.length ∧ (renV ren v0).2.2.length = v0.2.2.length ∧
    (renV ren v0).2.1.map (fun o => o.map (fun p => p.2.length)) = v0.2.1.map (fun o => o.map (fun p => p.2.length)) ∧
    (renV ren v0).1 = v0.1 := by
  refine ⟨by simp [renV], by simp [renV], ?_, rfl⟩
  simp only [renV, List.map_map]
  apply List.map_congr_left
  intro o _
  cases o <;> simp [renF]

/-- … and python names, defaults, descriptions, resolvers of the members are kept: the only attribute `renA` / `renF` change is
    the GraphQL name -/
theorem renA_keeps (ren : String → String) (g : ArgO) :
    (renA ren g).py = g.py ∧ (renA ren g).dflt = g.dflt ∧ (renA ren g).desc = g.desc ∧ (renA ren g).ty = g.ty ∧ (renA ren g).name = ren g.name :=
  ⟨rfl, rfl, rfl, rfl, rfl⟩

theorem renF_keeps (ren : String → String) (p : FieldO × List (Option ArgO)) :
    (renF ren p).1.py = p.1.py ∧ (renF ren p).1.res = p.1.res ∧ (renF ren p).1.sub = p.1.sub ∧ (renF ren p).1.desc = p.1.desc ∧
    (renF ren p).1.depr = p.1.depr ∧ (renF ren p).1.ty = p.1.ty ∧ (renF ren p).1.name = ren p.1.name :=
  ⟨rfl, rfl, rfl, rfl, rfl, rfl, rfl⟩

/-- non-vacuity on the witness: the source is closed and well-formed and the camel-case transform of it succeeds -/
example : closedB h0 s0 = true ∧ wfB h0 s0 = true ∧ (transform Cfg.fixed (2 + 6) [.camel (fun n => n ++ "X")] s0 h0).isSome = true := by decide

/-- the variant in the working tree -/
theorem current_camel_case_exact
    (fuel : Nat) (ren : String → String) (s : Schema) (h h' : Heap) (s' : Schema) (hc : closedB h s = true) (hw : wfB h s = true)
    (e : transform PyGql.Generated.HeapCfg.currentCfg (2 + fuel) [.camel ren] s h = some (h', s')) :
    (∀ n, n ∈ names s → n ∈ names s') ∧
    ∀ e', e' ∈ s'.types → ∃ e0, e0 ∈ s.types ∧ e0.1 = e'.1 ∧ typeV h' e'.2 = (typeV h e0.2).map (renV ren) :=
  camel_case_exact _ cur_deepClone cur_keepAllTypes cur_accumulateBusted fuel ren s h h' s' hc hw e

end PyGql.Props.C14

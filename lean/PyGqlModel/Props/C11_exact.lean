/-
  C11 — `build_exact` / `build_perm` for documents WITHOUT extensions (the part of the full statement
  that finding S8 does not touch), about the model `PyGqlModel/Sdl.lean`.
-/
import PyGqlModel.Sdl
import PyGqlModel.Spec.SdlSpec

set_option linter.unusedVariables false
set_option linter.unusedSimpArgs false

namespace PyGql.Props.C11
open PyGql PyGql.Sdl PyGql.SdlSpec

/-! ### `_collect_definitions` succeeds on documents with unique names -/

theorem any_name_false {α} (name : α → String) (l : List α) (n : String) (h : n ∉ l.map name) :
    l.any (fun x => name x == n) = false := by
  induction l with
  | nil => rfl
  | cons x xs ih =>
    simp only [List.map, List.mem_cons, not_or] at h
    simp only [List.any, ih h.2, Bool.or_false]
    simp only [beq_eq_false_iff_ne, ne_eq]
    exact fun e => h.1 e.symm

private theorem collect_ok_aux (doc : Doc) : ∀ (acc : Collected),
    (acc.types.map (·.name) ++ (typeDefs doc).map (·.name)).Nodup →
    (acc.directives.map (·.name) ++ (dirDefs doc).map (·.name)).Nodup →
    ((if acc.schemaDef.isSome then 1 else 0) + (schemaDefs doc).length ≤ 1) →
    (∀ t ∈ typeDefs doc, isDefaultName t.name = false) →
    ∃ c, doc.foldlM collectStep acc = .ok c ∧ c.types = acc.types ++ typeDefs doc ∧ c.directives = acc.directives ++ dirDefs doc
      ∧ c.schemaDef = (match acc.schemaDef with | some s => some s | none => (schemaDefs doc).head?) := by
  induction doc with
  | nil =>
    intro acc _ _ _ _
    refine ⟨acc, rfl, by simp [typeDefs], by simp [dirDefs], ?_⟩
    cases acc.schemaDef <;> simp [schemaDefs]
  | cons d ds ih =>
    intro acc hT hD hS hN
    rw [List.foldlM_cons]
    cases d with
    | type t =>
      have hmem : t.name ∉ acc.types.map (·.name) := by
        intro hm
        simp only [typeDefs, List.filterMap_cons, List.map_cons] at hT
        have := (List.nodup_append.mp hT).2.2 _ hm t.name (by simp)
        exact this rfl
      have hany := any_name_false (·.name) acc.types t.name hmem
      have hnb : isDefaultName t.name = false := hN t (by simp [typeDefs])
      simp only [collectStep, hany, hnb, Bool.false_eq_true, if_false, pure, Except.pure, bind, Except.bind]
      have := ih { acc with types := acc.types ++ [t] }
        (by simpa [typeDefs, List.append_assoc] using hT) (by simpa [dirDefs] using hD) (by simpa [schemaDefs] using hS)
        (fun t' ht' => hN t' (by simp [typeDefs] at ht' ⊢; exact Or.inr ht'))
      obtain ⟨c, h1, h2, h3, h4⟩ := this
      exact ⟨c, h1, by simp [h2, typeDefs], by simp [h3, dirDefs], by simpa [schemaDefs] using h4⟩
    | directive dd =>
      have hmem : dd.name ∉ acc.directives.map (·.name) := by
        intro hm
        simp only [dirDefs, List.filterMap_cons, List.map_cons] at hD
        have := (List.nodup_append.mp hD).2.2 _ hm dd.name (by simp)
        exact this rfl
      have hany := any_name_false (·.name) acc.directives dd.name hmem
      simp only [collectStep, hany, Bool.false_eq_true, if_false, pure, Except.pure, bind, Except.bind]
      have := ih { acc with directives := acc.directives ++ [dd] }
        (by simpa [typeDefs] using hT) (by simpa [dirDefs, List.append_assoc] using hD) (by simpa [schemaDefs] using hS)
        (by simpa [typeDefs] using hN)
      obtain ⟨c, h1, h2, h3, h4⟩ := this
      exact ⟨c, h1, by simp [h2, typeDefs], by simp [h3, dirDefs], by simpa [schemaDefs] using h4⟩
    | schema sd =>
      have hnone : acc.schemaDef = none := by
        cases hh : acc.schemaDef with
        | none => rfl
        | some x => simp [hh, schemaDefs] at hS; omega
      simp only [collectStep, hnone, Option.isSome_none, Bool.false_eq_true, if_false, pure, Except.pure, bind, Except.bind]
      have hds : schemaDefs ds = [] := by
        have e : schemaDefs (Def.schema sd :: ds) = sd :: schemaDefs ds := rfl
        rw [e, hnone] at hS
        simp only [Option.isSome_none, Bool.false_eq_true, if_false, List.length_cons] at hS
        exact List.length_eq_zero_iff.mp (by omega)
      have := ih { acc with schemaDef := some sd }
        (by simpa [typeDefs] using hT) (by simpa [dirDefs] using hD) (by simp [hds]) (by simpa [typeDefs] using hN)
      obtain ⟨c, h1, h2, h3, h4⟩ := this
      exact ⟨c, h1, by simp [h2, typeDefs], by simp [h3, dirDefs], by simp [h4, hnone, schemaDefs]⟩
    | ext t =>
      simp only [collectStep, pure, Except.pure, bind, Except.bind]
      have := ih acc (by simpa [typeDefs] using hT) (by simpa [dirDefs] using hD) (by simpa [schemaDefs] using hS) (by simpa [typeDefs] using hN)
      obtain ⟨c, h1, h2, h3, h4⟩ := this
      exact ⟨c, h1, by simp [h2, typeDefs], by simp [h3, dirDefs], by simpa [schemaDefs] using h4⟩
    | schemaExt t =>
      simp only [collectStep, pure, Except.pure, bind, Except.bind]
      have := ih acc (by simpa [typeDefs] using hT) (by simpa [dirDefs] using hD) (by simpa [schemaDefs] using hS) (by simpa [typeDefs] using hN)
      obtain ⟨c, h1, h2, h3, h4⟩ := this
      exact ⟨c, h1, by simp [h2, typeDefs], by simp [h3, dirDefs], by simpa [schemaDefs] using h4⟩
    | other =>
      simp only [collectStep, pure, Except.pure, bind, Except.bind]
      have := ih acc (by simpa [typeDefs] using hT) (by simpa [dirDefs] using hD) (by simpa [schemaDefs] using hS) (by simpa [typeDefs] using hN)
      obtain ⟨c, h1, h2, h3, h4⟩ := this
      exact ⟨c, h1, by simp [h2, typeDefs], by simp [h3, dirDefs], by simpa [schemaDefs] using h4⟩

/-- Unique type names, unique directive names and at most one `schema` block: collection succeeds and returns
    exactly the definitions of the document (converse of `collect_rejects_*`). -/
theorem collect_ok (doc : Doc) (hT : ((typeDefs doc).map (·.name)).Nodup) (hD : ((dirDefs doc).map (·.name)).Nodup)
    (hS : (schemaDefs doc).length ≤ 1) (hN : ∀ t ∈ typeDefs doc, isDefaultName t.name = false) :
    ∃ c, collectDefinitions doc = .ok c ∧ c.types = typeDefs doc ∧ c.directives = dirDefs doc ∧ c.schemaDef = (schemaDefs doc).head? := by
  have := collect_ok_aux doc {} (by simpa using hT) (by simpa using hD) (by simpa using hS) hN
  simpa [collectDefinitions] using this

/-! ### documents without extensions: `build` returns exactly the declared content -/

/-- the rules a document WITHOUT extensions has to satisfy for the builder (kind rules are C13's) -/
structure ValidNoExt (doc : Doc) (d : SchemaD) : Prop where
  uniqueTypes : ((typeDefs doc).map (·.name)).Nodup
  uniqueDirectives : ((dirDefs doc).map (·.name)).Nodup
  oneSchema : (schemaDefs doc).length ≤ 1
  noBuiltinNames : ∀ t ∈ typeDefs doc, isDefaultName t.name = false
  noTypeExt : typeExts doc = []
  noSchemaExt : schemaExtensions doc = []
  /-- every member builds (references resolve, defaults are constants of their type, `@deprecated` is well-formed, …)
      and `d` is the declared content -/
  declares : Declared doc = some d
  /-- default literals do not depend on their own type's field list (finding S1b otherwise) -/
  noThunkCycle : hasThunkCycle (Env.of (typeDefs doc)) (typeDefs doc) = false
  /-- no type is its own interface / member / argument type -/
  noEagerCycle : hasEagerCycle d.types = false
  noSpecified : d.directives.any (fun x => specifiedDirectives.contains x.name) = false
  /-- the operations of the `schema` block are distinct and name known types -/
  rootsOk : buildRoots (Env.of (typeDefs doc)) (schemaDefs doc).head? d.types = .ok ⟨d.query, d.mutation, d.subscription⟩

private theorem mergeDef_nil (t : TypeDef) : mergeDef [] t = t := rfl

theorem merged_noext (doc : Doc) (h : typeExts doc = []) : merged doc = typeDefs doc := by
  simp only [merged, h]
  induction typeDefs doc with
  | nil => rfl
  | cons t ts ih => simp [List.map, mergeDef_nil, ih]

theorem mapM_buildType (defs : List TypeDef) :
    ∀ (ds : List TypeDef) (ts : List TypeD), (∀ t ∈ ds, isDefaultName t.name = false) →
      ds.mapM (buildTypeDef (Env.of defs)) = .ok ts → ds.mapM (buildType (Env.of defs)) = .ok (ts.map some) := by
  intro ds
  induction ds with
  | nil => intro ts _ h; simp [List.mapM_nil, pure, Except.pure] at h ⊢; subst h; rfl
  | cons x xs ih =>
    intro ts hn h
    rw [List.mapM_cons] at h ⊢
    have hx : isDefaultName x.name = false := hn x (by simp)
    cases hb : buildTypeDef (Env.of defs) x with
    | error e => rw [hb] at h; simp [bind, Except.bind] at h
    | ok tx =>
      rw [hb] at h
      simp only [bind, Except.bind] at h
      cases hr : xs.mapM (buildTypeDef (Env.of defs)) with
      | error e => rw [hr] at h; simp at h
      | ok txs =>
        rw [hr] at h
        simp only [pure, Except.pure, Except.ok.injEq] at h
        subst h
        have := ih txs (fun t ht => hn t (by simp [ht])) hr
        have ha : (Env.of defs).findAdditional x.name = none := rfl
        simp only [buildType, hx, Bool.false_eq_true, if_false, ha, hb, bind, Except.bind, pure, Except.pure, this, List.map_cons]

theorem filterMap_id_map_some {α} (l : List α) : (l.map some).filterMap id = l := by
  induction l with
  | nil => rfl
  | cons x xs ih => simp [ih]

private theorem typeExtensions_nil (live : Live) (doc : Doc) (h : typeExts doc = []) : typeExtensions live doc = [] := by
  induction doc with
  | nil => rfl
  | cons d ds ih =>
    cases d with
    | ext e => simp [typeExts] at h
    | type t => simp only [typeExts, List.filterMap_cons] at h; simpa [typeExtensions] using ih h
    | directive t => simp only [typeExts, List.filterMap_cons] at h; simpa [typeExtensions] using ih h
    | schema t => simp only [typeExts, List.filterMap_cons] at h; simpa [typeExtensions] using ih h
    | schemaExt t => simp only [typeExts, List.filterMap_cons] at h; simpa [typeExtensions] using ih h
    | other => simp only [typeExts, List.filterMap_cons] at h; simpa [typeExtensions] using ih h

theorem declared_parts (doc : Doc) (d : SchemaD) (h : Declared doc = some d) :
    (merged doc).mapM (buildTypeDef (Env.of (merged doc))) = .ok d.types ∧
    (dirDefs doc).mapM (buildDirective (Env.of (merged doc))) = .ok d.directives ∧
    d = { types := d.types, directives := d.directives, query := d.query, mutation := d.mutation, subscription := d.subscription } := by
  unfold Declared at h
  simp only [] at h
  split at h
  · rename_i ts ds h1 h2
    simp only [Option.some.injEq] at h
    subst h
    exact ⟨h1, h2, rfl⟩
  · simp at h

/-- **build_exact** for documents without extensions: a valid document builds, and the schema is exactly the
    declared content — every type, field, argument, default value, description, deprecation, directive
    definition and root, in document order. -/
theorem build_exact_noext (doc : Doc) (d : SchemaD) (v : ValidNoExt doc d) : build doc = .ok d := by
  obtain ⟨c, hc, hct, hcd, hcs⟩ := collect_ok doc v.uniqueTypes v.uniqueDirectives v.oneSchema v.noBuiltinNames
  have hm := merged_noext doc v.noTypeExt
  obtain ⟨hts, hds, hd⟩ := declared_parts doc d v.declares
  rw [hm] at hts hds
  have hbt := mapM_buildType (typeDefs doc) (typeDefs doc) d.types v.noBuiltinNames hts
  have hcyc := v.noEagerCycle
  have hspec := v.noSpecified
  have hroots := v.rootsOk
  have hthunk := v.noThunkCycle
  have hext : ∀ live, typeExtensions live doc = [] := fun live => typeExtensions_nil live doc v.noTypeExt
  simp only [build, buildIgnoringExtensions, hc, bind, Except.bind, buildCollected, failIf, hct, hcd, hcs, hthunk, hds, hbt,
    filterMap_id_map_some, hcyc, hroots, hspec, Bool.false_eq_true, if_false, pure, Except.pure, referencedAdditional,
    List.filter_nil, List.append_nil, extendSchema, hext, v.noSchemaExt, List.isEmpty_nil, Bool.and_self, if_true, toSchemaD]
  exact congrArg Except.ok hd.symm

/-! ### independence of the order of definitions (documents without extensions) -/

theorem find_perm {α} (name : α → String) (n : String) {l₁ l₂ : List α} (hp : l₁.Perm l₂) :
    (l₁.map name).Nodup → l₁.find? (fun x => name x == n) = l₂.find? (fun x => name x == n) := by
  induction hp with
  | nil => intro _; rfl
  | cons x _ ih =>
    intro hn
    simp only [List.map_cons, List.nodup_cons] at hn
    simp only [List.find?_cons]
    rw [ih hn.2]
  | swap x y l =>
    intro hn
    simp only [List.map_cons, List.nodup_cons, List.mem_cons, not_or] at hn
    simp only [List.find?_cons]
    cases hx : (name x == n) <;> cases hy : (name y == n) <;> simp
    have e1 : name x = n := by simpa using hx
    have e2 : name y = n := by simpa using hy
    exact absurd (e2.trans e1.symm) hn.1.1
  | trans h1 h2 ih1 ih2 =>
    intro hn
    rw [ih1 hn]
    exact ih2 ((h1.map name).nodup_iff.mp hn)

/-- the builder's view of a list of definitions does not depend on their order -/
theorem env_perm {l₁ l₂ : List TypeDef} (hp : l₁.Perm l₂) (hn : (l₁.map (·.name)).Nodup) : Env.of l₁ = Env.of l₂ := by
  simp only [Env.of, Env.mk.injEq, and_true]
  funext n
  exact find_perm (·.name) n hp hn

theorem mapM_perm {α β} (f : α → R β) {l₁ l₂ : List α} (hp : l₁.Perm l₂) :
    ∀ r₁, l₁.mapM f = .ok r₁ → ∃ r₂, l₂.mapM f = .ok r₂ ∧ r₁.Perm r₂ := by
  induction hp with
  | nil => intro r h; exact ⟨r, h, List.Perm.refl _⟩
  | @cons x l l' _ ih =>
    intro r h
    rw [List.mapM_cons] at h ⊢
    cases hx : f x with
    | error e => rw [hx] at h; simp [bind, Except.bind] at h
    | ok b =>
      rw [hx] at h
      simp only [bind, Except.bind] at h ⊢
      cases hl : l.mapM f with
      | error e => rw [hl] at h; simp at h
      | ok bs =>
        rw [hl] at h
        simp only [pure, Except.pure, Except.ok.injEq] at h
        subst h
        obtain ⟨r₂, h2, hp2⟩ := ih bs hl
        exact ⟨b :: r₂, by simp [h2, pure, Except.pure], hp2.cons b⟩
  | swap x y l =>
    intro r h
    rw [List.mapM_cons, List.mapM_cons] at h ⊢
    cases hy : f y with
    | error e => rw [hy] at h; simp [bind, Except.bind] at h
    | ok b =>
      cases hx : f x with
      | error e => rw [hy, hx] at h; simp [bind, Except.bind] at h
      | ok a =>
        cases hl : l.mapM f with
        | error e => rw [hy, hx, hl] at h; simp [bind, Except.bind] at h
        | ok bs =>
          rw [hy, hx, hl] at h
          simp only [bind, Except.bind, pure, Except.pure, Except.ok.injEq] at h
          subst h
          exact ⟨a :: b :: bs, by simp [bind, Except.bind, pure, Except.pure], List.Perm.swap a b bs⟩
  | trans _ _ ih1 ih2 =>
    intro r h
    obtain ⟨r₂, h2, p2⟩ := ih1 r h
    obtain ⟨r₃, h3, p3⟩ := ih2 r₂ h2
    exact ⟨r₃, h3, p2.trans p3⟩

theorem typeDefs_perm {d₁ d₂ : Doc} (hp : d₁.Perm d₂) : (typeDefs d₁).Perm (typeDefs d₂) := hp.filterMap _
theorem dirDefs_perm {d₁ d₂ : Doc} (hp : d₁.Perm d₂) : (dirDefs d₁).Perm (dirDefs d₂) := hp.filterMap _

/-- **build_perm** for documents without extensions: two valid documents that differ only in the ORDER of
    their definitions build schemas with the same content (same types with the same members in the same member
    order, same directive definitions). Roots: see `build_perm_roots_noext`. -/
theorem build_perm_noext (doc₁ doc₂ : Doc) (d₁ d₂ : SchemaD) (v₁ : ValidNoExt doc₁ d₁) (v₂ : ValidNoExt doc₂ d₂)
    (hp : doc₁.Perm doc₂) :
    build doc₁ = .ok d₁ ∧ build doc₂ = .ok d₂ ∧ d₁.types.Perm d₂.types ∧ d₁.directives.Perm d₂.directives := by
  refine ⟨build_exact_noext doc₁ d₁ v₁, build_exact_noext doc₂ d₂ v₂, ?_, ?_⟩
  all_goals
    obtain ⟨ht1, hd1, _⟩ := declared_parts doc₁ d₁ v₁.declares
    obtain ⟨ht2, hd2, _⟩ := declared_parts doc₂ d₂ v₂.declares
    rw [merged_noext doc₁ v₁.noTypeExt] at ht1 hd1
    rw [merged_noext doc₂ v₂.noTypeExt] at ht2 hd2
    have henv : Env.of (typeDefs doc₁) = Env.of (typeDefs doc₂) := env_perm (typeDefs_perm hp) v₁.uniqueTypes
    rw [henv] at ht1 hd1
  · obtain ⟨r, hr, hperm⟩ := mapM_perm _ (typeDefs_perm hp) _ ht1
    rw [ht2] at hr
    cases hr
    exact hperm
  · obtain ⟨r, hr, hperm⟩ := mapM_perm _ (dirDefs_perm hp) _ hd1
    rw [hd2] at hr
    cases hr
    exact hperm

theorem declared_roots (doc : Doc) (d : SchemaD) (h : Declared doc = some d) :
    (⟨d.query, d.mutation, d.subscription⟩ : Roots) = declaredRoots doc d.types := by
  unfold Declared at h
  simp only [] at h
  split at h
  · simp only [Option.some.injEq] at h
    subst h
    rfl
  · simp at h

theorem perm_short {α} {l₁ l₂ : List α} (hp : l₁.Perm l₂) (h : l₁.length ≤ 1) : l₁ = l₂ := by
  match l₁, l₂, hp with
  | [], l₂, hp => exact (List.perm_nil.mp hp.symm).symm
  | [a], l₂, hp => exact (List.perm_singleton.mp hp.symm).symm
  | _ :: _ :: _, _, _ => simp at h

theorem any_perm {α} (p : α → Bool) {l₁ l₂ : List α} (hp : l₁.Perm l₂) : l₁.any p = l₂.any p := by
  induction hp with
  | nil => rfl
  | cons x _ ih => simp [List.any_cons, ih]
  | swap x y l => simp only [List.any_cons]; cases p x <;> cases p y <;> rfl
  | trans _ _ ih1 ih2 => rw [ih1, ih2]

/-- …and the same root operation types. -/
theorem build_perm_roots_noext (doc₁ doc₂ : Doc) (d₁ d₂ : SchemaD) (v₁ : ValidNoExt doc₁ d₁) (v₂ : ValidNoExt doc₂ d₂)
    (hp : doc₁.Perm doc₂) : d₁.query = d₂.query ∧ d₁.mutation = d₂.mutation ∧ d₁.subscription = d₂.subscription := by
  have hT := (build_perm_noext doc₁ doc₂ d₁ d₂ v₁ v₂ hp).2.2.1
  have r1 := declared_roots doc₁ d₁ v₁.declares
  have r2 := declared_roots doc₂ d₂ v₂.declares
  have hs : schemaDefs doc₁ = schemaDefs doc₂ := perm_short (hp.filterMap _) v₁.oneSchema
  have hr : declaredRoots doc₁ d₁.types = declaredRoots doc₂ d₂.types := by
    simp only [declaredRoots, v₁.noSchemaExt, v₂.noSchemaExt, hs, List.foldl_nil]
    cases schemaDefs doc₂ with
    | cons sd _ => rfl
    | nil =>
      simp only [defaultRoots]
      rw [any_perm _ hT, any_perm _ hT, any_perm _ hT]
  rw [← r1, ← r2] at hr
  simpa [Roots.mk.injEq] using hr

/-! ### non-vacuity: a document with every kind of definition satisfies `ValidNoExt` -/

private instance {ε α} [DecidableEq ε] [DecidableEq α] : DecidableEq (Except ε α) := fun a b =>
  match a, b with
  | .ok x, .ok y => if h : x = y then isTrue (by rw [h]) else isFalse (by intro e; cases e; exact h rfl)
  | .error x, .error y => if h : x = y then isTrue (by rw [h]) else isFalse (by intro e; cases e; exact h rfl)
  | .ok _, .error _ => isFalse (by intro e; cases e)
  | .error _, .ok _ => isFalse (by intro e; cases e)

def exDoc : Doc := [
  .type { kind := .object, name := "Query", desc := some "root",
          fields := [{ name := "f", type := .named "Int", dirs := [{ name := "deprecated" }],
                       args := [{ name := "a", type := .list (.named "E"), default := some (.enum "B") },
                                { name := "i", type := .named "A", default := some (.obj [("a", .obj [])]) }] },
                     { name := "u", type := .named "U" }, { name := "n", type := .nonNull (.named "N") }] },
  .directive { name := "d", locations := ["FIELD"], args := [{ name := "x", type := .named "S", default := some (.str "v") }] },
  .type { kind := .enum, name := "E", values := [{ name := "A" }, { name := "B", dirs := [{ name := "deprecated", args := [("reason", .str "old")] }] }] },
  .type { kind := .input, name := "A", inputFields := [{ name := "a", type := .named "A" }, { name := "s", type := .named "String", default := some (.str "x") }] },
  .type { kind := .union, name := "U", members := ["Query", "O"] },
  .type { kind := .interface, name := "N", fields := [{ name := "n", type := .named "N" }] },
  .type { kind := .object, name := "O", interfaces := ["N"], fields := [{ name := "n", type := .named "N" }] },
  .type { kind := .scalar, name := "S" },
  .schema { ops := [("query", "Query"), ("mutation", "O")] }]

/-- the same definitions in another order -/
def exDoc' : Doc := exDoc.reverse

private theorem exDeclares : (Declared exDoc).isSome = true := by decide
private theorem exDeclares' : (Declared exDoc').isSome = true := by decide

example : ValidNoExt exDoc ((Declared exDoc).get exDeclares) :=
  { uniqueTypes := by decide, uniqueDirectives := by decide, oneSchema := by decide, noBuiltinNames := by decide,
    noTypeExt := by decide, noSchemaExt := by decide, declares := by simp, noThunkCycle := by decide,
    noEagerCycle := by decide, noSpecified := by decide, rootsOk := by decide }

example : ValidNoExt exDoc' ((Declared exDoc').get exDeclares') :=
  { uniqueTypes := by decide, uniqueDirectives := by decide, oneSchema := by decide, noBuiltinNames := by decide,
    noTypeExt := by decide, noSchemaExt := by decide, declares := by simp, noThunkCycle := by decide,
    noEagerCycle := by decide, noSpecified := by decide, rootsOk := by decide }

example : exDoc.Perm exDoc' := (List.reverse_perm exDoc).symm

/-! ### extension merging is exact (all kinds of members) -/

/-- no clash ⇒ `appendNew` succeeds (converse of `appendNew_rejects_dup`) -/
theorem appendNew_ok_of_nodup {α} (errE : Err) (name : α → String) (xs : List α) :
    ∀ acc : List α, ((acc ++ xs).map name).Nodup → appendNew errE name acc xs = .ok (acc ++ xs) := by
  induction xs with
  | nil => intro acc _; simp [appendNew, pure, Except.pure]
  | cons x xs ih =>
    intro acc hn
    have hx : name x ∉ acc.map name := by
      intro hm
      rw [List.map_append] at hn
      exact (List.nodup_append.mp hn).2.2 _ hm (name x) (by simp) rfl
    have hany : acc.any (fun y => name y == name x) = false := any_name_false name acc (name x) hx
    simp only [appendNew, hany, Bool.false_eq_true, if_false]
    have := ih (acc ++ [x]) (by simpa [List.append_assoc] using hn)
    simpa [List.append_assoc] using this

private theorem mapM_append_ok {α β} (f : α → R β) : ∀ (l₁ l₂ : List α) (r₁ r₂ : List β),
    l₁.mapM f = .ok r₁ → l₂.mapM f = .ok r₂ → (l₁ ++ l₂).mapM f = .ok (r₁ ++ r₂) := by
  intro l₁
  induction l₁ with
  | nil => intro l₂ r₁ r₂ h1 h2; simp [pure, Except.pure] at h1; subst h1; simpa using h2
  | cons x xs ih =>
    intro l₂ r₁ r₂ h1 h2
    rw [List.cons_append, List.mapM_cons]
    rw [List.mapM_cons] at h1
    cases hx : f x with
    | error e => rw [hx] at h1; simp [bind, Except.bind] at h1
    | ok b =>
      rw [hx] at h1
      simp only [bind, Except.bind] at h1 ⊢
      cases hl : xs.mapM f with
      | error e => rw [hl] at h1; simp at h1
      | ok bs =>
        rw [hl] at h1
        simp only [pure, Except.pure, Except.ok.injEq] at h1
        subst h1
        rw [ih l₂ bs r₂ hl h2]
        rfl

/-- **Extensions are merged exactly, in document order** — the generic step shared by `_extend_object_type`
    (fields, interfaces), `_extend_interface_type`, `_extend_union_type`, `_extend_enum_type` and
    `_extend_input_object_type`: if the members of every extension block build (`news`) and no name is repeated
    among the existing and the new members, the fold over the blocks returns the existing members followed by
    the members of the blocks in the order written — nothing dropped, duplicated or reordered. -/
theorem extension_merge_exact {E α β} (errE : Err) (bf : α → R β) (name : β → String) (sel : E → List α) :
    ∀ (exts : List E) (base : List β) (news : E → List β),
      (∀ e ∈ exts, (sel e).mapM bf = .ok (news e)) →
      ((base ++ exts.flatMap news).map name).Nodup →
      exts.foldlM (fun acc e => do let new ← (sel e).mapM bf; appendNew errE name acc new) base = .ok (base ++ exts.flatMap news) := by
  intro exts
  induction exts with
  | nil => intro base news _ _; simp [pure, Except.pure]
  | cons e es ih =>
    intro base news hb hn
    have he := hb e (by simp)
    have hn1 : ((base ++ news e).map name).Nodup := by
      simp only [List.flatMap_cons, ← List.append_assoc, List.map_append] at hn ⊢
      exact (List.nodup_append.mp hn).1
    have step : (do let new ← (sel e).mapM bf; appendNew errE name base new) = Except.ok (base ++ news e) := by
      rw [he]; exact appendNew_ok_of_nodup errE name (news e) base hn1
    have hn2 : (((base ++ news e) ++ es.flatMap news).map name).Nodup := by
      simpa [List.flatMap_cons, List.append_assoc] using hn
    have := ih (base ++ news e) news (fun e' he' => hb e' (by simp [he'])) hn2
    rw [List.foldlM_cons, List.flatMap_cons, ← List.append_assoc]
    show ((do let new ← (sel e).mapM bf; appendNew errE name base new) >>= fun acc' => es.foldlM _ acc') = _
    rw [step]
    exact this

/-- instance: `_extend_enum_type` — a valid set of `extend enum` blocks yields the base values followed by the
    new values in document order -/
theorem extend_enum_exact (env envX : Env) (hide : Option String) (exts : List TypeDef) (t : TypeD) (hk : t.kind = .enum)
    (hkinds : ∀ e ∈ exts, e.name = t.name → e.kind = .enum) (news : TypeDef → List EnumValD)
    (hb : ∀ e ∈ exts.filter (·.name == t.name), e.values.mapM buildEnumValue = .ok (news e))
    (hn : ((t.values ++ (exts.filter (·.name == t.name)).flatMap news).map (·.name)).Nodup) :
    extendTypeX env envX hide exts t = .ok { t with values := t.values ++ (exts.filter (·.name == t.name)).flatMap news } := by
  have hmine : ((exts.filter (·.name == t.name)).any fun e => e.kind != t.kind) = false := by
    rw [List.any_eq_false]
    intro e he
    simp only [List.mem_filter, beq_iff_eq] at he
    simp [hkinds e he.1 he.2, hk]
  have := extension_merge_exact (.lib .ext) buildEnumValue (·.name) (·.values) (exts.filter (·.name == t.name)) t.values news hb hn
  rw [hk] at hmine
  unfold extendTypeX
  simp only [hmine, failIf, Bool.false_eq_true, if_false, hk]
  rw [this]
  rfl

/-- C11 with extensions, compact form of the statement under a hypothesis that excludes finding S8. PROVED in
    `Props/C11_merge.lean` as `build_exact_partial` (hypotheses spelled out in `ValidExt`; the member-level NoS8
    hypothesis there is the weaker `mergedSame`/`directivesSame`), with `build_perm` for definition order. -/
def BuildExactPartialStatement : Prop :=
  ∀ (doc : Doc) (d : SchemaD), SdlValid doc → Declared doc = some d →
    (∀ a : InputValDef, buildArgument (Env.of (typeDefs doc)) a = buildArgument (Env.of (merged doc)) a) →
    hasThunkCycle (Env.of (typeDefs doc)) (typeDefs doc) = false → hasEagerCycle d.types = false →
    d.directives.any (fun x => specifiedDirectives.contains x.name) = false →
    ∃ s, build doc = .ok s ∧ SameContent s d

end PyGql.Props.C11

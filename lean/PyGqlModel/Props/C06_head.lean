/-
  C06 - property theorems, part 20: THE HEADLINE STATEMENTS WITHOUT `_partial`.

  val2 discharged the side conditions of the merge rule (`OverlapHyps`) from
    * three COMPUTABLE checks on the document, `DocChecksStatic s d (computeRanks d)`: selection-set identities pairwise
      distinct (`wfIdsB`), no `__schema` / `__type` / `__typename` selection with a sub-selection (`noMetaSubsB`), the
      static rank check (`rankOkB`, fuel sufficiency). The driver `Driver/C06.lean` evaluates the three with every answer
      and `harness/corr/C06_model.py` counts them (a false `wfIdsB` on a parsed document is a correspondence failure;
      documents on which one of the other two is false are counted: the statements below do not apply to them);
    * the parser's guarantee that fragment names are not empty (`NamesNonEmpty`);
    * the schema condition `SchemaOutputs s` (= `SchemaWf.outputs` of `Props/C05_bridge.lean`, which is downstream of
      this file; computable: `schemaOutputsB`, reported by the driver with every request);
    * the CLAUSES of UniqueFragmentNames, NoFragmentCycles, ScalarLeafs, FragmentsOnCompositeTypes.
  The clauses are available on both sides of the verdict equivalence (from "all rules silent" through the theorems of
  those four rules, none of which needs a side condition of the merge rule), so for such documents and schemas

      `verdict_iff_all` :  (every rule visitor alone is silent)  ↔  (the clause of every one of the 26 rules holds)

  has no hypothesis left that a parsed document on a validated schema could fail, except the two counted ones
  (introspection sub-selections; nesting deeper than the rank bound ≈ 100 levels through spreads).
-/
import PyGqlModel.Props.C06_overlap_hyps3
import PyGqlModel.Validate.WfSchema
import PyGqlModel.Props.C06_frags2
namespace PyGql.Props.C06
open PyGql PyGql.Validate PyGql.Validate.Spec

/-- every field of the schema has an output type (`SchemaWf.outputs` of C05) -/
def SchemaOutputs (s : SchemaD) : Prop := ∀ T name fd, fieldOf s T name = some fd → isOutputTy s fd.type = true

/-- the computable check the driver reports implies it -/
theorem schemaOutputs_of_check (s : SchemaD) (h : schemaOutputsB s = true) : SchemaOutputs s := by
  intro T name fd hf
  unfold fieldOf at hf
  split at hf
  · cases hft : s.findType T with
    | none => rw [hft] at hf; cases hf
    | some t =>
      rw [hft] at hf
      have ht : t ∈ s.types := List.mem_of_find?_eq_some hft
      have hfd : fd ∈ t.fields := List.mem_of_find?_eq_some hf
      unfold schemaOutputsB at h
      rw [List.all_eq_true] at h
      have := h t ht
      rw [List.all_eq_true] at this
      exact this fd hfd
  · cases hf

/-- what the statements below assume of a document: the three static checks of the driver on the ranks it computes,
    and the parser's guarantee on fragment names -/
structure DocOk (s : SchemaD) (d : Doc) : Prop where
  checks : DocChecksStatic s d (computeRanks d)
  names : NamesNonEmpty d

/-- `OverlapHyps` from the clauses of the OTHER rules -/
theorem overlapHyps_of_clauses (s : SchemaD) (fx : Fixes) (hfx : HeadVars fx) (hs : SchemaOutputs s) (d : Doc)
    (hd : DocOk s d) (h : ∀ r ∈ Rule.all, r ≠ .overlappingFieldsCanBeMerged → SpecAll r s fx d) : OverlapHyps s fx d :=
  overlapHyps_of_wf_ranked s fx hfx.2.2.2 d _ hd.checks hd.names hs
    (h .uniqueFragmentNames (by decide) (by decide)) (h .noFragmentCycles (by decide) (by decide))
    (h .scalarLeafs (by decide) (by decide)) (h .fragmentsOnCompositeTypes (by decide) (by decide))

/-- **accepted ⇒ valid by all 26 clauses** (every rule visitor silent ⇒ the clause of every rule holds) [ALONE-RUN statement: every rule visitor is run in a chain of its own, `Silent` / `SilentM` count RECORDED ERRORS only (a run that raised is not excluded); the statement about the chain `validate_ast` runs, exception flag included, is in `Props/C06_chain.lean`: `chainM_accepted_spec_valid`; this file is about the UN-memoised overlap search, which /repo no longer runs.] -/
theorem accepted_spec_valid_all (s : SchemaD) (fx : Fixes) (hfx : HeadVars fx) (hs : SchemaOutputs s) (d : Doc)
    (hd : DocOk s d) (h : ∀ r ∈ Rule.all, Silent s fx r d) : ∀ r ∈ Rule.all, SpecAll r s fx d := by
  have hnd : (Spec.fragNames d).Nodup := (rule_unique_fragment_names_iff s fx d).mp (h _ (by decide))
  have h25 : ∀ r ∈ Rule.all, r ≠ .overlappingFieldsCanBeMerged → SpecAll r s fx d := fun r hr ho =>
    (rule_iff_nonoverlap s fx hfx d hd.names hnd r (provedAll_complete r hr) ho).mp (h r hr)
  have hov := overlapHyps_of_clauses s fx hfx hs d hd h25
  intro r hr
  by_cases ho : r = .overlappingFieldsCanBeMerged
  · subst ho
    exact (rule_overlapping_fields_can_be_merged_iff_partial s fx hfx.2.2.2 d hov.1 hov.2.1 hov.2.2).mp (h _ hr)
  · exact h25 r hr ho

/-- **verdict_iff for the 26 rules** (despite its name NOT about `verdict`: the conjunction of the 26 ALONE runs; the chain:
    `Props/C06_chain.lean: verdict_iff_alone` reduces `verdict ⟨s, fx, Rule.all⟩ d = some true` to it, exception flag included): on a schema whose fields have output types and a document that
    passes the driver's static checks, every rule visitor (run alone) is silent iff the clause of every rule holds -/
theorem verdict_iff_all (s : SchemaD) (fx : Fixes) (hfx : HeadVars fx) (hs : SchemaOutputs s) (d : Doc) (hd : DocOk s d) :
    (∀ r ∈ Rule.all, Silent s fx r d) ↔ (∀ r ∈ Rule.all, SpecAll r s fx d) :=
  ⟨accepted_spec_valid_all s fx hfx hs d hd, spec_valid_accepted_all s fx hfx d hd.names⟩

/-- the same for the code of /repo HEAD -/
theorem verdict_iff_all_head (s : SchemaD) (hs : SchemaOutputs s) (d : Doc) (hd : DocOk s d) :
    (∀ r ∈ Rule.all, Silent s Fixes.all r d) ↔ (∀ r ∈ Rule.all, SpecAll r s Fixes.all d) :=
  verdict_iff_all s Fixes.all headVars_all hs d hd

/-- **attribution** over the 26 rules (on the rules run ALONE; see `attribution_partial`). NOTE: with `r = noFragmentCycles` the
    hypotheses are contradictory - `DocOk` contains the rank check `rankOkB`, which only acyclic documents pass, and `hothers`
    gives unique fragment names - so this theorem says nothing about fragment cycles; `attribution_all_memo` (`DocOkM`, no
    ranks) does: if the clause of exactly one
    rule `r` fails, `r` reports and no other rule does.
    ONE PAIR is excepted, visibly, in the conclusion: when the violated rule is UniqueFragmentNames, nothing is said
    about NoFragmentCycles - with two definitions of a fragment name the visitor records the spreads of one of them and
    `Spec.Reach` reads another, `rule_no_fragment_cycles_iff` is proved for unique names only. -/
theorem attribution_all (s : SchemaD) (fx : Fixes) (hfx : HeadVars fx) (hs : SchemaOutputs s) (d : Doc) (hd : DocOk s d)
    (r : Rule) (hr : r ∈ Rule.all) (hbad : ¬ SpecAll r s fx d)
    (hothers : ∀ r' ∈ Rule.all, r' ≠ r → SpecAll r' s fx d) :
    0 < E (alone s fx r d) ∧
      ∀ r' ∈ Rule.all, r' ≠ r → ¬ (r = .uniqueFragmentNames ∧ r' = .noFragmentCycles) → E (alone s fx r' d) = 0 := by
  have hpos : 0 < E (alone s fx r d) := by
    refine Nat.pos_of_ne_zero fun h0 => hbad ?_
    by_cases ho : r = .overlappingFieldsCanBeMerged
    · subst ho
      have hov := overlapHyps_of_clauses s fx hfx hs d hd hothers
      exact (rule_overlapping_fields_can_be_merged_iff_partial s fx hfx.2.2.2 d hov.1 hov.2.1 hov.2.2).mp h0
    · by_cases hu : r = .uniqueFragmentNames
      · subst hu
        exact (rule_unique_fragment_names_iff s fx d).mp h0
      · have hnd : (Spec.fragNames d).Nodup := hothers .uniqueFragmentNames (by decide) (fun e => hu e.symm)
        exact (rule_iff_nonoverlap s fx hfx d hd.names hnd r (provedAll_complete r hr) ho).mp h0
  refine ⟨hpos, fun r' hr' hdiff hex => ?_⟩
  by_cases ho : r' = .overlappingFieldsCanBeMerged
  · subst ho
    exact rule_overlapping_fields_can_be_merged_no_false_alarm_partial s fx hfx.2.2.2 d (hothers _ hr' hdiff)
  · by_cases hu : r = .uniqueFragmentNames
    · -- names are not unique: every rule except NoFragmentCycles has a theorem that does not need uniqueness
      subst hu
      have hc : r' ≠ .noFragmentCycles := fun e => hex ⟨rfl, e⟩
      have hp := provedAll_complete r' hr'
      simp only [ProvedAll, List.mem_append] at hp
      rcases hp with ((((hp | hp) | hp) | hp) | hp) | hp
      · exact (rule_iff_permdefs s fx d r' hp).mpr (hothers r' hr' hdiff)
      · simp only [ProvedOrder, List.mem_cons, List.not_mem_nil, or_false] at hp; subst hp
        exact (rule_possible_fragment_spreads_iff s fx d).mpr (hothers _ hr' hdiff)
      · simp only [ProvedVars, List.mem_cons, List.not_mem_nil, or_false] at hp
        rcases hp with rfl | rfl | rfl | rfl
        · exact (rule_unique_variable_names_iff s fx d).mpr (hothers _ hr' hdiff)
        · exact (rule_no_undefined_variables_iff s fx hfx.2.1 d).mpr (hothers _ hr' hdiff)
        · exact (rule_no_unused_variables_iff s fx hfx.2.1 d).mpr (hothers _ hr' hdiff)
        · exact (rule_variables_in_allowed_position_iff s fx hfx.1 hfx.2.1 d).mpr (hothers _ hr' hdiff)
      · simp only [ProvedCyc, List.mem_cons, List.not_mem_nil, or_false] at hp
        exact absurd hp hc
      · simp only [ProvedValues, List.mem_cons, List.not_mem_nil, or_false] at hp; subst hp
        exact (rule_values_of_correct_type_iff s fx d).mpr (hothers _ hr' hdiff)
      · simp only [ProvedOverlap, List.mem_cons, List.not_mem_nil, or_false] at hp
        exact absurd hp ho
    · have hnd : (Spec.fragNames d).Nodup := hothers .uniqueFragmentNames (by decide) (fun e => hu e.symm)
      exact (rule_iff_nonoverlap s fx hfx d hd.names hnd r' (provedAll_complete r' hr') ho).mpr (hothers r' hr' hdiff)

/-- **attribution without exception** when the violated rule is not UniqueFragmentNames -/
theorem attribution_all_unique_names (s : SchemaD) (fx : Fixes) (hfx : HeadVars fx) (hs : SchemaOutputs s) (d : Doc)
    (hd : DocOk s d) (r : Rule) (hr : r ∈ Rule.all) (hru : r ≠ .uniqueFragmentNames) (hbad : ¬ SpecAll r s fx d)
    (hothers : ∀ r' ∈ Rule.all, r' ≠ r → SpecAll r' s fx d) :
    0 < E (alone s fx r d) ∧ ∀ r' ∈ Rule.all, r' ≠ r → E (alone s fx r' d) = 0 := by
  obtain ⟨h1, h2⟩ := attribution_all s fx hfx hs d hd r hr hbad hothers
  exact ⟨h1, fun r' hr' hdiff => h2 r' hr' hdiff (fun h => hru h.1)⟩


/-! ### with the clause of 5.5.1.4 itself for NoUnusedFragments

`SpecAll .noUnusedFragments` is the clause the visitor implements (`everyFragmentSpreadSomewhere`, ledger V6). In the
conjunction of all clauses it can be replaced by 5.5.1.4 proper (`Spec.noUnusedFragments`: every fragment is reachable
from an operation): the two agree when fragment names are unique and spreads acyclic
(`no_unused_fragments_spec_iff_implemented`, Props/C06_frags2.lean), and both are among the clauses. -/

/-- the clauses with 5.5.1.4 as the specification states it -/
def SpecStd (r : Rule) (s : SchemaD) (fx : Fixes) (d : Doc) : Prop :=
  match r with
  | .noUnusedFragments => Spec.noUnusedFragments d
  | r => SpecAll r s fx d

theorem specStd_of_ne {r : Rule} (s : SchemaD) (fx : Fixes) (d : Doc) (h : r ≠ .noUnusedFragments) :
    SpecStd r s fx d = SpecAll r s fx d := by
  cases r <;> first | rfl | exact absurd rfl h

theorem specStd_all_iff (s : SchemaD) (fx : Fixes) (d : Doc) :
    (∀ r ∈ Rule.all, SpecStd r s fx d) ↔ (∀ r ∈ Rule.all, SpecAll r s fx d) := by
  constructor
  · intro h r hr
    by_cases hn : r = .noUnusedFragments
    · subst hn
      exact no_unused_implies_spread_somewhere d (h .noUnusedFragments hr)
    · rw [← specStd_of_ne s fx d hn]; exact h r hr
  · intro h r hr
    by_cases hn : r = .noUnusedFragments
    · subst hn
      exact spread_somewhere_implies_no_unused d (h .uniqueFragmentNames (by decide)) (h .noFragmentCycles (by decide))
        (h .noUnusedFragments hr)
    · rw [specStd_of_ne s fx d hn]; exact h r hr

/-- **verdict_iff for the whole chain, with 5.5.1.4 proper** -/
theorem verdict_iff_all_std (s : SchemaD) (fx : Fixes) (hfx : HeadVars fx) (hs : SchemaOutputs s) (d : Doc) (hd : DocOk s d) :
    (∀ r ∈ Rule.all, Silent s fx r d) ↔ (∀ r ∈ Rule.all, SpecStd r s fx d) :=
  (verdict_iff_all s fx hfx hs d hd).trans (specStd_all_iff s fx d).symm

/-! non-vacuity: the hypotheses hold, by evaluation, on the example schema and documents of
    `Props/C06_overlap_examples.lean` -/
example : SchemaOutputs oSchema := schemaOutputs_of_check _ (by decide)
example : DocOk oSchema (oDocFrag "a") :=
  ⟨⟨by decide, by decide, by decide +kernel⟩, fun f hf => by
    simp only [Spec.fragNames, oDocFrag] at hf
    revert f; decide⟩

end PyGql.Props.C06

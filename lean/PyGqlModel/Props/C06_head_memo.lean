/-
  C06 - property theorems, part 22: THE HEADLINE STATEMENTS FOR THE VALIDATOR /repo RUNS (memoised overlap search).

  `Props/C06_head.lean` states `verdict_iff_all` / `accepted_spec_valid_all` with the overlap rule's UN-memoised search
  (the code before fix 7e75356) and therefore needs the static rank check `rankOkB` among `DocOk` (fuel sufficiency:
  nesting through fragment spreads below ~100 levels, acyclic). With `Props/C06_overlap_memo_complete.lean` the same
  statements hold for the chain whose overlap rule is the memoised one (`SilentM`), and the hypothesis list SHRINKS:
  `DocOkM` = selection-set identities pairwise distinct (`wfIdsB`), no `__schema` / `__type` / `__typename` selection with
  a sub-selection (`noMetaSubsB`), non-empty fragment names - no ranks at all (the syntactic ranks the termination
  proof needs exist for every such document: `rankSynB_of_wfIds`). What remains, precisely:
    * `wfIdsB`, `NamesNonEmpty`: guaranteed by the parser / the harness encoding, not derivable inside the model (`Doc`
      carries identities and names as data);
    * `noMetaSubsB`: for `__schema { … }` / `__type { … }` the search derives the sub-selection's parent type through
      `parent_type.field_map`, which does not know the meta fields, `TypeInfoVisitor` through `_get_field_def`:
      `ParentsAgree` is FALSE for such documents (counted, not compared on the clause);
    * `SchemaOutputs s`: every field of the schema has an output type (schema validation).
  Of `OverlapHyps`: ParentsAgree is DERIVED (from the clauses of ScalarLeafs and FragmentsOnCompositeTypes - available on
  both sides of the equivalence); "the `ssid == fid` shortcut is not taken" and NoCrash are NOT NEEDED for the memoised
  search (`Props/C06_overlap_memo_complete.lean`: the shortcut may be taken, the search terminates on every document).
-/
import PyGqlModel.Props.C06_head
import PyGqlModel.Props.C06_overlap_memo_complete
import PyGqlModel.Props.C06_overlap_memo_modes
namespace PyGql.Props.C06
open PyGql PyGql.Validate PyGql.Validate.Spec

/-- "the rule reports nothing", the overlap rule being the one /repo runs (memoised search) -/
def SilentM (s : SchemaD) (fx : Fixes) (r : Rule) (d : Doc) : Prop :=
  if r = .overlappingFieldsCanBeMerged then (overlapMemoRun s fx d).1 = 0 else Silent s fx r d

theorem silentM_of_ne {s : SchemaD} {fx : Fixes} {r : Rule} {d : Doc} (h : r ≠ .overlappingFieldsCanBeMerged) :
    SilentM s fx r d ↔ Silent s fx r d := by
  unfold SilentM; rw [if_neg h]

theorem silentM_overlap {s : SchemaD} {fx : Fixes} {d : Doc} :
    SilentM s fx .overlappingFieldsCanBeMerged d ↔ (overlapMemoRun s fx d).1 = 0 := by
  unfold SilentM; rw [if_pos rfl]

/-- what the statements below assume of a document -/
structure DocOkM (s : SchemaD) (d : Doc) : Prop where
  checks : DocChecksMemo s d
  names : NamesNonEmpty d

/-- `DocOk` (with the rank check of the un-memoised search) is stronger -/
theorem docOkM_of_docOk {s : SchemaD} {d : Doc} (h : DocOk s d) : DocOkM s d :=
  ⟨⟨h.checks.ids, h.checks.noMeta⟩, h.names⟩

/-- **accepted ⇒ valid by all 26 clauses**, the overlap rule being the memoised one [ALONE-RUN statement: every rule visitor is run in a chain of its own, `Silent` / `SilentM` count RECORDED ERRORS only (a run that raised is not excluded); the statement about the chain `validate_ast` runs, exception flag included, is in `Props/C06_chain.lean`: `chainM_accepted_spec_valid`.] -/
theorem accepted_spec_valid_all_memo (s : SchemaD) (fx : Fixes) (hfx : HeadVars fx) (hs : SchemaOutputs s) (d : Doc)
    (hd : DocOkM s d) (h : ∀ r ∈ Rule.all, SilentM s fx r d) : ∀ r ∈ Rule.all, SpecAll r s fx d := by
  have hsil : ∀ r ∈ Rule.all, r ≠ .overlappingFieldsCanBeMerged → Silent s fx r d := fun r hr ho =>
    (silentM_of_ne ho).mp (h r hr)
  have hnd : (Spec.fragNames d).Nodup :=
    (rule_unique_fragment_names_iff s fx d).mp (hsil .uniqueFragmentNames (by decide) (by decide))
  have h25 : ∀ r ∈ Rule.all, r ≠ .overlappingFieldsCanBeMerged → SpecAll r s fx d := fun r hr ho =>
    (rule_iff_nonoverlap s fx hfx d hd.names hnd r (provedAll_complete r hr) ho).mp (hsil r hr ho)
  intro r hr
  by_cases ho : r = .overlappingFieldsCanBeMerged
  · subst ho
    exact (rule_overlapping_fields_memo_iff_wf s fx hfx.2.2.2 d hd.checks hd.names hs
      (h25 .scalarLeafs (by decide) (by decide)) (h25 .fragmentsOnCompositeTypes (by decide) (by decide))).mp
      (silentM_overlap.mp (h _ hr))
  · exact h25 r hr ho

/-- **valid by all 26 clauses ⇒ accepted** (no side condition of the merge rule at all) [ALONE-RUN statement: every rule visitor is run in a chain of its own, `Silent` / `SilentM` count RECORDED ERRORS only (a run that raised is not excluded); the statement about the chain `validate_ast` runs, exception flag included, is in `Props/C06_chain.lean`: `spec_valid_chainM_accepts`; that the lone memoised overlap run raises nothing: `overlap_memo_run_no_crash`.] -/
theorem spec_valid_accepted_all_memo (s : SchemaD) (fx : Fixes) (hfx : HeadVars fx) (d : Doc) (hne : NamesNonEmpty d)
    (h : ∀ r ∈ Rule.all, SpecAll r s fx d) : ∀ r ∈ Rule.all, SilentM s fx r d := by
  intro r hr
  by_cases ho : r = .overlappingFieldsCanBeMerged
  · subst ho
    exact silentM_overlap.mpr (overlap_memo_no_false_alarm s fx hfx.2.2.2 d (h _ hr))
  · exact (silentM_of_ne ho).mpr (spec_valid_accepted_all s fx hfx d hne h r hr)

/-- **verdict_iff for the 26 rules, the overlap rule as /repo runs it** [ALONE-RUN statement: every rule visitor is run in a chain of its own, `Silent` / `SilentM` count RECORDED ERRORS only (a run that raised is not excluded); the statement about the chain `validate_ast` runs, exception flag included, is in `Props/C06_chain.lean`: `chainM_silent_iff_spec`, `verdictM_iff_spec` - proved FROM this theorem and `chainM_silent_iff_alone`.] -/
theorem verdict_iff_all_memo (s : SchemaD) (fx : Fixes) (hfx : HeadVars fx) (hs : SchemaOutputs s) (d : Doc)
    (hd : DocOkM s d) : (∀ r ∈ Rule.all, SilentM s fx r d) ↔ (∀ r ∈ Rule.all, SpecAll r s fx d) :=
  ⟨accepted_spec_valid_all_memo s fx hfx hs d hd, spec_valid_accepted_all_memo s fx hfx d hd.names⟩

/-- the same for the code of /repo HEAD -/
theorem verdict_iff_all_memo_head (s : SchemaD) (hs : SchemaOutputs s) (d : Doc) (hd : DocOkM s d) :
    (∀ r ∈ Rule.all, SilentM s Fixes.all r d) ↔ (∀ r ∈ Rule.all, SpecAll r s Fixes.all d) :=
  verdict_iff_all_memo s Fixes.all headVars_all hs d hd

/-- with 5.5.1.4 proper for NoUnusedFragments -/
theorem verdict_iff_all_memo_std (s : SchemaD) (fx : Fixes) (hfx : HeadVars fx) (hs : SchemaOutputs s) (d : Doc)
    (hd : DocOkM s d) : (∀ r ∈ Rule.all, SilentM s fx r d) ↔ (∀ r ∈ Rule.all, SpecStd r s fx d) :=
  (verdict_iff_all_memo s fx hfx hs d hd).trans (specStd_all_iff s fx d).symm

/-- **the memo is verdict-neutral for the whole chain**: on documents covered by both headline theorems (`DocOk`: within the
    rank bound of the un-memoised search) the chain /repo runs and the chain of the earlier theorems accept the same
    documents - cyclic fragment graphs and duplicate fragment names included (there both chains reject) -/
theorem verdict_memo_neutral (s : SchemaD) (fx : Fixes) (hfx : HeadVars fx) (hs : SchemaOutputs s) (d : Doc)
    (hd : DocOk s d) : (∀ r ∈ Rule.all, SilentM s fx r d) ↔ (∀ r ∈ Rule.all, Silent s fx r d) :=
  (verdict_iff_all_memo s fx hfx hs d (docOkM_of_docOk hd)).trans (verdict_iff_all s fx hfx hs d hd).symm

/-- **attribution**, the overlap rule being the memoised one (on the rules run ALONE: "that rule alone reports, the others
    alone are silent"; that the CHAIN then records an error follows from `chainM_silent_iff_alone`, WHICH member's error
    it records is not proved): if the clause of exactly one rule fails, that rule
    reports and no other does (same visible exception as `attribution_all`) -/
theorem attribution_all_memo (s : SchemaD) (fx : Fixes) (hfx : HeadVars fx) (hs : SchemaOutputs s) (d : Doc)
    (hd : DocOkM s d) (r : Rule) (hr : r ∈ Rule.all) (hbad : ¬ SpecAll r s fx d)
    (hothers : ∀ r' ∈ Rule.all, r' ≠ r → SpecAll r' s fx d) :
    ¬ SilentM s fx r d ∧
      ∀ r' ∈ Rule.all, r' ≠ r → ¬ (r = .uniqueFragmentNames ∧ r' = .noFragmentCycles) → SilentM s fx r' d := by
  constructor
  · intro hsil
    apply hbad
    by_cases ho : r = .overlappingFieldsCanBeMerged
    · subst ho
      exact (rule_overlapping_fields_memo_iff_wf s fx hfx.2.2.2 d hd.checks hd.names hs
        (hothers .scalarLeafs (by decide) (by decide)) (hothers .fragmentsOnCompositeTypes (by decide) (by decide))).mp
        (silentM_overlap.mp hsil)
    · have hsil' := (silentM_of_ne ho).mp hsil
      by_cases hu : r = .uniqueFragmentNames
      · subst hu
        exact (rule_unique_fragment_names_iff s fx d).mp hsil'
      · have hnd : (Spec.fragNames d).Nodup := hothers .uniqueFragmentNames (by decide) (fun e => hu e.symm)
        exact (rule_iff_nonoverlap s fx hfx d hd.names hnd r (provedAll_complete r hr) ho).mp hsil'
  · intro r' hr' hdiff hex
    by_cases ho : r' = .overlappingFieldsCanBeMerged
    · subst ho
      exact silentM_overlap.mpr (overlap_memo_no_false_alarm s fx hfx.2.2.2 d (hothers _ hr' hdiff))
    · refine (silentM_of_ne ho).mpr ?_
      by_cases hu : r = .uniqueFragmentNames
      · subst hu
        have hc : r' ≠ .noFragmentCycles := fun e => hex ⟨rfl, e⟩
        have hp := provedAll_complete r' hr'
        simp only [ProvedAll, List.mem_append] at hp
        rcases hp with ((((hp | hp) | hp) | hp) | hp) | hp
        · exact (rule_iff_permdefs s fx d r' hp).mpr (hothers r' hr' hdiff)
        · simp only [ProvedOrder, List.mem_cons, List.not_mem_nil, or_false] at hp; subst hp
          exact (rule_possible_fragment_spreads_iff s fx d).mpr (hothers _ hr' hdiff)
        · simp only [ProvedVars, List.mem_cons, List.not_mem_nil, or_false] at hp
          rcases hp with rfl | rfl | rfl | rfl
          · exact (rule_unique_variable_names_iff s fx d).mpr (hothers _ hr' hdiff)
          · exact (rule_no_undefined_variables_iff s fx hfx.2.1 d).mpr (hothers _ hr' hdiff)
          · exact (rule_no_unused_variables_iff s fx hfx.2.1 d).mpr (hothers _ hr' hdiff)
          · exact (rule_variables_in_allowed_position_iff s fx hfx.1 hfx.2.1 d).mpr (hothers _ hr' hdiff)
        · simp only [ProvedCyc, List.mem_cons, List.not_mem_nil, or_false] at hp
          exact absurd hp hc
        · simp only [ProvedValues, List.mem_cons, List.not_mem_nil, or_false] at hp; subst hp
          exact (rule_values_of_correct_type_iff s fx d).mpr (hothers _ hr' hdiff)
        · simp only [ProvedOverlap, List.mem_cons, List.not_mem_nil, or_false] at hp
          exact absurd hp ho
      · have hnd : (Spec.fragNames d).Nodup := hothers .uniqueFragmentNames (by decide) (fun e => hu e.symm)
        exact (rule_iff_nonoverlap s fx hfx d hd.names hnd r' (provedAll_complete r' hr') ho).mpr (hothers r' hr' hdiff)

/-! non-vacuity: the hypotheses hold, by evaluation, on the example schema and document of
    `Props/C06_overlap_examples.lean`; a document nested deeper than the un-memoised rank bound is `DocOkM` but not
    `DocOk` -/
example : DocOkM oSchema (oDocFrag "a") :=
  ⟨⟨by decide, by decide⟩, fun f hf => by
    simp only [Spec.fragNames, oDocFrag] at hf
    revert f; decide⟩

/-- `o { o { … { a } … } }`, `n` levels, selection-set identities `k+1 … k+n+1` -/
def deepSels : Nat → Nat → List Sel
  | 0, _ => [fld none "a"]
  | n + 1, k => [.field none "o" [] [] true (k + 1) (deepSels n (k + 1))]

/-- 120 nested selection sets: beyond the rank bound of the un-memoised search (`DocOk` fails: `rankOkB` false),
    within the hypotheses of the memoised statements -/
example : let dd : Doc := ⟨[opV [] 1 (deepSels 120 1)]⟩
    rankOkB oSchema dd (rankOf (computeRanks dd)) = false ∧ DocChecksMemo oSchema dd := by
  refine ⟨by decide +kernel, by decide +kernel, by decide +kernel⟩

/-- non-vacuity on a document WITH sub-selections, a fragment spread below fields and mutually exclusive parents (the
    memo-modes document of `Props/C06_overlap_memo_modes.lean`): every hypothesis of `rule_overlapping_fields_memo_iff_wf`
    holds (the clauses of the four other rules through their own `rule_*_iff` theorems, by evaluating the model) -/
example : (overlapMemoRun pSchema Fixes.all (pDoc pF1 pF2 pF3)).1 = 0 ↔
    Spec.overlappingFieldsCanBeMerged pSchema (pDoc pF1 pF2 pF3) := by
  have hne : NamesNonEmpty (pDoc pF1 pF2 pF3) := fun f hf => by
    simp only [Spec.fragNames, pDoc] at hf
    revert f; decide
  exact rule_overlapping_fields_memo_iff_wf pSchema Fixes.all rfl _ ⟨by decide, by decide⟩ hne
    (schemaOutputs_of_check _ (by decide))
    ((rule_scalar_leafs_iff pSchema Fixes.all _).mp (by unfold Silent; decide +kernel))
    ((rule_fragments_on_composite_types_iff pSchema Fixes.all _).mp (by unfold Silent; decide +kernel))

/-- non-vacuity on a CYCLIC document, where `_conflicts_between_fields_and_fragment` takes the
    `field_map is fragment_field_map` shortcut and the un-memoised search exhausts its fuel
    (`hunt_doc_crashes_unmemoised`): `{ ...F } fragment F on Query { q { q { ...F } ...F } }` - every hypothesis of
    `rule_overlapping_fields_memo_iff_wf` holds, the memoised rule is silent, so the clause of 5.3.2 holds (the document's
    only violation is the fragment cycle) -/
example : Spec.overlappingFieldsCanBeMerged hSchema hDoc := by
  have hne : NamesNonEmpty hDoc := fun f hf => by
    simp only [Spec.fragNames, hDoc] at hf
    revert f; decide
  exact (rule_overlapping_fields_memo_iff_wf hSchema Fixes.all rfl _ ⟨by decide, by decide⟩ hne
    (schemaOutputs_of_check _ (by decide))
    ((rule_scalar_leafs_iff hSchema Fixes.all _).mp (by unfold Silent; decide +kernel))
    ((rule_fragments_on_composite_types_iff hSchema Fixes.all _).mp (by unfold Silent; decide +kernel))).mp
    (by decide +kernel)

/-- ... and with a conflict inside the cycle (`… a: b a: q`) the memoised rule reports and the clause fails -/
example : let dc : Doc := ⟨[opV [] 1 [.spread "F" []],
      .frag "F" "Query" [] 2 [.field none "q" [] [] true 3 [.field none "q" [] [] true 4 [.spread "F" []], .spread "F" []],
        .field (some "a") "b" [] [] false 0 [], .field (some "a") "q" [] [] false 0 []]]⟩
    ¬ Spec.overlappingFieldsCanBeMerged hSchema dc := by
  intro dc H
  have := overlap_memo_no_false_alarm hSchema Fixes.all rfl dc H
  revert this
  decide +kernel

end PyGql.Props.C06

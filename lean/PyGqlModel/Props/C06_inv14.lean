/-
  C06 - property theorems, part 33: **the VERDICT of the chain /repo runs under reordering of definitions**
  (`perm_definitions_verdict_invariance_memo`), which completes the verdict-level invariance under the six
  transformations of the statement (`tr_verdict_invariance_memo`: selections, arguments, fragment names;
  `alpha_aliases_verdict_invariance_memo`; `alpha_variables_verdict_invariance_memo`), and the six together:
  `six_transformations_verdict_memo`.

  At the level of single rules `perm_definitions_all26` needs unique fragment names, unique operation keys, unique variable
  names ("the last definition wins" otherwise) and `ParentsAgree`; at the level of the verdict none of them is a
  hypothesis: each is the clause of a rule of the same chain (`uniqueOpKeys_of_clauses`: UniqueOperationNames +
  LoneAnonymousOperation), available on whichever side accepts.
-/
import PyGqlModel.Props.C06_inv13
namespace PyGql.Props.C06
open PyGql PyGql.Validate PyGql.Validate.Spec

/-- operation keys (`""` for the anonymous operation) are pairwise different in a document that satisfies the clauses of
    UniqueOperationNames and LoneAnonymousOperation -/
theorem uniqueOpKeys_of_clauses {d : Doc} (h1 : Spec.uniqueOperationNames d) (h2 : Spec.loneAnonymousOperation d) :
    Spec.uniqueOpKeys d := by
  unfold Spec.uniqueOpKeys
  by_cases ha : ∃ x ∈ d.defs, ∃ k vs ds i ss, x = Def.op k none vs ds i ss
  · have hl := h2 ha
    have hlen : ∀ l : List Def, (l.filterMap Def.opKey?).length = (l.filter (·.isOp)).length := by
      intro l
      induction l with
      | nil => rfl
      | cons x xs ih => cases x <;> simp_all [Def.opKey?, Def.isOp, List.filterMap_cons, List.filter_cons]
    have hle : (d.defs.filterMap Def.opKey?).length ≤ 1 := by rw [hlen]; exact hl
    match d.defs.filterMap Def.opKey?, hle with
    | [], _ => exact List.nodup_nil
    | [a], _ => simp
    | _ :: _ :: _, h => simp at h
  · have key : ∀ l : List Def, (∀ x ∈ l, x ∈ d.defs) → l.filterMap Def.opKey? =
        l.filterMap fun | .op kind name .. => some (name.getD kind) | _ => none := by
      intro l
      induction l with
      | nil => intro _; rfl
      | cons x xs ih =>
        intro hsub
        have hx := hsub x (List.mem_cons_self ..)
        have ih' := ih fun y hy => hsub y (List.mem_cons_of_mem _ hy)
        cases x with
        | op k nm vs ds i ss =>
          cases nm with
          | none => exact absurd ⟨_, hx, k, vs, ds, i, ss, rfl⟩ ha
          | some n => simp only [List.filterMap_cons, Def.opKey?, Option.getD_some, ih']
        | frag => simp only [List.filterMap_cons, Def.opKey?, ih']
        | ts => simp only [List.filterMap_cons, Def.opKey?, ih']
    have : d.defs.filterMap Def.opKey? = Spec.opNames d := key d.defs fun _ h => h
    rw [this]; exact h1

theorem docOkM_perm {s : SchemaD} {d d' : Doc} (h : d.defs.Perm d'.defs) (hd : DocOkM s d) : DocOkM s d' := by
  refine ⟨⟨(wfIdsB_iff d').mpr (wfIds_perm h ((wfIdsB_iff d).mp hd.checks.ids)), ?_⟩, ?_⟩
  · have h0 := hd.checks.noMeta
    unfold noMetaSubsB nodes at h0 ⊢
    rw [List.all_cons] at h0 ⊢
    rw [Bool.and_eq_true] at h0 ⊢
    exact ⟨rfl, by rw [← (h.flatMap_right _).all_eq]; exact h0.2⟩
  · intro f hf
    exact hd.names f ((h.filterMap _).mem_iff.mpr hf)

/-- one direction: an accepted document stays accepted when its definitions are reordered -/
theorem perm_definitions_accepted_memo (s : SchemaD) (fx : Fixes) (hfx : HeadVars fx) (hs : SchemaOutputs s) {d d' : Doc}
    (h : d.defs.Perm d'.defs) (hd : DocOkM s d) (hacc : ∀ r ∈ Rule.all, SilentM s fx r d) :
    ∀ r ∈ Rule.all, SilentM s fx r d' := by
  have hw : WfIds d := (wfIdsB_iff d).mp hd.checks.ids
  have hsil : ∀ r ∈ Rule.all, r ≠ .overlappingFieldsCanBeMerged → Silent s fx r d := fun r hr ho =>
    (silentM_of_ne ho).mp (hacc r hr)
  have hnd : (Spec.fragNames d).Nodup :=
    (rule_unique_fragment_names_iff s fx d).mp (hsil .uniqueFragmentNames (by decide) (by decide))
  have hc : ∀ r ∈ Rule.all, r ≠ .overlappingFieldsCanBeMerged → SpecAll r s fx d := fun r hr ho =>
    (rule_iff_nonoverlap s fx hfx d hd.names hnd r (provedAll_complete r hr) ho).mp (hsil r hr ho)
  have hk : Spec.uniqueOpKeys d :=
    uniqueOpKeys_of_clauses ((rule_unique_operation_names_iff s fx d).mp (hsil .uniqueOperationName (by decide) (by decide)))
      ((rule_lone_anonymous_operation_iff s fx d).mp (hsil .loneAnonymousOperation (by decide) (by decide)))
  have hv : Spec.uniqueVariableNames d :=
    (rule_unique_variable_names_iff s fx d).mp (hsil .uniqueVariableNames (by decide) (by decide))
  have hpa : Spec.ParentsAgree s d :=
    parentsAgree_of_rules s d hs (hc .scalarLeafs (by decide) (by decide))
      (hc .fragmentsOnCompositeTypes (by decide) (by decide)) ((noMetaSubsB_iff d).mp hd.checks.noMeta) hw
  exact fun r hr => (perm_definitions_all26 s fx hfx h hnd hd.names hk hv hpa hw r hr).mp (hacc r hr)

/-- **the VERDICT of the chain /repo runs does not depend on the order of the definitions** (hypotheses on the document:
    those of the headline theorems only) [About the CONJUNCTION OF THE 26 ALONE RUNS (`SilentM`); the same for the chain itself, `SkipNode` handling included: `Props/C06_chain.lean: chainM_six_transformations`, through `chainM_silent_iff_alone`.] -/
theorem perm_definitions_verdict_invariance_memo (s : SchemaD) (fx : Fixes) (hfx : HeadVars fx) (hs : SchemaOutputs s)
    {d d' : Doc} (h : d.defs.Perm d'.defs) (hd : DocOkM s d) :
    (∀ r ∈ Rule.all, SilentM s fx r d) ↔ (∀ r ∈ Rule.all, SilentM s fx r d') :=
  ⟨perm_definitions_accepted_memo s fx hfx hs h hd,
   perm_definitions_accepted_memo s fx hfx hs h.symm (docOkM_perm h hd)⟩

/-- **verdict unchanged under the six transformations of the statement, for the chain /repo runs** (one theorem, the four
    verdict-level statements side by side): reordering definitions, reordering selections and arguments + injective
    renaming of fragments (no empty name produced), renaming of aliases injective on response keys, injective renaming
    of variables. `Accepts s fx d` = every one of the 26 rule visitors is silent, the overlap rule being the memoised one. [About the CONJUNCTION OF THE 26 ALONE RUNS (`SilentM`); the same for the chain itself, `SkipNode` handling included: `Props/C06_chain.lean: chainM_six_transformations`, through `chainM_silent_iff_alone`.] -/
theorem six_transformations_verdict_memo (s : SchemaD) (fx : Fixes) (hfx : HeadVars fx) (hs : SchemaOutputs s) (d : Doc)
    (hd : DocOkM s d) :
    let Accepts := fun d => ∀ r ∈ Rule.all, SilentM s fx r d
    (∀ d', d.defs.Perm d'.defs → (Accepts d ↔ Accepts d')) ∧
    (∀ T : Tr, (∀ a b, T.frag a = T.frag b → a = b) → NamesNonEmpty (T.doc d) → (Accepts (T.doc d) ↔ Accepts d)) ∧
    (∀ (A : Al) (ρ : String → String), A.Renames ρ → (∀ a b, ρ a = ρ b → a = b) → A.RenamesOn ρ d →
      (Accepts (A.doc d) ↔ Accepts d)) ∧
    (∀ V : Vr, (∀ a b, V.var a = V.var b → a = b) → (Accepts (V.doc d) ↔ Accepts d)) :=
  ⟨fun _ h => perm_definitions_verdict_invariance_memo s fx hfx hs h hd,
   fun T hinj hne' => tr_verdict_invariance_memo T hinj s fx hfx hs d hd hne',
   fun A ρ hA hρ hA' => alpha_aliases_verdict_invariance_memo A ρ hA hρ s fx hfx hs d hd hA',
   fun V hinj => alpha_variables_verdict_invariance_memo V hinj s fx hfx hs d hd⟩

/-! non-vacuity: the two-fragment document satisfies `DocOkM`, and `oSchema` has output-typed fields -/
example : DocOkM oSchema (oDocFrag "a") := ⟨⟨by decide, by decide⟩, by unfold NamesNonEmpty; decide⟩
example : SchemaOutputs oSchema := schemaOutputs_of_check oSchema (by decide)
/-- the verdict on the two-fragment document and on its image under "reverse every selection and argument list, rename
    the fragments" -/
example : (∀ r ∈ Rule.all, SilentM oSchema Fixes.all r (revRenameTr.doc (oDocFrag "a"))) ↔
    (∀ r ∈ Rule.all, SilentM oSchema Fixes.all r (oDocFrag "a")) :=
  tr_verdict_invariance_memo revRenameTr revRenameTr_inj oSchema Fixes.all headVars_all
    (schemaOutputs_of_check oSchema (by decide)) (oDocFrag "a")
    ⟨⟨by decide, by decide⟩, by unfold NamesNonEmpty; decide⟩ (by unfold NamesNonEmpty; decide)

end PyGql.Props.C06

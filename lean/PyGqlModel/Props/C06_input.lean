/-
  C06 - property theorems, part 8: `UniqueInputFieldNamesChecker` (5.6.3). The rule keeps a stack of name sets,
  one per enclosing object literal; its state only changes INSIDE input values, which are handled by a dedicated
  induction over `Value`; everything above values goes through the generic skeleton `WalkAlgV`.
-/
import PyGqlModel.Props.C06_names
import PyGqlModel.Lemmas.ValidateWalkG
namespace PyGql.Props.C06
open PyGql PyGql.Validate PyGql.Validate.Spec

private abbrev cU (s : SchemaD) (fx : Fixes) : Cfg := ⟨s, fx, [.uniqueInputFieldNames]⟩

def fObjDup : Node → Nat
  | .value (.obj fs) => dupCount [] (fs.map (·.name))
  | _ => 0

/-- the stack of name sets is restored, and the errors added are the duplicates of every object literal visited -/
def QU (ns : List Node) (st st' : St) : Prop :=
  st'.rs.uifStack = st.rs.uifStack ∧ E st' = E st + total fObjDup (fun _ => 0) ns

private theorem enterU (s : SchemaD) (fx : Fixes) (n : Node) (st : St) :
    enter (cU s fx) n st =
      ({ ti := tiEnter s n st.ti, rs := (enterRule s fx .uniqueInputFieldNames n (tiEnter s n st.ti) st.rs).1 },
       (enterRule s fx .uniqueInputFieldNames n (tiEnter s n st.ti) st.rs).2) := by
  simp only [enter, enterRules_one]

private theorem leaveU (s : SchemaD) (fx : Fixes) (n : Node) (st : St) :
    leave (cU s fx) n st = { ti := tiLeave n st.ti, rs := leaveRule s fx .uniqueInputFieldNames n st.ti st.rs } := by
  simp only [leave, List.reverse_cons, List.reverse_nil, List.nil_append, List.foldl_cons, List.foldl_nil]

/-- the nodes the rule reacts to -/
def Node.isObjish : Node → Bool
  | .value (.obj _) | .objField _ => true
  | _ => false

private theorem objish_of_valueish (n : Node) (h : n.isValueish = false) : Node.isObjish n = false := by
  cases n <;> simp_all [Node.isValueish, Node.isObjish]

/-- a node on which the rule does nothing at all -/
private theorem quietU (s : SchemaD) (fx : Fixes) (n : Node) (body : St → St) (ns : List Node) (st : St)
    (hq : Node.isObjish n = false) (hb : ∀ st1, QU ns st1 (body st1)) :
    QU (n :: ns) st (visitNode (cU s fx) n body st) := by
  have he : enter (cU s fx) n st = ({ ti := tiEnter s n st.ti, rs := st.rs }, false) := by
    rw [enterU]
    cases n with
    | value v => cases v <;> simp_all [enterRule, Node.isObjish]
    | _ => simp_all [enterRule, Node.isObjish]
  rw [visitNode_noskip _ _ _ _ _ he, leaveU]
  have hl : ∀ ti rs, leaveRule s fx .uniqueInputFieldNames n ti rs = rs := by
    intro ti rs
    cases n with
    | value v => cases v <;> simp_all [leaveRule, Node.isObjish]
    | _ => simp_all [leaveRule, Node.isObjish]
  obtain ⟨b1, b2⟩ := hb { ti := tiEnter s n st.ti, rs := st.rs }
  refine ⟨by simp only [hl]; exact b1, ?_⟩
  simp only [E, hl] at b2 ⊢
  rw [b2, total_cons]
  have : fObjDup n = 0 := by
    cases n with
    | value v => cases v <;> simp_all [fObjDup, Node.isObjish]
    | _ => simp_all [fObjDup, Node.isObjish]
  simp only [this, E]; omega

mutual
private theorem valueU (s : SchemaD) (fx : Fixes) : ∀ (v : Value) (st : St), QU (valueNodes v) st (visitValue (cU s fx) v st)
  | .obj fs, st => by
    rw [visitValue, valueNodes]
    have he : enter (cU s fx) (.value (.obj fs)) st =
        ({ ti := tiEnter s (.value (.obj fs)) st.ti, rs := { st.rs with uifStack := [] :: st.rs.uifStack } }, false) := by
      rw [enterU]; simp only [enterRule]
    rw [visitNode_noskip _ _ _ _ _ he, leaveU]
    obtain ⟨b1, b2⟩ := objFieldsU s fx fs
      { ti := tiEnter s (.value (.obj fs)) st.ti, rs := { st.rs with uifStack := [] :: st.rs.uifStack } } [] st.rs.uifStack rfl
    refine ⟨by simp only [leaveRule, b1, List.drop_succ_cons, List.drop_zero], ?_⟩
    simp only [E, leaveRule] at b2 ⊢
    rw [b2, total_cons]
    simp only [fObjDup, E]; omega
  | .list vs, st => by
    rw [visitValue, valueNodes]
    exact quietU s fx _ _ _ st rfl (fun st => valuesU s fx vs st)
  | .var x, st => by rw [visitValue]; simp only [valueNodes]; exact quietU s fx _ _ [] st rfl (fun st => ⟨rfl, by simp [total_nil]⟩)
  | .int x, st => by rw [visitValue]; simp only [valueNodes]; exact quietU s fx _ _ [] st rfl (fun st => ⟨rfl, by simp [total_nil]⟩)
  | .float x, st => by rw [visitValue]; simp only [valueNodes]; exact quietU s fx _ _ [] st rfl (fun st => ⟨rfl, by simp [total_nil]⟩)
  | .str x, st => by rw [visitValue]; simp only [valueNodes]; exact quietU s fx _ _ [] st rfl (fun st => ⟨rfl, by simp [total_nil]⟩)
  | .bool x, st => by rw [visitValue]; simp only [valueNodes]; exact quietU s fx _ _ [] st rfl (fun st => ⟨rfl, by simp [total_nil]⟩)
  | .null, st => by rw [visitValue]; simp only [valueNodes]; exact quietU s fx _ _ [] st rfl (fun st => ⟨rfl, by simp [total_nil]⟩)
  | .enum x, st => by rw [visitValue]; simp only [valueNodes]; exact quietU s fx _ _ [] st rfl (fun st => ⟨rfl, by simp [total_nil]⟩)
private theorem valuesU (s : SchemaD) (fx : Fixes) : ∀ (vs : List Value) (st : St), QU (valuesNodes vs) st (visitValues (cU s fx) vs st)
  | [], st => by rw [visitValues, valuesNodes]; exact ⟨rfl, by simp [total_nil]⟩
  | v :: vs, st => by
    rw [visitValues, valuesNodes]
    obtain ⟨a1, a2⟩ := valueU s fx v st
    obtain ⟨b1, b2⟩ := valuesU s fx vs (visitValue (cU s fx) v st)
    exact ⟨b1.trans a1, by rw [b2, a2, total_append]; omega⟩
private theorem objFieldU (s : SchemaD) (fx : Fixes) : ∀ (f : ObjField) (st : St) (names : List String) (rest : List (List String)),
    st.rs.uifStack = names :: rest →
    (visitObjField (cU s fx) f st).rs.uifStack = (f.name :: names) :: rest ∧
    E (visitObjField (cU s fx) f st) = E st + (if names.contains f.name then 1 else 0) + total fObjDup (fun _ => 0) (objFieldNodes f)
  | .mk n v, st, names, rest, hs => by
    rw [visitObjField, objFieldNodes, total_cons]
    by_cases hc : names.contains n = true
    · have he : enter (cU s fx) (.objField n) st =
          ({ ti := tiEnter s (.objField n) st.ti,
             rs := { st.rs.err .uniqueInputFieldNames with uifStack := (n :: names) :: rest } }, false) := by
        rw [enterU]; simp only [enterRule, hs, hc, ↓reduceIte]
      rw [visitNode_noskip _ _ _ _ _ he, leaveU]
      obtain ⟨b1, b2⟩ := valueU s fx v
        { ti := tiEnter s (.objField n) st.ti, rs := { st.rs.err .uniqueInputFieldNames with uifStack := (n :: names) :: rest } }
      simp only [leaveRule, ObjField.name, hc, ↓reduceIte, fObjDup, E] at b1 b2 ⊢
      exact ⟨b1, by rw [b2]; simp [RS.err]⟩
    · have he : enter (cU s fx) (.objField n) st =
          ({ ti := tiEnter s (.objField n) st.ti, rs := { st.rs with uifStack := (n :: names) :: rest } }, false) := by
        rw [enterU]; simp only [enterRule, hs, hc, Bool.false_eq_true, ↓reduceIte]
      rw [visitNode_noskip _ _ _ _ _ he, leaveU]
      obtain ⟨b1, b2⟩ := valueU s fx v
        { ti := tiEnter s (.objField n) st.ti, rs := { st.rs with uifStack := (n :: names) :: rest } }
      simp only [leaveRule, ObjField.name, hc, Bool.false_eq_true, ↓reduceIte, fObjDup, E] at b1 b2 ⊢
      exact ⟨b1, by rw [b2]; omega⟩
private theorem objFieldsU (s : SchemaD) (fx : Fixes) : ∀ (fs : List ObjField) (st : St) (names : List String) (rest : List (List String)),
    st.rs.uifStack = names :: rest →
    (visitObjFields (cU s fx) fs st).rs.uifStack = ((fs.map (·.name)).reverse ++ names) :: rest ∧
    E (visitObjFields (cU s fx) fs st) = E st + dupCount names (fs.map (·.name)) + total fObjDup (fun _ => 0) (objFieldsNodes fs)
  | [], st, names, rest, hs => by
    rw [visitObjFields, objFieldsNodes]; simp [dupCount, total_nil, hs]
  | f :: fs, st, names, rest, hs => by
    rw [visitObjFields, objFieldsNodes, total_append]
    obtain ⟨a1, a2⟩ := objFieldU s fx f st names rest hs
    obtain ⟨b1, b2⟩ := objFieldsU s fx fs (visitObjField (cU s fx) f st) (f.name :: names) rest a1
    refine ⟨by rw [b1]; simp, ?_⟩
    rw [b2, a2]
    simp only [List.map_cons, dupCount]
    omega
end

private theorem algU (s : SchemaD) (fx : Fixes) : WalkAlgV (cU s fx) QU where
  nil st := ⟨rfl, by simp [total_nil]⟩
  append h1 h2 := ⟨h2.1.trans h1.1, by rw [h2.2, h1.2, total_append]; omega⟩
  node n body ns st _ hq hb := quietU s fx n body ns st (objish_of_valueish n hq) hb
  value := valueU s fx

/-- **5.6.3 Input object field uniqueness** -/
theorem rule_unique_input_field_names_iff (s : SchemaD) (fx : Fixes) (d : Doc) :
    Silent s fx .uniqueInputFieldNames d ↔ Spec.uniqueInputFieldNames d := by
  unfold Silent alone
  have hw := visitDefsG (algU s fx) (fun n body ns st _ hq hb => quietU s fx n body ns st (objish_of_valueish n hq) hb) d.defs
  have hd := quietU s fx (.document d) (fun st => d.defs.foldl (fun st x => visitDef (cU s fx) x st) st)
    (d.defs.flatMap defNodes) ({} : St) rfl (fun st => hw st)
  rw [visitDocument]
  have h2 := hd.2
  have h0 : E ({} : St) = 0 := rfl
  rw [h0, Nat.zero_add] at h2
  show E (visitNode (cU s fx) (.document d) _ {}) = 0 ↔ _
  rw [h2, ← nodes, total_zero_iff_g0]
  unfold Spec.uniqueInputFieldNames
  constructor
  · intro h n hn fs e
    have := h n hn; subst e
    simpa [fObjDup, dupCount_nil_zero_iff] using this
  · intro h n hn
    cases n <;> simp only [fObjDup]
    rename_i v
    cases v <;> simp only [fObjDup]
    rename_i fs
    exact (dupCount_nil_zero_iff _).mpr (h _ hn fs rfl)

end PyGql.Props.C06

/-
  C12 — **THE TWO PRINTER MODELS ARE ONE**: the String-level model `SdlPrint.printSchema` (state threaded, the model of
  `print_pure` and of the history correspondence) and the Text-level model `SdlPrintTA.printSchemaTA` (the model of the
  text theorems `print_schema_text_parses(_custom)`, `text_roundtrip_*`) print the same code points.  Until now they were
  tied only by the correspondence (driver ops `printT` / `printTA` compare both with the real text).

  PROVED (`printSchemaTA_eq_printSchema`): for every option set `o` (indent, descriptions, custom directives on / off /
  whitelist), every schema and every assignment of directive nodes, in the state of the fixed code (H1),
      `T (printSchema o s apps st).1 = printSchemaTA (optsA o) s apps`        (`T` = the code points of a `String`)
  under ONE hypothesis `appsLexOK` — the PRINTED directive applications consist of lexemes (a sub-conjunction of
  `printTextWFA`) — which is needed: the String model writes an application with its own `dirAppText`, the Text model (as
  the real printer) with the language printer of C03, whose `_join` drops empty entries (`models_differ_on_empty_lexeme`).
  Without applied directives (`include_custom_schema_directives` falsy) there is NO hypothesis (`printSchemaT_eq_printSchema`):
  descriptions in every layout, re-wrapped lines (`wrapped_lines`), `json.dumps`, defaults, `strip`.
  COMPOSED: `print_schema_text_parses_string` / `text_roundtrip_string` — the text theorems now speak about the model the
  history correspondence compares; `runHistory_texts` — every output of every call history is the Text model's text.
  For this the String model was made total and list-based (`litText` structural, `splitLines`, `escTriple`): same text
  (exact-text correspondence), no `partial def`, no `String.splitOn / replace / endsWith`.
-/
import PyGqlModel.Lemmas.SdlModelsDefs
import PyGqlModel.Props.C12_custom_build
import PyGqlModel.Props.C12_h5
namespace PyGql.Props.C12
open PyGql PyGql.Sdl PyGql.SdlPrint PyGql.SdlModels
open PyGql.SdlText hiding T
open PyGql.SdlPrintT (T)

/-- THE STATEMENT: the two models print the same text -/
def ModelsAgreeStatement : Prop :=
  ∀ (o : Opts) (s : SchemaD) (apps : Apps), appsLexOK (optsA o) s apps = true →
    T (printSchema o s apps initialCollection).1 = SdlPrintTA.printSchemaTA (optsA o) s apps

/-- **printSchemaTA_eq_printSchema** — the statement, in full -/
theorem printSchemaTA_eq_printSchema : ModelsAgreeStatement :=
  fun o s apps h => (printSchema_rel o s apps h).2

/-- … for every schema the text theorems are about (`printTextWFA` contains `appsLexOK`) -/
theorem printSchemaTA_eq_printSchema_of_wfa (o : Opts) (s : SchemaD) (apps : Apps)
    (h : SdlPrintTA.printTextWFA (optsA o) s apps = true) :
    T (printSchema o s apps initialCollection).1 = SdlPrintTA.printSchemaTA (optsA o) s apps :=
  printSchemaTA_eq_printSchema o s apps (appsLexOK_of_wfa _ s apps h)

private theorem appsOKAt_off (c : SdlPrintTA.OptsA) (hc : c.custom = false) (apps : Apps) (path : String) :
    SdlPrintTA.appsOKAt c apps path = true := by
  simp [SdlPrintTA.appsOKAt, SdlPrintTA.keptAt, SdlPrintTA.nodesAt, hc]

private theorem appsLexOK_off (c : SdlPrintTA.OptsA) (hc : c.custom = false) (s : SchemaD) (apps : Apps) : appsLexOK c s apps = true := by
  simp [appsLexOK, SdlPrintTA.typeAppsOK, SdlPrintTA.fieldAppsOK, SdlPrintTA.argAppsOK, SdlPrintTA.directiveAppsOK, appsOKAt_off c hc]

/-- **printSchemaT_eq_printSchema** — without applied directives (the default) the String model prints exactly the text of
    `printSchemaT`, for EVERY schema, no hypothesis: descriptions in every layout, re-wrapped long lines included -/
theorem printSchemaT_eq_printSchema (o : Opts) (hc : o.custom = false) (s : SchemaD) (apps : Apps) :
    T (printSchema o s apps initialCollection).1 = SdlPrintT.printSchemaT (optsT o) s := by
  rw [printSchemaTA_eq_printSchema o s apps (appsLexOK_off _ hc s apps)]
  exact printSchemaTA_off (c := optsA o) hc s apps

/-- **runHistory_texts** — every output of EVERY history of `to_string` calls in one process is the text of the Text
    model for that call (with `print_pure`: the state never leaves the initial collection) -/
theorem runHistory_texts : ∀ (calls : List (Opts × SchemaD × Apps)),
    (∀ c ∈ calls, appsLexOK (optsA c.1) c.2.1 c.2.2 = true) →
    (runHistory initialCollection calls).map T = calls.map (fun c => SdlPrintTA.printSchemaTA (optsA c.1) c.2.1 c.2.2)
  | [], _ => rfl
  | c :: rest, h => by
    have hr := printSchema_rel c.1 c.2.1 c.2.2 (h c (by simp))
    have ih := runHistory_texts rest (fun x hx => h x (by simp [hx]))
    have h1 : (printSchema c.1 c.2.1 c.2.2 initialCollection).2 = initialCollection := hr.1
    simp only [runHistory, List.map_cons, h1, ih, hr.2]

/-- **print_schema_text_parses_string** — `print_schema_text_parses_custom` about the String model: the text the model of
    the history correspondence prints is accepted by lexer and parser and parses to the tree of the printed document -/
theorem print_schema_text_parses_string (o : Opts) (s : SchemaD) (apps : Apps)
    (hwf : SdlPrintTA.printTextWFA (optsA o) s apps = true) :
    parseSdlTextT (T (printSchema o s apps initialCollection).1) = docToAst (SdlPrintTA.printedDocA s (optsA o) apps) := by
  rw [printSchemaTA_eq_printSchema_of_wfa o s apps hwf]
  exact print_schema_text_parses_custom (optsA o) s apps hwf

/-- **text_roundtrip_string** — the text-level round trip about the String model: its text parses to a document that,
    applied directives included, builds a schema equal to `s` up to the order of definitions -/
theorem text_roundtrip_string (o : Opts) (s : SchemaD) (apps : Apps)
    (hwf : SdlPrintTA.printTextWFA (optsA o) s apps = true) (hb : printBuildWF s = true) :
    ∃ (d : Ast.Document) (doc : Doc) (s' : SchemaD), parseSdlTextT (T (printSchema o s apps initialCollection).1) = some d ∧
      docToAst doc = some d ∧ build doc = .ok s' ∧ SameUpToOrder s' s := by
  rw [printSchemaTA_eq_printSchema_of_wfa o s apps hwf]
  exact text_roundtrip_custom_final (optsA o) s apps hwf hb

/-! ### all four options: `include_introspection` at Text level -/

/-- THE STATEMENT for the whole option space (`SdlPrintTA.printSchemaXTA` is the Text-level `printSchemaX`) -/
def ModelsAgreeXStatement : Prop :=
  ∀ (o : Opts) (intro : Bool) (b : Builtins) (s : SchemaD) (apps : Apps), appsLexOKX (optsA o) intro b s apps = true →
    T (printSchemaX o intro b s apps initialCollection).1 = SdlPrintTA.printSchemaXTA (optsA o) intro b s apps

/-- **printSchemaXTA_eq_printSchemaX** — the two models print the same text for ALL FOUR options -/
theorem printSchemaXTA_eq_printSchemaX : ModelsAgreeXStatement :=
  fun o intro b s apps h => (printSchemaX_rel o intro b s apps h).2

private theorem appsLexOKX_off (c : SdlPrintTA.OptsA) (hc : c.custom = false) (intro : Bool) (b : Builtins) (s : SchemaD) (apps : Apps) :
    appsLexOKX c intro b s apps = true := by
  simp [appsLexOKX, SdlPrintTA.typeAppsOK, SdlPrintTA.fieldAppsOK, SdlPrintTA.argAppsOK, SdlPrintTA.directiveAppsOK, appsOKAt_off c hc]

/-- **printSchemaXTA_eq_printSchemaX_default** — with `include_custom_schema_directives` falsy (the default) there is no
    hypothesis at all: for every schema, every library constant and `include_introspection` on or off the two models print
    the same text — in particular the library's own long descriptions, re-wrapped by `wrapped_lines` -/
theorem printSchemaXTA_eq_printSchemaX_default (o : Opts) (hc : o.custom = false) (intro : Bool) (b : Builtins) (s : SchemaD) (apps : Apps) :
    T (printSchemaX o intro b s apps initialCollection).1 = SdlPrintTA.printSchemaXTA (optsA o) intro b s apps :=
  printSchemaXTA_eq_printSchemaX o intro b s apps (appsLexOKX_off _ hc intro b s apps)

/-- without the option the Text-level extended printer is the printer -/
theorem printSchemaXTA_off (c : SdlPrintTA.OptsA) (b : Builtins) (s : SchemaD) (apps : Apps) :
    SdlPrintTA.printSchemaXTA c false b s apps = SdlPrintTA.printSchemaTA c s apps := by
  simp only [SdlPrintTA.printSchemaXTA, SdlPrintTA.printSchemaTA, Bool.false_eq_true, if_false, List.map_nil, List.append_nil,
    List.nil_append, List.cons_append]

/-- **runHistoryX_texts** — every output of every history of calls with all four options (the histories of
    `print_pure_all_options`) is the text of the Text model for that call -/
theorem runHistoryX_texts : ∀ (calls : List (Opts × Bool × Builtins × SchemaD × Apps)),
    (∀ c ∈ calls, appsLexOKX (optsA c.1) c.2.1 c.2.2.1 c.2.2.2.1 c.2.2.2.2 = true) →
    (runHistoryX initialCollection calls).map T =
      calls.map (fun c => SdlPrintTA.printSchemaXTA (optsA c.1) c.2.1 c.2.2.1 c.2.2.2.1 c.2.2.2.2)
  | [], _ => rfl
  | c :: rest, h => by
    have hr := printSchemaX_rel c.1 c.2.1 c.2.2.1 c.2.2.2.1 c.2.2.2.2 (h c (by simp))
    have ih := runHistoryX_texts rest (fun x hx => h x (by simp [hx]))
    have h1 : (printSchemaX c.1 c.2.1 c.2.2.1 c.2.2.2.1 c.2.2.2.2 initialCollection).2 = initialCollection := hr.1
    simp only [runHistoryX, List.map_cons, h1, ih, hr.2]

/-- a stand-in for the library's constants: one specified directive with a described argument, one introspection type
    whose description has an over-long line -/
def demoBuiltins : Builtins :=
  { specified := [{ name := "skip", locations := ["FIELD"], args := [{ name := "if", type := .nonNull (.named "Boolean"), desc := some "Skipped when true." }] }],
    introspection := [{ kind := .enum, name := "__TypeKind", desc := some longLine, values := [{ name := "SCALAR", value := .str "SCALAR" }] }] }

set_option maxRecDepth 100000 in
example : T (printSchemaX {} true demoBuiltins plainShop [] initialCollection).1 =
    SdlPrintTA.printSchemaXTA (optsA {}) true demoBuiltins plainShop [] :=
  printSchemaXTA_eq_printSchemaX _ _ _ _ _ (by decide)

/-! ### non-vacuity, and why the hypothesis is there -/

example : appsLexOK (optsA { custom := true }) plainShop shopApps = true := by decide
example : T (printSchema { custom := true } plainShop shopApps initialCollection).1 =
    SdlPrintTA.printSchemaTA (optsA { custom := true }) plainShop shopApps :=
  printSchemaTA_eq_printSchema _ _ _ (by decide)
example : T (printSchema { custom := true, whitelist := some ["other"], indent := "\t" } plainShop shopApps initialCollection).1 =
    SdlPrintTA.printSchemaTA (optsA { custom := true, whitelist := some ["other"], indent := "\t" }) plainShop shopApps :=
  printSchemaTA_eq_printSchema _ _ _ (by decide)
/-- a description with a line of 130 characters (re-wrapped by `wrapped_lines`): no hypothesis needed -/
example (d : String) : T (printSchema {} { types := [{ kind := .scalar, name := "S", desc := some d }] } [] initialCollection).1 =
    SdlPrintT.printSchemaT (optsT {}) { types := [{ kind := .scalar, name := "S", desc := some d }] } :=
  printSchemaT_eq_printSchema {} rfl _ _

/-- an application whose argument is the list literal `[<empty enum lexeme>, A]` (not producible by the parser): the
    String model writes `[, A]`, the language printer drops the empty entry and writes `[A]` -/
def emptyLexemeApps : Apps := [("S", [{ name := "tag", args := [("xs", .list [.enum "", .enum "A"])] }])]
def scalarS : SchemaD := { types := [{ kind := .scalar, name := "S" }] }

/-- **models_differ_on_empty_lexeme** — the hypothesis `appsLexOK` cannot be dropped -/
theorem models_differ_on_empty_lexeme :
    appsLexOK (optsA { custom := true }) scalarS emptyLexemeApps = false ∧
    T (printSchema { custom := true } scalarS emptyLexemeApps initialCollection).1 ≠
      SdlPrintTA.printSchemaTA (optsA { custom := true }) scalarS emptyLexemeApps := by
  decide

end PyGql.Props.C12

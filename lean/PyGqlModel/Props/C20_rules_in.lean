/-
  C20 — "no breaking change reported ⇒ operations stay valid", INPUT side: what an empty BREAKING report gives
  about the look-ups that ValuesOfCorrectType (5.6.1) and VariablesInAllowedPosition (5.8.5) make
  (`argPos`, `objFieldPos`, `inputFields`, `enumHas` of Spec/ValidSpecVars.lean / ValidSpecValues.lean):
  every argument / input field found on the old schema is found on the new one with a type that is AT LEAST AS
  PERMISSIVE (`sub old new`, i.e. `_is_safe_input_type_change`), it did not become required, and a default it had at
  a non-null position is still there. `C20_rules_values.lean` / `C20_rules_vars.lean` lift this to documents.
-/
import PyGqlModel.Props.C20_rules_doc
import PyGqlModel.Spec.ValidSpecValues

set_option linter.unusedSimpArgs false
set_option linter.unusedVariables false

namespace PyGql.Props.C20
open PyGql PyGql.Differ PyGql.Diff PyGql.Validate PyGql.Validate.Spec

private theorem brk {o n : SchemaD} (h : diffSchema o n 2 = []) {c : Change}
    (hc : c ∈ diffSchema o n 0) (hs : 2 ≤ c.severity) : False := by
  have := reported_at_severity o n c 2 hc hs
  rw [h] at this; exact absurd this (List.not_mem_nil)

private theorem sv (c : String) (k : List (String × String)) (h : sev c false = 2) : 2 ≤ (mk c k).severity := by
  rw [show (mk c k).severity = sev c false from rfl, h]; exact Nat.le_refl 2

private theorem memFT {s : SchemaD} {x : String} {t : TypeD} (h : s.findType x = some t) :
    t ∈ s.types ∧ t.name = x := by
  unfold SchemaD.findType at h
  exact ⟨List.mem_of_find?_eq_some h, by simpa using List.find?_some h⟩

private theorem matchMem (o n : SchemaD) (t t' : TypeD) (k : Kind) (ht : t ∈ o.types)
    (hf : n.findType t.name = some t') (hk : t.kind = k) (hk' : t'.kind = k) : (t, t') ∈ matchingPairs o n k := by
  unfold matchingPairs
  apply List.mem_filterMap.mpr
  refine ⟨t, List.mem_filter.mpr ⟨ht, by simp [hk]⟩, ?_⟩
  unfold SchemaD.findType at hf
  rw [PyGql.ListEqv.find_filter_of_find n.types (fun y => y.name == t.name) (fun y => y.kind == k) t' hf (by simp [hk'])]

/-- every argument / input field of the old list is found in the new one (first match by name, as the validator
    looks it up), its type is at least as permissive, and it did not become required -/
def ArgsRelS (as bs : List ArgD) : Prop :=
  ∀ a ∈ as, ∃ b, bs.find? (·.name == a.name) = some b ∧ sub a.type b.type = true ∧ becameRequired a b = false

theorem sub_refl_in (t : Ty) : sub t t = true := by rw [← safeIn_eq_sub]; exact safeIn_refl t

theorem sub_base (t t' : Ty) (h : sub t t' = true) : t'.base = t.base :=
  (safeIn_base t t' (by rw [safeIn_eq_sub]; exact h)).symm

private theorem becameRequired_self (a : ArgD) : becameRequired a a = false := by
  unfold becameRequired; cases Diff.ArgD.required a <;> rfl

/-- the arguments of a kept field of an object / interface type -/
theorem fieldHost_argsRelS (o n : SchemaD) (h : diffSchema o n 2 = []) (ot nt : TypeD) (hp : FieldHost o n ot nt)
    (f g : FieldD) (hf : f ∈ ot.fields) (hg : nt.fields.find? (·.name == f.name) = some g) :
    ArgsRelS f.args g.args := by
  intro a ha
  cases hb : g.args.find? (·.name == a.name) with
  | none => exact (brk h (removed_argument_reported o n ot nt f g a hp hf hg ha hb) (sv _ _ (by decide))).elim
  | some b =>
    have hs : safeIn a.type b.type = true := by
      cases hs : safeIn a.type b.type with
      | true => rfl
      | false =>
        exact (brk h (retyped_argument_reported o n ot nt f g a b hp hf hg ha hb hs) (sv _ _ (by decide))).elim
    exact ⟨b, rfl, by rw [← safeIn_eq_sub]; exact hs,
      nobreaking_no_argument_becomes_required o n h ot nt hp f g hf hg a b ha hb⟩

/-- **fields (validator look-up), input side**: the arguments of a kept field -/
theorem nobreaking_V_fieldOf_in (o n : SchemaD) (h : diffSchema o n 2 = [])
    (p name : String) (fd fd' : FieldD) (hf : fieldOf o p name = some fd) (hn : fieldOf n p name = some fd') :
    ArgsRelS fd.args fd'.args := by
  unfold fieldOf at hf hn
  by_cases hk : isObjOrIface o p = true
  · rw [if_pos hk] at hf
    cases ho : o.findType p with
    | none => rw [ho] at hf; simp at hf
    | some t =>
      rw [ho] at hf
      simp only [Option.bind_some] at hf
      obtain ⟨htm, htn⟩ := memFT ho
      obtain ⟨t', hn', hkk⟩ := nobreaking_findType o n h p t ho
      have hfm : fd ∈ t.fields := List.mem_of_find?_eq_some hf
      have hfn : fd.name = name := by simpa using List.find?_some hf
      have hkind : t.kind = .object ∨ t.kind = .interface := by
        unfold isObjOrIface kindOf at hk
        rw [ho] at hk
        simp only [Option.map_some] at hk
        cases hh : t.kind <;> simp [hh] at hk <;> simp
      have hn2 : n.findType t.name = some t' := by rw [htn]; exact hn'
      have hhost : FieldHost o n t t' := by
        rcases hkind with hk1 | hk1
        · exact Or.inl (matchMem o n t t' .object htm hn2 hk1 (by rw [hkk]; exact hk1))
        · exact Or.inr (matchMem o n t t' .interface htm hn2 hk1 (by rw [hkk]; exact hk1))
      have hk' : isObjOrIface n p = true := by
        unfold isObjOrIface kindOf
        rw [hn']
        simp only [Option.map_some]
        rcases hkind with hk1 | hk1 <;> rw [hkk, hk1]
      rw [if_pos hk', hn'] at hn
      simp only [Option.bind_some] at hn
      rw [← hfn] at hn
      exact fieldHost_argsRelS o n h t t' hhost fd fd' hfm hn
  · have hk' : isObjOrIface o p = false := by simpa using hk
    rw [hk'] at hf; simp at hf

/-- **`_get_field_def`, input side** (meta fields included) -/
theorem nobreaking_V_getFieldDef_in (o n : SchemaD) (h : diffSchema o n 2 = []) (wo : OldWf o)
    (p name : String) (hp : isComposite o p = true) (fd fd' : FieldD)
    (hf : getFieldDef o p name = some fd) (hn : getFieldDef n p name = some fd') : ArgsRelS fd.args fd'.args := by
  have hq := nobreaking_query o n h wo
  have hks : (kindOf o p).isSome = true := by
    unfold isComposite at hp
    cases hh : kindOf o p with
    | none => rw [hh] at hp; simp at hp
    | some _ => rfl
  have hc := nobreaking_V_isComposite o n h p hks
  unfold getFieldDef at hf hn
  rw [hq, hc] at hn
  by_cases c1 : (o.query == some p && name == "__schema") = true
  · rw [if_pos c1] at hf hn
    cases hf; cases hn
    intro a ha; simp [schemaField] at ha
  · rw [if_neg c1] at hf hn
    by_cases c2 : (o.query == some p && name == "__type") = true
    · rw [if_pos c2] at hf hn
      cases hf; cases hn
      intro a ha
      simp only [typeField, List.mem_singleton] at ha
      subst ha
      exact ⟨_, by simp [typeField], sub_refl_in _, becameRequired_self _⟩
    · rw [if_neg c2] at hf hn
      by_cases c3 : (isComposite o p && name == "__typename") = true
      · rw [if_pos c3] at hf hn
        cases hf; cases hn
        intro a ha; simp [typenameField] at ha
      · rw [if_neg c3] at hf hn
        exact nobreaking_V_fieldOf_in o n h p name fd fd' hf hn

/-- **directives (validator look-up), input side** -/
theorem nobreaking_V_findDirective_in (o n : SchemaD) (h : diffSchema o n 2 = [])
    (name : String) (dd dd' : DirectiveD) (hd : findDirective o name = some dd)
    (hn : findDirective n name = some dd') : ArgsRelS dd.args dd'.args := by
  unfold findDirective at hd hn
  have hdm : dd ∈ o.directives := List.mem_of_find?_eq_some hd
  have hdn : dd.name = name := by simpa using List.find?_some hd
  rw [← hdn] at hn
  intro a ha
  cases hb : dd'.args.find? (·.name == a.name) with
  | none => exact (brk h (removed_directive_argument_reported o n dd dd' a hdm hn ha hb) (sv _ _ (by decide))).elim
  | some b =>
    have hs : safeIn a.type b.type = true := by
      cases hs : safeIn a.type b.type with
      | true => rfl
      | false =>
        exact (brk h (retyped_directive_argument_reported o n dd dd' a b hdm hn ha hb hs) (sv _ _ (by decide))).elim
    exact ⟨b, rfl, by rw [← safeIn_eq_sub]; exact hs,
      nobreaking_no_directive_argument_becomes_required o n h dd dd' hdm hn a b ha hb⟩

/-- **input object types (validator look-up)**: the type stays an input object, its fields are kept with at least as
    permissive types and none becomes required, and every field that is new is optional -/
theorem nobreaking_V_inputFields (o n : SchemaD) (h : diffSchema o n 2 = []) (x : String)
    (hi : isInputObject o x = true) :
    isInputObject n x = true ∧ ArgsRelS (inputFields o x) (inputFields n x) ∧
      (∀ g ∈ inputFields n x, (inputFields o x).find? (·.name == g.name) = none → Validate.ArgD.required g = false) := by
  have hk : kindOf o x = some .input := by unfold isInputObject at hi; simpa using hi
  have hkn := nobreaking_V_kindOf o n h x _ hk
  cases ho : o.findType x with
  | none => unfold kindOf at hk; rw [ho] at hk; simp at hk
  | some t =>
    obtain ⟨htm, htn⟩ := memFT ho
    obtain ⟨t', hn', hkk⟩ := nobreaking_findType o n h x t ho
    have htk : t.kind = .input := by unfold kindOf at hk; rw [ho] at hk; simpa using hk
    have hp : (t, t') ∈ matchingPairs o n .input :=
      matchMem o n t t' .input htm (by rw [htn]; exact hn') htk (by rw [hkk]; exact htk)
    have eo : inputFields o x = t.inputFields := by unfold inputFields; rw [ho]; simp [htk]
    have en : inputFields n x = t'.inputFields := by unfold inputFields; rw [hn']; simp [hkk, htk]
    refine ⟨by unfold isInputObject; rw [hkn]; simp, ?_, ?_⟩
    · rw [eo, en]
      intro f hf
      cases hg : t'.inputFields.find? (·.name == f.name) with
      | none => exact (brk h (removed_input_field_reported o n t t' f hp hf hg) (sv _ _ (by decide))).elim
      | some g =>
        have hs : safeIn f.type g.type = true := by
          cases hs : safeIn f.type g.type with
          | true => rfl
          | false => exact (brk h (retyped_input_field_reported o n t t' f g hp hf hg hs) (sv _ _ (by decide))).elim
        exact ⟨g, rfl, by rw [← safeIn_eq_sub]; exact hs,
          nobreaking_no_input_field_becomes_required o n h t t' hp f g hf hg⟩
    · rw [eo, en]
      exact (nobreaking_input_fields o n h t t' hp).2

/-- **enum values (validator look-up)** are kept -/
theorem nobreaking_V_enumHas (o n : SchemaD) (h : diffSchema o n 2 = []) (x v : String)
    (he : isEnum o x = true) (hv : enumHas o x v = true) : enumHas n x v = true := by
  have hk : kindOf o x = some .enum := by unfold isEnum at he; simpa using he
  cases ho : o.findType x with
  | none => unfold kindOf at hk; rw [ho] at hk; simp at hk
  | some t =>
    obtain ⟨htm, htn⟩ := memFT ho
    obtain ⟨t', hn', hkk⟩ := nobreaking_findType o n h x t ho
    have htk : t.kind = .enum := by unfold kindOf at hk; rw [ho] at hk; simpa using hk
    have hp : (t, t') ∈ matchingPairs o n .enum :=
      matchMem o n t t' .enum htm (by rw [htn]; exact hn') htk (by rw [hkk]; exact htk)
    unfold enumHas at hv ⊢
    rw [ho] at hv
    rw [hn']
    simp only [List.any_eq_true] at hv ⊢
    obtain ⟨ev, hev, hevn⟩ := hv
    have hs := nobreaking_enum_values_kept o n h t t' hp ev hev
    cases hf : t'.values.find? (·.name == ev.name) with
    | none => rw [hf] at hs; simp at hs
    | some w =>
      refine ⟨w, List.mem_of_find?_eq_some hf, ?_⟩
      have hw : w.name = ev.name := by simpa using List.find?_some hf
      rw [hw]; exact hevn

end PyGql.Props.C20

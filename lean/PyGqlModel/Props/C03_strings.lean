/-
  C03 (string part): the printer's string encoders round-trip through the lexer.
-/
import PyGqlModel.Lex
import PyGqlModel.PrintString
import PyGqlModel.Lemmas.LexChars
import PyGqlModel.Lemmas.LexBlockEscape
import PyGqlModel.Spec.BlockStringSpec
import PyGqlModel.Lemmas.LexBlockLayout
import PyGqlModel.Lemmas.LexBlockRoundtrip
import PyGqlModel.Lemmas.LexCompleteNum
import PyGqlModel.Props.C02_decode

namespace PyGql.Props.C03
open PyGql.Lex PyGql.PrintString

private theorem hex_low (c : Nat) (h : c < 32) :
    hex4 48 48 (hexDigitLower (c / 16)) (hexDigitLower (c % 16)) = some c := by
  revert c; decide

private theorem quoted_simple :
    quoted 34 = some 34 ∧ quoted 92 = some 92 ∧ quoted 110 = some 10 ∧ quoted 114 = some 13 ∧
    quoted 116 = some 9 ∧ quoted 98 = some 8 ∧ quoted 102 = some 12 ∧ quoted 117 = none := by decide

/-- decoding the escaped body followed by the closing quote gives the value back -/
private theorem readStringBody_jsonEscape (n : Nat) (v rest : Text) :
    readStringBody n (jsonEscape v ++ 34 :: rest) = .ok (v, rest) := by
  obtain ⟨q1, q2, q3, q4, q5, q6, q7, q8⟩ := quoted_simple
  induction v with
  | nil => rw [readStringBody.eq_def]; simp [jsonEscape]
  | cons c t ih =>
    simp only [jsonEscape, jsonEscapeChar]
    split
    · rename_i h; subst h; rw [readStringBody.eq_def]; simp [q1, ih]
    split
    · rename_i h; subst h; rw [readStringBody.eq_def]; simp [q2, ih]
    split
    · rename_i h; subst h; rw [readStringBody.eq_def]; simp [q3, ih]
    split
    · rename_i h; subst h; rw [readStringBody.eq_def]; simp [q4, ih]
    split
    · rename_i h; subst h; rw [readStringBody.eq_def]; simp [q5, ih]
    split
    · rename_i h; subst h; rw [readStringBody.eq_def]; simp [q6, ih]
    split
    · rename_i h; subst h; rw [readStringBody.eq_def]; simp [q7, ih]
    split
    · rename_i h
      have hh : isHighSurrogate c = false := by simp [isHighSurrogate]; omega
      simp only [List.cons_append, List.nil_append]
      rw [readStringBody_unicode_single n _ _ _ _ c _ (hex_low c h) hh]; simp [ih]
    · rename_i h1 h2 h3 h4 h5 h6 h7 h8
      have hp : isPrintable c = true := by simp [isPrintable]; omega
      rw [readStringBody.eq_def]
      simp [h1, h2, h3, h4, hp, ih]

private theorem jsonEscape_no_quote_head (v : Text) (x : Nat) (t : Text) (h : jsonEscape v ++ [34] = 34 :: x :: t) : False := by
  cases v with
  | nil => simp [jsonEscape] at h
  | cons c r =>
    simp only [jsonEscape, jsonEscapeChar] at h
    repeat' split at h
    all_goals simp at h
    all_goals omega

/-- `quoted_roundtrip`: for EVERY list of code points (astral characters, lone surrogates, controls, quotes and
    backslashes included) the printed quoted form `json.dumps(value, ensure_ascii=False)` lexes to exactly one String
    token spanning the whole text whose decoded value is the original (defect R2 fixed). -/
theorem quoted_roundtrip (v : Text) :
    lexAll (jsonDumps v) =
      .ok [sofTok, ⟨.string, 0, (jsonDumps v).length, v⟩, eofTok (jsonDumps v).length] := by
  have hbody := fun n => readStringBody_jsonEscape n v []
  have hsym : symbolKind 34 = none := by decide
  have hnotq : tq.isPrefixOf (jsonDumps v) = false := by
    simp only [jsonDumps, tq]
    cases hv : jsonEscape v ++ [34] with
    | nil => simp
    | cons a r =>
      cases r with
      | nil => simp [List.isPrefixOf]
      | cons b r' =>
        by_cases ha : a = 34
        · subst ha; exact absurd hv (fun h => jsonEscape_no_quote_head v b r' h)
        · simp [List.isPrefixOf]; intro h; exact absurd h.symm ha
  unfold lexAll
  simp only [jsonDumps] at hnotq ⊢
  simp only [List.length_cons, lexLoop, next, readOverWhitespace]
  have hign : isIgnored 34 = false := by decide
  have hpr : isPrintable 34 = true := by decide
  simp [hign, hpr, hsym, hnotq, readString, hbody, Except.map, sofTok, eofTok, readOverWhitespace, posAt]

/-- fix C02-U1 and the printer: only ESCAPE pairs are combined by the lexer, and the printer never emits `\\uXXXX` for a
    code point ≥ U+0020 — an astral character and lone surrogates are printed as the literal characters. So a value made
    of a lone high followed by a lone low surrogate (two code points, only possible in code-built trees now) is printed
    literally and re-read as the same two code points: it is an instance of `quoted_roundtrip`, which holds unchanged
    for EVERY code-point list. -/
example : jsonDumps [0xD83D, 0xDE00] = [34, 0xD83D, 0xDE00, 34] := by decide
example : (lexAll (jsonDumps [0xD83D, 0xDE00])).toOption.map (·.map (·.value)) =
    some [sofTok.value, [0xD83D, 0xDE00], (eofTok 0).value] := by decide
example : jsonDumps [0x1F600] = [34, 0x1F600, 34] := by decide

/-- non-vacuity: `a"😀\` + U+0001 + lone surrogate U+D800 -/
example : jsonDumps [97, 34, 0x1F600, 92, 1, 0xD800] = [34, 97, 92, 34, 0x1F600, 92, 92, 92, 117, 48, 48, 48, 49, 0xD800, 34] := by decide

/-- THE FULL STATEMENT `block_roundtrip` in the whole-text form (proved: `block_roundtrip_statement`): for every value in the range of `BlockStringValue` (made of block-string
    characters), every indent string over {space, tab}, every enclosing depth `k` and both paths (value / description),
    the printed block string lexes to exactly one BlockString token whose value is the original. -/
def BlockRoundtripStatement : Prop :=
  ∀ (raw ind : Text) (k : Nat) (isDesc : Bool),
    let v := Spec.BlockStringValue raw
    (∀ c ∈ v, blockChar c = true) → (∀ c ∈ ind, c = 32 ∨ c = 9) →
    ∃ a b, lexAll (indentN ind k (blockString v ind isDesc)) =
      .ok [sofTok, ⟨.blockString, a, b, v⟩, eofTok (indentN ind k (blockString v ind isDesc)).length]

/-- the escaping half as a reusable lemma (was `block_roundtrip_partial`): the lexer's block-string scanner inverts the
    printer's `value.replace('"""', '\\"""')`, for ALL values and whatever layout follows on the next line -/
theorem block_escape_scan (n : Nat) (v w : Text) (hv : ∀ c ∈ v, blockChar c = true) :
    readBlockBody n 0 (escapeTripleQuotes v ++ 10 :: w) =
      (readBlockBody n 0 (10 :: w)).map (fun p => (v ++ p.1, p.2)) :=
  readBlockBody_escape n w v 0 (Nat.zero_le _) hv

/-- `block_roundtrip` (FULL): for EVERY value `v` in the range of `BlockStringValue` (made of block-string characters),
    every indent string `ind` over {space, tab}, both paths (`is_description` off / on) and EVERY enclosing indentation
    prefix `P` over {space, tab} (what any number of enclosing `_indent` calls put after each line feed), the printed
    block string — empty, one-line (`"""␠v"""`, with the line feed appended after a trailing `"` or `\`) or multi-line
    form — followed by ANY text `r` is read by one `__next__` as exactly one BlockString token spanning the printed text,
    whose value is `v`. (Defects R1 and R3 fixed; B1/B2 make the range what the specification says.) -/
theorem block_roundtrip (n : Nat) (raw ind P r : Text) (isDesc : Bool)
    (hind : ∀ c ∈ ind, c = 32 ∨ c = 9) (hP : ∀ c ∈ P, c = 32 ∨ c = 9)
    (hchars : ∀ c ∈ Spec.BlockStringValue raw, blockChar c = true) :
    next n (replaceLF P (blockString (Spec.BlockStringValue raw) ind isDesc) ++ r) =
      .ok (⟨.blockString, n - (replaceLF P (blockString (Spec.BlockStringValue raw) ind isDesc) ++ r).length,
            n - r.length, Spec.BlockStringValue raw⟩, some r) := by
  rw [← PyGql.Props.C02.block_string_spec] at hchars ⊢
  exact BlockRT.block_next n raw ind P r isDesc hind hP hchars

private theorem indentN_eq (ind : Text) (hind : ∀ c ∈ ind, c = 32 ∨ c = 9) (s : Text) (hs : s ≠ []) (k : Nat) :
    ∃ Pk : Text, (∀ c ∈ Pk, c = 32 ∨ c = 9) ∧ indentN ind k s = Pk ++ replaceLF Pk s := by
  induction k with
  | zero => exact ⟨[], by simp, by simp [indentN, BlockRT.replaceLF_nil]⟩
  | succ k ih =>
    obtain ⟨Pk, hPk, hk⟩ := ih
    refine ⟨ind ++ Pk, PrintLex.blank_append hind hPk, ?_⟩
    have hne : indentN ind k s ≠ [] := by
      rw [hk]; cases s with
      | nil => exact absurd rfl hs
      | cons c t => cases Pk <;> simp [replaceLF] <;> split <;> simp
    have hemp : (indentN ind k s).isEmpty = false := by
      cases h : indentN ind k s with
      | nil => exact absurd h hne
      | cons a b => rfl
    simp only [indentN, indentText, hemp, Bool.false_eq_true, ↓reduceIte]
    rw [hk, PrintLex.replaceLF_append, PrintLex.replaceLF_noLF ind Pk (PrintLex.blank_noLF hPk),
      PrintLex.replaceLF_replaceLF ind Pk s hPk]
    simp [List.append_assoc]

private theorem ignRun_blank (X P : Text) (hP : ∀ c ∈ P, c = 32 ∨ c = 9) : Spec.Lexical.IgnRun X P := by
  induction P with
  | nil => exact .nil
  | cons c t ih =>
    refine .char c t ?_ (ih (fun x hx => hP x (by simp [hx])))
    rcases hP c (by simp) with rfl | rfl <;> decide

private theorem blockString_head (v ind : Text) (d : Bool) : ∃ u, blockString v ind d = 34 :: u := by
  have h : (blockString v ind d).head? = some 34 := by
    unfold blockString
    simp only
    repeat' split
    all_goals simp
  cases hb : blockString v ind d with
  | nil => rw [hb] at h; simp at h
  | cons a u => rw [hb] at h; simp at h; exact ⟨u, by rw [h]⟩

/-- the statement in the form announced in round 1 (`BlockRoundtripStatement`): the whole text made of the printed block
    string under `k` enclosing `_indent`s lexes to exactly `[SOF, BlockString v, EOF]` -/
theorem block_roundtrip_statement : BlockRoundtripStatement := by
  intro raw ind k isDesc
  dsimp only
  intro hchars hind
  generalize hv : Spec.BlockStringValue raw = v at hchars
  obtain ⟨u, hu⟩ := blockString_head v ind isDesc
  have hne : blockString v ind isDesc ≠ [] := by rw [hu]; simp
  obtain ⟨Pk, hPk, hk⟩ := indentN_eq ind hind _ hne k
  have hhead : ∃ u', replaceLF Pk (blockString v ind isDesc) = 34 :: u' := by
    rw [hu]; exact ⟨replaceLF Pk u, by simp [replaceLF]⟩
  obtain ⟨u', hu'⟩ := hhead
  have hX : tokenStart (replaceLF Pk (blockString v ind isDesc) ++ []) := by
    rw [hu']; simp only [tokenStart, List.cons_append, Spec.Lexical.startsWith]; decide
  have hnext := block_roundtrip (Pk ++ replaceLF Pk (blockString v ind isDesc)).length raw ind Pk [] isDesc hind hPk (by rw [hv]; exact hchars)
  rw [hv] at hnext
  have hskip := next_skip (Pk ++ replaceLF Pk (blockString v ind isDesc)).length Pk _ (ignRun_blank _ Pk hPk) hX
  rw [List.append_nil] at hskip hnext
  refine ⟨(Pk ++ replaceLF Pk (blockString v ind isDesc)).length - (replaceLF Pk (blockString v ind isDesc)).length,
    (Pk ++ replaceLF Pk (blockString v ind isDesc)).length - ([] : Text).length, ?_⟩
  rw [hk]
  unfold lexAll
  have hpos : 1 ≤ (Pk ++ replaceLF Pk (blockString v ind isDesc)).length := by
    rw [hu', List.length_append, List.length_cons]; omega
  obtain ⟨f, hf⟩ : ∃ f, (Pk ++ replaceLF Pk (blockString v ind isDesc)).length + 1 = f + 1 + 1 :=
    ⟨(Pk ++ replaceLF Pk (blockString v ind isDesc)).length - 1, by omega⟩
  rw [hf]
  have heof : ∀ n, next n [] = .ok (eofTok n, none) := by intro n; simp [next, readOverWhitespace]
  simp only [lexLoop, hskip, hnext, heof]

/-! ### the LAYOUT half of `block_roundtrip`: the three lemmas of DESIGN §5 C03, composed by lang3's
    `parseBlockString_layout`; the range of `BlockStringValue` is characterised in `Lemmas/LexBlockRange.lean`. -/

/-- `splitLines (joinLF ls) = ls`: the printer's LF-joined lines are exactly what the parser splits -/
theorem layout_splitLines_joinLF (l : Text) (ls : List Text) (h : ∀ x ∈ l :: ls, BlockString.IsLine x) :
    BlockString.splitLines (BlockString.joinLF (l :: ls)) = l :: ls :=
  BlockString.splitLines_joinLF l ls h

/-- `commonIndent (map (P ++ ·) ls) = |P| + commonIndent ls` for a layout prefix `P` over {space, tab}:
    `_indent` shifts the common indentation by exactly `|P|`, blank lines stay out of the minimum -/
theorem layout_commonIndent_shift (p : Text) (hp : BlockString.IsBlank p) (ls : List Text) :
    (ls.map (p ++ ·)).foldl BlockString.indentStep none = (ls.foldl BlockString.indentStep none).map (p.length + ·) :=
  BlockString.foldl_indentStep_prefix p hp ls none

/-- `stripBlank`: the layout's added first line (empty) and last line (`Q`, blank) are removed, the value's own
    non-blank first and last lines stop the removal -/
theorem layout_stripBlank (b l : Text) (ls : List Text) (hb : BlockString.IsBlank b)
    (hl : Spec.onlyWhiteSpace l = false) :
    BlockString.popLeading (b :: l :: ls) = l :: ls ∧
    BlockString.popTrailing (ls ++ [l] ++ [b]) = ls ++ [l] :=
  ⟨by rw [BlockString.popLeading_blank b _ hb, BlockString.popLeading_nonblank l ls hl],
   by rw [BlockString.popTrailing_blank _ b hb, BlockString.popTrailing_nonblank ls l hl]⟩

/-- non-vacuity: two value lines under a two-space prefix -/
example : ([[97], [32, 98]].map ([32, 32] ++ ·)).foldl BlockString.indentStep none = some 2 := by decide

/-- non-vacuity / instances of the full statement (value `  a"""\` + LF + `b"`, i.e. leading blanks, an embedded triple
    quote, trailing backslash and quote): depth 0 with a 2-space indent, depth 2 with a TAB indent, description path -/
example : ((lexAll (indentN [32, 32] 0 (blockString [32, 32, 97, 34, 34, 34, 92, 10, 98, 34] [32, 32] false))).toOption.map
    (fun ts => ts.map (fun t => (t.kind, t.value)))) =
    some [(.sof, sofTok.value), (.blockString, [32, 32, 97, 34, 34, 34, 92, 10, 98, 34]), (.eof, (eofTok 0).value)] := by decide
example : ((lexAll (indentN [9] 2 (blockString [32, 32, 97, 34, 34, 34, 92, 10, 98, 34] [9] false))).toOption.map
    (fun ts => ts.map (fun t => (t.kind, t.value)))) =
    some [(.sof, sofTok.value), (.blockString, [32, 32, 97, 34, 34, 34, 92, 10, 98, 34]), (.eof, (eofTok 0).value)] := by decide
example : ((lexAll (indentN [32] 1 (blockString [32, 97, 92] [32] true))).toOption.map
    (fun ts => ts.map (fun t => (t.kind, t.value)))) =
    some [(.sof, sofTok.value), (.blockString, [32, 97, 92]), (.eof, (eofTok 0).value)] := by decide
/-- the empty block string prints and round-trips (defect R1 fixed) -/
example : ((lexAll (blockString [] [32, 32] false)).toOption.map (fun ts => ts.map (fun t => (t.kind, t.value)))) =
    some [(.sof, sofTok.value), (.blockString, []), (.eof, (eofTok 0).value)] := by decide

end PyGql.Props.C03

/-
  C03 (string part): the printer's string encoders round-trip through the lexer.
-/
import PyGqlModel.Lex
import PyGqlModel.PrintString
import PyGqlModel.Lemmas.LexChars
import PyGqlModel.Lemmas.LexBlockEscape
import PyGqlModel.Spec.BlockStringSpec

namespace PyGql.Props.C03
open PyGql.Lex PyGql.PrintString

private theorem hex_low (c : Nat) (h : c < 32) :
    hex4 48 48 (hexDigitLower (c / 16)) (hexDigitLower (c % 16)) = some c := by
  revert c; decide

private theorem quoted_simple :
    quoted 34 = some 34 ∧ quoted 92 = some 92 ∧ quoted 110 = some 10 ∧ quoted 114 = some 13 ∧
    quoted 116 = some 9 ∧ quoted 98 = some 8 ∧ quoted 102 = some 12 ∧ quoted 117 = none := by decide

/-- decoding the escaped body followed by the closing quote gives the value back -/
private theorem readStringBody_jsonEscape (n : Nat) (v rest : Text) :
    readStringBody n (jsonEscape v ++ 34 :: rest) = .ok (v, rest) := by
  obtain ⟨q1, q2, q3, q4, q5, q6, q7, q8⟩ := quoted_simple
  induction v with
  | nil => rw [readStringBody.eq_def]; simp [jsonEscape]
  | cons c t ih =>
    simp only [jsonEscape, jsonEscapeChar]
    split
    · rename_i h; subst h; rw [readStringBody.eq_def]; simp [q1, ih]
    split
    · rename_i h; subst h; rw [readStringBody.eq_def]; simp [q2, ih]
    split
    · rename_i h; subst h; rw [readStringBody.eq_def]; simp [q3, ih]
    split
    · rename_i h; subst h; rw [readStringBody.eq_def]; simp [q4, ih]
    split
    · rename_i h; subst h; rw [readStringBody.eq_def]; simp [q5, ih]
    split
    · rename_i h; subst h; rw [readStringBody.eq_def]; simp [q6, ih]
    split
    · rename_i h; subst h; rw [readStringBody.eq_def]; simp [q7, ih]
    split
    · rename_i h; rw [readStringBody.eq_def]; simp [q8, hex_low c h, ih]
    · rename_i h1 h2 h3 h4 h5 h6 h7 h8
      have hp : isPrintable c = true := by simp [isPrintable]; omega
      rw [readStringBody.eq_def]
      simp [h1, h2, h3, h4, hp, ih]

private theorem jsonEscape_no_quote_head (v : Text) (x : Nat) (t : Text) (h : jsonEscape v ++ [34] = 34 :: x :: t) : False := by
  cases v with
  | nil => simp [jsonEscape] at h
  | cons c r =>
    simp only [jsonEscape, jsonEscapeChar] at h
    repeat' split at h
    all_goals simp at h
    all_goals omega

/-- `quoted_roundtrip`: for EVERY list of code points (astral characters, lone surrogates, controls, quotes and
    backslashes included) the printed quoted form `json.dumps(value, ensure_ascii=False)` lexes to exactly one String
    token spanning the whole text whose decoded value is the original (defect R2 fixed). -/
theorem quoted_roundtrip (v : Text) :
    lexAll (jsonDumps v) =
      .ok [sofTok, ⟨.string, 0, (jsonDumps v).length, v⟩, eofTok (jsonDumps v).length] := by
  have hbody := fun n => readStringBody_jsonEscape n v []
  have hsym : symbolKind 34 = none := by decide
  have hnotq : tq.isPrefixOf (jsonDumps v) = false := by
    simp only [jsonDumps, tq]
    cases hv : jsonEscape v ++ [34] with
    | nil => simp
    | cons a r =>
      cases r with
      | nil => simp [List.isPrefixOf]
      | cons b r' =>
        by_cases ha : a = 34
        · subst ha; exact absurd hv (fun h => jsonEscape_no_quote_head v b r' h)
        · simp [List.isPrefixOf]; intro h; exact absurd h.symm ha
  unfold lexAll
  simp only [jsonDumps] at hnotq ⊢
  simp only [List.length_cons, lexLoop, next, readOverWhitespace]
  have hign : isIgnored 34 = false := by decide
  have hpr : isPrintable 34 = true := by decide
  simp [hign, hpr, hsym, hnotq, readString, hbody, Except.map, sofTok, eofTok, readOverWhitespace, posAt]

/-- non-vacuity: `a"😀\` + U+0001 + lone surrogate U+D800 -/
example : jsonDumps [97, 34, 0x1F600, 92, 1, 0xD800] = [34, 97, 92, 34, 0x1F600, 92, 92, 92, 117, 48, 48, 48, 49, 0xD800, 34] := by decide

/-- THE FULL STATEMENT `block_roundtrip`: for every value in the range of `BlockStringValue` (made of block-string
    characters), every indent string over {space, tab}, every enclosing depth `k` and both paths (value / description),
    the printed block string lexes to exactly one BlockString token whose value is the original. -/
def BlockRoundtripStatement : Prop :=
  ∀ (raw ind : Text) (k : Nat) (isDesc : Bool),
    let v := Spec.BlockStringValue raw
    (∀ c ∈ v, blockChar c = true) → (∀ c ∈ ind, c = 32 ∨ c = 9) →
    ∃ a b, lexAll (indentN ind k (blockString v ind isDesc)) =
      .ok [sofTok, ⟨.blockString, a, b, v⟩, eofTok (indentN ind k (blockString v ind isDesc)).length]

/-- `block_roundtrip_partial` — the ESCAPING half of `block_roundtrip`, for ALL values (not only canonical ones):
    the lexer's block-string scanner inverts the printer's `value.replace('"""', '\\"""')`. Whatever layout `w` the
    printer puts on the following line (indentation + closing quotes), scanning `escaped(v) LF w` returns `v` followed by
    what scanning `LF w` returns; in particular no `"`/`\` at the end of `v` can fuse with the closing quotes
    (defect R3 for the one-line form is this statement with the appended LF).
    MISSING for the full statement: the LAYOUT half — `BlockStringValue (LF (P·l₁) LF … LF (P·lₙ) LF Q) = v` for
    canonical `v` with lines `lᵢ` and blank prefixes `P`, `Q` (DESIGN lemma `indent_common_shift`:
    `commonIndent (map (P ++ ·) ls) = |P| + commonIndent ls`, `splitLines (joinLF ls) = ls`, `stripBlank`).
    That half is covered by the correspondence + direct oracle (depth 0–3, 7 indents, both paths) and the instances below. -/
theorem block_roundtrip_partial (n : Nat) (v w : Text) (hv : ∀ c ∈ v, blockChar c = true) :
    readBlockBody n 0 (escapeTripleQuotes v ++ 10 :: w) =
      (readBlockBody n 0 (10 :: w)).map (fun p => (v ++ p.1, p.2)) :=
  readBlockBody_escape n w v 0 (Nat.zero_le _) hv

/-- non-vacuity / instances of the full statement (value `  a"""\` + LF + `b"`, i.e. leading blanks, an embedded triple
    quote, trailing backslash and quote): depth 0 with a 2-space indent, depth 2 with a TAB indent, description path -/
example : ((lexAll (indentN [32, 32] 0 (blockString [32, 32, 97, 34, 34, 34, 92, 10, 98, 34] [32, 32] false))).toOption.map
    (fun ts => ts.map (fun t => (t.kind, t.value)))) =
    some [(.sof, sofTok.value), (.blockString, [32, 32, 97, 34, 34, 34, 92, 10, 98, 34]), (.eof, (eofTok 0).value)] := by decide
example : ((lexAll (indentN [9] 2 (blockString [32, 32, 97, 34, 34, 34, 92, 10, 98, 34] [9] false))).toOption.map
    (fun ts => ts.map (fun t => (t.kind, t.value)))) =
    some [(.sof, sofTok.value), (.blockString, [32, 32, 97, 34, 34, 34, 92, 10, 98, 34]), (.eof, (eofTok 0).value)] := by decide
example : ((lexAll (indentN [32] 1 (blockString [32, 97, 92] [32] true))).toOption.map
    (fun ts => ts.map (fun t => (t.kind, t.value)))) =
    some [(.sof, sofTok.value), (.blockString, [32, 97, 92]), (.eof, (eofTok 0).value)] := by decide
/-- the empty block string prints and round-trips (defect R1 fixed) -/
example : ((lexAll (blockString [] [32, 32] false)).toOption.map (fun ts => ts.map (fun t => (t.kind, t.value)))) =
    some [(.sof, sofTok.value), (.blockString, []), (.eof, (eofTok 0).value)] := by decide

end PyGql.Props.C03

/-
  C10 — property theorems, part 8: the STAGES COMPOSED FROM THE MODELS. `response_wellformed_partial` and
  `response_wellformed_unless_syntax_error` take the outcomes of the five stages as a `Stages` record with two
  assumptions about them, `StagesOk` (positions inside the text, strict data) and `StagesTyped` (exception classes).
  Here the record is BUILT from the models of the stages and the two assumptions are derived:

    parse      `Parse.parseTextE` (C01's lexer + parser on the submitted TEXT) and `GraphQLSyntaxError._render_position`
               → `StagesOk.parse` holds for every text, no hypothesis (`parse_stage_in_text`); the rendered position is the
               reported one except in the pinned L6 case (`parse_stage_position_exact`);
    execute    `Response.executeRequest` (the executor's error capture over an outcome tree, C04/C10)
               → `StagesOk.execErrors`, `StagesOk.execData` from `treeOkFields` (`executed_stage_ok`), and every error the
               executor registers is a `ResolverError` carrying its response path (`executed_errors_are_resolver_errors`);
    validate / coerce variables
               the outcomes are lists of `GraphQLLocatedError`s BY TYPE (`LocatedE`; `ValidationError` and
               `VariableCoercionError` are subclasses, compared by the correspondence as error kinds), so `StagesTyped`
               holds by construction (`stages_typed`); their positions are inside the text as soon as the nodes they
               carry START AT TOKENS of the submitted text (`AtTokens`, by C01's `lexAll_in_range`).

  What stays outside (`LaterOk`): (a) the nodes attached to validation / variable-coercion / root-collection errors are
  nodes of the parsed document, i.e. start at a token of the text (the validation model of C06 records WHICH RULE
  reported, not the nodes; the harness checks the token starts on the real errors of every request); (b) `treeOkFields`:
  field-node offsets inside the text, serialised leaves and resolver-supplied extensions strict JSON (user code and
  custom serialisers).
-/
import PyGqlModel.Props.C10_executed
import PyGqlModel.Props.C01_parse_errors

namespace PyGql.Props.C10
open PyGql PyGql.Response PyGql.Spec.Response PyGql.Spec.TreeOk PyGql.Generated.ResponseKeys PyGql.Lemmas.ExecCapture

/-! ### the parse stage from the C01 model -/

/-- `parse(document)` of `process_graphql_query` followed by what `_abort` keeps of the `GraphQLSyntaxError`:
    `str(err)` (opaque: `render`) and the position `to_dict` renders (`_render_position`, the clamp of fix L6) -/
def parseStage (fl : Parse.Flags) (render : Parse.TextErr → String) (text : Text) : Option (String × Nat) :=
  match Parse.parseTextE fl text with
  | .error e => some (render e, StringUtils.renderPosition text e.pos)
  | .ok _ => none

/-- `StagesOk.parse`, DISCHARGED: whatever the text, the position a syntax error is rendered at lies inside it -/
theorem parse_stage_in_text (fl : Parse.Flags) (render : Parse.TextErr → String) (text : Text) (m : String) (p : Nat)
    (h : parseStage fl render text = some (m, p)) : p ≤ text.length := by
  unfold parseStage at h
  split at h
  · simp only [Option.some.injEq, Prod.mk.injEq] at h
    rw [← h.2]
    exact Nat.min_le_right _ _
  · cases h

/-- … and it is the position the parser / lexer REPORTED, the only exception being the pinned L6 case (the lexer's
    `NonTerminatedString` one past the end of a text that stops inside an escape sequence), which is rendered at the end of
    the text. From C01's `parse_text_error_in_range_partial`. -/
theorem parse_stage_position_exact (fl : Parse.Flags) (render : Parse.TextErr → String) (text : Text) (e : Parse.TextErr)
    (h : Parse.parseTextE fl text = .error e) :
    parseStage fl render text = some (render e, e.pos) ∨
      (parseStage fl render text = some (render e, text.length) ∧
        ∃ le, e = .lex le ∧ le.pos = text.length + 1 ∧ le.kind = .nonTerminatedString) := by
  have hs : parseStage fl render text = some (render e, StringUtils.renderPosition text e.pos) := by
    simp [parseStage, h]
  rcases C01.parse_text_error_in_range_partial fl text e (Or.inl h) with hle | ⟨le, rfl, hp, hk⟩
  · left
    rw [hs, StringUtils.renderPosition, Nat.min_eq_left hle]
  · right
    refine ⟨?_, le, rfl, hp, hk⟩
    rw [hs, StringUtils.renderPosition]
    simp only [Parse.TextErr.pos, hp]
    rw [Nat.min_eq_right (Nat.le_succ _)]

/-- a text the parser accepts has no syntax-error stage -/
theorem parse_stage_none_iff (fl : Parse.Flags) (render : Parse.TextErr → String) (text : Text) :
    parseStage fl render text = none ↔ ∃ d, Parse.parseTextE fl text = .ok d := by
  unfold parseStage
  cases Parse.parseTextE fl text <;> simp

/-! ### the executed stage: which errors the executor registers -/

/-- an error that went through `add_error`: it carries its response path. The model's `.resolver` stands for `ResolverError`
    AND for the `CoercionError` of an argument that fails to coerce at execution time (`Out.raised` with `ext = none`; the
    two render alike) — the harness accepts both classes on the real errors. -/
def IsFieldError (e : Err) : Prop := ∃ m ns p x, e = .resolver m ns (some p) x

private theorem wrap_res {isNN : Bool} {nodes : List Nat} {p : Path} {r : Option (J × List Err)} {v : J} {es : List Err}
    (h : nonNullWrap isNN nodes p r = some (v, es)) (es0ok : ∀ es0, r = some (v, es0) → ∀ e ∈ es0, IsFieldError e) :
    ∀ e ∈ es, IsFieldError e := by
  obtain ⟨es0, hr, rfl⟩ := wrap_inv h
  intro e he
  rw [List.mem_append] at he
  rcases he with he | he
  · exact es0ok es0 hr e he
  · by_cases c : (isNN && v.isNull) = true
    · simp only [c, if_true, List.mem_singleton] at he
      subst he
      exact ⟨_, _, _, _, rfl⟩
    · simp [c] at he

mutual
private theorem inner_res (b : Bool) (t : Ty) (nodes : List Nat) (path : Path) :
    ∀ (o : Out) (v : J) (es : List Err), completeInner b t nodes path o = some (v, es) → ∀ e ∈ es, IsFieldError e
  | .null, v, es, h => by
    simp [completeInner] at h; obtain ⟨rfl, rfl⟩ := h; simp
  | .raised m ext, v, es, h => by
    cases b <;> simp [completeInner] at h
    obtain ⟨rfl, rfl⟩ := h
    intro e he
    simp only [List.mem_singleton] at he
    subst he
    exact ⟨_, _, _, _, rfl⟩
  | .leaf x, v, es, h => by
    cases t <;> simp [completeInner] at h
    obtain ⟨rfl, rfl⟩ := h
    simp
  | .list items, v, es, h => by
    cases t with
    | list it =>
      simp [completeInner] at h
      obtain ⟨vs, h1, rfl⟩ := h
      exact list_res it nodes path 0 items vs es h1
    | named n => simp [completeInner] at h
    | nonNull u => simp [completeInner] at h
  | .obj fields, v, es, h => by
    cases t with
    | named n =>
      simp [completeInner] at h
      obtain ⟨kvs, h1, rfl⟩ := h
      exact fields_res path fields kvs es h1
    | list it => simp [completeInner] at h
    | nonNull u => simp [completeInner] at h

private theorem list_res (it : Ty) (nodes : List Nat) (path : Path) :
    ∀ (i : Nat) (items : OutList) (vs : List J) (es : List Err), completeList it nodes path i items = some (vs, es) →
      ∀ e ∈ es, IsFieldError e
  | i, .nil, vs, es, h => by
    simp [completeList] at h; obtain ⟨rfl, rfl⟩ := h; simp
  | i, .cons o rest, vs, es, h => by
    rw [completeList] at h
    split at h
    · simp at h
    · rename_i v e1 hw
      split at h
      · simp at h
      · rename_i vs' e2 hr
        simp only [Option.some.injEq, Prod.mk.injEq] at h
        obtain ⟨rfl, rfl⟩ := h
        obtain ⟨es0, hi, _⟩ := wrap_inv hw
        have h1 := inner_res false (innerTy it) nodes _ o v es0 hi
        have h2 := list_res it nodes path (i + 1) rest vs' e2 hr
        have hw' := wrap_res hw (fun es0' hr' => by
          rw [hi] at hr'; cases hr'; exact h1)
        intro e he
        rw [List.mem_append] at he
        rcases he with he | he
        · exact hw' e he
        · exact h2 e he

private theorem fields_res (path : Path) :
    ∀ (fs : FldList) (kvs : List (String × J)) (es : List Err), executeFields path fs = some (kvs, es) →
      ∀ e ∈ es, IsFieldError e
  | .nil, kvs, es, h => by
    simp [executeFields] at h; obtain ⟨rfl, rfl⟩ := h; simp
  | .cons key ty nodes o rest, kvs, es, h => by
    rw [executeFields] at h
    split at h
    · simp at h
    · rename_i v e1 hw
      split at h
      · simp at h
      · rename_i kvs' e2 hr
        simp only [Option.some.injEq, Prod.mk.injEq] at h
        obtain ⟨rfl, rfl⟩ := h
        obtain ⟨es0, hi, _⟩ := wrap_inv hw
        have h1 := inner_res true (innerTy ty) nodes _ o v es0 hi
        have h2 := fields_res path rest kvs' e2 hr
        have hw' := wrap_res hw (fun es0' hr' => by
          rw [hi] at hr'; cases hr'; exact h1)
        intro e he
        rw [List.mem_append] at he
        rcases he with he | he
        · exact hw' e he
        · exact h2 e he
end

/-- **every error the executor registers is a `ResolverError` with its response path** (field errors, argument-coercion
    failures at execution time, nulls at non-null positions, at any depth, in lists): never a syntax error, never an
    error without a path. The executed part of `StagesTyped`, DISCHARGED from the executor model. -/
theorem executed_errors_are_resolver_errors (root : FldList) (data : J) (errs : List Err)
    (hx : execute root = some (data, errs)) : ∀ e ∈ errs, IsFieldError e := by
  unfold execute at hx
  simp at hx
  obtain ⟨kvs, h1, rfl⟩ := hx
  exact fields_res [] root kvs errs h1

/-- non-vacuity: a raising field and a null at a non-null position give two such errors -/
example : ∃ d e1 e2, execute (.cons "a" (.named "Int") [2] (.raised "boom" none) (.cons "b" (.nonNull (.named "Int")) [4] .null .nil))
    = some (d, [e1, e2]) := ⟨_, _, _, rfl⟩

/-! ### the stages after parsing -/

/-- a `GraphQLLocatedError` as the validation stage (`ValidationError`) and the variable-coercion stage
    (`VariableCoercionError`) produce them: message, nodes (`loc[0]` of those that have a location), path -/
structure LocatedE where
  msg : String
  nodes : List (Option Nat)
  path : Option Path := none

def LocatedE.toErr (e : LocatedE) : Err := .located e.msg e.nodes e.path

/-- outcomes of the stages after parsing, as their models give them -/
structure Later where
  /-- `validate_ast(...).errors` -/
  validate : List LocatedE
  /-- `InvalidOperationError` of `get_operation_with_type` -/
  getOp : Option String
  /-- `VariablesCoercionError.errors` -/
  coerce : List LocatedE
  /-- the root selection set could not be collected (run-time directive failure): message and directive nodes -/
  rootCollect : Option (String × List (Option Nat))
  /-- the outcome tree the executor completes -/
  root : FldList

/-- `process_graphql_query`'s stage record: the parse stage from the C01 model on the TEXT; when it fails nothing else
    runs; otherwise the later outcomes, the executed one COMPUTED by the executor model (`ex`) -/
def stagesOf (fl : Parse.Flags) (render : Parse.TextErr → String) (text : Text) (l : Later) (ex : J × List Err) : Stages :=
  match parseStage fl render text with
  | some mp => { parse := some mp, validate := [], getOp := none, coerce := [], exec := (.null, []) }
  | none => { parse := none, validate := l.validate.map LocatedE.toErr, getOp := l.getOp,
              coerce := l.coerce.map LocatedE.toErr, exec := ex }

/-- the nodes (those with a location) start at tokens of the lexed text -/
def AtTokens (toks : List Tok) (ns : List (Option Nat)) : Prop := ∀ n ∈ ns.filterMap id, ∃ t ∈ toks, t.start = n

/-- what is left to assume about the later stages (see the header) -/
structure LaterOk (text : Text) (l : Later) : Prop where
  nodes : ∀ toks, Lex.lexAll text = .ok toks →
    (∀ e ∈ l.validate ++ l.coerce, AtTokens toks e.nodes) ∧ (∀ m ns, l.rootCollect = some (m, ns) → AtTokens toks ns)
  tree : treeOkFields text.length l.root = true

private theorem atTokens_in_text (text : Text) (toks : List Tok) (hl : Lex.lexAll text = .ok toks) (ns : List (Option Nat))
    (h : AtTokens toks ns) : ∀ n ∈ ns.filterMap id, n ≤ text.length := by
  intro n hn
  obtain ⟨t, ht, rfl⟩ := h n hn
  exact (C01.lexAll_in_range text toks hl t ht).1

private theorem lexed_of_parsed (fl : Parse.Flags) (render : Parse.TextErr → String) (text : Text)
    (h : parseStage fl render text = none) : ∃ toks, Lex.lexAll text = .ok toks := by
  obtain ⟨d, hd⟩ := (parse_stage_none_iff fl render text).mp h
  unfold Parse.parseTextE Parse.withLexer at hd
  cases hl : Lex.lexAll text with
  | ok toks => exact ⟨toks, rfl⟩
  | error e => simp [hl] at hd

/-- **`StagesOk` from the models.** For the stage record composed from the models, `StagesOk` needs only `LaterOk`. -/
theorem stages_ok (fl : Parse.Flags) (render : Parse.TextErr → String) (text : Text) (l : Later) (ex : J × List Err)
    (hx : executeRequest l.rootCollect l.root = some ex) (h : LaterOk text l) :
    StagesOk text (stagesOf fl render text l ex) := by
  unfold stagesOf
  cases hp : parseStage fl render text with
  | some mp =>
    refine ⟨?_, by simp, by simp, by simp, by simp [strict]⟩
    intro m p hmp
    simp only [Option.some.injEq] at hmp
    subst hmp
    exact parse_stage_in_text fl render text m p hp
  | none =>
    obtain ⟨toks, hl⟩ := lexed_of_parsed fl render text hp
    obtain ⟨hn, hr⟩ := h.nodes toks hl
    have hloc : ∀ e ∈ l.validate ++ l.coerce, ErrOk text e.toErr := fun e he =>
      atTokens_in_text text toks hl e.nodes (hn e he)
    refine ⟨by simp, ?_, ?_, ?_, ?_⟩
    · intro e he
      simp only [List.mem_map] at he
      obtain ⟨e0, h0, rfl⟩ := he
      exact hloc e0 (by simp [h0])
    · intro e he
      simp only [List.mem_map] at he
      obtain ⟨e0, h0, rfl⟩ := he
      exact hloc e0 (by simp [h0])
    · cases hc : l.rootCollect with
      | some mn =>
        simp only [executeRequest, hc, Option.some.injEq] at hx
        subst hx
        intro e he
        simp only [List.mem_singleton] at he
        subst he
        exact ⟨atTokens_in_text text toks hl mn.2 (hr mn.1 mn.2 (by simp [hc])), by simp⟩
      | none =>
        simp only [executeRequest, hc] at hx
        exact (executed_stage_ok text l.root ex.1 ex.2 hx h.tree).1
    · cases hc : l.rootCollect with
      | some mn =>
        simp only [executeRequest, hc, Option.some.injEq] at hx
        subst hx
        simp [strict]
      | none =>
        simp only [executeRequest, hc] at hx
        exact (executed_stage_ok text l.root ex.1 ex.2 hx h.tree).2

/-- **`StagesTyped` from the models**, no hypothesis: validation and variable-coercion errors are located errors by type, the
    executor registers resolver errors only, a root-collection failure is a resolver error. -/
theorem stages_typed (fl : Parse.Flags) (render : Parse.TextErr → String) (text : Text) (l : Later) (ex : J × List Err)
    (hx : executeRequest l.rootCollect l.root = some ex) : StagesTyped (stagesOf fl render text l ex) := by
  unfold stagesOf StagesTyped
  cases hp : parseStage fl render text with
  | some mp => simp
  | none =>
    intro e he
    simp only [List.mem_append, List.mem_map] at he
    rcases he with (⟨e0, _, rfl⟩ | ⟨e0, _, rfl⟩) | he
    · rfl
    · rfl
    · cases hc : l.rootCollect with
      | some mn =>
        simp only [executeRequest, hc, Option.some.injEq] at hx
        subst hx
        simp only [List.mem_singleton] at he
        subst he
        rfl
      | none =>
        simp only [executeRequest, hc] at hx
        obtain ⟨m, ns, p, x, rfl⟩ := executed_errors_are_resolver_errors l.root ex.1 ex.2 hx e he
        rfl

/-- **response_wellformed_pipeline.** The response to ANY request text, with the parse stage run by the C01 model on the
    text and the execution run by the executor model, is defined, well-formed up to the extracted key of syntax-error
    locations and strict JSON; when the text parses it satisfies section 7.1 AS WRITTEN. The only assumptions left are
    `LaterOk` (error nodes at tokens of the text; admissible outcome tree) and that the executor model completes the tree
    (`hx`: no programming error propagates, by design). -/
theorem response_wellformed_pipeline (fl : Parse.Flags) (render : Parse.TextErr → String) (text : Text) (l : Later)
    (ex : J × List Err) (hx : executeRequest l.rootCollect l.root = some ex) (h : LaterOk text l) :
    ∃ j, (processQuery (stagesOf fl render text l ex)).response text = some j ∧ WellFormedK syntaxColKey text j ∧
      ((∃ d, Parse.parseTextE fl text = .ok d) → WellFormed text j) := by
  have hok := stages_ok fl render text l ex hx h
  obtain ⟨j, hj, hw⟩ := response_wellformed_partial text _ hok
  refine ⟨j, hj, hw, ?_⟩
  intro hd
  have hp : parseStage fl render text = none := (parse_stage_none_iff fl render text).mpr hd
  have hpn : (stagesOf fl render text l ex).parse = none := by simp [stagesOf, hp]
  obtain ⟨j', hj', hw'⟩ := response_wellformed_unless_syntax_error text _ hok (stages_typed fl render text l ex hx) hpn
  rw [hj] at hj'
  cases hj'
  exact hw'

/-- non-vacuity: `{ a }` parses; a validation error at the token `a` (offset 2) and an executed tree are admissible -/
example : LaterOk [123, 32, 97, 32, 125]
    { validate := [{ msg := "Cannot query field", nodes := [some 2] }], getOp := none, coerce := [], rootCollect := none,
      root := .cons "a" (.named "Int") [2] (.raised "boom" (some [("code", .num 1)])) .nil } := by
  refine ⟨?_, by decide⟩
  intro toks hl
  have : Lex.lexAll [123, 32, 97, 32, 125] = .ok toks := hl
  refine ⟨?_, by simp⟩
  intro e he
  simp only [List.append_nil, List.mem_singleton] at he
  subst he
  intro n hn
  simp at hn
  subst hn
  have hd : (match Lex.lexAll [123, 32, 97, 32, 125] with
    | .ok ts => ts.any (fun t => t.start == 2) | .error _ => false) = true := by decide
  rw [this] at hd
  simp only [List.any_eq_true, beq_iff_eq] at hd
  exact hd

/-- … and the parse stage of the truncated `{ a` is a syntax error rendered inside the text -/
example : ∃ m p, parseStage {} (fun _ => "Unexpected <EOF>") [123, 32, 97] = some (m, p) ∧ p ≤ 3 := by
  refine ⟨_, _, rfl, ?_⟩
  decide

end PyGql.Props.C10

/-
  C04 — reachability through fragments, and what single runs of the two collectors guarantee about it:
  * `Reach obj sels n`     node `n` is collected from `sels` for object type `obj` when NOTHING is pruned;
  * `NameReach obj sels N` fragment name `N` is met (not skipped by a directive) in that unpruned expansion;
  * model soundness   (`mseq_sound`): everything the model collects is reachable, every name it marks seen is met;
  * spec completeness (`sseq_facts`): after a specification run every reachable node has appeared and every name
    met is visited — given the CLOSURE invariant (every visited fragment that is not still being expanded has all
    its reachable nodes already appeared and all its names visited); ranks exclude the fragments in progress.
-/
import PyGqlModel.Props.C04_seq
import PyGqlModel.Props.C04_total

set_option linter.unusedSimpArgs false
set_option linter.unusedVariables false

namespace PyGql.Props.C04
open PyGql PyGql.Exec PyGql.Spec

section
variable (s : SchemaD) (doc : Doc) (vars : Vars)

inductive Reach (obj : String) : List Sel → FNode → Prop
  | field {sels key name loc dirs args hs sub} : Sel.field key name loc dirs args hs sub ∈ sels →
      skipSelection vars dirs = .ok false → Reach obj sels (mkNode key name loc args hs sub)
  | inline {sels on dirs sub n} : Sel.inline on dirs sub ∈ sels → skipSelection vars dirs = .ok false →
      fragmentTypeApplies s obj on = .ok true → Reach obj sub n → Reach obj sels n
  | spread {sels name dirs fr n} : Sel.spread name dirs ∈ sels → skipSelection vars dirs = .ok false →
      doc.fragment? name = some fr → fragmentTypeApplies s obj (some fr.on) = .ok true → Reach obj fr.sels n → Reach obj sels n

inductive NameReach (obj : String) : List Sel → String → Prop
  | here {sels name dirs} : Sel.spread name dirs ∈ sels → skipSelection vars dirs = .ok false → NameReach obj sels name
  | inline {sels on dirs sub N} : Sel.inline on dirs sub ∈ sels → skipSelection vars dirs = .ok false →
      fragmentTypeApplies s obj on = .ok true → NameReach obj sub N → NameReach obj sels N
  | spread {sels name dirs fr N} : Sel.spread name dirs ∈ sels → skipSelection vars dirs = .ok false →
      doc.fragment? name = some fr → fragmentTypeApplies s obj (some fr.on) = .ok true → NameReach obj fr.sels N → NameReach obj sels N

variable {s doc vars}

theorem Reach.mono {obj : String} {a b : List Sel} {n : FNode} (h : Reach s doc vars obj a n) (hab : ∀ x ∈ a, x ∈ b) :
    Reach s doc vars obj b n := by
  cases h with
  | field hm hs => exact .field (hab _ hm) hs
  | inline hm hs ha hr => exact .inline (hab _ hm) hs ha hr
  | spread hm hs hf ha hr => exact .spread (hab _ hm) hs hf ha hr

theorem NameReach.mono {obj : String} {a b : List Sel} {N : String} (h : NameReach s doc vars obj a N) (hab : ∀ x ∈ a, x ∈ b) :
    NameReach s doc vars obj b N := by
  cases h with
  | here hm hs => exact .here (hab _ hm) hs
  | inline hm hs ha hr => exact .inline (hab _ hm) hs ha hr
  | spread hm hs hf ha hr => exact .spread (hab _ hm) hs hf ha hr

theorem Reach.cons_split {obj : String} {x : Sel} {xs : List Sel} {n : FNode} (h : Reach s doc vars obj (x :: xs) n) :
    Reach s doc vars obj [x] n ∨ Reach s doc vars obj xs n := by
  cases h with
  | field hm hs =>
    simp at hm; rcases hm with rfl | hm
    · exact Or.inl (.field (by simp) hs)
    · exact Or.inr (.field hm hs)
  | inline hm hs ha hr =>
    simp at hm; rcases hm with rfl | hm
    · exact Or.inl (.inline (by simp) hs ha hr)
    · exact Or.inr (.inline hm hs ha hr)
  | spread hm hs hf ha hr =>
    simp at hm; rcases hm with rfl | hm
    · exact Or.inl (.spread (by simp) hs hf ha hr)
    · exact Or.inr (.spread hm hs hf ha hr)

theorem NameReach.cons_split {obj : String} {x : Sel} {xs : List Sel} {N : String} (h : NameReach s doc vars obj (x :: xs) N) :
    NameReach s doc vars obj [x] N ∨ NameReach s doc vars obj xs N := by
  cases h with
  | here hm hs =>
    simp at hm; rcases hm with rfl | hm
    · exact Or.inl (.here (by simp) hs)
    · exact Or.inr (.here hm hs)
  | inline hm hs ha hr =>
    simp at hm; rcases hm with rfl | hm
    · exact Or.inl (.inline (by simp) hs ha hr)
    · exact Or.inr (.inline hm hs ha hr)
  | spread hm hs hf ha hr =>
    simp at hm; rcases hm with rfl | hm
    · exact Or.inl (.spread (by simp) hs hf ha hr)
    · exact Or.inr (.spread hm hs hf ha hr)

variable (s doc vars)

/-- model soundness of a sequence collector -/
def ModelSound (f : String → List Sel → List String → SeqRes) : Prop :=
  ∀ obj sels seen q seen', f obj sels seen = .ok (q, seen') →
    (∀ n ∈ q, Reach s doc vars obj sels n) ∧ (∀ N ∈ seen', N ∈ seen ∨ NameReach s doc vars obj sels N)

private theorem mseqStep_sound (rec : String → List Sel → List String → SeqRes) (hrec : ModelSound s doc vars rec) (obj : String) :
    ∀ (sels : List Sel) (seen : List String) (q : List FNode) (seen' : List String),
      mseqStep s doc vars rec obj sels seen = .ok (q, seen') →
      (∀ n ∈ q, Reach s doc vars obj sels n) ∧ (∀ N ∈ seen', N ∈ seen ∨ NameReach s doc vars obj sels N) := by
  intro sels
  induction sels with
  | nil => intro seen q seen' h; simp [mseqStep] at h; obtain ⟨rfl, rfl⟩ := h; exact ⟨by simp, fun N hN => Or.inl hN⟩
  | cons sel rest ih =>
    intro seen q seen' h
    have lift : ∀ seenX q2 s2, mseqStep s doc vars rec obj rest seenX = .ok (q2, s2) →
        (∀ n ∈ q2, Reach s doc vars obj (sel :: rest) n) ∧ (∀ N ∈ s2, N ∈ seenX ∨ NameReach s doc vars obj (sel :: rest) N) := by
      intro seenX q2 s2 hh
      obtain ⟨h1, h2⟩ := ih seenX q2 s2 hh
      exact ⟨fun n hn => (h1 n hn).mono (by intro x hx; simp [hx]),
             fun N hN => (h2 N hN).imp id (fun hr => hr.mono (by intro x hx; simp [hx]))⟩
    cases sel with
    | field key name loc dirs args hs sub =>
      simp only [mseqStep, bind, Except.bind, pure, Except.pure] at h
      cases hsk : skipSelection vars dirs with
      | error e => simp [hsk] at h
      | ok b =>
        simp only [hsk] at h
        cases b with
        | true => simp at h; exact lift _ _ _ h
        | false =>
          simp only [Bool.false_eq_true, if_false] at h
          cases hr : mseqStep s doc vars rec obj rest seen with
          | error e => simp [hr] at h
          | ok p =>
            simp [hr] at h
            obtain ⟨rfl, rfl⟩ := h
            obtain ⟨h1, h2⟩ := lift _ _ _ hr
            refine ⟨?_, h2⟩
            intro n hn
            simp at hn
            rcases hn with rfl | hn
            · exact .field (by simp) hsk
            · exact h1 n hn
    | inline on dirs sub =>
      simp only [mseqStep, bind, Except.bind, pure, Except.pure] at h
      cases hsk : skipSelection vars dirs with
      | error e => simp [hsk] at h
      | ok b =>
        simp only [hsk] at h
        cases b with
        | true => simp at h; exact lift _ _ _ h
        | false =>
          simp only [Bool.false_eq_true, if_false] at h
          cases hap : fragmentTypeApplies s obj on with
          | error e => simp [hap] at h
          | ok a =>
            simp only [hap] at h
            cases a with
            | false => simp at h; exact lift _ _ _ h
            | true =>
              simp only [Bool.not_true, Bool.false_eq_true, if_false] at h
              cases hr1 : rec obj sub seen with
              | error e => simp [hr1] at h
              | ok p1 =>
                obtain ⟨q1, seen1⟩ := p1
                simp only [hr1, List.isEmpty_iff] at h
                obtain ⟨hn1, hs1⟩ := hrec obj sub seen q1 seen1 hr1
                cases hr2 : mseqStep s doc vars rec obj rest (if seen = [] then seen else seen1) with
                | error e => simp [hr2] at h
                | ok p2 =>
                  simp [hr2] at h
                  obtain ⟨rfl, rfl⟩ := h
                  obtain ⟨h1, h2⟩ := lift _ _ _ hr2
                  refine ⟨?_, ?_⟩
                  · intro n hn
                    simp at hn
                    rcases hn with hn | hn
                    · exact .inline (by simp) hsk hap (hn1 n hn)
                    · exact h1 n hn
                  · intro N hN
                    rcases h2 N hN with hx | hx
                    · by_cases he : seen = []
                      · simp [he] at hx
                      · simp [he] at hx
                        rcases hs1 N hx with h3 | h3
                        · exact Or.inl h3
                        · exact Or.inr (.inline (by simp) hsk hap h3)
                    · exact Or.inr hx
    | spread name dirs =>
      simp only [mseqStep, bind, Except.bind, pure, Except.pure] at h
      cases hfr : doc.fragment? name with
      | none => simp [hfr] at h
      | some fr =>
        simp only [hfr] at h
        cases hsk : skipSelection vars dirs with
        | error e => simp [hsk] at h
        | ok b =>
          simp only [hsk] at h
          cases b with
          | true => simp at h; exact lift _ _ _ h
          | false =>
            simp only [Bool.false_eq_true, if_false] at h
            by_cases hseen : seen.contains name
            · simp only [hseen, if_true] at h; simp at h; exact lift _ _ _ h
            · simp only [hseen, Bool.false_eq_true, if_false] at h
              cases hap : fragmentTypeApplies s obj (some fr.on) with
              | error e => simp [hap] at h
              | ok a =>
                simp only [hap] at h
                cases a with
                | false => simp at h; exact lift _ _ _ h
                | true =>
                  simp only [Bool.not_true, Bool.false_eq_true, if_false] at h
                  cases hr1 : rec obj fr.sels seen with
                  | error e => simp [hr1] at h
                  | ok p1 =>
                    obtain ⟨q1, seen1⟩ := p1
                    simp only [hr1, List.isEmpty_iff] at h
                    obtain ⟨hn1, hs1⟩ := hrec obj fr.sels seen q1 seen1 hr1
                    generalize hs3 : (if (if seen = [] then seen else seen1).contains name = true
                        then (if seen = [] then seen else seen1)
                        else (if seen = [] then seen else seen1) ++ [name]) = seen3 at h
                    have hseen3 : ∀ N ∈ seen3, N ∈ seen ∨ NameReach s doc vars obj (Sel.spread name dirs :: rest) N := by
                      intro N hN
                      have hN2 : N ∈ (if seen = [] then seen else seen1) ∨ N = name := by
                        rw [← hs3] at hN
                        by_cases hc : (if seen = [] then seen else seen1).contains name = true
                        · rw [if_pos hc] at hN; exact Or.inl hN
                        · rw [if_neg hc] at hN; simpa using hN
                      rcases hN2 with hN2 | rfl
                      · by_cases he : seen = []
                        · simp [he] at hN2
                        · simp [he] at hN2
                          rcases hs1 N hN2 with h3 | h3
                          · exact Or.inl h3
                          · exact Or.inr (.spread (by simp) hsk hfr hap h3)
                      · exact Or.inr (.here (by simp) hsk)
                    cases hr2 : mseqStep s doc vars rec obj rest seen3 with
                    | error e => simp [hr2] at h
                    | ok p2 =>
                      simp [hr2] at h
                      obtain ⟨rfl, rfl⟩ := h
                      obtain ⟨h1, h2⟩ := lift _ _ _ hr2
                      refine ⟨?_, ?_⟩
                      · intro n hn
                        simp at hn
                        rcases hn with hn | hn
                        · exact .spread (by simp) hsk hfr hap (hn1 n hn)
                        · exact h1 n hn
                      · intro N hN
                        rcases h2 N hN with hx | hx
                        · exact hseen3 N hx
                        · exact Or.inr hx

/-- **model soundness**: every collected node is reachable; every name marked seen was seen before or is met -/
theorem mseq_sound (n : Nat) : ModelSound s doc vars (mseq s doc vars n) := by
  induction n with
  | zero => intro obj sels seen q seen' h; simp [mseq] at h
  | succ n ih =>
    intro obj sels seen q seen' h
    simp only [mseq] at h
    exact mseqStep_sound s doc vars _ ih obj sels seen q seen' h

end
end PyGql.Props.C04

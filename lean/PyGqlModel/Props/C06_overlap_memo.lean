/-
  C06 / C05 - property theorems, part 20: THE MEMOISED OVERLAP SEARCH TERMINATES ON EVERY DOCUMENT
  (hunt2 C05/1; proposed_fixes/C05-overlap-fields-fragment-memo.patch).

  The finding: `{ ...F } fragment F on Query { q { q { ...F } ...F } }` made `_conflicts_between_fields_and_fragment`
  compare the same (field map, fragment) pair forever - `_conflicts_between_subselections` starts every comparison
  with a fresh `compared_fragments` set. WHY THE MODEL DID NOT SURFACE IT: it did predict the `RecursionError`
  (`hunt_doc_crashes_unmemoised` below: the fuelled model of the code as it was exhausts its fuel on this document),
  but (a) inputs on which the model says "crash" are counted, not compared, by the correspondence; (b) every theorem
  about the rule (`noCrash_of_ranks`, `verdict_iff_all`) assumes `rankOkB`, which needs ACYCLIC spreads
  (`hunt_doc_not_ranked`); (c) the generators only built cycles of bare spreads, never through a field's
  sub-selection. So the cyclic case was excluded by hypothesis and never asked.

  Now: `Validate/OverlapMemo.lean` models the search WITH the memo of the patch; `overlap_memo_terminates`: on every
  document with well-formed identities (`WfIds`; the syntactic ranks `rankSynB` the proof uses - nesting of selection sets
  only, NO condition on fragment spreads - exist for every such document: `rankSynB_of_wfIds`; general form `*_ranked`), a recursion budget of
      fuelBound d R = (#sets·#fragments·2 + #fragments²·2) · (2R+7) + 2R+7      (R = maximal rank)
  frames suffices for `find_conflicts_within_selection_set` at EVERY selection set, in every context reached: the
  exception flag stays unset. Measure: triples not yet in the two memos (`mu`), times `2R+7`, plus the syntactic nesting
  left (`Lemmas/ValidateOverlapMemo{,2}.lean`).
  The driver (`Validate/ChainMemo.lean: runMemo`) runs the chain of the theorems (un-memoised search) AND the memoised
  rule `overlapMemoRun`; where the former exhausts its fuel the model's verdict comes from the latter, so cyclic documents
  are COMPARED with the real validator, no longer skipped. About `overlapMemoRun`: `overlap_memo_run_no_crash` (never
  crashes), `overlap_memo_no_false_alarm` (clause ⇒ silent, on every document, no side condition),
  `overlap_memo_neutral_partial` (un-memoised silent ⇒ memoised silent, under `OverlapHyps`).
  "The memo never LOSES a report" is PROVED in `Props/C06_overlap_memo_complete.lean` (`overlap_memo_complete`,
  `overlap_memo_never_loses`: under `ParentsAgree`, no fragment named "", `WfIds` - cyclic fragment graphs included);
  `OverlapMemoNeutralStatement` as a whole under the side conditions of the un-memoised theorem
  (`overlap_memo_neutral_side`); what stays open is "un-memoised silent ⇒ memoised silent" outside them, and the
  correspondence cross-checks it on every generated document (`memo:crosscheck`, evidence key `outside_model`).
-/
import PyGqlModel.Lemmas.ValidateOverlapMemo2
import PyGqlModel.Lemmas.ValidateOverlapMemoSound
import PyGqlModel.Lemmas.ValidateOverlapWalk2
import PyGqlModel.Lemmas.ValidateOverlapFuel4
import PyGqlModel.Props.C06_overlap_hyps3
import PyGqlModel.Lemmas.ValidateOverlapSynRank
namespace PyGql.Props.C06
open PyGql PyGql.Validate PyGql.Validate.Spec

theorem rankSyn_of_check (s : SchemaD) (d : Doc) (ρ : Nat → Nat) (R : Nat) (h : rankSynB s d ρ R = true) :
    RankSyn s d ρ R := by
  have key : ∀ i sels, SelSet d i sels → 2 ≤ ρ i ∧ ρ i ≤ R ∧
      (∀ q ∈ (collectSels s none sels ([], [])).1, ∀ e ∈ q.2, entryRank ρ e + 2 ≤ ρ i) := by
    intro i sels hs
    have := List.all_eq_true.mp h _ hs
    simp only [nodeRankSyn, Bool.and_eq_true, decide_eq_true_eq, List.all_eq_true] at this
    exact ⟨this.1.1, this.1.2, this.2⟩
  refine ⟨fun i sels hs => (key i sels hs).1, fun i sels hs => (key i sels hs).2.1, ?_⟩
  intro i sels p rn e hs hc
  obtain ⟨e', h1, h2, h3⟩ := collD_reparent hc none
  have hm := collectSels_complete s none sels ([], []) rn e' (Or.inr h1)
  have hr : entryRank ρ e = entryRank ρ e' := by simp only [entryRank, h2, h3]
  rw [hr]
  rcases AL.getD_cases (collectSels s none sels ([], [])).1 rn [] with h0 | h0
  · rw [h0] at hm; cases hm
  · exact (key i sels hs).2.2 _ h0 e' hm

/-- the memoised search run at every selection set of the document, one after the other on the same context (as the
    rule does), with a recursion budget of `fuel` frames: the exception flag at the end -/
def overlapMemoCrash (s : SchemaD) (fx : Fixes) (fuel : Nat) (d : Doc) : Option String :=
  ((nodes d).foldl (fun c n =>
    match n with
    | .selectionSet i sels => (withinSelectionSetM s fx fuel none i sels c).2
    | _ => c) ({ frags := fragTable d } : OCtx)).crash

/-- the general form of `overlap_memo_terminates`: ANY syntactic ranking `ρ` with bound `R` (checked: `rankSynB`) gives the
    fuel bound `fuelBound d R` -/
theorem overlap_memo_terminates_ranked (s : SchemaD) (fx : Fixes) (h7 : fx.v7 = true) (d : Doc) (ρ : Nat → Nat) (R : Nat)
    (hρ : rankSynB s d ρ R = true) (fuel : Nat) (hfuel : fuelBound d R ≤ fuel) :
    overlapMemoCrash s fx fuel d = none := by
  have hR := rankSyn_of_check s d ρ R hρ
  unfold overlapMemoCrash
  have key : ∀ (l : List Node), (∀ n ∈ l, n ∈ nodes d) → ∀ c : OCtx, Good ({ frags := fragTable d } : OCtx) c →
      Good ({ frags := fragTable d } : OCtx) (l.foldl (fun c n =>
        match n with
        | .selectionSet i sels => (withinSelectionSetM s fx fuel none i sels c).2
        | _ => c) c) := by
    intro l
    induction l with
    | nil => intro _ c hc; exact hc
    | cons n ns ih =>
      intro hsub c hc
      rw [List.foldl_cons]
      apply ih (fun m hm => hsub m (List.mem_cons_of_mem _ hm))
      cases n with
      | selectionSet i sels =>
        exact hc.trans (withinM_terminates s fx d ρ R hR h7 fuel hfuel none i sels c hc.1
          (hsub _ (List.mem_cons_self ..)))
      | _ => exact hc
  exact (key (nodes d) (fun _ h => h) _ (Good.refl _)).2.2.2

/-- **the memoised overlap search terminates on every document**: no `RecursionError` (nor any other exception) with a
    budget of `fuelBound d R` frames, `R` the maximal syntactic rank - cyclic fragment graphs included. The only
    hypothesis is `WfIds d` (selection-set identities pairwise distinct: every parsed document); the syntactic ranks
    the proof needs exist for every such document (`rankSynB_of_wfIds`). -/
theorem overlap_memo_terminates (s : SchemaD) (fx : Fixes) (h7 : fx.v7 = true) (d : Doc) (hw : WfIds d) (fuel : Nat)
    (hfuel : fuelBound d (maxRank (synRanks d)) ≤ fuel) : overlapMemoCrash s fx fuel d = none :=
  overlap_memo_terminates_ranked s fx h7 d _ _ (rankSynB_of_wfIds s d hw) fuel hfuel

/-- general form of `within_memo_terminates` (any checked syntactic ranking) -/
theorem within_memo_terminates_ranked (s : SchemaD) (fx : Fixes) (h7 : fx.v7 = true) (d : Doc) (ρ : Nat → Nat) (R : Nat)
    (hρ : rankSynB s d ρ R = true) (fuel : Nat) (hfuel : fuelBound d R ≤ fuel) (p : Option String) (i : Nat)
    (sels : List Sel) (c : OCtx) (hc : c.frags = fragTable d) (h1 : SelSet d i sels) :
    (withinSelectionSetM s fx fuel p i sels c).2.crash = c.crash :=
  (withinM_terminates s fx d ρ R (rankSyn_of_check s d ρ R hρ) h7 fuel hfuel p i sels c hc h1).2.2.2

/-- in every context reached, at every selection set, under any parent type (`WfIds d` only) -/
theorem within_memo_terminates (s : SchemaD) (fx : Fixes) (h7 : fx.v7 = true) (d : Doc) (hw : WfIds d) (fuel : Nat)
    (hfuel : fuelBound d (maxRank (synRanks d)) ≤ fuel) (p : Option String) (i : Nat)
    (sels : List Sel) (c : OCtx) (hc : c.frags = fragTable d) (h1 : SelSet d i sels) :
    (withinSelectionSetM s fx fuel p i sels c).2.crash = c.crash :=
  within_memo_terminates_ranked s fx h7 d _ _ (rankSynB_of_wfIds s d hw) fuel hfuel p i sels c hc h1

/-! ### the memoised RULE as the driver runs it (`Validate/ChainMemo.lean: overlapMemoRun`, `runMemo`) -/

private theorem memoRun_fold (s : SchemaD) (fx : Fixes) (d : Doc) (fuel : Nat) (P : Nat × OCtx → Prop)
    (hstep : ∀ i sels v acc, (Node.selectionSet i sels, v) ∈ typedNodes s d → P acc →
      P (acc.1 + (withinSelectionSetM s fx fuel v.parent i sels acc.2).1, (withinSelectionSetM s fx fuel v.parent i sels acc.2).2)) :
    ∀ (l : List (Node × View)), (∀ q ∈ l, q ∈ typedNodes s d) → ∀ acc, P acc →
      P (l.foldl (fun (acc : Nat × OCtx) p =>
        match p.1 with
        | .selectionSet i sels =>
          if acc.2.crash.isSome then acc else
          let r := withinSelectionSetM s fx fuel p.2.parent i sels acc.2
          (acc.1 + r.1, r.2)
        | _ => acc) acc) := by
  intro l
  induction l with
  | nil => intro _ acc h; exact h
  | cons q qs ih =>
    intro hsub acc h
    rw [List.foldl_cons]
    apply ih (fun m hm => hsub m (List.mem_cons_of_mem _ hm))
    obtain ⟨n, v⟩ := q
    cases n with
    | selectionSet i sels =>
      simp only
      split
      · exact h
      · exact hstep i sels v acc (hsub _ (List.mem_cons_self ..)) h
    | _ => exact h

/-- `overlap_memo_run_no_crash` with the computable check of the syntactic ranks as its hypothesis (the driver reports the
    check as `syn_rank`) -/
theorem overlap_memo_run_no_crash_ranked (s : SchemaD) (fx : Fixes) (h7 : fx.v7 = true) (d : Doc)
    (hρ : rankSynB s d (rankOf (synRanks d)) (maxRank (synRanks d)) = true) :
    (overlapMemoRun s fx d).2.crash = none := by
  have hR := rankSyn_of_check s d _ _ hρ
  unfold overlapMemoRun
  have := memoRun_fold s fx d (memoFuel d) (fun acc => Good ({ frags := fragTable d } : OCtx) acc.2)
    (fun i sels v acc hm hacc =>
      hacc.trans (withinM_terminates s fx d _ _ hR h7 (memoFuel d) (Nat.le_refl _) v.parent i sels acc.2 hacc.1
        (selSet_of_typed hm)))
    (typedNodes s d) (fun _ h => h) (0, ({ frags := fragTable d } : OCtx)) (Good.refl _)
  exact this.2.2.2

/-- **the memoised rule never crashes**, on any document with well-formed identities (every parsed document), cyclic
    fragment graphs and any nesting depth included -/
theorem overlap_memo_run_no_crash (s : SchemaD) (fx : Fixes) (h7 : fx.v7 = true) (d : Doc) (hw : WfIds d) :
    (overlapMemoRun s fx d).2.crash = none :=
  overlap_memo_run_no_crash_ranked s fx h7 d (rankSynB_of_wfIds s d hw)

/-- **no false alarm, memoised, on EVERY document** (no side condition at all): where the clause of 5.3.2 holds the
    memoised rule reports nothing -/
theorem overlap_memo_no_false_alarm (s : SchemaD) (fx : Fixes) (h7 : fx.v7 = true) (d : Doc)
    (H : Spec.overlappingFieldsCanBeMerged s d) : (overlapMemoRun s fx d).1 = 0 := by
  unfold overlapMemoRun
  have := memoRun_fold s fx d (memoFuel d) (fun acc => CI s d acc.2 ∧ acc.1 = 0)
    (fun i sels v acc hm hacc => by
      have hs := selSet_of_typed hm
      have hadm : Adm s d i v.parent := Adm.walk hm
      obtain ⟨w1, w2⟩ := withinM_sound s fx d h7 (memoFuel d) v.parent i sels acc.2 hacc.1 hs hadm
      refine ⟨w1, ?_⟩
      by_cases h0 : 0 < (withinSelectionSetM s fx (memoFuel d) v.parent i sels acc.2).1
      · obtain ⟨p', rn, e1, e2, z1, z2, z3, z4⟩ := w2 h0
        exact absurd z4 (H i sels hs p' z1 rn e1 e2 z2 z3)
      · have := hacc.2
        simp only
        omega)
    (typedNodes s d) (fun _ h => h) (0, ({ frags := fragTable d } : OCtx)) ⟨⟨rfl, fun _ h => nomatch h⟩, rfl⟩
  exact this.2

/-- verdict-neutrality of the memo: the memoised rule and the un-memoised rule (the one of the theorems) give the
    same verdict. OPEN in this generality (only `NoCrash`); proved with `ParentsAgree`, `OverlapSide`, `WfIds` added:
    `overlap_memo_neutral_side` (`Props/C06_overlap_memo_complete.lean`); the per-run cross-check `memo:crosscheck` of the
    correspondence covers the rest -/
def OverlapMemoNeutralStatement : Prop :=
  ∀ (s : SchemaD) (fx : Fixes) (d : Doc), fx.v7 = true → NoCrash s fx d →
    ((overlapMemoRun s fx d).1 = 0 ↔ Silent s fx .overlappingFieldsCanBeMerged d)

/-- **verdict-neutrality, the half "the memo never ADDS a report"**: under the side conditions of the rule's
    equivalence (`OverlapHyps`: parents agree, well-formed spreads, the un-memoised run does not crash - all three
    follow from the driver's static checks on ranked documents, `overlapHyps_of_wf_ranked`), if the un-memoised rule is
    silent so is the memoised one. (The other half - the memo never LOSES a report - is `overlap_memo_never_loses` of
    `Props/C06_overlap_memo_complete.lean`: the certificate argument redone over both memos.) -/
theorem overlap_memo_neutral_partial (s : SchemaD) (fx : Fixes) (h7 : fx.v7 = true) (d : Doc)
    (hpa : Spec.ParentsAgree s d) (hsc : OverlapSide s d) (hnc : NoCrash s fx d)
    (hsil : Silent s fx .overlappingFieldsCanBeMerged d) : (overlapMemoRun s fx d).1 = 0 :=
  overlap_memo_no_false_alarm s fx h7 d
    ((rule_overlapping_fields_can_be_merged_iff_partial s fx h7 d hpa hsc hnc).mp hsil)

/-- consequently: a report of the memoised rule is a genuine violation of 5.3.2, and (under the side conditions) is
    also reported by the un-memoised rule -/
theorem overlap_memo_report_genuine (s : SchemaD) (fx : Fixes) (h7 : fx.v7 = true) (d : Doc)
    (h : 0 < (overlapMemoRun s fx d).1) : ¬ Spec.overlappingFieldsCanBeMerged s d := fun H => by
  have := overlap_memo_no_false_alarm s fx h7 d H
  omega

/-! the hunter's document -/

/-- `type Query { q: Query b: Int }` -/
def hSchema : SchemaD :=
  { types := [
      { kind := .scalar, name := "Int" }, { kind := .scalar, name := "String" }, { kind := .scalar, name := "Boolean" },
      { kind := .object, name := "Query", fields := [
          { name := "q", type := .named "Query" }, { name := "b", type := .named "Int" }] }],
    query := some "Query",
    directives := [] }

/-- `{ ...F } fragment F on Query { q { q { ...F } ...F } }` -/
def hDoc : Doc :=
  ⟨[opV [] 1 [.spread "F" []],
    .frag "F" "Query" [] 2 [.field none "q" [] [] true 3 [.field none "q" [] [] true 4 [.spread "F" []], .spread "F" []]]]⟩

/-- the model of the code AS IT WAS predicted the crash: the un-memoised search exhausts the model's fuel -/
theorem hunt_doc_crashes_unmemoised : overlapNoCrashB hSchema Fixes.all hDoc = false := by decide +kernel
/-- ... but the document was outside every theorem: it has no ranks (the fragment spreads itself) -/
theorem hunt_doc_not_ranked : rankOkB hSchema hDoc (rankOf (computeRanks hDoc)) = false := by decide +kernel
/-- it has syntactic ranks, like every document -/
theorem hunt_doc_syn_ranked : rankSynB hSchema hDoc (rankOf (synRanks hDoc)) (maxRank (synRanks hDoc)) = true := by
  decide +kernel
/-- so the memoised search terminates on it, within the bound (by the theorem, and - for the model's fuel 400 - by
    evaluation) -/
example : overlapMemoCrash hSchema Fixes.all (fuelBound hDoc (maxRank (synRanks hDoc))) hDoc = none :=
  overlap_memo_terminates hSchema Fixes.all rfl hDoc (by rw [← wfIdsB_iff]; decide) _ (Nat.le_refl _)
example : overlapMemoCrash hSchema Fixes.all (fuelBound hDoc (maxRank (synRanks hDoc))) hDoc = none :=
  overlap_memo_terminates_ranked hSchema Fixes.all rfl hDoc _ _ hunt_doc_syn_ranked _ (Nat.le_refl _)
example : fuelBound hDoc (maxRank (synRanks hDoc)) ≤ overlapFuel ∧ overlapMemoCrash hSchema Fixes.all overlapFuel hDoc = none := by
  decide +kernel

/-- the memoised RULE on the hunter's document: no crash, no error (its only violation is the fragment cycle) -/
example : (overlapMemoRun hSchema Fixes.all hDoc).1 = 0 ∧ (overlapMemoRun hSchema Fixes.all hDoc).2.crash = none := by
  decide +kernel
/-- a conflict inside the cycle (`... ...F a: b a: q }`) is still found -/
example : let dc : Doc := ⟨[opV [] 1 [.spread "F" []],
      .frag "F" "Query" [] 2 [.field none "q" [] [] true 3 [.field none "q" [] [] true 4 [.spread "F" []], .spread "F" []],
        .field (some "a") "b" [] [] false 0 [], .field (some "a") "q" [] [] false 0 []]]⟩
    0 < (overlapMemoRun hSchema Fixes.all dc).1 ∧ (overlapMemoRun hSchema Fixes.all dc).2.crash = none := by
  decide +kernel

end PyGql.Props.C06

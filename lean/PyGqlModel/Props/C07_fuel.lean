/-
  C07 — property theorems, part 7: the fuel disappears. `fuelFor reg ty (size of the value)` always suffices
  ("out of fuel" is unreachable), any larger budget gives the same result, and the headline theorems are restated
  for the fuel-free functions `coerceValueT` / `valueFromAstT`.
-/
import PyGqlModel.Lemmas.CoerceFuel
import PyGqlModel.Props.C07_args
import PyGqlModel.Props.C07_equiv

set_option linter.unusedSimpArgs false
set_option linter.unusedVariables false

namespace PyGql.Props.C07
open PyGql PyGql.Coerce PyGql.Generated.Scalars

private theorem fieldsWidth_le {f : InField} : ∀ {fs : List InField}, f ∈ fs → f.type.size ≤ fieldsWidth fs := by
  intro fs
  induction fs with
  | nil => intro h; cases h
  | cons g gs ih =>
    intro h
    simp only [fieldsWidth]
    cases h with
    | head => exact Nat.le_max_left _ _
    | tail _ hm => exact Nat.le_trans (ih hm) (Nat.le_max_right _ _)

private theorem typesWidth_le {n : String} {fs : List InField} : ∀ {ts : List (String × NamedT)},
    (n, NamedT.input fs) ∈ ts → fieldsWidth fs ≤ typesWidth ts := by
  intro ts
  induction ts with
  | nil => intro h; cases h
  | cons p r ih =>
    intro h
    rcases List.mem_cons.1 h with heq | hm
    · rw [← heq]; simp only [typesWidth]; exact Nat.le_max_left _ _
    · have := ih hm
      simp only [typesWidth]
      split
      · exact Nat.le_trans this (Nat.le_max_right _ _)
      · exact this

private theorem width_le {reg : Reg} {n : String} {fs : List InField} (hk : reg.get? n = some (.input fs))
    {f : InField} (hf : f ∈ fs) : f.type.size ≤ reg.width := by
  unfold Reg.get? at hk
  split at hk
  · rename_i p hp
    have hm := List.mem_of_find?_eq_some hp
    obtain ⟨pn, pk⟩ := p
    simp only [Option.some.injEq] at hk
    subst hk
    exact Nat.le_trans (fieldsWidth_le hf) (typesWidth_le (n := pn) hm)
  · cases hk

private theorem sizeOf_lookupLast {α : Type} [SizeOf α] (k : String) : ∀ (l : List (String × α)) (v : α),
    lookupLast k l = some v → sizeOf v < sizeOf l := by
  intro l
  induction l with
  | nil => intro v h; simp [lookupLast] at h
  | cons p rest ih =>
    intro v h
    obtain ⟨k', v'⟩ := p
    simp only [lookupLast] at h
    split at h
    · rename_i r hr; cases h; have := ih _ hr; simp; omega
    · split at h
      · cases h; simp; omega
      · cases h

private theorem rangeChecked_noFuel (n : Int) (r : PV) : NoFuel (rangeChecked n r) := by
  unfold rangeChecked NoFuel; split <;> simp

private theorem floatChecked_noFuel (c : FCls) (r : PV) : NoFuel (floatChecked c r) := by
  unfold floatChecked NoFuel; split <;> simp

private theorem getValue_noFuel (vs : List (String × PV)) (s : String) : NoFuel (getValue vs s) := by
  unfold getValue NoFuel; split <;> simp

private theorem parseOut_noFuel (o : ParseOut) : NoFuel o.toR := by
  cases o <;> simp [ParseOut.toR, NoFuel]

private theorem coerceInt_noFuel (v : JV) : NoFuel (coerceInt v) := by
  unfold coerceInt
  repeat' split
  all_goals first
    | exact rangeChecked_noFuel _ _
    | simp [NoFuel]

private theorem coerceFloat_noFuel (v : JV) : NoFuel (coerceFloat v) := by
  unfold coerceFloat
  repeat' split
  all_goals first
    | exact floatChecked_noFuel _ _
    | simp [NoFuel]

private theorem parseLiteral_noFuel (k : NamedT) (l : Lit) : NoFuel (parseLiteral k l) := by
  unfold parseLiteral
  repeat' split
  all_goals first
    | exact rangeChecked_noFuel _ _
    | exact floatChecked_noFuel _ _
    | simp [NoFuel]

/-- `coerce_value` body: no fuel error if the recursive calls of strictly smaller measure have none -/
private theorem coerceCore_noFuel {reg : Reg} {rec : Ty → JV → R} {t : Ty} {v : JV}
    (hrec : ∀ t' x, fuelFor reg t' (sizeOf x) < fuelFor reg t (sizeOf v) → NoFuel (rec t' x)) :
    NoFuel (coerceCore reg rec t v) := by
  unfold coerceCore
  split
  · simp [NoFuel]
  · cases t with
    | nonNull t' => simp [NoFuel]
    | list t' =>
      simp only [coerceListValue]
      have hsingle : NoFuel (rec t' v) := hrec t' v (by simp only [fuelFor, Ty.size]; omega)
      cases v with
      | list l =>
        simp only
        have : NoFuel (mapEC (rec t') l) := mapEC_noFuel l (fun x hx => hrec t' x (by
          have := List.sizeOf_lt_of_mem hx
          simp only [fuelFor, Ty.size, JV.list.sizeOf_spec]
          have h2 := Nat.mul_le_mul_left (reg.width + 1) (Nat.succ_le_of_lt this)
          simp only [Nat.mul_succ] at h2
          have h4 : (reg.width + 1) * (1 + sizeOf l) = (reg.width + 1) + (reg.width + 1) * sizeOf l := by
            rw [Nat.mul_add, Nat.mul_one]
          omega))
        revert this; unfold NoFuel
        cases mapEC (rec t') l <;> simp
      | _ => simp only; unfold NoFuel at hsingle ⊢; split <;> simp_all
    | named n =>
      simp only
      cases hk : reg.get? n with
      | none => simp [NoFuel]
      | some k =>
        cases k with
        | int => exact coerceInt_noFuel v
        | float => exact coerceFloat_noFuel v
        | string => cases v <;> simp [parseString, NoFuel]
        | boolean => cases v <;> simp [parseBool, NoFuel]
        | id => cases v <;> simp [parseId, NoFuel]
        | custom => exact parseOut_noFuel _
        | enum vs =>
          cases v <;> simp [NoFuel]
          exact getValue_noFuel _ _
        | input fs =>
          simp only [coerceInputObject]
          cases v with
          | obj kvs =>
            simp only
            have : NoFuel (fieldLoopC (fun k => lookupLast k kvs) rec fs) :=
              fieldLoopC_noFuel fs (fun f hf x hx => hrec f.type x (by
                have h1 := sizeOf_lookupLast f.name kvs x hx
                have h3 := width_le hk hf
                simp only [fuelFor, Ty.size, JV.obj.sizeOf_spec]
                have h2 := Nat.mul_le_mul_left (reg.width + 1) (Nat.succ_le_of_lt h1)
                simp only [Nat.mul_succ] at h2
                have h4 : (reg.width + 1) * (1 + sizeOf kvs) = (reg.width + 1) + (reg.width + 1) * sizeOf kvs := by
                  rw [Nat.mul_add, Nat.mul_one]
                omega))
            revert this; unfold NoFuel
            cases fieldLoopC (fun k => lookupLast k kvs) rec fs <;> simp
            split <;> simp
          | _ => simp [NoFuel]

private theorem size_strip_le (ty : Ty) : (stripNN ty).size ≤ ty.size := by
  cases ty <;> simp [stripNN, Ty.size]

/-- **fuel_sufficient (variable route).** With `fuelFor reg ty (size of v)` — or any larger budget — `coerce_value`
    never reports "out of fuel". -/
theorem coerceValue_fuel_sufficient (reg : Reg) : ∀ (fuel : Nat) (ty : Ty) (v : JV),
    fuelFor reg ty (sizeOf v) ≤ fuel → NoFuel (coerceValue reg fuel ty v) := by
  intro fuel
  induction fuel with
  | zero =>
    intro ty v h
    have := ty.size_pos
    simp only [fuelFor] at h; omega
  | succ fuel ih =>
    intro ty v h
    simp only [coerceValue]
    split
    · simp [NoFuel]
    · apply coerceCore_noFuel
      intro t' x hlt
      apply ih
      have := size_strip_le ty
      simp only [fuelFor] at *
      omega

/-- `value_from_ast` body -/
private theorem vfaCore_noFuel {vars : Option (List (String × PV))} {reg : Reg} {rec : Ty → Lit → R} {t : Ty} {l : Lit}
    (hrec : ∀ t' x, fuelFor reg t' (sizeOf x) < fuelFor reg t (sizeOf l) → NoFuel (rec t' x)) :
    NoFuel (vfaCore vars reg rec t l) := by
  unfold vfaCore
  split
  · simp [NoFuel]
  · cases t with
    | nonNull t' => simp [NoFuel]
    | list t' =>
      have hsingle : NoFuel (rec t' l) := hrec t' l (by simp only [fuelFor, Ty.size]; omega)
      cases l with
      | list items =>
        simp only
        have : NoFuel (mapE (rec t') items) := mapE_noFuel items (fun x hx => hrec t' x (by
          have := List.sizeOf_lt_of_mem hx
          simp only [fuelFor, Ty.size, Lit.list.sizeOf_spec]
          have h2 := Nat.mul_le_mul_left (reg.width + 1) (Nat.succ_le_of_lt this)
          simp only [Nat.mul_succ] at h2
          have h4 : (reg.width + 1) * (1 + sizeOf items) = (reg.width + 1) + (reg.width + 1) * sizeOf items := by
            rw [Nat.mul_add, Nat.mul_one]
          omega))
        revert this; unfold NoFuel
        cases mapE (rec t') items <;> simp
      | _ => simp only; unfold NoFuel at hsingle ⊢; split <;> simp_all
    | named n =>
      simp only
      cases hk : reg.get? n with
      | none => simp [NoFuel]
      | some k =>
        cases k with
        | enum vs =>
          cases l <;> simp [NoFuel]
          exact getValue_noFuel _ _
        | input fs =>
          cases l with
          | obj lkvs =>
            simp only [extractInputObject]
            have : NoFuel (fieldLoop (fun k => lookupLast k lkvs) rec fs) :=
              fieldLoop_noFuel fs (fun f hf x hx => hrec f.type x (by
                have h1 := sizeOf_lookupLast f.name lkvs x hx
                have h3 := width_le hk hf
                simp only [fuelFor, Ty.size, Lit.obj.sizeOf_spec]
                have h2 := Nat.mul_le_mul_left (reg.width + 1) (Nat.succ_le_of_lt h1)
                simp only [Nat.mul_succ] at h2
                have h4 : (reg.width + 1) * (1 + sizeOf lkvs) = (reg.width + 1) + (reg.width + 1) * sizeOf lkvs := by
                  rw [Nat.mul_add, Nat.mul_one]
                omega))
            revert this; unfold NoFuel
            cases fieldLoop (fun k => lookupLast k lkvs) rec fs <;> simp
            split <;> simp
          | _ => simp [NoFuel]
        | int => simp only; split <;> first | exact parseLiteral_noFuel _ _ | simp [NoFuel]
        | float => simp only; split <;> first | exact parseLiteral_noFuel _ _ | simp [NoFuel]
        | string => simp only; split <;> first | exact parseLiteral_noFuel _ _ | simp [NoFuel]
        | boolean => simp only; split <;> first | exact parseLiteral_noFuel _ _ | simp [NoFuel]
        | id => simp only; split <;> first | exact parseLiteral_noFuel _ _ | simp [NoFuel]
        | custom => simp only; split <;> first | exact parseOut_noFuel _ | simp [NoFuel]

/-- **fuel_sufficient (literal route)** -/
theorem valueFromAst_fuel_sufficient (reg : Reg) (vars : Option (List (String × PV))) : ∀ (fuel : Nat) (ty : Ty) (l : Lit),
    fuelFor reg ty (sizeOf l) ≤ fuel → NoFuel (valueFromAst reg vars fuel ty l) := by
  intro fuel
  induction fuel with
  | zero =>
    intro ty l h
    have := ty.size_pos
    simp only [fuelFor] at h; omega
  | succ fuel ih =>
    intro ty l h
    cases l with
    | var x =>
      simp only [valueFromAst, extractVariable, NoFuel]
      split
      · simp
      · split
        · simp
        · split <;> simp
    | _ =>
      simp only [valueFromAst]
      split
      · simp [NoFuel]
      · apply vfaCore_noFuel
        intro t' x hlt
        apply ih
        have := size_strip_le ty
        simp only [fuelFor] at *
        omega

/-! ### the fuel-free functions -/

/-- "out of fuel" is unreachable for the fuel-free functions -/
theorem total_noFuel (reg : Reg) (vars : Option (List (String × PV))) (ty : Ty) :
    (∀ v, coerceValueT reg ty v ≠ .error .fuel) ∧ (∀ l, valueFromAstT reg vars ty l ≠ .error .fuel) :=
  ⟨fun v => coerceValue_fuel_sufficient reg _ ty v (Nat.le_refl _),
   fun l => valueFromAst_fuel_sufficient reg vars _ ty l (Nat.le_refl _)⟩

/-- every sufficient budget computes the fuel-free function -/
theorem coerceValue_eq_total (reg : Reg) (fuel : Nat) (ty : Ty) (v : JV) (h : fuelFor reg ty (sizeOf v) ≤ fuel) :
    coerceValue reg fuel ty v = coerceValueT reg ty v := by
  obtain ⟨k, rfl⟩ := Nat.exists_eq_add_of_le h
  exact coerceValue_stable_add reg _ k ty v (coerceValue_fuel_sufficient reg _ ty v (Nat.le_refl _))

theorem valueFromAst_eq_total (reg : Reg) (vars : Option (List (String × PV))) (fuel : Nat) (ty : Ty) (l : Lit)
    (h : fuelFor reg ty (sizeOf l) ≤ fuel) : valueFromAst reg vars fuel ty l = valueFromAstT reg vars ty l := by
  obtain ⟨k, rfl⟩ := Nat.exists_eq_add_of_le h
  exact valueFromAst_stable_add reg vars _ k ty l (valueFromAst_fuel_sufficient reg vars _ ty l (Nat.le_refl _))

/-- **variable_sound**, fuel-free -/
theorem variable_sound_total {reg : Reg} (hreg : RegOK reg) (ty : Ty) (v : JV) (pv : PV) (hwf : ty.wf = true)
    (h : coerceValueT reg ty v = .ok pv) : Conforms reg ty pv :=
  variable_sound hreg _ ty v pv hwf h

/-- **literal_sound**, fuel-free -/
theorem literal_sound_total {reg : Reg} (hreg : RegOK reg) (vars : Option (List (String × PV))) (ty : Ty) (l : Lit) (pv : PV)
    (hwf : ty.wf = true) (hfit : vars = none ∨ VarsFit reg vars ty l) (h : valueFromAstT reg vars ty l = .ok pv) :
    Conforms reg ty pv :=
  literal_sound hreg vars _ ty l pv hwf hfit h

/-- **literal_variable_equiv**, fuel-free: `value_from_ast(astOfJson j) ` and `coerce_value(j)` yield the same value or both raise -/
theorem literal_variable_equiv_total (reg : Reg) (hagree : CustomAgree reg) (vars : Option (List (String × PV))) (ty : Ty) (j : JV) (l : Lit)
    (h : AstOfJson reg ty j l) : (valueFromAstT reg vars ty l).toOption = (coerceValueT reg ty j).toOption := by
  have hm := literal_variable_equiv reg hagree vars (max (fuelFor reg ty (sizeOf l)) (fuelFor reg ty (sizeOf j))) ty j l h
  rwa [valueFromAst_eq_total reg vars _ ty l (Nat.le_max_left _ _), coerceValue_eq_total reg _ ty j (Nat.le_max_right _ _)] at hm

/-- **int_full_range**, fuel-free -/
theorem int_full_range_total {reg : Reg} {n : String} (hn : reg.get? n = some .int) (vars : Option (List (String × PV))) (k : Int) :
    (coerceValueT reg (.named n) (.int k) = .ok (.int k) ↔ InRange32 k) ∧
    (valueFromAstT reg vars (.named n) (.int k) = .ok (.int k) ↔ InRange32 k) := by
  have h1 : fuelFor reg (.named n) (sizeOf (JV.int k)) = (fuelFor reg (.named n) (sizeOf (JV.int k)) - 1) + 1 := by
    simp only [fuelFor, Ty.size]; omega
  have h2 : fuelFor reg (.named n) (sizeOf (Lit.int k)) = (fuelFor reg (.named n) (sizeOf (Lit.int k)) - 1) + 1 := by
    simp only [fuelFor, Ty.size]; omega
  unfold coerceValueT valueFromAstT
  rw [h1, h2]
  exact ⟨(int_full_range hn vars _ k).1, (int_full_range hn vars _ k).2.1⟩

end PyGql.Props.C07

/-
  C06 - property theorems, part 14: `OverlappingFieldsCanBeMergedChecker` (5.3.2), SOUNDNESS WITH FRAGMENT SPREADS and
  the equivalence. The search is followed with its compared-pairs memo (a key is inserted BEFORE the pair is
  compared): every call leaves a tree-shaped certificate (`Cert`) that refers to the memo only through "this pair of
  fragments is covered" (`Cov`), every key of the final memo is CLOSED (`KeyObl`, established by the call that
  inserted it, stated relative to the final memo), the per-traversal set of compared fragments likewise; a
  conflict derivation (finite) is then refuted by induction on its height, fragment pairs being chased through the
  memo by induction on the lengths of the spread paths (`Lemmas/ValidateOverlapCert*.lean`, `…Post*.lean`).

  Side conditions (`OverlapSide`), beyond "validation does not raise" and "the routes to the parent types agree":
  (1) no fragment is named "" (the code never compares a fragment named "" with another fragment);
  (2) no fragment body is the sub-selection node of a field, and (3) no fragment reachable from a spread of a selection
  set has that very set as its body - so that the shortcut `if ssid == fid` of
  `_conflicts_between_fields_and_fragment` is never taken. Every document produced by the PARSER whose fragment
  spreads are acyclic satisfies them (names are non-empty; selection-set nodes are identified by their start offset);
  the model's `Doc` type is larger. `OverlapFullStatement` of `Props/C06_overlap.lean` omits them and is therefore not
  what is proved here.
-/
import PyGqlModel.Props.C06_overlap_sound
import PyGqlModel.Lemmas.ValidateOverlapPost8
namespace PyGql.Props.C06
open PyGql PyGql.Validate PyGql.Validate.Spec

/-- side conditions of the soundness theorem (see the header) -/
structure OverlapSide (s : SchemaD) (d : Doc) : Prop where
  /-- no fragment named "" -/
  noEmptyName : AL.get? (fragTable d) "" = none
  /-- the sub-selection node of a collected field is not the body of a fragment -/
  subsNotBodies : ∀ e, Ent s d e → e.hasSub = true → NotBody d e.ssid
  /-- no fragment reachable from a spread of a selection set has that set as its body -/
  spreadsApart : ∀ i sels, SelSet d i sels → ∀ g, SpreadD sels g → Apart d i g

/-- **5.3.2 soundness (PARTIAL only in its side conditions)**: if the rule, run alone, reports nothing and validation
    does not raise, then no selection set of the document contains two conflicting fields - documents WITH fragment
    spreads included -/
theorem rule_overlapping_fields_sound_partial (s : SchemaD) (fx : Fixes) (h7 : fx.v7 = true) (d : Doc)
    (hpa : Spec.ParentsAgree s d) (hsc : OverlapSide s d) (hnc : NoCrash s fx d) :
    Silent s fx .overlappingFieldsCanBeMerged d → Spec.overlappingFieldsCanBeMerged s d := by
  intro hs
  exact ov_document_sound s fx d h7 hpa hsc.noEmptyName hsc.subsNotBodies hsc.spreadsApart hs hnc

/-- **5.3.2, the equivalence** under the side conditions -/
theorem rule_overlapping_fields_can_be_merged_iff_partial (s : SchemaD) (fx : Fixes) (h7 : fx.v7 = true) (d : Doc)
    (hpa : Spec.ParentsAgree s d) (hsc : OverlapSide s d) (hnc : NoCrash s fx d) :
    Silent s fx .overlappingFieldsCanBeMerged d ↔ Spec.overlappingFieldsCanBeMerged s d :=
  ⟨rule_overlapping_fields_sound_partial s fx h7 d hpa hsc hnc,
   rule_overlapping_fields_can_be_merged_no_false_alarm_partial s fx h7 d⟩

/-- the statement with its side conditions visible -/
def OverlapStatementWithSide : Prop :=
  ∀ (s : SchemaD) (fx : Fixes) (d : Doc), fx.v7 = true → NoCrash s fx d → Spec.ParentsAgree s d → OverlapSide s d →
    (Silent s fx .overlappingFieldsCanBeMerged d ↔ Spec.overlappingFieldsCanBeMerged s d)

theorem overlap_statement_with_side : OverlapStatementWithSide :=
  fun s fx d h7 hnc hpa hsc => rule_overlapping_fields_can_be_merged_iff_partial s fx h7 d hpa hsc hnc

/-- a document without fragment definitions and without sub-selections satisfies the side conditions -/
theorem overlapSide_flat (f1 f2 : Sel) (h1 : ∃ al n, f1 = fld al n) (h2 : ∃ al n, f2 = fld al n) :
    OverlapSide oSchema ⟨[opV [] 1 [f1, f2]]⟩ := by
  obtain ⟨al1, n1, rfl⟩ := h1
  obtain ⟨al2, n2, rfl⟩ := h2
  have hsel : ∀ i sels, SelSet ⟨[opV [] 1 [fld al1 n1, fld al2 n2]]⟩ i sels → sels = [fld al1 n1, fld al2 n2] := by
    intro i sels hs
    simp [SelSet, nodes, opV, fld, defNodes, selsNodes, selNodes, argsNodes, dirsNodes] at hs
    exact hs.2
  refine ⟨by simp [fragTable, fragDefs, opV, AL.get?_nil], ?_, ?_⟩
  · rintro e ⟨i, sels, p, rn, hs, _, hc⟩ hsub
    rw [hsel i sels hs] at hc
    cases hc with
    | field hm =>
      simp only [fld, List.mem_cons, Sel.field.injEq, List.not_mem_nil, or_false] at hm
      rcases hm with ⟨_, _, _, _, rfl, _⟩ | ⟨_, _, _, _, rfl, _⟩ <;> simp at hsub
    | inline hm _ => simp [fld] at hm
  · intro i sels hs g hg
    rw [hsel i sels hs] at hg
    cases hg with
    | spread hm => simp [fld] at hm
    | inline hm _ => simp [fld] at hm

/-! non-vacuity (schema and documents of `Props/C06_overlap_sound.lean`) -/
example : Spec.overlappingFieldsCanBeMerged oSchema oDocOk :=
  (rule_overlapping_fields_can_be_merged_iff_partial oSchema Fixes.all rfl oDocOk
    (parentsAgree_twoFields _ _ ⟨_, _, rfl⟩ ⟨_, _, rfl⟩) (overlapSide_flat _ _ ⟨_, _, rfl⟩ ⟨_, _, rfl⟩)
    (by unfold NoCrash; decide +kernel)).mp (by unfold Silent; decide +kernel)
example : ¬ Spec.overlappingFieldsCanBeMerged oSchema oDocBad := fun h =>
  absurd ((rule_overlapping_fields_can_be_merged_iff_partial oSchema Fixes.all rfl oDocBad
    (parentsAgree_twoFields _ _ ⟨_, _, rfl⟩ ⟨_, _, rfl⟩) (overlapSide_flat _ _ ⟨_, _, rfl⟩ ⟨_, _, rfl⟩)
    (by unfold NoCrash; decide +kernel)).mpr h) (by unfold Silent; decide +kernel)

end PyGql.Props.C06

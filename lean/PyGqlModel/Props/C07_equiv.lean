/-
  C07 — property theorems, part 4: supplying a value inline or through a variable of the same type gives the
  resolver the same arguments.  `AstOfJson reg ty j l` (Spec/Coerce.lean) says: `l` is the literal spelling of
  the JSON value `j` at type `ty`, `j` of the natural JSON kind for `ty`.
-/
import PyGqlModel.Props.C07

set_option linter.unusedSimpArgs false
set_option linter.unusedVariables false

namespace PyGql.Props.C07
open PyGql PyGql.Coerce PyGql.Generated.Scalars

/-- shape facts about literal spellings: null iff null, never a variable, a list literal only for an array -/
private theorem spelling_shape {reg : Reg} : ∀ (ty : Ty) (j : JV) (l : Lit), AstOfJson reg ty j l →
    l.isNull = j.isNull ∧ (∀ x, l ≠ .var x) ∧ ((∀ js, j ≠ .list js) → ∀ ls, l ≠ .list ls) := by
  intro ty
  induction ty with
  | named n =>
    intro j l h
    cases h with
    | custom _ hs => cases hs <;> simp [Lit.isNull, JV.isNull]
    | _ => simp [Lit.isNull, JV.isNull]
  | list t ih =>
    intro j l h
    cases h with
    | null => simp [Lit.isNull, JV.isNull]
    | list hL => simp [Lit.isNull, JV.isNull]
    | single hnl h' => exact ih j l h'
  | nonNull t ih =>
    intro j l h
    cases h with
    | null => simp [Lit.isNull, JV.isNull]
    | nonNull _ h' => exact ih j l h'

private theorem mapEC_toOption {α β : Type} (f : α → Except Err β) (l : List α) :
    (mapEC f l).toOption = (mapE f l).toOption := by
  cases hC : mapEC f l with
  | ok r => rw [(mapEC_ok_iff f l r).1 hC]
  | error e =>
    cases hL : mapE f l with
    | error e' => rfl
    | ok r => exact absurd ((mapEC_ok_iff f l r).2 hL) (by simp [hC])

private theorem fieldLoopC_toOption {α : Type} (get : String → Option α) (rec : Ty → α → R) (fs : List InField) :
    (fieldLoopC get rec fs).toOption = (fieldLoop get rec fs).toOption := by
  cases hC : fieldLoopC get rec fs with
  | ok r => rw [(fieldLoopC_ok_iff get rec fs r).1 hC]
  | error e =>
    cases hL : fieldLoop get rec fs with
    | error e' => rfl
    | ok r => exact absurd ((fieldLoopC_ok_iff get rec fs r).2 hL) (by simp [hC])

private theorem mapE_equiv {reg : Reg} {S : String → Prop} {recL : Ty → Lit → R} {recJ : Ty → JV → R}
    (hrec : ∀ ty j l, S ty.base → AstOfJson reg ty j l → (recL ty l).toOption = (recJ ty j).toOption) {t : Ty} (hS : S t.base) :
    ∀ (js : List JV) (ls : List Lit), AstOfJsonL reg t js ls →
      (mapE (recL t) ls).toOption = (mapE (recJ t) js).toOption := by
  intro js
  induction js with
  | nil => intro ls h; cases h; rfl
  | cons j js ih =>
    intro ls h
    cases h with
    | cons h1 h2 =>
      have hh := hrec _ _ _ hS h1
      have ht := ih _ h2
      simp only [mapE]
      cases hL : recL t _ <;> cases hJ : recJ t j <;> simp [hL, hJ, Except.toOption] at hh ⊢
      subst hh
      revert ht
      cases mapE (recL t) _ <;> cases mapE (recJ t) js <;> simp [Except.toOption]

private theorem lookupLast_equiv {reg : Reg} {fs : List InField} (f : InField) (hf : f ∈ fs) :
    ∀ (kvs : List (String × JV)) (lkvs : List (String × Lit)), AstOfJsonF reg fs kvs lkvs →
      (lookupLast f.name kvs = none ∧ lookupLast f.name lkvs = none) ∨
      (∃ j l, lookupLast f.name kvs = some j ∧ lookupLast f.name lkvs = some l ∧ AstOfJson reg f.type j l) := by
  intro kvs
  induction kvs with
  | nil => intro lkvs h; cases h; exact .inl ⟨rfl, rfl⟩
  | cons kv kvs ih =>
    intro lkvs h
    cases h with
    | cons h1 h2 =>
      rename_i k j l lkvs'
      cases ih _ h2 with
      | inr hsome =>
        obtain ⟨j', l', e1, e2, e3⟩ := hsome
        exact .inr ⟨j', l', by simp [lookupLast, e1], by simp [lookupLast, e2], e3⟩
      | inl hnone =>
        by_cases hk : k = f.name
        · subst hk
          exact .inr ⟨j, l, by simp [lookupLast, hnone.1], by simp [lookupLast, hnone.2], h1 f hf rfl⟩
        · exact .inl ⟨by simp [lookupLast, hnone.1, hk], by simp [lookupLast, hnone.2, hk]⟩

private theorem allKnown_equiv {reg : Reg} {fs fs' : List InField} :
    ∀ (kvs : List (String × JV)) (lkvs : List (String × Lit)), AstOfJsonF reg fs' kvs lkvs →
      allKnown fs lkvs = allKnown fs kvs := by
  intro kvs
  induction kvs with
  | nil => intro lkvs h; cases h; rfl
  | cons kv kvs ih =>
    intro lkvs h
    cases h with
    | cons h1 h2 =>
      have := ih _ h2
      simp only [allKnown, List.all_cons] at this ⊢
      rw [this]

private theorem fieldLoop_equiv {reg : Reg} {S : String → Prop} {recL : Ty → Lit → R} {recJ : Ty → JV → R}
    (hrec : ∀ ty j l, S ty.base → AstOfJson reg ty j l → (recL ty l).toOption = (recJ ty j).toOption)
    {all : List InField} (hall : ∀ f, f ∈ all → S f.type.base)
    {kvs : List (String × JV)} {lkvs : List (String × Lit)} (hF : AstOfJsonF reg all kvs lkvs) :
    ∀ (fs : List InField), (∀ f, f ∈ fs → f ∈ all) →
      (fieldLoop (fun k => lookupLast k lkvs) recL fs).toOption = (fieldLoop (fun k => lookupLast k kvs) recJ fs).toOption := by
  intro fs
  induction fs with
  | nil => intro _; rfl
  | cons f fs ih =>
    intro hsub
    have ih' := ih (fun f' hf' => hsub f' (List.mem_cons_of_mem _ hf'))
    cases lookupLast_equiv f (hsub f List.mem_cons_self) kvs lkvs hF with
    | inl hn =>
      simp only [fieldLoop, hn.1, hn.2]
      cases f.default with
      | some d =>
        simp only []
        revert ih'
        cases fieldLoop (fun k => lookupLast k lkvs) recL fs <;> cases fieldLoop (fun k => lookupLast k kvs) recJ fs <;>
          simp [Except.toOption]
      | none =>
        simp only []
        cases f.type.isNonNull <;> simp [ih']
    | inr hs =>
      obtain ⟨j, l, e1, e2, e3⟩ := hs
      have hh := hrec _ _ _ (hall f (hsub f List.mem_cons_self)) e3
      simp only [fieldLoop, e1, e2]
      cases hL : recL f.type l <;> cases hJ : recJ f.type j <;> simp [hL, hJ, Except.toOption] at hh ⊢
      subst hh
      revert ih'
      cases fieldLoop (fun k => lookupLast k lkvs) recL fs <;> cases fieldLoop (fun k => lookupLast k kvs) recJ fs <;>
        simp [Except.toOption]

/-- bodies of the two functions agree on a literal spelling (type not non-null) -/
private theorem core_equiv {vars : Option (List (String × PV))} {reg : Reg} {S : String → Prop} (hclosed : InputClosed reg S)
    (hagree : CustomAgreeOn reg S) {recL : Ty → Lit → R} {recJ : Ty → JV → R}
    (hrec : ∀ ty j l, S ty.base → AstOfJson reg ty j l → (recL ty l).toOption = (recJ ty j).toOption)
    {t : Ty} {j : JV} {l : Lit} (hS : S t.base) (h : AstOfJson reg t j l) (hnn : t.isNonNull = false) :
    (vfaCore vars reg recL t l).toOption = (coerceCore reg recJ t j).toOption := by
  have hadmI : ∀ k, admits .int (.int k) = true := fun k => by simp only [admits, kindName, litKind]; decide
  have hadmFI : ∀ k, admits .float (.int k) = true := fun k => by simp only [admits, kindName, litKind]; decide
  have hadmFF : ∀ s, admits .float (.float s) = true := fun s => by simp only [admits, kindName, litKind]; decide
  have hadmS : ∀ s, admits .string (.str s) = true := fun s => by simp only [admits, kindName, litKind]; decide
  have hadmB : ∀ b, admits .boolean (.bool b) = true := fun b => by simp only [admits, kindName, litKind]; decide
  have hadmIS : ∀ s, admits .id (.str s) = true := fun s => by simp only [admits, kindName, litKind]; decide
  have hadmII : ∀ k, admits .id (.int k) = true := fun k => by simp only [admits, kindName, litKind]; decide
  cases h with
  | null => simp [vfaCore, coerceCore, Lit.isNull, JV.isNull]
  | nonNull _ h' => simp [Ty.isNonNull] at hnn
  | intInt hk => exact congrArg _ (by simp [vfaCore, coerceCore, Lit.isNull, JV.isNull, hk, isScalarLit, parseLiteral, hadmI, coerceInt])
  | floatInt hk =>
    rename_i k
    have hover : floatCatchesOverflow = true := coerceInt_branches_spec.2
    cases hf : intFitsDouble k with
    | true => exact congrArg _ (by simp [vfaCore, coerceCore, Lit.isNull, JV.isNull, hk, isScalarLit, parseLiteral, hadmFI, coerceFloat, hf])
    | false =>
      simp [vfaCore, coerceCore, Lit.isNull, JV.isNull, hk, isScalarLit, parseLiteral, hadmFI, coerceFloat, hf, hover,
        floatChecked_nonfinite (c := .inf) (by simp), Except.toOption]
  | floatFloat hk => exact congrArg _ (by simp [vfaCore, coerceCore, Lit.isNull, JV.isNull, hk, isScalarLit, parseLiteral, hadmFF, coerceFloat])
  | string hk => exact congrArg _ (by simp [vfaCore, coerceCore, Lit.isNull, JV.isNull, hk, isScalarLit, parseLiteral, hadmS, parseString, pyStr])
  | boolean hk => exact congrArg _ (by simp [vfaCore, coerceCore, Lit.isNull, JV.isNull, hk, isScalarLit, parseLiteral, hadmB, parseBool, pyTruthy])
  | idStr hk => exact congrArg _ (by simp [vfaCore, coerceCore, Lit.isNull, JV.isNull, hk, isScalarLit, parseLiteral, hadmIS, parseId, pyStr])
  | idInt hk => exact congrArg _ (by simp [vfaCore, coerceCore, Lit.isNull, JV.isNull, hk, isScalarLit, parseLiteral, hadmII, parseId, pyStr])
  | custom hk hs =>
    have := hagree _ (vars.getD []) _ _ (show S _ from hS) hk hs
    cases hs <;> simpa [vfaCore, coerceCore, Lit.isNull, JV.isNull, hk, isScalarLit, litAdmitted, Ty.base] using this
  | enum hk => exact congrArg _ (by simp [vfaCore, coerceCore, Lit.isNull, JV.isNull, hk])
  | list hL =>
    rename_i t' js' ls'
    have hm := (mapE_equiv hrec (t := t') hS _ _ hL).trans (mapEC_toOption _ _).symm
    simp only [vfaCore, coerceCore, Lit.isNull, JV.isNull, coerceListValue, Bool.false_eq_true, if_false]
    revert hm
    cases mapE (recL _) _ <;> cases mapEC (recJ _) _ <;> simp [Except.toOption]
  | single hnl h' =>
    rename_i t'
    obtain ⟨hnull, _, hlist⟩ := spelling_shape _ _ _ h'
    have hl' := hlist hnl
    cases hj : j.isNull with
    | true => simp [vfaCore, coerceCore, hnull, hj]
    | false =>
      have e := hrec t' _ _ hS h'
      revert e
      cases hL : recL t' l <;> cases hJ : recJ t' j <;> intro e <;> simp [Except.toOption] at e <;>
        cases l <;> cases j <;>
          simp_all [vfaCore, coerceCore, coerceListValue, Lit.isNull, JV.isNull, Except.toOption]
  | obj hk hF =>
    have hm := (fieldLoop_equiv hrec (fun f hf => hclosed _ _ f hS hk hf) hF _ (fun f hf => hf)).trans (fieldLoopC_toOption _ _ _).symm
    simp only [vfaCore, coerceCore, Lit.isNull, JV.isNull, hk, extractInputObject, coerceInputObject, allKnown_equiv _ _ hF,
      Bool.false_eq_true, if_false]
    revert hm
    cases fieldLoop _ recL _ <;> cases fieldLoopC _ recJ _ <;> simp [Except.toOption]
    intro h; subst h; rfl

/-- **literal_variable_equiv_on.** The general form: `S` is any set of type names closed under "field of an input object"
    that contains the base of `ty`; the custom scalars' agreement is needed ONLY for the names in `S`. -/
theorem literal_variable_equiv_on (reg : Reg) (S : String → Prop) (hclosed : InputClosed reg S) (hagree : CustomAgreeOn reg S)
    (vars : Option (List (String × PV))) :
    ∀ (fuel : Nat) (ty : Ty) (j : JV) (l : Lit), S ty.base → AstOfJson reg ty j l →
      (valueFromAst reg vars fuel ty l).toOption = (coerceValue reg fuel ty j).toOption := by
  intro fuel
  induction fuel with
  | zero => intro ty j l _ _; rfl
  | succ fuel ih =>
    intro ty j l hS h
    obtain ⟨hnull, hnv, _⟩ := spelling_shape _ _ _ h
    have hv : valueFromAst reg vars (fuel + 1) ty l =
        if ty.isNonNull && l.isNull then .error .coercion else vfaCore vars reg (valueFromAst reg vars fuel) (stripNN ty) l := by
      cases l <;> simp_all [valueFromAst]
    rw [hv, hnull]
    simp only [coerceValue]
    cases hc : (ty.isNonNull && j.isNull) with
    | true => simp
    | false =>
      simp only [Bool.false_eq_true, if_false]
      cases ty with
      | named n => exact core_equiv hclosed hagree ih hS h rfl
      | list t => exact core_equiv hclosed hagree ih hS h rfl
      | nonNull t =>
        simp only [stripNN]
        cases h with
        | null => simp [Ty.isNonNull, JV.isNull] at hc
        | nonNull hnn h' => exact core_equiv hclosed hagree ih hS h' hnn

theorem customAgreeOn_of_customAgree {reg : Reg} (h : CustomAgree reg) (S : String → Prop) : CustomAgreeOn reg S :=
  fun n vs j l _ hk hs => h n vs j l hk hs

/-- **literal_variable_equiv.** For every registry, every type expression (any nesting, recursive input objects),
    every JSON value `j` of the natural kind for the type and its literal spelling `l`, and every fuel, relative to
    custom scalars whose own two parsers agree (`CustomAgree`: the scalar author's obligation, nothing else is assumed):
    `value_from_ast(l, ty)` and `coerce_value(j, ty)` have the same outcome — the SAME value, or both raise
    (`toOption` forgets only which exception: `_coerce_input_object` / `_coerce_list_value` collect errors and go on,
    `value_from_ast` stops at the first). With `variable_sound` / `literal_sound` and the way
    `coerce_argument_values` stores either result under the argument's python name, a resolver cannot tell whether a
    value was written inline or sent through a variable of the same type. -/
theorem literal_variable_equiv (reg : Reg) (hagree : CustomAgree reg) (vars : Option (List (String × PV))) :
    ∀ (fuel : Nat) (ty : Ty) (j : JV) (l : Lit), AstOfJson reg ty j l →
      (valueFromAst reg vars fuel ty l).toOption = (coerceValue reg fuel ty j).toOption :=
  fun fuel ty j l h =>
    literal_variable_equiv_on reg (fun _ => True) (fun _ _ _ _ _ _ => trivial) (customAgreeOn_of_customAgree hagree _) vars fuel ty j l trivial h

/-- in particular: whenever the variable route accepts, the literal route yields the identical value, and vice versa -/
theorem literal_variable_same_value (reg : Reg) (hagree : CustomAgree reg) (vars : Option (List (String × PV))) (fuel : Nat) (ty : Ty) (j : JV) (l : Lit)
    (h : AstOfJson reg ty j l) (pv : PV) :
    valueFromAst reg vars fuel ty l = .ok pv ↔ coerceValue reg fuel ty j = .ok pv := by
  have := literal_variable_equiv reg hagree vars fuel ty j l h
  revert this
  cases valueFromAst reg vars fuel ty l <;> cases coerceValue reg fuel ty j <;> simp [Except.toOption]
  · intro h; subst h; exact Iff.rfl

/-! ### known finding A8: JSON scalars of the wrong kind

  The property wants (i) structurally wrong values rejected and (ii) inline == variable for EVERY value. For JSON scalars of the
  wrong kind for a built-in scalar the code does neither: its `parse` functions are its lenient `serialize` functions
  (pinned by tests/test_utilities/test_coerce_value.py, which passes strings for numbers). The full statements are kept visible
  and refuted by machine-checked witnesses; `literal_variable_equiv` is the part that holds (`NaturalKind` values). -/

/-- the FULL statement: every JSON scalar and the literal of the same spelling have the same outcome at every declared type -/
def LiteralVariableEquivFull : Prop :=
  ∀ (reg : Reg) (ty : Ty) (j : JV) (l : Lit), LeafSpell j l → (reg.get? ty.base).isSome = true →
    (valueFromAst reg none 1 ty l).toOption = (coerceValue reg 1 ty j).toOption

/-- `literal_variable_equiv` restated with its hypothesis by name: for values of the natural kind -/
theorem literal_variable_equiv_partial (reg : Reg) (hagree : CustomAgree reg) (vars : Option (List (String × PV)))
    (fuel : Nat) (ty : Ty) (j : JV) (hnat : NaturalKind reg ty j) :
    ∃ l, AstOfJson reg ty j l ∧ (valueFromAst reg vars fuel ty l).toOption = (coerceValue reg fuel ty j).toOption := by
  obtain ⟨l, hl⟩ := hnat
  exact ⟨l, hl, literal_variable_equiv reg hagree vars fuel ty j l hl⟩

private def regInt : Reg := Reg.ofTypes [("Int", .int), ("String", .string), ("Boolean", .boolean)]

/-- **literal_variable_equiv_refuted_cross_kind** (A8). `Int`, `true`: through a variable the resolver receives `1`,
    inline the request is rejected. -/
theorem literal_variable_equiv_refuted_cross_kind : ¬ LiteralVariableEquivFull := by
  intro h
  have := h regInt (.named "Int") (.bool true) (.bool true) .bool rfl
  have h1 : valueFromAst regInt none 1 (.named "Int") (.bool true) = .error .coercion := by rfl
  have h2 : coerceValue regInt 1 (.named "Int") (.bool true) = .ok (.int 1) := by rfl
  rw [h1, h2] at this
  simp [Except.toOption] at this

/-- the FULL rejection statement for scalars: a JSON scalar that is not of the natural kind for a built-in scalar type is rejected -/
def RejectsCrossKindFull : Prop :=
  ∀ (reg : Reg) (n : String) (k : NamedT) (j : JV), reg.get? n = some k → (k = .int ∨ k = .float ∨ k = .string ∨ k = .boolean ∨ k = .id) →
    j.isNull = false → ¬ NaturalKind reg (.named n) j → ∀ pv, coerceValue reg 1 (.named n) j ≠ .ok pv

/-- **rejects_cross_kind_refuted** (A8). `String`, `5`: not of the natural kind (a number has no spelling at a String position),
    yet accepted through a variable — the resolver receives `"5"`. -/
theorem rejects_cross_kind_refuted : ¬ RejectsCrossKindFull := by
  intro h
  refine h regInt "String" .string (.int 5) rfl (.inr (.inr (.inl rfl))) rfl ?_ (.str "5") (by rfl)
  rintro ⟨l, hl⟩
  cases hl with
  | intInt hk => simp [regInt, Reg.ofTypes, Reg.get?, List.find?] at hk
  | floatInt hk => simp [regInt, Reg.ofTypes, Reg.get?, List.find?] at hk
  | idInt hk => simp [regInt, Reg.ofTypes, Reg.get?, List.find?] at hk
  | custom hk _ => simp [regInt, Reg.ofTypes, Reg.get?, List.find?] at hk

end PyGql.Props.C07

/-
  C09 — failure cases of `execute_fields_serially` and the queue state machine tied to the trace.

  * which later top-level fields still run after a failure: a `ResolverError` (see `failure_does_not_stop`
    in C09.lean) and a NON-NULL VIOLATION at a root field do not stop the queue; an UNEXPECTED exception does
    (synchronously: it propagates out of `_next`; deferred: the serial chain's Future fails) — no later
    top-level resolver is invoked;
  * `serial_queue_head_called_next`: whenever `_next` runs on a non-empty `args` queue (initially, or from
    the callback `cb` when the current field has finished, under any schedule) the FIRST event it adds to
    the trace is the invocation of the head of the queue; on an empty queue it adds nothing and returns
    `resolved_fields`.
-/
import PyGqlModel.Lemmas.ExecSerial

set_option linter.unusedVariables false
set_option linter.unusedSimpArgs false

namespace PyGql.Props.C09
open PyGql.AsyncExec

/-- **nonnull_violation_at_root_continues.** A top-level field of non-null type whose resolver returns
    `null` (py-gql: `_handle_non_nullable_value` records the error and keeps `null`): the violation is
    recorded at the field's path and `_next` goes on with the remaining queue `args` at once. -/
theorem nonnull_violation_at_root_continues (path : Path) (key : String) (resolved : List (String × V))
    (args : Flds) (s : ExecSt) :
    serialNext path resolved (.cons key .sync (.ok (.nonNull .null)) args) s
      = serialNext path (resolved ++ [(key, .null)]) args
          (((s.emit (.call (path ++ [.key key]))).emit (.done (path ++ [.key key]))).addError (path ++ [.key key]) .nonNull) := by
  simp [serialNext, resolveField, completeValue, mapValue, applySimple, handleNonNullableValue, unwrapValue]

/-- **unexpected_stops_later_fields.** An unexpected exception in the resolver of a top-level field:
    (sync) it propagates out of `_next` — the trace gains exactly this field's `call`/`done`, no resolver of
    the remaining queue `args` is invoked, nothing is appended to `resolved_fields`;
    (deferred) when its task completes, the serial chain's Future FAILS with the exception, the trace gains
    exactly the `done` event and the callback `cb` (hence `_next` on `args`) never runs. -/
theorem unexpected_stops_later_fields (path : Path) (key : String) (resolved : List (String × V)) (args : Flds) (s : ExecSt) :
    serialNext path resolved (.cons key .sync .exc args) s
      = (.exc .boom, (s.emit (.call (path ++ [.key key]))).emit (.done (path ++ [.key key])))
    ∧ (∀ t, deliver applyCont t
          (.chain (.unwrap (.chain (.unwrap (.task t (path ++ [.key key]) false .exc)) (.complete (path ++ [.key key]))))
            (.serialCb path key resolved args)) s
        = (.failed .boom, s.emit (.done (path ++ [.key key])))) := by
  refine ⟨?_, ?_⟩
  · simp [serialNext, resolveField]
  · intro t
    simp [deliver, finishTask, unwrapCb, chainOnFinish, applyCont, applySimple]

/-- `_next` only ever appends to the trace -/
private theorem serialNext_trace_ext : ∀ (args : Flds) (resolved : List (String × V)) (s : ExecSt),
    ∃ Δ, (serialNext [] resolved args s).2.trace = s.trace ++ Δ
  | .nil, resolved, s => ⟨[], by simp [serialNext]⟩
  | .cons key mode out args, resolved, s => by
    obtain ⟨⟨Δ, t, _, _⟩, _⟩ := resolveField_step out ([] ++ [.key key]) mode s (by simp)
    have ih := fun (w : V) (s1 : ExecSt) => serialNext_trace_ext args (resolved ++ [(key, w)]) s1
    simp only [serialNext]
    cases hr : resolveField ([] ++ [.key key]) mode out s with
    | mk r s1 =>
      rw [hr] at t
      simp only at t
      split
      · rename_i h; cases h; exact ⟨_, t⟩
      · rename_i h; cases h
        obtain ⟨Δ2, h2⟩ := ih _ s1
        exact ⟨.call ([] ++ [.key key]) :: Δ ++ Δ2, by rw [h2, t]; simp⟩
      · rename_i h; cases h; exact ⟨_, t⟩
      · rename_i h; cases h
        obtain ⟨Δ2, h2⟩ := ih _ s1
        split
        · rename_i h3; rw [h3] at h2; exact ⟨.call ([] ++ [.key key]) :: Δ ++ Δ2, by simp only at h2 ⊢; rw [h2, t]; simp⟩
        · rename_i h3; rw [h3] at h2; exact ⟨.call ([] ++ [.key key]) :: Δ ++ Δ2, by simp only at h2 ⊢; rw [h2, t]; simp⟩
      · rename_i h; cases h; exact ⟨_, t⟩
      · rename_i h; cases h; exact ⟨_, t⟩

/-- **serial_queue_head_called_next.** The queue state machine against the trace, one step:
    (1) `_next` on a non-empty queue — from ANY state `s`, any `resolved_fields` — first invokes the resolver of
        the HEAD of the queue: the trace is extended by `call [k]` followed by further events;
    (2) on the empty queue it adds no event and returns `resolved_fields` as the object;
    (3) the callback `cb(value)` of the serial chain is `_next` with `(key, value)` appended to
        `resolved_fields` — so by (1), when the node of the current field finishes (under whatever schedule),
        the next event is the `call` of the following field in document order, and of no other. -/
theorem serial_queue_head_called_next (resolved : List (String × V)) (s : ExecSt) :
    (∀ k m o rest, ∃ Δ, (serialNext [] resolved (.cons k m o rest) s).2.trace = s.trace ++ Ev.call [.key k] :: Δ)
    ∧ serialNext [] resolved .nil s = (.ok (.val (.data (.obj resolved))), s)
    ∧ (∀ key v args, applyCont (.serialCb [] key resolved args) (.ok (.data v)) s
          = serialNext [] (resolved ++ [(key, v)]) args s) := by
  refine ⟨?_, by simp [serialNext], by intro key v args; simp [applyCont]⟩
  intro k m o rest
  obtain ⟨Δ, h⟩ := serialNext_trace_ext (.cons k m o rest) resolved s
  obtain ⟨⟨Δ1, t, _, _⟩, _⟩ := resolveField_step o ([] ++ [.key k]) m s (by simp)
  -- the trace after `_next` extends the trace after the head's `resolve_field`
  have hmono : ∃ Δ2, (serialNext [] resolved (.cons k m o rest) s).2.trace
      = (resolveField ([] ++ [.key k]) m o s).2.trace ++ Δ2 := by
    simp only [serialNext]
    cases hr : resolveField ([] ++ [.key k]) m o s with
    | mk r s1 =>
      split
      · rename_i h; cases h; exact ⟨[], by simp⟩
      · rename_i h; cases h; exact serialNext_trace_ext rest _ s1
      · rename_i h; cases h; exact ⟨[], by simp⟩
      · rename_i h; cases h
        obtain ⟨Δ2, h2⟩ := serialNext_trace_ext rest (resolved ++ [(k, _)]) s1
        split
        · rename_i h3; rw [h3] at h2; exact ⟨Δ2, by simpa using h2⟩
        · rename_i h3; rw [h3] at h2; exact ⟨Δ2, by simpa using h2⟩
      · rename_i h; cases h; exact ⟨[], by simp⟩
      · rename_i h; cases h; exact ⟨[], by simp⟩
  obtain ⟨Δ2, h2⟩ := hmono
  exact ⟨Δ1 ++ Δ2, by rw [h2, t]; simp⟩

/-- non-vacuity / the three failure kinds side by side on `mutation { m1 m2 }` with a failing `m1`
    (deferred): after a resolver error and after a non-null violation `m2` is invoked, after an unexpected
    exception it is not. Events as (is-call, key). -/
example :
    let run := fun (o : ROut) =>
      ((runAsync ⟨.mutation, .cons "m1" .deferred o (.cons "m2" .sync (.ok (.leaf 5)) .nil)⟩ [0]).trace.map
        fun e => match e with | .call p => (true, p.length) | .done p => (false, p.length))
    run .rerr = [(true, 1), (false, 1), (true, 1), (false, 1)]
    ∧ run (.ok (.nonNull .null)) = [(true, 1), (false, 1), (true, 1), (false, 1)]
    ∧ run .exc = [(true, 1), (false, 1)] := by
  decide

end PyGql.Props.C09

/-
  C02: the hand-written model of `_string_utils.parse_block_string` (`PyGqlModel/BlockString.lean`, about which
  `block_string_spec` is proved) EQUALS the definition the translator derives from the source text on every run
  (`Generated/TrBlockString.lean`): the line split, the `common_indent` loop, the in-place dedent loop with item assignment,
  the two `while … pop` loops (translated with explicit fuel: the equation shows the fuel never runs out and no
  `IndexError` is reachable) and the join. The only hypothesis: every line is shorter than `sys.maxsize`, the sentinel
  the source starts `common_indent` from (the model uses `none` instead).
-/
import PyGqlModel.BlockString
import PyGqlModel.Generated.TrBlockString

namespace PyGql.Props.C02
open PyGql PyGql.BlockString PyGql.Generated

private theorem lineSepSplitAux_eq (b : Bool) (t : Text) : Py.lineSepSplitAux b t = splitLinesAux b t := by
  induction t generalizing b with
  | nil => rfl
  | cons c t ih =>
    simp only [Py.lineSepSplitAux, splitLinesAux, ih]
    cases splitLinesAux false t <;> rfl

private theorem lstrip_eq (l : Text) : Py.lstrip l [32, 9] = lstrip l := by
  have : (fun c : Nat => [32, 9].contains c) = isBlankChar := by
    funext c
    by_cases h1 : c = 32 <;> by_cases h2 : c = 9 <;> simp [isBlankChar, h1, h2]
  unfold Py.lstrip lstrip
  rw [this]

private theorem sliceFrom_nat {α} (xs : List α) (k : Nat) : Py.sliceFrom xs (k : Int) = xs.drop k := by
  have h : ¬ ((k : Int) < 0) := by omega
  simp only [Py.sliceFrom, Py.normIdx, h, if_false, Int.toNat_natCast]
  by_cases hk : k ≤ xs.length
  · rw [Nat.min_eq_left hk]
  · rw [Nat.min_eq_right (by omega), List.drop_length, List.drop_eq_nil_of_le (by omega)]

/-! ### the `common_indent` loop -/

/-- `sys.maxsize` -/
def maxsize : Int := 9223372036854775807

/-- the model's accumulator (`none` = still the sentinel) as the source's integer -/
def encIndent : Option Nat → Int
  | none => maxsize
  | some k => k

private theorem dropWhile_len_le {α} (p : α → Bool) : ∀ l : List α, (l.dropWhile p).length ≤ l.length
  | [] => by simp
  | a :: l => by
    have := dropWhile_len_le p l
    rw [List.dropWhile_cons]; split <;> simp <;> omega

private theorem imin_eq_min (a b : Int) : Py.imin a b = min a b := by
  unfold Py.imin; split <;> omega

private theorem lstrip_len_le (l : Text) : (lstrip l).length ≤ l.length := by
  unfold lstrip; exact dropWhile_len_le _ _

private theorem loop1_eq (lines : List Text) : ∀ (ls : List Text) (acc : Option Nat),
    (∀ l ∈ ls, (l.length : Int) < maxsize) → (∀ k, acc = some k → (k : Int) < maxsize) →
    Tr.parse_block_string.loop1 lines ls (encIndent acc) = .fall (encIndent (ls.foldl indentStep acc))
      ∧ (∀ k, ls.foldl indentStep acc = some k → (k : Int) < maxsize)
  | [], acc, _, hacc => by simp [Tr.parse_block_string.loop1]; exact hacc
  | l :: ls, acc, hls, hacc => by
    have hl : (l.length : Int) < maxsize := hls l (by simp)
    have hle := lstrip_len_le l
    rw [Tr.parse_block_string.loop1, List.foldl_cons]
    simp only [lstrip_eq, Py.len, Int.ofNat_eq_natCast]
    by_cases h0 : (lstrip l).length = 0
    · have hstep : indentStep acc l = acc := by simp [indentStep, h0]
      simp only [h0, hstep]
      simpa using loop1_eq lines ls acc (fun x hx => hls x (by simp [hx])) hacc
    · have hne : ((((lstrip l).length : Nat) : Int) != 0) = true := by rw [bne_iff_ne]; omega
      have hstep : encIndent (indentStep acc l) = Py.imin (encIndent acc) ((l.length : Int) - ((lstrip l).length : Int)) := by
        have hd : ((l.length : Int) - ((lstrip l).length : Int)) < maxsize := by omega
        cases acc with
        | none =>
          have e1 : indentStep none l = some (l.length - (lstrip l).length) := by simp [indentStep, h0]
          rw [e1, imin_eq_min]; show ((l.length - (lstrip l).length : Nat) : Int) = min maxsize _; omega
        | some m =>
          have e1 : indentStep (some m) l = some (min m (l.length - (lstrip l).length)) := by simp [indentStep, h0]
          rw [e1, imin_eq_min]; show ((min m (l.length - (lstrip l).length) : Nat) : Int) = min (m : Int) _; omega
      have hacc' : ∀ k, indentStep acc l = some k → (k : Int) < maxsize := by
        intro k hk
        cases acc with
        | none => simp [indentStep, h0] at hk; omega
        | some m =>
          have := hacc m rfl
          simp [indentStep, h0] at hk; omega
      simp only [hne, if_true, ← hstep]
      exact loop1_eq lines ls (indentStep acc l) (fun x hx => hls x (by simp [hx])) hacc'

/-! ### the dedent loop (`lines[i + 1] = line[common_indent:]`) -/

private theorem setItem_mid {α} (done : List α) (t v : α) (ts : List α) (i : Int) (hi : i + 1 = (done.length : Int)) :
    Py.setItem (done ++ t :: ts) (i + 1) v = .ok (done ++ v :: ts) := by
  have h1 : ¬ (i + 1 < 0) := by omega
  have h2 : 0 ≤ i + 1 ∧ i + 1 < (((done ++ t :: ts).length : Nat) : Int) := by simp; omega
  have h3 : (i + 1).toNat = done.length := by omega
  simp only [Py.setItem, Py.itemIdx, h1, if_false, Int.ofNat_eq_natCast, h2, and_self, if_true, h3]
  simp

private theorem loop2_eq (k : Nat) : ∀ (todo done : List Text) (i : Int), i + 1 = (done.length : Int) →
    Tr.parse_block_string.loop2 (k : Int) (Py.enumerateFrom i todo) (done ++ todo)
      = .fall (done ++ todo.map (fun l => l.drop k))
  | [], done, i, _ => by simp [Py.enumerateFrom, Tr.parse_block_string.loop2]
  | t :: ts, done, i, hi => by
    rw [Py.enumerateFrom, Tr.parse_block_string.loop2, setItem_mid done t _ ts i hi, sliceFrom_nat]
    have := loop2_eq k ts (done ++ [t.drop k]) (i + 1) (by simp; omega)
    simpa using this

/-! ### the two `while … pop` loops -/

private theorem getItem_zero {α} (l : α) (ls : List α) : Py.getItem (l :: ls) 0 = .ok l := by
  have h2 : (0 : Int) ≤ 0 ∧ (0 : Int) < (((l :: ls).length : Nat) : Int) := by
    simp only [List.length_cons]; omega
  simp [Py.getItem, Py.itemIdx]

private theorem while3_eq : ∀ (fuel : Nat) (lines : List Text), lines.length < fuel →
    Tr.parse_block_string.while3 fuel lines = .fall (popLeading lines)
  | 0, _, h => by omega
  | fuel + 1, [], _ => by simp [Tr.parse_block_string.while3, popLeading]
  | fuel + 1, l :: ls, h => by
    rw [Tr.parse_block_string.while3, popLeading]
    simp only [getItem_zero, lstrip_eq, List.isEmpty_cons, Bool.not_false, if_true, Py.pop0]
    by_cases hb : (lstrip l).isEmpty = true
    · simp only [hb, Bool.not_true, Bool.not_false, if_true]
      exact while3_eq fuel ls (by simp at h; omega)
    · simp [hb]

private theorem popTrailing_snoc (xs : List Text) (x : Text) :
    popTrailing (xs ++ [x]) = if (lstrip x).isEmpty then popTrailing xs else xs ++ [x] := by
  induction xs with
  | nil => simp [popTrailing]
  | cons y ys ih =>
    rw [List.cons_append, popTrailing, ih]
    by_cases hb : (lstrip x).isEmpty = true
    · simp only [hb, if_true]; rw [popTrailing]
    · simp only [hb, Bool.false_eq_true, if_false]
      cases ys <;> simp

private theorem getItem_last {α} (xs : List α) (x : α) : Py.getItem (xs ++ [x]) (-1) = .ok x := by
  have h1 : ((-1 : Int) < 0) := by omega
  have h2 : 0 ≤ (-1 : Int) + (((xs ++ [x]).length : Nat) : Int) ∧ (-1 : Int) + (((xs ++ [x]).length : Nat) : Int) < (((xs ++ [x]).length : Nat) : Int) := by
    simp; omega
  have h3 : ((-1 : Int) + (((xs ++ [x]).length : Nat) : Int)).toNat = xs.length := by simp; omega
  simp only [Py.getItem, Py.itemIdx, h1, if_true, Int.ofNat_eq_natCast, h2, and_self, h3]
  simp

private theorem popLast_snoc {α} (xs : List α) (x : α) : Py.popLast (xs ++ [x]) = .ok (x, xs) := by
  simp [Py.popLast]

private theorem while4_eq : ∀ (fuel : Nat) (lines : List Text), lines.length < fuel →
    Tr.parse_block_string.while4 fuel lines = .fall (popTrailing lines)
  | 0, _, h => by omega
  | fuel + 1, lines, h => by
    rcases List.eq_nil_or_concat lines with rfl | ⟨xs, x, rfl⟩
    · simp [Tr.parse_block_string.while4, popTrailing]
    · rw [List.concat_eq_append] at h ⊢
      rw [Tr.parse_block_string.while4, popTrailing_snoc]
      have hne : (xs ++ [x]).isEmpty = false := by simp
      simp only [getItem_last, popLast_snoc, lstrip_eq, hne, Bool.not_false, if_true]
      by_cases hb : (lstrip x).isEmpty = true
      · simp only [hb, Bool.not_true, Bool.not_false, if_true]
        exact while4_eq fuel xs (by simp at h; omega)
      · simp [hb]

private theorem join_eq : ∀ ls : List Text, Py.join [10] ls = joinLF ls
  | [] => rfl
  | [l] => rfl
  | l :: m :: ls => by simp [Py.join, joinLF, join_eq (m :: ls)]

/-- **`parse_block_string`: model = source**, for every raw string whose lines are shorter than `sys.maxsize`:
    the translated function returns (never raises, never runs out of fuel) exactly the model's result. -/
theorem parse_block_string_model_eq_source (raw : Text) (h : ∀ l ∈ splitLines raw, (l.length : Int) < maxsize) :
    Tr.parse_block_string raw = .ok (parseBlockString raw) := by
  unfold Tr.parse_block_string parseBlockString commonIndent
  have hsplit : Py.lineSepSplit raw = splitLines raw := lineSepSplitAux_eq false raw
  have hdrop : ∀ L : List Text, Py.sliceFrom L (1 : Int) = L.drop 1 := fun L => sliceFrom_nat L 1
  simp only [hsplit, hdrop]
  generalize splitLines raw = L at h ⊢
  obtain ⟨h1, h1b⟩ := loop1_eq L (L.drop 1) none (fun l hl => h l (List.mem_of_mem_drop hl)) (by simp)
  have hm : (9223372036854775807 : Int) = encIndent none := rfl
  rw [hm, h1]
  simp only []
  cases hci : List.foldl indentStep none (List.drop 1 L) with
  | none =>
    have : ¬ (encIndent none < encIndent none) := by omega
    simp only [this, decide_false, Bool.false_eq_true, if_false]
    rw [while3_eq _ _ (by simp [Py.len] <;> omega)]
    simp only []
    rw [while4_eq _ _ (by simp [Py.len] <;> omega)]
    simp only [join_eq]
  | some k =>
    have hk : encIndent (some k) < encIndent none := h1b k hci
    simp only [hk, decide_true, if_true]
    cases L with
    | nil => simp at hci
    | cons l0 rest =>
      have h2 := loop2_eq k rest [l0] 0 (by simp)
      simp only [List.singleton_append] at h2
      simp only [List.drop_succ_cons, List.drop_zero, Py.enumerate, encIndent, h2]
      rw [while3_eq _ _ (by simp [Py.len] <;> omega)]
      simp only []
      rw [while4_eq _ _ (by simp [Py.len] <;> omega)]
      simp [join_eq]

private theorem splitLinesAux_len : ∀ (t : Text) (b : Bool), ∀ l ∈ splitLinesAux b t, l.length ≤ t.length
  | [], b, l, hl => by simp [splitLinesAux] at hl; simp [hl]
  | c :: t, b, l, hl => by
    have ihf := splitLinesAux_len t false
    have iht := splitLinesAux_len t true
    rw [splitLinesAux] at hl
    by_cases h10 : c = 10
    · simp only [h10, if_true] at hl
      cases b with
      | true => simp only [if_true] at hl; have := ihf l hl; simp; omega
      | false =>
        simp only [Bool.false_eq_true, if_false, List.mem_cons] at hl
        rcases hl with rfl | hl
        · simp
        · have := ihf l hl; simp; omega
    · simp only [h10, if_false] at hl
      by_cases h13 : c = 13
      · simp only [h13, if_true, List.mem_cons] at hl
        rcases hl with rfl | hl
        · simp
        · have := iht l hl; simp; omega
      · simp only [h13, if_false] at hl
        cases hs : splitLinesAux false t with
        | nil => simp only [hs, List.mem_singleton] at hl; subst hl; simp
        | cons l0 ls =>
          simp only [hs, List.mem_cons] at hl
          rcases hl with rfl | hl
          · have := ihf l0 (by simp [hs]); simp; omega
          · have := ihf l (by simp [hs, hl]); simp; omega

/-- **`parse_block_string`: model = source** for every raw string shorter than `sys.maxsize` = 2^63 − 1 code points
    (no longer string fits in memory): the hypothesis on the lines follows from the length of the input. -/
theorem parse_block_string_model_eq_source_of_length (raw : Text) (h : (raw.length : Int) < maxsize) :
    Tr.parse_block_string raw = .ok (parseBlockString raw) :=
  parse_block_string_model_eq_source raw (fun l hl => by
    have := splitLinesAux_len raw false l hl
    omega)

/-- the hypothesis is satisfiable by a non-trivial input (indented second line, blank first and last lines) … -/
example : ∀ l ∈ splitLines [10, 32, 32, 97, 13, 10, 32, 32, 32, 98, 10, 9], (l.length : Int) < maxsize := by decide
/-- … on which the translated source computes the dedented text `a\n b` -/
example : Tr.parse_block_string [10, 32, 32, 97, 13, 10, 32, 32, 32, 98, 10, 9] = .ok [97, 10, 32, 98] := by rfl

end PyGql.Props.C02

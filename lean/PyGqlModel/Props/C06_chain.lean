/-
  C06 - property theorems, part 35: **THE VERDICT OF THE CHAIN IS THE CONJUNCTION OF THE RULES RUN ALONE.**

  Every headline statement of C06 (`verdict_iff_all_memo`, `accepted_spec_valid_all_memo`, attribution, the invariance
  theorems) is about "every rule visitor, run ALONE (chain = TypeInfoVisitor + the rule), is silent". That the chain of
  all 26 visitors - what `validate_ast` runs, with `ChainedVisitor`'s `SkipNode` handling (a node a member skips is
  hidden from every member) - accepts exactly when each member alone does was so far only checked on the real code
  (`chain-does-not-decompose`); `Props/C06_skipreports.lean` named the missing piece: "obstacle (a) - the frame property
  of the 26 rules". Here it is proved:

    * `framed_enterRule`, `framed_enterRuleM`: every rule reads and writes only its own part of the rule state
      (`RS.own`), prepends only errors of its own to the shared list (`Lemmas/ValidateChainFrame*.lean`, 26 rules x 14
      node kinds), and a rule that raises `SkipNode` has just reported (`skip_reports`);
    * `chain_silent_iff_alone` (the chain of the theorems) and `chainM_silent_iff_alone` (the chain with the MEMOISED
      overlap search, what /repo runs; `SilentM`): the chain records no error iff every member alone records none - any
      list of pairwise different rules. Proof (`Lemmas/ValidateChainDecompose{,2,3}.lean`): as long as one side adds no
      error nobody skips (on the chain side by `skip_reports`, on the lone side because the flags are the same), and
      without skips the chain state and each lone state stay related node by node;
    * consequently the headline theorems become statements about the chain itself: `chainM_silent_iff_spec` (the chain
      /repo runs records no error iff the clauses of all 26 rules hold), `verdict_iff_alone` (`verdict = some true`),
      `chainM_six_transformations` (its verdict is invariant under the six transformations).
-/
import PyGqlModel.Props.C06_skipreports
import PyGqlModel.Props.C06_inv14
import PyGqlModel.Props.C06_overlap_memo_chain
import PyGqlModel.Lemmas.ValidateChainFrameE1
import PyGqlModel.Lemmas.ValidateChainFrameE1b
import PyGqlModel.Lemmas.ValidateChainFrameE2
import PyGqlModel.Lemmas.ValidateChainFrameE2b
import PyGqlModel.Lemmas.ValidateChainFrameE3
import PyGqlModel.Lemmas.ValidateChainDecompose5
import PyGqlModel.Lemmas.ValidateChainParCongr
import PyGqlModel.Lemmas.ValidateChainParEq
namespace PyGql.Props.C06
open PyGql PyGql.Validate PyGql.Validate.Spec

/-- **the frame property of the 26 rule visitors** (obstacle (a) of `Props/C06_balanced.lean`) -/
theorem framed_enterRule : Framed enterRule :=
  ⟨enterRule_flag, enterRule_own, enterRule_errs, enterRule_errs_mine, enterRule_put, skip_reports⟩

theorem enterRuleM_eq_of_ne (fuel : Nat) (s : SchemaD) (fx : Fixes) (r : Rule) (hr : r ≠ ovRule) (n : Node) (ti : TI)
    (a : RS) : enterRuleM fuel s fx r n ti a = enterRule s fx r n ti a := by
  cases r <;> first | rfl | exact absurd rfl hr

/-- the same with the memoised overlap search -/
theorem framed_enterRuleM (fuel : Nat) : Framed (enterRuleM fuel) where
  flag s fx r n ti a := by
    cases r <;> cases n <;> first | exact enterRule_flag s fx _ _ ti a | rfl
  own s fx r n ti a := by
    cases r <;> cases n <;> first
      | exact enterRule_own s fx _ _ ti a
      | (simp only [enterRuleM, RS.own, RS.errN] <;> (repeat' split) <;> simp_all)
  errs s fx r n ti a := by
    cases r <;> cases n <;> first
      | exact enterRule_errs s fx _ _ ti a
      | (simp only [enterRuleM, RS.own, RS.errN] <;> (repeat' split) <;> simp_all)
  mine s fx r n ti a := by
    cases r <;> cases n <;> first
      | exact enterRule_errs_mine s fx _ _ ti a
      | (simp only [enterRuleM, RS.own, RS.errN] <;> (repeat' split) <;> simp_all)
  put s fx r n ti a := by
    cases r <;> cases n <;> first
      | exact enterRule_put s fx _ _ ti a
      | (simp only [enterRuleM, RS.put, RS.errN] <;> (repeat' split) <;> rfl)
  skip s fx r n ti a h := by
    cases r <;> cases n <;> first
      | exact skip_reports s fx _ _ ti a h
      | (simp [enterRuleM] at h)

theorem rule_all_nodup : Rule.all.Nodup := by decide

/-- **the chain of the theorems records no error iff every member, run alone, is silent** -/
theorem chain_silent_iff_alone (s : SchemaD) (fx : Fixes) (rules : List Rule) (hnd : rules.Nodup) (d : Doc) :
    E (visitDocument ⟨s, fx, rules⟩ d {}) = 0 ↔ ∀ r ∈ rules, Silent s fx r d := by
  rw [← visitDocumentPar_eq, chainPar_silent_iff framed_enterRule ⟨s, fx, rules⟩ hnd d]
  constructor
  · intro h r hr
    unfold Silent alone
    rw [← visitDocumentPar_eq]
    exact h r hr
  · intro h r hr
    have := h r hr
    unfold Silent alone at this
    rw [← visitDocumentPar_eq] at this
    exact this

/-- every error the chain records belongs to a member -/
theorem chain_errs_in_rules (s : SchemaD) (fx : Fixes) (rules : List Rule) (d : Doc) :
    ∀ x ∈ (visitDocument ⟨s, fx, rules⟩ d {}).rs.errs, x ∈ rules := by
  have := (good_document framed_enterRule d).errsIn ⟨s, fx, rules⟩ {} (fun x hx => by cases hx)
  simp only [visitDocumentPar_eq] at this
  exact this

private theorem errs_nil_of_counts {errs : List Rule} {rules : List Rule} (hin : ∀ x ∈ errs, x ∈ rules)
    (h0 : ∀ r ∈ rules, countOf errs r = 0) : errs = [] := by
  cases errs with
  | nil => rfl
  | cons x xs =>
    exfalso
    have := h0 x (hin x (List.mem_cons_self ..))
    simp [countOf] at this

/-- **`verdict = some true` (what `validate_ast` returning no error means) iff no exception and every member alone is
    silent** -/
theorem verdict_iff_alone (s : SchemaD) (fx : Fixes) (rules : List Rule) (hnd : rules.Nodup) (d : Doc) :
    verdict ⟨s, fx, rules⟩ d = some true ↔
      (visitDocument ⟨s, fx, rules⟩ d {}).rs.crash = none ∧ ∀ r ∈ rules, Silent s fx r d := by
  rw [← chain_silent_iff_alone s fx rules hnd d]
  unfold verdict run
  simp only
  cases hc : (visitDocument ⟨s, fx, rules⟩ d {}).rs.crash with
  | some e => simp
  | none =>
    simp only [Option.some.injEq, List.all_eq_true, List.mem_map, forall_exists_index, and_imp, true_and]
    constructor
    · intro h
      have : (visitDocument ⟨s, fx, rules⟩ d {}).rs.errs = [] :=
        errs_nil_of_counts (chain_errs_in_rules s fx rules d) (fun r hr => by
          have := h (r, countOf (visitDocument ⟨s, fx, rules⟩ d {}).rs.errs r) r hr rfl
          simpa using this)
      simp [E, this]
    · intro h p r _ e
      subst e
      have : (visitDocument ⟨s, fx, rules⟩ d {}).rs.errs = [] := List.length_eq_zero_iff.mp h
      simp [this, countOf]

/-! ### the chain /repo runs (memoised overlap search) -/

/-- the lone run of a rule other than the overlap rule is the same in both chains -/
theorem aloneM_eq_alone (fuel : Nat) (s : SchemaD) (fx : Fixes) (r : Rule) (hr : r ≠ ovRule) (d : Doc) :
    visitDocumentPar (enterRuleM fuel) ⟨s, fx, [r]⟩ d {} = alone s fx r d := by
  rw [visitDocumentPar_congr (enterRuleM fuel) enterRule ⟨s, fx, [r]⟩ (fun r' hr' n ti a => by
    have : r' = r := by simpa using hr'
    subst this
    exact enterRuleM_eq_of_ne fuel s fx r' hr n ti a) d {}, visitDocumentPar_eq]
  rfl

/-- the lone run of the overlap rule in the memoised chain is `overlapMemoRun` -/
theorem aloneM_overlap (s : SchemaD) (fx : Fixes) (h7 : fx.v7 = true) (d : Doc) (hw : WfIds d) :
    E (visitDocumentPar (enterRuleM (memoFuel d)) ⟨s, fx, [ovRule]⟩ d {}) = 0 ↔ (overlapMemoRun s fx d).1 = 0 := by
  have h := runM_alone_eq s fx h7 d hw
  have hin := (good_document (framed_enterRuleM (memoFuel d)) d).errsIn ⟨s, fx, [ovRule]⟩ {} (fun x hx => by cases hx)
  unfold runM at h
  simp only at h
  cases hc : (visitDocumentPar (enterRuleM (memoFuel d)) ⟨s, fx, [ovRule]⟩ d {}).rs.crash with
  | some e => rw [hc] at h; cases h
  | none =>
    rw [hc] at h
    simp only [List.map_cons, List.map_nil, Outcome.errors.injEq, List.cons.injEq, Prod.mk.injEq, true_and, and_true] at h
    rw [← h]
    constructor
    · intro h0
      have : (visitDocumentPar (enterRuleM (memoFuel d)) ⟨s, fx, [ovRule]⟩ d {}).rs.errs = [] :=
        List.length_eq_zero_iff.mp h0
      simp [this, countOf]
    · intro h0
      have := errs_nil_of_counts (rules := [ovRule]) hin (fun r hr => by
        have : r = ovRule := by simpa using hr
        subst this; exact h0)
      simp [E, this]

/-- **the chain /repo runs (memoised overlap search inside, `SkipNode` handling of `ChainedVisitor`) records no error iff
    every rule alone is silent** (`SilentM`: the overlap rule alone is `overlapMemoRun`) -/
theorem chainM_silent_iff_alone (s : SchemaD) (fx : Fixes) (h7 : fx.v7 = true) (d : Doc) (hw : WfIds d) :
    E (visitDocumentPar (enterRuleM (memoFuel d)) ⟨s, fx, Rule.all⟩ d {}) = 0 ↔ ∀ r ∈ Rule.all, SilentM s fx r d := by
  rw [chainPar_silent_iff (framed_enterRuleM (memoFuel d)) ⟨s, fx, Rule.all⟩ rule_all_nodup d]
  refine forall_congr' fun r => forall_congr' fun _ => ?_
  show E (visitDocumentPar (enterRuleM (memoFuel d)) ⟨s, fx, [r]⟩ d {}) = 0 ↔ _
  by_cases ho : r = .overlappingFieldsCanBeMerged
  · subst ho
    rw [silentM_overlap]
    exact aloneM_overlap s fx h7 d hw
  · rw [silentM_of_ne ho, aloneM_eq_alone (memoFuel d) s fx r ho d]
    rfl

/-- the lone runs of the memoised chain are what `SilentM` speaks about -/
theorem aloneM_iff_silentM (s : SchemaD) (fx : Fixes) (h7 : fx.v7 = true) (d : Doc) (hw : WfIds d) (r : Rule) :
    E (visitDocumentPar (enterRuleM (memoFuel d)) ⟨s, fx, [r]⟩ d {}) = 0 ↔ SilentM s fx r d := by
  by_cases ho : r = .overlappingFieldsCanBeMerged
  · subst ho
    rw [silentM_overlap]
    exact aloneM_overlap s fx h7 d hw
  · rw [silentM_of_ne ho, aloneM_eq_alone (memoFuel d) s fx r ho d]
    rfl

/-- **ATTRIBUTION IN THE CHAIN /repo runs, from the lone runs**: if rule `r` alone reports and every other rule alone is
    silent, then the error list of the chain contains an error OF `r` (it may contain others: a skipping `r` hides nodes
    from the other members) -/
theorem chainM_attribution_alone (s : SchemaD) (fx : Fixes) (h7 : fx.v7 = true) (d : Doc) (hw : WfIds d) (r : Rule)
    (hr : r ∈ Rule.all) (hbad : ¬ SilentM s fx r d) (hothers : ∀ r' ∈ Rule.all, r' ≠ r → SilentM s fx r' d) :
    0 < countOf (visitDocumentPar (enterRuleM (memoFuel d)) ⟨s, fx, Rule.all⟩ d {}).rs.errs r :=
  chainPar_attribution (framed_enterRuleM (memoFuel d)) ⟨s, fx, Rule.all⟩ rule_all_nodup d r hr
    (fun h => hbad ((aloneM_iff_silentM s fx h7 d hw r).mp h))
    (fun r' hr' hne => (aloneM_iff_silentM s fx h7 d hw r').mpr (hothers r' hr' hne))

/-- **ATTRIBUTION (the property's clause), for the chain /repo runs**: a document that violates the clause of exactly one
    rule gets, in the error list of `validate_ast`'s chain, an error from the visitor OF THAT RULE. (`r ≠ uniqueFragmentNames`:
    with a duplicate fragment name NoFragmentCycles may report as well - the visible exception of `attribution_all_memo` -,
    then an error of one of the two is recorded.) -/
theorem chainM_attribution (s : SchemaD) (fx : Fixes) (hfx : HeadVars fx) (hs : SchemaOutputs s) (d : Doc)
    (hd : DocOkM s d) (r : Rule) (hr : r ∈ Rule.all) (hne : r ≠ .uniqueFragmentNames) (hbad : ¬ SpecAll r s fx d)
    (hothers : ∀ r' ∈ Rule.all, r' ≠ r → SpecAll r' s fx d) :
    0 < countOf (visitDocumentPar (enterRuleM (memoFuel d)) ⟨s, fx, Rule.all⟩ d {}).rs.errs r := by
  obtain ⟨h1, h2⟩ := attribution_all_memo s fx hfx hs d hd r hr hbad hothers
  exact chainM_attribution_alone s fx hfx.2.2.2 d ((wfIdsB_iff d).mp hd.checks.ids) r hr h1
    (fun r' hr' hne' => h2 r' hr' hne' (fun h => hne h.1))

/-- **the chain /repo runs records no error iff the clauses of all 26 rules hold** - `verdict_iff_all_memo` for the
    chain itself -/
theorem chainM_silent_iff_spec (s : SchemaD) (fx : Fixes) (hfx : HeadVars fx) (hs : SchemaOutputs s) (d : Doc)
    (hd : DocOkM s d) :
    E (visitDocumentPar (enterRuleM (memoFuel d)) ⟨s, fx, Rule.all⟩ d {}) = 0 ↔ ∀ r ∈ Rule.all, SpecAll r s fx d :=
  (chainM_silent_iff_alone s fx hfx.2.2.2 d ((wfIdsB_iff d).mp hd.checks.ids)).trans
    (verdict_iff_all_memo s fx hfx hs d hd)

/-- **valid by the clauses of all 26 rules ⇒ the chain /repo runs records no error** - no side condition of the merge rule:
    documents with `__schema { … }` / `__type { … }` sub-selections, any nesting depth and cyclic fragment tables included
    (only the parser's guarantees `WfIds`, non-empty fragment names) -/
theorem spec_valid_chainM_accepts (s : SchemaD) (fx : Fixes) (hfx : HeadVars fx) (d : Doc) (hw : WfIds d)
    (hne : NamesNonEmpty d) (h : ∀ r ∈ Rule.all, SpecAll r s fx d) :
    E (visitDocumentPar (enterRuleM (memoFuel d)) ⟨s, fx, Rule.all⟩ d {}) = 0 :=
  (chainM_silent_iff_alone s fx hfx.2.2.2 d hw).mpr (spec_valid_accepted_all_memo s fx hfx d hne h)

/-- **the chain /repo runs records no error ⇒ valid by the clauses of all 26 rules** (`DocOkM`) -/
theorem chainM_accepted_spec_valid (s : SchemaD) (fx : Fixes) (hfx : HeadVars fx) (hs : SchemaOutputs s) (d : Doc)
    (hd : DocOkM s d) (h : E (visitDocumentPar (enterRuleM (memoFuel d)) ⟨s, fx, Rule.all⟩ d {}) = 0) :
    ∀ r ∈ Rule.all, SpecAll r s fx d :=
  (chainM_silent_iff_spec s fx hfx hs d hd).mp h

/-- **the chain /repo runs gives the same verdict before and after each of the six transformations** (each run with
    the recursion budget of its own document) -/
theorem chainM_six_transformations (s : SchemaD) (fx : Fixes) (hfx : HeadVars fx) (hs : SchemaOutputs s) (d : Doc)
    (hd : DocOkM s d) :
    let Accepts := fun d => E (visitDocumentPar (enterRuleM (memoFuel d)) ⟨s, fx, Rule.all⟩ d {}) = 0
    (∀ d', d.defs.Perm d'.defs → (Accepts d ↔ Accepts d')) ∧
    (∀ T : Tr, (∀ a b, T.frag a = T.frag b → a = b) → NamesNonEmpty (T.doc d) → (Accepts (T.doc d) ↔ Accepts d)) ∧
    (∀ (A : Al) (ρ : String → String), A.Renames ρ → (∀ a b, ρ a = ρ b → a = b) → A.RenamesOn ρ d →
      (Accepts (A.doc d) ↔ Accepts d)) ∧
    (∀ V : Vr, (∀ a b, V.var a = V.var b → a = b) → (Accepts (V.doc d) ↔ Accepts d)) := by
  have hw : WfIds d := (wfIdsB_iff d).mp hd.checks.ids
  have h7 := hfx.2.2.2
  obtain ⟨p1, p2, p3, p4⟩ := six_transformations_verdict_memo s fx hfx hs d hd
  refine ⟨fun d' h => ?_, fun T hinj hne' => ?_, fun A ρ hA hρ hA' => ?_, fun V hinj => ?_⟩
  · simp only
    rw [chainM_silent_iff_alone s fx h7 d hw, chainM_silent_iff_alone s fx h7 d' (wfIds_perm h hw)]
    exact p1 d' h
  · simp only
    rw [chainM_silent_iff_alone s fx h7 d hw, chainM_silent_iff_alone s fx h7 (T.doc d) ((T.wfIds d).mpr hw)]
    exact p2 T hinj hne'
  · simp only
    rw [chainM_silent_iff_alone s fx h7 d hw, chainM_silent_iff_alone s fx h7 (A.doc d) ((A.wfIds d).mpr hw)]
    exact p3 A ρ hA hρ hA'
  · simp only
    rw [chainM_silent_iff_alone s fx h7 d hw, chainM_silent_iff_alone s fx h7 (V.doc d) ((V.wfIds d).mpr hw)]
    exact p4 V hinj

/-- every error the chain /repo runs records belongs to a member -/
theorem chainM_errs_in_rules (fuel : Nat) (s : SchemaD) (fx : Fixes) (rules : List Rule) (d : Doc) :
    ∀ x ∈ (visitDocumentPar (enterRuleM fuel) ⟨s, fx, rules⟩ d {}).rs.errs, x ∈ rules :=
  (good_document (framed_enterRuleM fuel) d).errsIn ⟨s, fx, rules⟩ {} (fun x hx => by cases hx)

/-- the verdict of the model the driver answers with (`runM`, compared with `validate_ast` on every document):
    `some true` = no error, `none` = an exception -/
def verdictM (c : Cfg) (d : Doc) : Option Bool :=
  match runM (memoFuel d) c d with
  | .crash _ => none
  | .errors l => some (l.all fun p => p.2 == 0)

/-- **`verdictM = some true` iff no exception and every rule alone is silent** -/
theorem verdictM_iff_alone (s : SchemaD) (fx : Fixes) (h7 : fx.v7 = true) (d : Doc) (hw : WfIds d) :
    verdictM ⟨s, fx, Rule.all⟩ d = some true ↔
      (visitDocumentPar (enterRuleM (memoFuel d)) ⟨s, fx, Rule.all⟩ d {}).rs.crash = none ∧
        ∀ r ∈ Rule.all, SilentM s fx r d := by
  rw [← chainM_silent_iff_alone s fx h7 d hw]
  unfold verdictM runM
  simp only
  cases hc : (visitDocumentPar (enterRuleM (memoFuel d)) ⟨s, fx, Rule.all⟩ d {}).rs.crash with
  | some e => simp
  | none =>
    simp only [Option.some.injEq, List.all_eq_true, List.mem_map, forall_exists_index, and_imp, true_and]
    constructor
    · intro h
      have : (visitDocumentPar (enterRuleM (memoFuel d)) ⟨s, fx, Rule.all⟩ d {}).rs.errs = [] :=
        errs_nil_of_counts (chainM_errs_in_rules (memoFuel d) s fx Rule.all d) (fun r hr => by
          have := h (r, countOf (visitDocumentPar (enterRuleM (memoFuel d)) ⟨s, fx, Rule.all⟩ d {}).rs.errs r) r hr rfl
          simpa using this)
      simp [E, this]
    · intro h p r _ e
      subst e
      have : (visitDocumentPar (enterRuleM (memoFuel d)) ⟨s, fx, Rule.all⟩ d {}).rs.errs = [] :=
        List.length_eq_zero_iff.mp h
      simp [this, countOf]

/-- **the model's verdict is "accepted" iff validation raises nothing and the clauses of all 26 rules hold**
    (`FullStatement_verdict_iff` of `Props/C06_inv.lean`, for the chain /repo runs, with the hypotheses of the headline
    theorems) -/
theorem verdictM_iff_spec (s : SchemaD) (fx : Fixes) (hfx : HeadVars fx) (hs : SchemaOutputs s) (d : Doc)
    (hd : DocOkM s d) :
    verdictM ⟨s, fx, Rule.all⟩ d = some true ↔
      (visitDocumentPar (enterRuleM (memoFuel d)) ⟨s, fx, Rule.all⟩ d {}).rs.crash = none ∧
        ∀ r ∈ Rule.all, SpecAll r s fx d := by
  rw [verdictM_iff_alone s fx hfx.2.2.2 d ((wfIdsB_iff d).mp hd.checks.ids), verdict_iff_all_memo s fx hfx hs d hd]

/-- **THE HEADLINE, for the code of /repo HEAD**: the model's verdict on a document - the chain of all 26 visitors with the
    memoised overlap search and `ChainedVisitor`'s `SkipNode` handling, compared with `validate_ast` on every generated
    document - is "accepted" iff validation raises nothing and the document satisfies the clause of every one of the 26
    rules, 5.5.1.4 in its proper form (`SpecStd`). Hypotheses: `SchemaOutputs s` (schema validation) and `DocOkM` (the
    parser's guarantees `wfIdsB`, non-empty fragment names; `noMetaSubsB`: no `__schema { … }` / `__type { … }`). The
    conjunct "raises nothing" cannot be dropped: that the chain never raises is not proved (C05). -/
theorem verdict_chain_iff (s : SchemaD) (hs : SchemaOutputs s) (d : Doc) (hd : DocOkM s d) :
    verdictM ⟨s, Fixes.all, Rule.all⟩ d = some true ↔
      (visitDocumentPar (enterRuleM (memoFuel d)) ⟨s, Fixes.all, Rule.all⟩ d {}).rs.crash = none ∧
        ∀ r ∈ Rule.all, SpecStd r s Fixes.all d := by
  rw [verdictM_iff_alone s Fixes.all rfl d ((wfIdsB_iff d).mp hd.checks.ids),
    verdict_iff_all_memo_std s Fixes.all headVars_all hs d hd]

/-- the same for `verdict` (the chain with the UN-memoised overlap search, the code before fix 7e75356; `DocOk` adds the
    static rank check) -/
theorem verdict_iff_spec (s : SchemaD) (fx : Fixes) (hfx : HeadVars fx) (hs : SchemaOutputs s) (d : Doc) (hd : DocOk s d) :
    verdict ⟨s, fx, Rule.all⟩ d = some true ↔
      (visitDocument ⟨s, fx, Rule.all⟩ d {}).rs.crash = none ∧ ∀ r ∈ Rule.all, SpecAll r s fx d := by
  rw [verdict_iff_alone s fx Rule.all rule_all_nodup d, verdict_iff_all s fx hfx hs d hd]

/-- **the lone run of the memoised overlap rule: valid ⇒ no error AND no exception** (`Silent` / `SilentM` alone say nothing
    about the exception flag) -/
theorem overlap_memo_accepts_and_no_crash (s : SchemaD) (fx : Fixes) (h7 : fx.v7 = true) (d : Doc) (hw : WfIds d)
    (H : Spec.overlappingFieldsCanBeMerged s d) :
    (overlapMemoRun s fx d).1 = 0 ∧ (overlapMemoRun s fx d).2.crash = none :=
  ⟨overlap_memo_no_false_alarm s fx h7 d H, overlap_memo_run_no_crash s fx h7 d hw⟩

/-! non-vacuity: the two-fragment document; both sides of `chainM_silent_iff_alone` hold for it (by evaluation) -/
example : (visitDocumentPar (enterRuleM (memoFuel (oDocFrag "a"))) ⟨oSchema, Fixes.all, Rule.all⟩ (oDocFrag "a") {}).rs.crash = none := by
  decide +kernel
example : verdictM ⟨oSchema, Fixes.all, Rule.all⟩ (oDocFrag "a") = some true := by decide +kernel
example : verdictM ⟨oSchema, Fixes.all, Rule.all⟩ (oDocFrag "b") = some false := by decide +kernel
example : E (visitDocumentPar (enterRuleM (memoFuel (oDocFrag "a"))) ⟨oSchema, Fixes.all, Rule.all⟩ (oDocFrag "a") {}) = 0 := by
  decide +kernel
example : ∀ r ∈ Rule.all, SilentM oSchema Fixes.all r (oDocFrag "a") :=
  (chainM_silent_iff_alone oSchema Fixes.all rfl (oDocFrag "a") (by rw [← wfIdsB_iff]; decide)).mp (by decide +kernel)

/-- attribution on the conflicting two-fragment document: only the clause of 5.3.2 fails (evaluated: the other 25 rules are
    silent alone), and the chain records an error of OverlappingFieldsCanBeMerged -/
example : 0 < countOf (visitDocumentPar (enterRuleM (memoFuel (oDocFrag "b"))) ⟨oSchema, Fixes.all, Rule.all⟩
    (oDocFrag "b") {}).rs.errs .overlappingFieldsCanBeMerged :=
  chainM_attribution_alone oSchema Fixes.all rfl (oDocFrag "b") (by rw [← wfIdsB_iff]; decide) _ (by decide)
    (by rw [silentM_overlap]; decide +kernel)
    (by
      intro r' hr' hne
      rw [silentM_of_ne hne]
      revert r' 
      unfold Silent
      decide +kernel)

end PyGql.Props.C06

/-
  C20 — property theorems (type level). Stated about the definitions TRANSLATED
  from `src/py_gql/schema/differ/__init__.py` on every run.
-/
import PyGqlModel.Differ

set_option linter.unusedSimpArgs false
set_option linter.unusedVariables false

namespace PyGql.Props.C20
open PyGql PyGql.Differ PyGql.Generated.Differ

/-! #### helper facts (local) -/

private theorem iter_in (k : Nat) : ∀ o n : Ty, o.size + n.size ≤ k → (iter k).1 o n = sub o n := by
  induction k with
  | zero => intro o n h; have := o.size_pos; omega
  | succ k ih =>
    intro o n h
    cases o with
    | named a =>
      cases n <;> simp [iter, safeInStep, Ty.isNamed, Ty.isList, Ty.isNonNull, Ty.name, sub]
    | list a =>
      cases n with
      | list b =>
        simp only [iter, safeInStep, Ty.isNamed, Ty.isList, Ty.isNonNull, Ty.inner, sub]
        simp only [Ty.size] at h
        simp [ih a b (by omega)]
      | _ => simp [iter, safeInStep, Ty.isNamed, Ty.isList, Ty.isNonNull, sub]
    | nonNull a =>
      simp only [Ty.size] at h
      cases n with
      | named b =>
        simp only [iter, safeInStep, Ty.isNamed, Ty.isList, Ty.isNonNull, Ty.inner, sub]
        simp [ih a (.named b) (by simp [Ty.size] at *; omega)]
      | list b =>
        simp only [iter, safeInStep, Ty.isNamed, Ty.isList, Ty.isNonNull, Ty.inner, sub]
        simp [ih a (.list b) (by simp [Ty.size] at *; omega)]
      | nonNull b =>
        simp only [iter, safeInStep, Ty.isNamed, Ty.isList, Ty.isNonNull, Ty.inner, sub]
        simp only [Ty.size] at h
        simp [ih a b (by omega)]

/-- a non-null witness value of every type -/
private def wit : Ty → Val
  | .named n => .leaf n
  | .list _ => .list []
  | .nonNull t => wit t

private theorem acc_wit (t : Ty) : acc t (wit t) = true := by
  induction t with
  | named n => simp [wit, acc]
  | list t _ => simp [wit, acc]
  | nonNull t ih =>
    cases h : wit t with
    | null => simp [wit, h] at ih ⊢; cases t <;> simp_all [wit, acc]
    | leaf m => simp [wit, h, acc] at ih ⊢; exact ih
    | list vs => simp [wit, h, acc] at ih ⊢; exact ih

private theorem acc_nonNull (t : Ty) (v : Val) : acc (.nonNull t) v = (acc t v && match v with | .null => false | _ => true) := by
  cases v <;> simp [acc]

private theorem sub_sound : ∀ a b : Ty, sub a b = true → ∀ v, acc a v = true → acc b v = true := by
  intro a
  induction a with
  | named x =>
    intro b h v hv
    cases b <;> simp [sub] at h
    subst h; exact hv
  | list t ih =>
    intro b h v hv
    cases b with
    | list u =>
      simp [sub] at h
      cases v with
      | null => simp [acc]
      | leaf m => simp [acc] at hv
      | list vs =>
        simp only [acc, List.all_eq_true] at hv ⊢
        intro x hx; exact ih u h x (hv x hx)
    | _ => simp [sub] at h
  | nonNull t ih =>
    intro b h v hv
    have hv' : acc t v = true ∧ v ≠ .null := by
      cases v <;> simp_all [acc]
    cases b with
    | named y => exact ih _ (by simpa [sub] using h) v hv'.1
    | list u => exact ih _ (by simpa [sub] using h) v hv'.1
    | nonNull u =>
      have := ih u (by simpa [sub] using h) v hv'.1
      cases v <;> simp_all [acc]

private theorem acc_null_of_not_nonNull (u : Ty) (h : u.isNonNull = false) : acc u .null = true := by
  cases u <;> simp_all [acc, Ty.isNonNull]

private theorem sub_complete : ∀ a b : Ty, a.wf = true → b.wf = true →
    (∀ v, acc a v = true → acc b v = true) → sub a b = true := by
  intro a
  induction a with
  | named x =>
    intro b _ _ h
    cases b with
    | named y =>
      have := h (.leaf x) (by simp [acc])
      simp [acc] at this; simp [sub, this]
    | list u => have := h (.leaf x) (by simp [acc]); simp [acc] at this
    | nonNull u => have := h .null (by simp [acc]); simp [acc] at this
  | list t ih =>
    intro b wa wb h
    cases b with
    | named y => have := h (.list []) (by simp [acc]); simp [acc] at this
    | nonNull u => have := h .null (by simp [acc]); simp [acc] at this
    | list u =>
      simp only [sub]
      apply ih u (by simpa [Ty.wf] using wa) (by simpa [Ty.wf] using wb)
      intro v hv
      have := h (.list [v]) (by simp [acc, hv])
      simpa [acc] using this
  | nonNull t ih =>
    intro b wa wb h
    have wt : t.wf = true ∧ t.isNonNull = false := by
      simp [Ty.wf] at wa; exact ⟨wa.2, wa.1⟩
    cases b with
    | nonNull u =>
      have wu : u.wf = true ∧ u.isNonNull = false := by
        simp [Ty.wf] at wb; exact ⟨wb.2, wb.1⟩
      simp only [sub]; apply ih u wt.1 wu.1
      intro v hv
      cases v with
      | null => exact acc_null_of_not_nonNull u wu.2
      | leaf m => have := h (.leaf m) (by simpa [acc] using hv); simpa [acc] using this
      | list vs => have := h (.list vs) (by simpa [acc] using hv); simpa [acc] using this
    | named y =>
      simp only [sub]; apply ih _ wt.1 wb; intro v hv
      cases v with
      | null => simp [acc]
      | leaf m => exact h _ (by simpa [acc] using hv)
      | list vs => exact h _ (by simpa [acc] using hv)
    | list u =>
      simp only [sub]; apply ih _ wt.1 wb; intro v hv
      cases v with
      | null => simp [acc]
      | leaf m => exact h _ (by simpa [acc] using hv)
      | list vs => exact h _ (by simpa [acc] using hv)


private theorem iter_out_listFree (k : Nat) : ∀ o n : Ty, o.size + n.size ≤ k →
    listFree o = true → listFree n = true → (iter k).2 o n = sub n o := by
  induction k with
  | zero => intro o n h; have := o.size_pos; omega
  | succ k ih =>
    intro o n h lo ln
    cases o with
    | named a =>
      cases n with
      | named b =>
        simp [iter, safeOutStep, Ty.isNamed, Ty.isList, Ty.isNonNull, Ty.name, sub]
        exact Bool.beq_comm
      | list b => simp [listFree] at ln
      | nonNull b =>
        simp only [iter, safeOutStep, Ty.isNamed, Ty.isList, Ty.isNonNull, Ty.inner, Ty.name, sub]
        simp only [Ty.size] at h
        simp [ih (.named a) b (by simp [Ty.size] at *; omega) (by simp [listFree]) (by simpa [listFree] using ln)]
    | list a => simp [listFree] at lo
    | nonNull a =>
      simp only [Ty.size] at h
      cases n with
      | named b => simp [iter, safeOutStep, Ty.isNamed, Ty.isList, Ty.isNonNull, sub]
      | list b => simp [listFree] at ln
      | nonNull b =>
        simp only [iter, safeOutStep, Ty.isNamed, Ty.isList, Ty.isNonNull, Ty.inner, sub]
        simp only [Ty.size] at h
        simp [ih a b (by omega) (by simpa [listFree] using lo) (by simpa [listFree] using ln)]

/-! ## Property theorems -/

/-- The translated input predicate computes exactly the strictness order `sub`. -/
theorem safeIn_eq_sub (o n : Ty) : safeIn o n = sub o n :=
  iter_in _ o n (Nat.le_refl _)

/-- **Input positions (sound, all type expressions).** A change the differ classifies as safe
    for an argument / input field keeps every previously accepted value acceptable. -/
theorem safeIn_sound (o n : Ty) (h : safeIn o n = true) : InCompat o n := by
  rw [safeIn_eq_sub] at h; exact sub_sound o n h

/-- **Input positions (exact for `InCompat`, i.e. type expressions read WITHOUT list input coercion).** On well-formed
    type expressions the differ reports an input type change as safe *exactly* when the new type accepts every value
    the old one did, a single value NOT counting as a one-element list. With list coercion the predicate is sound but
    conservative: `Int` → `[Int]` is called unsafe (`safeIn_sound_coercion`, `safeIn_not_exact_with_list_coercion`,
    Props/C20_coercion.lean; `diff_schema` reports it BREAKING - and a variable `$v: Int` at that position does break). -/
theorem safeIn_iff (o n : Ty) (wo : o.wf = true) (wn : n.wf = true) :
    safeIn o n = true ↔ InCompat o n := by
  rw [safeIn_eq_sub]
  exact ⟨sub_sound o n, sub_complete o n wo wn⟩

/-- **Output positions, list-free types (exact).** Without list wrappers the output predicate is
    exactly "the new type only produces values legal for the old type".
    PARTIAL: the full statement (`SafeOutFull` below) is false on today's tree — finding G1. -/
theorem safeOut_iff_partial (o n : Ty) (wo : o.wf = true) (wn : n.wf = true)
    (lo : listFree o = true) (ln : listFree n = true) :
    safeOut o n = true ↔ OutCompat o n := by
  unfold safeOut
  rw [iter_out_listFree _ o n (Nat.le_refl _) lo ln]
  exact ⟨sub_sound n o, sub_complete n o wn wo⟩

/-- The full-strength statement for output positions (kept visible; NOT a theorem today). -/
def SafeOutFull : Prop :=
  ∀ o n : Ty, o.wf = true → n.wf = true → (safeOut o n = true ↔ OutCompat o n)

/-- Finding G1, machine-checked: `[Int!]` → `[Int]` is classified safe in output position although
    the new type can produce `[null]`, which the old type excludes. -/
theorem safeOut_full_fails_today : ¬ SafeOutFull := by
  intro h
  have h1 := (h (.list (.nonNull (.named "Int"))) (.list (.named "Int")) (by decide) (by decide)).1 (by decide)
  have := h1 (.list [.null]) (by decide)
  exact absurd this (by decide)

/-! ### output positions on ALL type expressions: the exclusion of finding G1 as an explicit predicate -/

/-- **the G1 class**: following `_is_safe_output_type_change` down the two type expressions (non-null wrappers are
    peeled in step, an added non-null is peeled from the new type), a list is met on both sides whose ITEM types are
    strictly comparable: they differ, and one is at least as strict as the other (they "differ only in nullability
    somewhere"). E.g. `[Int!]` / `[Int]`, `[[Int!]]!` / `[[Int]]`. Exactly there the code applies the input rule to an
    output position. -/
def g1Pair : Ty → Ty → Bool
  | .named _, .named _ => false
  | .named a, .nonNull b => g1Pair (.named a) b
  | .named _, .list _ => false
  | .list a, .list b => sub a b != sub b a
  | .list a, .nonNull b => g1Pair (.list a) b
  | .list _, .named _ => false
  | .nonNull a, .nonNull b => g1Pair a b
  | .nonNull _, .named _ => false
  | .nonNull _, .list _ => false

private theorem iter_out_exact (k : Nat) : ∀ o n : Ty, o.size + n.size ≤ k →
    (iter k).2 o n = (sub n o != g1Pair o n) := by
  induction k with
  | zero => intro o n h; have := o.size_pos; omega
  | succ k ih =>
    intro o n h
    cases o with
    | named a =>
      cases n with
      | named b =>
        simp [iter, safeOutStep, Ty.isNamed, Ty.isList, Ty.isNonNull, Ty.name, sub, g1Pair]
        exact Bool.beq_comm
      | list b => simp [iter, safeOutStep, Ty.isNamed, Ty.isList, Ty.isNonNull, Ty.name, sub, g1Pair]
      | nonNull b =>
        simp only [iter, safeOutStep, Ty.isNamed, Ty.isList, Ty.isNonNull, Ty.inner, Ty.name, sub, g1Pair]
        simp only [Ty.size] at h
        simp [ih (.named a) b (by simp [Ty.size] at *; omega)]
    | list a =>
      simp only [Ty.size] at h
      cases n with
      | named b => simp [iter, safeOutStep, Ty.isNamed, Ty.isList, Ty.isNonNull, sub, g1Pair]
      | list b =>
        simp only [iter, safeOutStep, Ty.isNamed, Ty.isList, Ty.isNonNull, Ty.inner, sub, g1Pair]
        simp only [Ty.size] at h
        rw [iter_in k a b (by omega)]
        cases sub a b <;> cases sub b a <;> rfl
      | nonNull b =>
        simp only [iter, safeOutStep, Ty.isNamed, Ty.isList, Ty.isNonNull, Ty.inner, sub, g1Pair]
        simp only [Ty.size] at h
        simp [ih (.list a) b (by simp [Ty.size] at *; omega)]
    | nonNull a =>
      simp only [Ty.size] at h
      cases n with
      | named b => simp [iter, safeOutStep, Ty.isNamed, Ty.isList, Ty.isNonNull, sub, g1Pair]
      | list b => simp [iter, safeOutStep, Ty.isNamed, Ty.isList, Ty.isNonNull, sub, g1Pair]
      | nonNull b =>
        simp only [iter, safeOutStep, Ty.isNamed, Ty.isList, Ty.isNonNull, Ty.inner, sub, g1Pair]
        simp only [Ty.size] at h
        simp [ih a b (by omega)]

/-- **The translated output predicate, exactly**: it is the strictness order read backwards (`sub new old`: the
    new type is at least as strict as the old one) with the verdict FLIPPED on the G1 class, on all type expressions. -/
theorem safeOut_eq (o n : Ty) : safeOut o n = (sub n o != g1Pair o n) :=
  iter_out_exact _ o n (Nat.le_refl _)

/-- **Output positions (exact) outside the G1 class**, lists included: the differ reports an output type change
    as safe exactly when the new type only produces values legal for the old type. -/
theorem safeOut_iff_outside_G1 (o n : Ty) (wo : o.wf = true) (wn : n.wf = true) (hg : g1Pair o n = false) :
    safeOut o n = true ↔ OutCompat o n := by
  rw [safeOut_eq, hg]
  have : (sub n o != false) = sub n o := by cases sub n o <;> rfl
  rw [this, ← safeIn_eq_sub]
  exact safeIn_iff n o wn wo

/-- **...and the exclusion is tight**: on every pair of the G1 class the verdict is wrong (either an unsafe change is
    classified safe, `[Int!]` -> `[Int]`, or a safe one is reported as BREAKING, `[Int]` -> `[Int!]`). -/
theorem safeOut_wrong_on_G1 (o n : Ty) (wo : o.wf = true) (wn : n.wf = true) (hg : g1Pair o n = true) :
    ¬ (safeOut o n = true ↔ OutCompat o n) := by
  intro h
  have e : (safeOut o n = true) ↔ ¬ (sub n o = true) := by
    rw [safeOut_eq, hg]; cases sub n o <;> simp
  have c : OutCompat o n ↔ sub n o = true := by
    rw [← safeIn_eq_sub]; exact (safeIn_iff n o wn wo).symm
  rw [e, c] at h
  by_cases hs : sub n o = true
  · exact (h.mpr hs) hs
  · exact hs (h.mp hs)

/-- list-free pairs are outside the G1 class (so `safeOut_iff_partial` is an instance of `safeOut_iff_outside_G1`) -/
theorem g1Pair_listFree (o n : Ty) (lo : listFree o = true) : g1Pair o n = false := by
  induction n generalizing o with
  | named b => cases o <;> simp [g1Pair]
  | list b _ => cases o <;> simp_all [g1Pair, listFree]
  | nonNull b ih =>
    cases o with
    | named a => simp only [g1Pair]; exact ih _ lo
    | list a => simp [listFree] at lo
    | nonNull a => simp only [g1Pair]; exact ih _ (by simpa [listFree] using lo)

/-! non-vacuity: pairs with lists outside the class, and both kinds of wrong verdict inside it -/
example : g1Pair (.list (.named "Int")) (.nonNull (.list (.named "Int"))) = false
    ∧ safeOut (.list (.named "Int")) (.nonNull (.list (.named "Int"))) = true := by decide
example : g1Pair (.list (.nonNull (.named "Int"))) (.list (.named "Int")) = true
    ∧ safeOut (.list (.nonNull (.named "Int"))) (.list (.named "Int")) = true := by decide
example : g1Pair (.list (.named "Int")) (.list (.nonNull (.named "Int"))) = true
    ∧ safeOut (.list (.named "Int")) (.list (.nonNull (.named "Int"))) = false := by decide
example : g1Pair (.list (.named "Int")) (.list (.named "String")) = false := by decide

/-- classes whose edit removes a client-visible element or narrows a contract -/
def mustBeBreaking : List String :=
  ["TypeChangedKind", "TypeRemoved", "TypeRemovedFromUnion", "TypeRemovedFromInterface",
   "EnumValueRemoved", "DirectiveRemoved", "DirectiveLocationRemoved", "DirectiveArgumentRemoved",
   "DirectiveArgumentChangedType", "FieldArgumentRemoved", "FieldArgumentChangedType",
   "FieldChangedType", "FieldRemoved", "InputFieldRemoved", "InputFieldChangedType",
   "RootTypeChanged", "RootTypeRemoved"]

def breakingWhenRequired : List String :=
  ["DirectiveArgumentAdded", "FieldArgumentAdded", "InputFieldAdded",
   -- `required` = the element BECOMES required because its default value was removed (repair G3)
   "DirectiveArgumentDefaultValueChange", "FieldArgumentDefaultValueChange", "InputFieldDefaultValueChange"]

def severityTableOk : Bool :=
  mustBeBreaking.all (fun c => severityOf c false == some sevBreaking && severityOf c true == some sevBreaking)
  && breakingWhenRequired.all (fun c => severityOf c true == some sevBreaking)

/-- **Severity table** (extracted from `changes.py` on every run): every change class that removes
    or narrows something a client can depend on is BREAKING; adding a *required* argument or input
    field is BREAKING. -/
theorem severity_table : severityTableOk = true := by decide

/-! ### non-vacuity -/
example : safeIn (.nonNull (.named "Int")) (.named "Int") = true := by decide
example : safeIn (.named "Int") (.nonNull (.named "Int")) = false := by decide
example : (Ty.list (.nonNull (.named "Int"))).wf = true ∧ InCompat (.nonNull (.named "A")) (.named "A") :=
  ⟨by decide, safeIn_sound _ _ (by decide)⟩
example : safeOut (.named "Int") (.nonNull (.named "Int")) = true := by decide

end PyGql.Props.C20

/-
  C12 — towards `build doc = build (doc.map eraseCustom)`: the builder model reads the directive applications of a
  definition ONLY through `deprecationReason` (fields, enum values; `buildField`, `buildFieldX`, `buildEnumValue`), and that
  reader ignores applications of non-specified directives.  Proved here for the readers themselves; the lift through the
  environment (`Env.of` stores the definitions; default values are coerced against it) is done in `C12_custom_build.lean`
  for every document the printer denotes (`print_build_roundtrip_custom`).  For ARBITRARY documents (extensions, several
  blocks) the statement `BuildIgnoresCustomStatement` is PROVED in `Props/C12_erase_all.lean` (`build_ignores_custom`); it
  is also evaluated by the driver on every printed document with applied directives (op `printTA`, key `buildErased`).
-/
import PyGqlModel.SdlPrintTA
namespace PyGql.Props.C12
open PyGql PyGql.Sdl PyGql.SdlPrintTA

/-- the builder ignores applications of non-specified directives (proved: `build_ignores_custom`, `Props/C12_erase_all.lean`) -/
def BuildIgnoresCustomStatement : Prop := ∀ doc : Doc, build doc = build (doc.map eraseCustom)

private theorem find?_filter_of_imp {α} (p q : α → Bool) (l : List α) (h : ∀ x, p x = true → q x = true) :
    (l.filter q).find? p = l.find? p := by
  induction l with
  | nil => rfl
  | cons x xs ih =>
    by_cases hq : q x = true
    · simp only [List.filter_cons, hq, if_true, List.find?_cons, ih]
    · have hp : p x = false := by
        cases hpx : p x with
        | false => rfl
        | true => exact absurd (h x hpx) hq
      simp only [List.filter_cons, hq, Bool.false_eq_true, if_false, List.find?_cons, hp, ih]

/-- `_deprecation_reason` looks for `@deprecated` only: custom applications are invisible to it -/
theorem deprecationReason_erase (dirs : List DirApp) : deprecationReason (dirs.filter isSpecified) = deprecationReason dirs := by
  unfold deprecationReason
  rw [find?_filter_of_imp]
  intro x hx
  have : x.name = "deprecated" := by simpa using hx
  simp [isSpecified, specifiedDirectives, this]

theorem buildArgument_erase (env : Env) (a : InputValDef) : buildArgument env (eraseIV a) = buildArgument env a := rfl

theorem buildArgumentX_erase (eB eX : Env) (hide : Option String) (a : InputValDef) :
    buildArgumentX eB eX hide (eraseIV a) = buildArgumentX eB eX hide a := rfl

private theorem mapM_map_erase {β} (g : InputValDef → R β) (h : ∀ a, g (eraseIV a) = g a) :
    ∀ l : List InputValDef, (l.map eraseIV).mapM g = l.mapM g
  | [] => rfl
  | a :: as => by simp only [List.map_cons, List.mapM_cons, h a, mapM_map_erase g h as]

theorem buildField_erase (env : Env) (f : FieldDef) : buildField env (eraseField f) = buildField env f := by
  simp only [buildField, eraseField, mapM_map_erase _ (buildArgument_erase env), deprecationReason_erase]

theorem buildFieldX_erase (eB eX : Env) (hide : Option String) (f : FieldDef) :
    buildFieldX eB eX hide (eraseField f) = buildFieldX eB eX hide f := by
  simp only [buildFieldX, eraseField, mapM_map_erase _ (buildArgumentX_erase eB eX hide), deprecationReason_erase]

theorem buildEnumValue_erase (v : EnumValDef) : buildEnumValue (eraseEnumVal v) = buildEnumValue v := by
  simp only [buildEnumValue, eraseEnumVal, deprecationReason_erase]

/-- non-vacuity: a field with `@deprecated(reason:)` between two custom applications keeps its reason -/
def erasedExampleField : FieldDef :=
  { name := "f", type := Ty.named "Int",
    dirs := [({ name := "tag" } : DirApp), { name := "deprecated", args := [("reason", Lit.str "old")] }, { name := "other" }] }

example : buildField (Env.of []) (eraseField erasedExampleField) = buildField (Env.of []) erasedExampleField :=
  buildField_erase _ _
example : (eraseField erasedExampleField).dirs.length = 1 ∧ erasedExampleField.dirs.length = 3 := by decide

end PyGql.Props.C12

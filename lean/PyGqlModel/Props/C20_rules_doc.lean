/-
  C20 — "whenever no breaking change is reported, every operation valid against the old schema is valid against
  the new one", for the schema-dependent rules of the C06 SPECIFICATION (the predicates of `Spec/ValidSpec.lean`,
  `Spec/TypedNodes.lean`, `Spec/CtxNodes.lean` that the C06 theorems `rule_*_iff` tie to the validator model).

  `operations_stay_valid_rules`: if `diff_schema(old, new, min_severity=BREAKING)` is empty, a document that
  satisfies the rules below on `old` satisfies each of them on `new`:

    covered (8 of the 26 rules here + PossibleFragmentSpreads by `nobreaking_possibleFragmentSpreads` below = 9; with the 12 rules that do not look at the schema - ExecutableDefinitions,
    UniqueOperationNames, LoneAnonymousOperation, SingleFieldSubscriptions, UniqueArgumentNames,
    UniqueDirectivesPerLocation, UniqueFragmentNames, KnownFragmentNames, NoFragmentCycles, NoUnusedFragments,
    UniqueInputFieldNames, UniqueVariableNames, NoUndefinedVariables, NoUnusedVariables - whose verdict cannot
    change with the schema):
      KnownTypeNames, VariablesAreInputTypes, FragmentsOnCompositeTypes, FieldsOnCorrectType, ScalarLeafs,
      KnownArgumentNames, ProvidedRequiredArguments, KnownDirectives
    covered elsewhere: ValuesOfCorrectType (`nobreaking_valuesOfCorrectType`, Props/C20_rules_values.lean) and
    VariablesInAllowedPosition (`nobreaking_variablesInAllowedPosition`, Props/C20_rules_vars.lean); all 25 together:
    `operations_stay_valid_rules_all` (Props/C20_rules_all.lean).
    NOT covered: OverlappingFieldsCanBeMerged (FALSE: finding G4).

  Hypothesis `OpsRooted`: every operation of the document has a root type in the OLD schema. It cannot be dropped:
  the validator accepts `mutation { foo }` on a schema WITHOUT a mutation type (no rule looks at it), and adding
  the mutation type is reported as `RootTypeAdded` (COMPATIBLE) — `unrooted_operation_refutes` (finding G6).
-/
import PyGqlModel.Props.C20_rules
import PyGqlModel.Spec.CtxNodes
import PyGqlModel.Lemmas.ValidateCtxInv
import PyGqlModel.Lemmas.ValidateCtxMap
import PyGqlModel.Lemmas.TypedEqView
import PyGqlModel.Lemmas.ValidateOverlapParents
import PyGqlModel.Lemmas.ValidateVarsAL
import PyGqlModel.Lemmas.ListEqv

set_option linter.unusedSimpArgs false
set_option linter.unusedVariables false

namespace PyGql.Props.C20
open PyGql PyGql.Differ PyGql.Diff PyGql.Validate PyGql.Validate.Spec

/-! ### the two views of a node, side by side -/

/-- context of a node: (static view in the old schema, static view in the new schema) -/
def pd (o n : SchemaD) (nd : Node) (x : View × View) : View × View := (View.enter o nd x.1, View.enter n nd x.2)

def TypeRel (o : SchemaD) (x y : Option Ty) : Prop :=
  (x = none ∧ y = none) ∨ ∃ t t', x = some t ∧ y = some t' ∧ t'.base = t.base ∧ isOutputTy o t = true
    ∧ safeOut t t' = true
def FieldRel (x y : Option FieldD) : Prop :=
  (x = none ∧ y = none) ∨ ∃ f f', x = some f ∧ y = some f' ∧ ArgsRel f.args f'.args
def DirRel (x y : Option DirectiveD) : Prop :=
  (x = none ∧ y = none) ∨ ∃ f f', x = some f ∧ y = some f' ∧ ArgsRel f.args f'.args

/-- the two views are compatible -/
structure VInv (o : SchemaD) (x : View × View) : Prop where
  parent : x.1.parent = x.2.parent
  comp : ∀ p, x.1.parent = some p → isComposite o p = true
  type : TypeRel o x.1.type x.2.type
  field : FieldRel x.1.field x.2.field
  directive : DirRel x.1.directive x.2.directive

/-- what the rules on the OLD schema say at one node (the part that keeps the views defined) -/
def OldOk (o : SchemaD) (p : Node × (View × View)) : Prop :=
  (∀ name args dirs hs, p.1 = .field name args dirs hs → p.2.1.parent.isSome = true → p.2.1.field.isSome = true) ∧
  (∀ dr, p.1 = .directive dr → (findDirective o dr.name).isSome = true) ∧
  (∀ on dirs, p.1 = .inline (some on) dirs → isComposite o on = true) ∧
  (∀ name on dirs, p.1 = .fragmentDef name on dirs → isComposite o on = true) ∧
  (∀ kind name vars dirs sels, p.1 = .operation kind name vars dirs sels → (rootType o kind).isSome = true)

private theorem kind_of_out {o : SchemaD} {t : Ty} (h : isOutputTy o t = true) : ∃ k, kindOf o t.base = some k := by
  unfold isOutputTy at h
  cases hk : kindOf o t.base with
  | none => rw [hk] at h; simp at h
  | some k => exact ⟨k, rfl⟩

private theorem out_eq (o n : SchemaD) (h : diffSchema o n 2 = []) {t t' : Ty} (hb : t'.base = t.base)
    (hk : (kindOf o t.base).isSome = true) : isOutputTy n t' = isOutputTy o t := by
  cases hko : kindOf o t.base with
  | none => rw [hko] at hk; simp at hk
  | some k => unfold isOutputTy; rw [hb, hko, nobreaking_V_kindOf o n h _ k hko]

private theorem typeRel_outOnly (o n : SchemaD) (h : diffSchema o n 2 = []) (t t' : Ty) (hb : t'.base = t.base)
    (hk : (kindOf o t.base).isSome = true) (hso : safeOut t t' = true) :
    TypeRel o (TI.outOnly o (some t)) (TI.outOnly n (some t')) := by
  unfold TI.outOnly
  simp only [Option.bind_some]
  rw [out_eq o n h hb hk]
  by_cases ho : isOutputTy o t = true
  · rw [if_pos ho, if_pos ho]; exact Or.inr ⟨t, t', rfl, rfl, hb, ho, hso⟩
  · rw [if_neg ho, if_neg ho]; exact Or.inl ⟨rfl, rfl⟩

private theorem compositeBase_rel (o n : SchemaD) (h : diffSchema o n 2 = []) {x y : Option Ty} (hT : TypeRel o x y) :
    compositeBase o x = compositeBase n y ∧ ∀ p, compositeBase o x = some p → isComposite o p = true := by
  rcases hT with ⟨hx, hy⟩ | ⟨t, t', hx, hy, hb, ho, _⟩
  · subst hx; subst hy; exact ⟨rfl, fun p hp => by simp [compositeBase] at hp⟩
  · subst hx; subst hy
    obtain ⟨k, hk⟩ := kind_of_out ho
    have hc := nobreaking_V_isComposite o n h t.base (by rw [hk]; rfl)
    unfold compositeBase
    simp only [Option.map_some, Option.bind_some]
    rw [hb, hc]
    refine ⟨rfl, ?_⟩
    intro p hp
    by_cases hcc : isComposite o t.base = true
    · rw [if_pos hcc] at hp; rw [← Option.some.inj hp]; exact hcc
    · rw [if_neg hcc] at hp; cases hp

private theorem fieldOf_known (o : SchemaD) (wo : OldWf o) (p name : String) (fd : FieldD)
    (hf : fieldOf o p name = some fd) : (kindOf o fd.type.base).isSome = true := by
  unfold fieldOf at hf
  by_cases hk : isObjOrIface o p = true
  · rw [if_pos hk] at hf
    cases ho : o.findType p with
    | none => rw [ho] at hf; simp at hf
    | some t =>
      rw [ho] at hf
      simp only [Option.bind_some] at hf
      unfold SchemaD.findType at ho
      exact wo.closed t (List.mem_of_find?_eq_some ho) fd (List.mem_of_find?_eq_some hf)
  · rw [if_neg hk] at hf; cases hf

private theorem getFieldDef_known (o : SchemaD) (wo : OldWf o) (p name : String) (fd : FieldD)
    (hf : getFieldDef o p name = some fd) : (kindOf o fd.type.base).isSome = true := by
  unfold getFieldDef at hf
  split at hf
  · cases hf; exact wo.metas.2.1
  · split at hf
    · cases hf; exact wo.metas.2.2
    · split at hf
      · cases hf; exact wo.metas.1
      · exact fieldOf_known o wo p name fd hf

private theorem named_known (o n : SchemaD) (h : diffSchema o n 2 = []) (on : String) (hc : isComposite o on = true) :
    TypeRel o (TI.outOnly o (typeFromAst o (.named on))) (TI.outOnly n (typeFromAst n (.named on))) := by
  have hk : (kindOf o on).isSome = true := by
    unfold isComposite at hc
    cases hh : kindOf o on with
    | none => rw [hh] at hc; simp at hc
    | some _ => rfl
  have hfo : (o.findType on).isSome = true := by
    unfold kindOf at hk; cases hh : o.findType on with
    | none => rw [hh] at hk; simp at hk
    | some _ => rfl
  have hfn : (n.findType on).isSome = true := by
    cases hh : o.findType on with
    | none => rw [hh] at hfo; simp at hfo
    | some t => obtain ⟨t', hn, _⟩ := nobreaking_findType o n h on t hh; rw [hn]; rfl
  unfold typeFromAst
  simp only [Ty.base, hfo, hfn, if_true]
  exact typeRel_outOnly o n h (.named on) (.named on) rfl hk (safeOut_refl _)

/-- **the views stay compatible** below every node that is in order on the old schema -/
theorem pd_step (o n : SchemaD) (h : diffSchema o n 2 = []) (wo : OldWf o) (wn : NewWf n) (nd : Node) (x : View × View)
    (hinv : VInv o x) (hok : OldOk o (nd, pd o n nd x)) : VInv o (pd o n nd x) := by
  obtain ⟨a, b⟩ := x
  obtain ⟨okF, okD, okI, okFr, okOp⟩ := hok
  cases nd with
  | document d => exact hinv
  | tsDef => exact hinv
  | varDef v => exact hinv
  | typeNode t => exact hinv
  | argument a => exact hinv
  | value v => exact hinv
  | objField nm => exact hinv
  | spread nm ds => exact hinv
  | selectionSet i sels =>
    obtain ⟨e, c⟩ := compositeBase_rel o n h hinv.type
    exact ⟨e, c, hinv.type, hinv.field, hinv.directive⟩
  | directive dr =>
    have hs := okD dr rfl
    cases hd : findDirective o dr.name with
    | none => rw [hd] at hs; simp at hs
    | some dd =>
      obtain ⟨dd', hn, _, har⟩ := nobreaking_V_findDirective o n h wn dr.name dd hd
      refine ⟨hinv.parent, hinv.comp, hinv.type, hinv.field, ?_⟩
      exact Or.inr ⟨dd, dd', hd, hn, har⟩
  | operation kind name vars dirs sels =>
    have hs := okOp kind name vars dirs sels rfl
    cases hr : rootType o kind with
    | none => rw [hr] at hs; simp at hs
    | some r =>
      have hn := nobreaking_V_rootType o n h kind r hr
      refine ⟨hinv.parent, hinv.comp, ?_, hinv.field, hinv.directive⟩
      refine Or.inr ⟨.named r, .named r, ?_, ?_, rfl, ?_, safeOut_refl _⟩
      · show (rootType o kind).map Ty.named = _; rw [hr]; rfl
      · show (rootType n kind).map Ty.named = _; rw [hn]; rfl
      · have e : rootType o kind = (rootOf o kind).bind fun x => if isObject o x then some x else none := by
          unfold rootType rootOf; rfl
        rw [e] at hr
        cases hq : rootOf o kind with
        | none => rw [hq] at hr; simp at hr
        | some x =>
          rw [hq] at hr
          simp only [Option.bind_some] at hr
          by_cases hob : isObject o x = true
          · rw [if_pos hob] at hr
            have : x = r := Option.some.inj hr
            subst this
            unfold isObject at hob
            have hk : kindOf o x = some .object := by simpa using hob
            unfold isOutputTy; simp only [Ty.base]; rw [hk]
          · rw [if_neg hob] at hr; cases hr
  | fragmentDef name on dirs =>
    exact ⟨hinv.parent, hinv.comp, named_known o n h on (okFr name on dirs rfl), hinv.field, hinv.directive⟩
  | inline on dirs =>
    cases on with
    | some c => exact ⟨hinv.parent, hinv.comp, named_known o n h c (okI c dirs rfl), hinv.field, hinv.directive⟩
    | none =>
      refine ⟨hinv.parent, hinv.comp, ?_, hinv.field, hinv.directive⟩
      show TypeRel o (TI.outOnly o a.type) (TI.outOnly n b.type)
      rcases hinv.type with ⟨hx, hy⟩ | ⟨t, t', hx, hy, hb, ho, hso⟩
      · rw [hx, hy]; exact Or.inl ⟨rfl, rfl⟩
      · rw [hx, hy]
        obtain ⟨k, hk⟩ := kind_of_out ho
        exact typeRel_outOnly o n h t t' hb (by rw [hk]; rfl) hso
  | field name args dirs hs =>
    have hpar : a.parent = b.parent := hinv.parent
    cases hp : a.parent with
    | none =>
      have hpb : b.parent = none := by rw [← hpar]; exact hp
      refine ⟨hpar, hinv.comp, ?_, ?_, hinv.directive⟩
      · left
        constructor
        · show TI.outOnly o ((a.parent.bind fun p => getFieldDef o p name).map (·.type)) = none
          rw [hp]; rfl
        · show TI.outOnly n ((b.parent.bind fun p => getFieldDef n p name).map (·.type)) = none
          rw [hpb]; rfl
      · left
        constructor
        · show (a.parent.bind fun p => getFieldDef o p name) = none
          rw [hp]; rfl
        · show (b.parent.bind fun p => getFieldDef n p name) = none
          rw [hpb]; rfl
    | some p =>
      have hpb : b.parent = some p := by rw [← hpar]; exact hp
      have hfs : (a.parent.bind fun p => getFieldDef o p name).isSome = true :=
        okF name args dirs hs rfl (by show a.parent.isSome = true; rw [hp]; rfl)
      rw [hp] at hfs
      simp only [Option.bind_some] at hfs
      cases hf : getFieldDef o p name with
      | none => rw [hf] at hfs; simp at hfs
      | some fd =>
        obtain ⟨fd', hn, hb, har, hso⟩ := nobreaking_V_getFieldDef o n h wo wn p name (hinv.comp p hp) fd hf
        have hkn := getFieldDef_known o wo p name fd hf
        have eo : (a.parent.bind fun p => getFieldDef o p name) = some fd := by rw [hp]; exact hf
        have en : (b.parent.bind fun p => getFieldDef n p name) = some fd' := by rw [hpb]; exact hn
        refine ⟨hpar, hinv.comp, ?_, ?_, hinv.directive⟩
        · show TypeRel o (TI.outOnly o ((a.parent.bind fun p => getFieldDef o p name).map (·.type)))
            (TI.outOnly n ((b.parent.bind fun p => getFieldDef n p name).map (·.type)))
          rw [eo, en]
          exact typeRel_outOnly o n h fd.type fd'.type hb hkn hso
        · exact Or.inr ⟨fd, fd', eo, en, har⟩

/-! ### the enumerations -/

def pairNodes (o n : SchemaD) (d : Doc) : List (Node × (View × View)) := gnDoc (pd o n) ({}, {}) d

private theorem pair_fst (o n : SchemaD) (d : Doc) : pmap Prod.fst (pairNodes o n d) = typedNodes o d := by
  rw [typedNodes_eq_viewNodes]
  exact gnDoc_map Prod.fst (pd o n) (View.enter o) (fun _ _ => rfl) d ({}, {})

private theorem pair_snd (o n : SchemaD) (d : Doc) : pmap Prod.snd (pairNodes o n d) = typedNodes n d := by
  rw [typedNodes_eq_viewNodes]
  exact gnDoc_map Prod.snd (pd o n) (View.enter n) (fun _ _ => rfl) d ({}, {})

private theorem mem_old {o n : SchemaD} {d : Doc} {p : Node × (View × View)} (hp : p ∈ pairNodes o n d) :
    (p.1, p.2.1) ∈ typedNodes o d := by
  rw [← pair_fst o n d]; exact List.mem_map.mpr ⟨p, hp, rfl⟩

private theorem of_new {o n : SchemaD} {d : Doc} {q : Node × View} (hq : q ∈ typedNodes n d) :
    ∃ p ∈ pairNodes o n d, q = (p.1, p.2.2) := by
  rw [← pair_snd o n d] at hq
  obtain ⟨p, hp, e⟩ := List.mem_map.mp hq
  exact ⟨p, hp, e.symm⟩

/-- every operation of the document has a root type in the schema -/
def OpsRooted (s : SchemaD) (d : Doc) : Prop :=
  ∀ x ∈ nodes d, ∀ kind name vars dirs sels, x = Node.operation kind name vars dirs sels → (rootType s kind).isSome = true

/-- every directive used in the document is defined (part of `knownDirectives`) -/
def DirectivesDefined (s : SchemaD) (d : Doc) : Prop :=
  ∀ x ∈ nodes d, ∀ dr, x = Node.directive dr → (findDirective s dr.name).isSome = true

private theorem fst_indep {X Y : Type} (down : Node → X → X) (down' : Node → Y → Y) (x : X) (y : Y) (d : Doc) :
    (gnDoc down x d).map (·.1) = (gnDoc down' y d).map (·.1) := by
  have h1 := gnDoc_map (fun _ : X => ()) down (fun _ _ => ()) (fun _ _ => rfl) d x
  have h2 := gnDoc_map (fun _ : Y => ()) down' (fun _ _ => ()) (fun _ _ => rfl) d y
  have e1 : (gnDoc down x d).map (·.1) = (pmap (fun _ : X => ()) (gnDoc down x d)).map (·.1) := by
    simp [pmap, List.map_map, Function.comp_def]
  have e2 : (gnDoc down' y d).map (·.1) = (pmap (fun _ : Y => ()) (gnDoc down' y d)).map (·.1) := by
    simp [pmap, List.map_map, Function.comp_def]
  rw [e1, e2, h1, h2]

theorem directivesDefined_of_known (s : SchemaD) (d : Doc) (h : knownDirectives s d) : DirectivesDefined s d := by
  intro x hx dr e
  have hx' : x ∈ d.defs.flatMap defNodes := by
    unfold nodes at hx
    rcases List.mem_cons.mp hx with h1 | h1
    · rw [e] at h1; cases h1
    · exact h1
  rw [← typedNodes_fst s d, typedNodes_eq_viewNodes] at hx'
  unfold viewNodes at hx'
  rw [fst_indep (View.enter s) ancDown {} [] d] at hx'
  obtain ⟨q, hq, hq1⟩ := List.mem_map.mp hx'
  obtain ⟨sd, hsd, _⟩ := h q hq dr (by rw [hq1]; exact e)
  rw [hsd]; rfl

private theorem oldOk_all (o n : SchemaD) (d : Doc) (hF : fieldsOnCorrectType o d) (hD : DirectivesDefined o d)
    (hC : fragmentsOnCompositeTypes o d) (hR : OpsRooted o d) : ∀ p ∈ pairNodes o n d, OldOk o p := by
  intro p hp
  have hm := mem_old hp
  have hnode : p.1 ∈ nodes d := typed_node_mem hm
  refine ⟨?_, ?_, ?_, ?_, ?_⟩
  · intro name args dirs hs e; exact hF _ hm name args dirs hs e
  · intro dr e; exact hD _ hnode dr e
  · intro on dirs e; exact hC.1 _ hnode on dirs e
  · intro name on dirs e; exact hC.2 _ hnode name on dirs e
  · intro kind name vars dirs sels e; exact hR _ hnode kind name vars dirs sels e

private theorem vinv_root (o : SchemaD) : VInv o (({} : View), ({} : View)) :=
  ⟨rfl, fun p hp => (by cases hp), Or.inl ⟨rfl, rfl⟩, Or.inl ⟨rfl, rfl⟩, Or.inl ⟨rfl, rfl⟩⟩

/-- at every node of a document in order on the old schema, the old and the new view are compatible -/
theorem views_compatible (o n : SchemaD) (h : diffSchema o n 2 = []) (wo : OldWf o) (wn : NewWf n) (d : Doc)
    (hF : fieldsOnCorrectType o d) (hD : DirectivesDefined o d) (hC : fragmentsOnCompositeTypes o d)
    (hR : OpsRooted o d) : ∀ p ∈ pairNodes o n d, VInv o p.2 :=
  gnDoc_inv (pd o n) (VInv o) (OldOk o) (fun nd x hi hk => pd_step o n h wo wn nd x hi hk) d ({}, {}) (vinv_root o)
    (oldOk_all o n d hF hD hC hR)

/-! ### the rules -/

/-- the schema-dependent rules covered by `operations_stay_valid_rules` -/
structure SchemaRules (s : SchemaD) (d : Doc) : Prop where
  knownTypeNames : knownTypeNames s d
  variablesAreInputTypes : variablesAreInputTypes s d
  fragmentsOnCompositeTypes : fragmentsOnCompositeTypes s d
  fieldsOnCorrectType : fieldsOnCorrectType s d
  scalarLeafs : scalarLeafs s d
  knownArgumentNames : knownArgumentNames s d
  providedRequiredArguments : providedRequiredArguments s d
  knownDirectives : knownDirectives s d

private theorem findType_kept (o n : SchemaD) (h : diffSchema o n 2 = []) (x : String)
    (hs : (o.findType x).isSome = true) : (n.findType x).isSome = true := by
  cases ho : o.findType x with
  | none => rw [ho] at hs; simp at hs
  | some t => obtain ⟨t', hn, _⟩ := nobreaking_findType o n h x t ho; rw [hn]; rfl

private theorem isComposite_kept' (o n : SchemaD) (h : diffSchema o n 2 = []) (x : String)
    (hc : isComposite o x = true) : isComposite n x = true := by
  have hk : (kindOf o x).isSome = true := by
    unfold isComposite at hc
    cases hh : kindOf o x with
    | none => rw [hh] at hc; simp at hc
    | some _ => rfl
  rw [nobreaking_V_isComposite o n h x hk]; exact hc

theorem nobreaking_knownTypeNames (o n : SchemaD) (h : diffSchema o n 2 = []) (d : Doc)
    (hv : Spec.knownTypeNames o d) : Spec.knownTypeNames n d :=
  fun x hx t e => findType_kept o n h _ (hv x hx t e)

theorem nobreaking_variablesAreInputTypes (o n : SchemaD) (h : diffSchema o n 2 = []) (d : Doc)
    (hv : Spec.variablesAreInputTypes o d) : Spec.variablesAreInputTypes n d := by
  intro x hx v e
  obtain ⟨t, ht, hi⟩ := hv x hx v e
  unfold typeFromAst at ht
  by_cases hf : (o.findType v.type.base).isSome = true
  · rw [if_pos hf] at ht
    have : v.type = t := Option.some.inj ht
    subst this
    refine ⟨v.type, ?_, ?_⟩
    · unfold typeFromAst; rw [if_pos (findType_kept o n h _ hf)]
    · unfold isInputTy at hi ⊢
      cases hk : kindOf o v.type.base with
      | none => rw [hk] at hi; simp at hi
      | some k => rw [nobreaking_V_kindOf o n h _ k hk]; rw [hk] at hi; exact hi
  · rw [if_neg hf] at ht; cases ht

theorem nobreaking_fragmentsOnCompositeTypes (o n : SchemaD) (h : diffSchema o n 2 = []) (d : Doc)
    (hv : Spec.fragmentsOnCompositeTypes o d) : Spec.fragmentsOnCompositeTypes n d :=
  ⟨fun x hx on dirs e => isComposite_kept' o n h on (hv.1 x hx on dirs e),
   fun x hx name on dirs e => isComposite_kept' o n h on (hv.2 x hx name on dirs e)⟩

theorem nobreaking_knownDirectives (o n : SchemaD) (h : diffSchema o n 2 = []) (wn : NewWf n) (d : Doc)
    (hv : Spec.knownDirectives o d) : Spec.knownDirectives n d := by
  intro p hp dr e
  obtain ⟨sd, hsd, hl⟩ := hv p hp dr e
  obtain ⟨sd', hn, hloc, _⟩ := nobreaking_V_findDirective o n h wn dr.name sd hsd
  exact ⟨sd', hn, fun a rest er => hloc _ (hl a rest er)⟩

/-- **Operations stay valid, rule by rule (C06 specification predicates) - 8 of the schema-dependent rules (PARTIAL;
    the name is kept because the evidence refers to it).** OMITS ValuesOfCorrectType and VariablesInAllowedPosition
    (added by `operations_stay_valid_rules_all`, Props/C20_rules_all.lean), PossibleFragmentSpreads
    (`nobreaking_possibleFragmentSpreads` below) and OverlappingFieldsCanBeMerged (FALSE: finding G4); ASSUMES `OpsRooted`
    (necessary: finding G6). The clause as worded is `OperationsStayValidFull` (Props/C20_full.lean), refuted by
    `operations_stay_valid_full_refuted`. -/
theorem operations_stay_valid_rules (o n : SchemaD) (h : diffSchema o n 2 = []) (wo : OldWf o) (wn : NewWf n)
    (d : Doc) (hR : OpsRooted o d) (hv : SchemaRules o d) : SchemaRules n d := by
  have hinv := views_compatible o n h wo wn d hv.fieldsOnCorrectType
    (directivesDefined_of_known o d hv.knownDirectives) hv.fragmentsOnCompositeTypes hR
  refine ⟨nobreaking_knownTypeNames o n h d hv.knownTypeNames,
    nobreaking_variablesAreInputTypes o n h d hv.variablesAreInputTypes,
    nobreaking_fragmentsOnCompositeTypes o n h d hv.fragmentsOnCompositeTypes, ?_, ?_, ?_, ?_,
    nobreaking_knownDirectives o n h wn d hv.knownDirectives⟩
  · -- FieldsOnCorrectType
    intro q hq name args dirs hs e hpar
    obtain ⟨p, hp, rfl⟩ := of_new (o := o) hq
    have iv := hinv p hp
    have hold := hv.fieldsOnCorrectType _ (mem_old hp) name args dirs hs e (by rw [iv.parent]; exact hpar)
    rcases iv.field with ⟨hx, _⟩ | ⟨f, f', _, hy, _⟩
    · rw [hx] at hold; simp at hold
    · show p.2.2.field.isSome = true; rw [hy]; rfl
  · -- ScalarLeafs
    intro q hq name args dirs hs e t' ht'
    obtain ⟨p, hp, rfl⟩ := of_new (o := o) hq
    have iv := hinv p hp
    rcases iv.type with ⟨_, hy⟩ | ⟨t, t2, hx, hy, hb, ho, _⟩
    · rw [show p.2.2.type = some t' from ht'] at hy; cases hy
    · have : t2 = t' := by rw [show p.2.2.type = some t' from ht'] at hy; exact (Option.some.inj hy).symm
      subst this
      obtain ⟨k, hk⟩ := kind_of_out ho
      have hold := hv.scalarLeafs _ (mem_old hp) name args dirs hs e t hx
      have hkn := nobreaking_V_kindOf o n h _ k hk
      constructor
      · intro hl; apply hold.1
        unfold isLeaf at hl ⊢; rw [hb, hkn] at hl; rw [hk]; exact hl
      · intro hl; apply hold.2
        unfold isComposite at hl ⊢; rw [hb, hkn] at hl; rw [hk]; exact hl
  · -- KnownArgumentNames
    constructor
    · intro q hq name args dirs hs e fd' hfd' a ha
      obtain ⟨p, hp, rfl⟩ := of_new (o := o) hq
      have iv := hinv p hp
      rcases iv.field with ⟨_, hy⟩ | ⟨f, f2, hx, hy, har⟩
      · rw [show p.2.2.field = some fd' from hfd'] at hy; cases hy
      · have : f2 = fd' := by rw [show p.2.2.field = some fd' from hfd'] at hy; exact (Option.some.inj hy).symm
        subst this
        obtain ⟨ad, had, hadn⟩ := hv.knownArgumentNames.1 _ (mem_old hp) name args dirs hs e f hx a ha
        obtain ⟨b, hb, hbn⟩ := har.1 ad had
        exact ⟨b, hb, by rw [hbn, hadn]⟩
    · intro q hq dr e dd' hdd' a ha
      obtain ⟨p, hp, rfl⟩ := of_new (o := o) hq
      have iv := hinv p hp
      rcases iv.directive with ⟨_, hy⟩ | ⟨f, f2, hx, hy, har⟩
      · rw [show p.2.2.directive = some dd' from hdd'] at hy; cases hy
      · have : f2 = dd' := by rw [show p.2.2.directive = some dd' from hdd'] at hy; exact (Option.some.inj hy).symm
        subst this
        obtain ⟨ad, had, hadn⟩ := hv.knownArgumentNames.2 _ (mem_old hp) dr e f hx a ha
        obtain ⟨b, hb, hbn⟩ := har.1 ad had
        exact ⟨b, hb, by rw [hbn, hadn]⟩
  · -- ProvidedRequiredArguments
    constructor
    · intro q hq name args dirs hs e fd' hfd' ad' had' hreq
      obtain ⟨p, hp, rfl⟩ := of_new (o := o) hq
      have iv := hinv p hp
      rcases iv.field with ⟨_, hy⟩ | ⟨f, f2, hx, hy, har⟩
      · rw [show p.2.2.field = some fd' from hfd'] at hy; cases hy
      · have : f2 = fd' := by rw [show p.2.2.field = some fd' from hfd'] at hy; exact (Option.some.inj hy).symm
        subst this
        obtain ⟨a0, ha0, hn0, hr0⟩ := har.2 ad' had' hreq
        obtain ⟨a, ha, han⟩ := hv.providedRequiredArguments.1 _ (mem_old hp) name args dirs hs e f hx a0 ha0 hr0
        exact ⟨a, ha, by rw [han, hn0]⟩
    · intro q hq dr e dd' hdd' ad' had' hreq
      obtain ⟨p, hp, rfl⟩ := of_new (o := o) hq
      have iv := hinv p hp
      rcases iv.directive with ⟨_, hy⟩ | ⟨f, f2, hx, hy, har⟩
      · rw [show p.2.2.directive = some dd' from hdd'] at hy; cases hy
      · have : f2 = dd' := by rw [show p.2.2.directive = some dd' from hdd'] at hy; exact (Option.some.inj hy).symm
        subst this
        obtain ⟨a0, ha0, hn0, hr0⟩ := har.2 ad' had' hreq
        obtain ⟨a, ha, han⟩ := hv.providedRequiredArguments.2 _ (mem_old hp) dr e f hx a0 ha0 hr0
        exact ⟨a, ha, by rw [han, hn0]⟩

/-! ### PossibleFragmentSpreads (5.5.2.3) -/

private theorem absurd_brk {o n : SchemaD} (h : diffSchema o n 2 = []) {c : Change}
    (hc : c ∈ diffSchema o n 0) (hs : 2 ≤ c.severity) : False := by
  have := reported_at_severity o n c 2 hc hs
  rw [h] at this; exact absurd this (List.not_mem_nil)

private theorem sev2 (c : String) (k : List (String × String)) (h : sev c false = 2) : 2 ≤ (mk c k).severity := by
  rw [show (mk c k).severity = sev c false from rfl, h]; exact Nat.le_refl 2

private theorem mem_findType {s : SchemaD} {x : String} {t : TypeD} (h : s.findType x = some t) :
    t ∈ s.types ∧ t.name = x := by
  unfold SchemaD.findType at h
  exact ⟨List.mem_of_find?_eq_some h, by simpa using List.find?_some h⟩

private theorem matching_mem (o n : SchemaD) (t t' : TypeD) (k : Kind) (ht : t ∈ o.types)
    (hf : n.findType t.name = some t') (hk : t.kind = k) (hk' : t'.kind = k) : (t, t') ∈ matchingPairs o n k := by
  unfold matchingPairs
  apply List.mem_filterMap.mpr
  refine ⟨t, List.mem_filter.mpr ⟨ht, by simp [hk]⟩, ?_⟩
  unfold SchemaD.findType at hf
  rw [PyGql.ListEqv.find_filter_of_find n.types (fun y => y.name == t.name) (fun y => y.kind == k) t' hf (by simp [hk'])]

/-- the possible types of an abstract type only grow -/
theorem nobreaking_possibleTypes (o n : SchemaD) (h : diffSchema o n 2 = []) (a x : String)
    (hx : x ∈ possibleTypes o a) : x ∈ possibleTypes n a := by
  unfold possibleTypes at hx ⊢
  cases ho : o.findType a with
  | none => rw [ho] at hx; simp at hx
  | some t =>
    obtain ⟨t', hn, hkk⟩ := nobreaking_findType o n h a t ho
    obtain ⟨htm, htn⟩ := mem_findType ho
    have hn' : n.findType t.name = some t' := by rw [htn]; exact hn
    rw [ho] at hx
    rw [hn]
    simp only at hx ⊢
    rw [hkk]
    cases hk : t.kind <;> rw [hk] at hx <;> simp only at hx ⊢ <;> try (simp at hx)
    · -- interface
      obtain ⟨ot, ⟨hot, hcond⟩, hname⟩ := hx
      have hsome := nobreaking_types_kept o n h ot hot
      cases hfo : n.findType ot.name with
      | none => rw [hfo] at hsome; simp at hsome
      | some ot' =>
        have hkeq := nobreaking_kinds_kept o n h ot ot' hot hfo
        obtain ⟨hom, hon⟩ := mem_findType hfo
        have hia : a ∈ ot'.interfaces := by
          by_cases hm : a ∈ ot'.interfaces
          · exact hm
          · exact (absurd_brk h (removed_implementation_reported o n ot ot' a
              (matching_mem o n ot ot' .object hot hfo hcond.1 (by rw [← hkeq]; exact hcond.1)) hcond.2 hm)
              (sev2 _ _ (by decide))).elim
        simp only [List.mem_map, List.mem_filter, Bool.and_eq_true, beq_iff_eq, List.contains_iff_mem]
        exact ⟨ot', ⟨hom, by rw [← hkeq]; exact hcond.1, hia⟩, by rw [hon]; exact hname⟩
    · -- union
      by_cases hm : x ∈ t'.members
      · exact hm
      · exact (absurd_brk h (removed_union_member_reported o n t t' x
          (matching_mem o n t t' .union htm hn' hk (by rw [hkk]; exact hk)) hx hm) (sev2 _ _ (by decide))).elim

private theorem isAbstract_eq (o n : SchemaD) (h : diffSchema o n 2 = []) (x : String)
    (hk : (kindOf o x).isSome = true) : isAbstract n x = isAbstract o x := by
  cases hko : kindOf o x with
  | none => rw [hko] at hk; simp at hk
  | some k => unfold isAbstract; rw [hko, nobreaking_V_kindOf o n h x k hko]

private theorem isPossibleType_mono (o n : SchemaD) (h : diffSchema o n 2 = []) (a t : String)
    (hp : isPossibleType o a t = true) : isPossibleType n a t = true := by
  unfold isPossibleType at hp ⊢
  simp only [Bool.and_eq_true, List.contains_iff_mem] at hp ⊢
  refine ⟨?_, nobreaking_possibleTypes o n h a t hp.2⟩
  have := hp.1
  unfold isObject at this ⊢
  have hk : kindOf o t = some .object := by simpa using this
  rw [nobreaking_V_kindOf o n h t _ hk]; simp

/-- two composite types of the old schema that overlap still overlap -/
theorem nobreaking_typesOverlap (o n : SchemaD) (h : diffSchema o n 2 = []) (a b : String)
    (ha : (kindOf o a).isSome = true) (hb : (kindOf o b).isSome = true)
    (hov : typesOverlap o a b = true) : typesOverlap n a b = true := by
  unfold typesOverlap at hov ⊢
  rw [isAbstract_eq o n h a ha, isAbstract_eq o n h b hb]
  by_cases e : (a == b) = true
  · rw [if_pos e]
  · rw [if_neg e] at hov ⊢
    by_cases c : (isAbstract o a && isAbstract o b) = true
    · rw [if_pos c] at hov ⊢
      simp only [List.any_eq_true, List.contains_iff_mem] at hov ⊢
      obtain ⟨t, ht1, ht2⟩ := hov
      exact ⟨t, nobreaking_possibleTypes o n h a t ht1, nobreaking_possibleTypes o n h b t ht2⟩
    · rw [if_neg c] at hov ⊢
      simp only [Bool.or_eq_true, Bool.and_eq_true] at hov ⊢
      rcases hov with ⟨h1, h2⟩ | ⟨h1, h2⟩
      · exact Or.inl ⟨h1, isPossibleType_mono o n h a b h2⟩
      · exact Or.inr ⟨h1, isPossibleType_mono o n h b a h2⟩

private theorem fragDef_node {d : Doc} {f : String × String × Nat × List Sel} (hf : f ∈ fragDefs d) :
    ∃ dirs, Node.fragmentDef f.1 f.2.1 dirs ∈ nodes d := by
  unfold fragDefs at hf
  obtain ⟨df, hdf, hm⟩ := List.mem_filterMap.mp hf
  cases df with
  | frag name on dirs id sels =>
    simp only [Option.some.injEq] at hm
    subst hm
    refine ⟨dirs, ?_⟩
    unfold nodes
    apply List.mem_cons_of_mem
    apply List.mem_flatMap.mpr
    exact ⟨_, hdf, by simp [defNodes]⟩
  | op k nm vs ds i ss => simp at hm
  | ts a b => simp at hm

private theorem known_of_composite {s : SchemaD} {x : String} (h : isComposite s x = true) :
    (kindOf s x).isSome = true ∧ (s.findType x).isSome = true := by
  unfold isComposite at h
  cases hk : kindOf s x with
  | none => rw [hk] at h; simp at h
  | some k =>
    refine ⟨rfl, ?_⟩
    unfold kindOf at hk
    cases hf : s.findType x with
    | none => rw [hf] at hk; simp at hk
    | some _ => rfl

/-- fragments are typed the same way: every type condition of a document in order on the old schema exists in both -/
theorem nobreaking_fragTypes (o n : SchemaD) (h : diffSchema o n 2 = []) (d : Doc)
    (hC : Spec.fragmentsOnCompositeTypes o d) : fragTypes n d = fragTypes o d := by
  unfold fragTypes
  have hall : ∀ f ∈ fragDefs d, (o.findType f.2.1).isSome = true := by
    intro f hf
    obtain ⟨dirs, hnode⟩ := fragDef_node hf
    exact (known_of_composite (hC.2 _ hnode f.1 f.2.1 dirs rfl)).2
  have e : (fragDefs d).filter (fun f => (typeFromAst n (.named f.2.1)).isSome)
      = (fragDefs d).filter (fun f => (typeFromAst o (.named f.2.1)).isSome) := by
    apply List.filter_congr
    intro f hf
    have h1 := hall f hf
    have h2 := findType_kept o n h _ h1
    unfold typeFromAst
    simp only [Ty.base, h1, h2, if_true]
  rw [e]

private theorem foldl_set_mem (L : List (String × String × Nat × List Sel)) (acc : AL String) (p : String × String)
    (hp : p ∈ L.foldl (fun m f => AL.set m f.1 f.2.1) acc) : p ∈ acc ∨ ∃ f ∈ L, p = (f.1, f.2.1) := by
  induction L generalizing acc with
  | nil => exact Or.inl hp
  | cons f L ih =>
    simp only [List.foldl_cons] at hp
    rcases ih _ hp with h1 | ⟨g, hg, e⟩
    · rcases AL.mem_set h1 with h2 | h2
      · exact Or.inl h2
      · exact Or.inr ⟨f, List.mem_cons_self, h2⟩
    · exact Or.inr ⟨g, List.mem_cons_of_mem _ hg, e⟩

private theorem fragTypes_known (s : SchemaD) (d : Doc) (name ft : String)
    (hg : AL.get? (fragTypes s d) name = some ft) : (s.findType ft).isSome = true := by
  have hm := AL.mem_of_get? hg
  unfold fragTypes at hm
  rcases foldl_set_mem _ _ _ hm with h1 | ⟨f, hf, e⟩
  · cases h1
  · have := (List.mem_filter.mp hf).2
    have e2 : ft = f.2.1 := by simpa using congrArg Prod.snd e
    rw [e2]
    cases c : (s.findType f.2.1).isSome with
    | true => rfl
    | false => simp [typeFromAst, Ty.base, c] at this

private theorem safeOut_named_right (t : Ty) (x : String) (h : safeOut t (.named x) = true) : t = .named x := by
  rw [safeOut_eq] at h
  cases t with
  | named a => simp [sub, g1Pair] at h; rw [h]
  | list a => simp [sub, g1Pair] at h
  | nonNull a => simp [sub, g1Pair] at h

/-- **PossibleFragmentSpreads is preserved** (for the code of /repo HEAD: `fx.v10`, the parent type of the enclosing
    selection set). -/
theorem nobreaking_possibleFragmentSpreads (o n : SchemaD) (h : diffSchema o n 2 = []) (wo : OldWf o) (wn : NewWf n)
    (d : Doc) (fx : Fixes) (h10 : fx.v10 = true) (hR : OpsRooted o d) (hv : SchemaRules o d)
    (hs : Spec.possibleFragmentSpreads o fx d) : Spec.possibleFragmentSpreads n fx d := by
  have hinv := views_compatible o n h wo wn d hv.fieldsOnCorrectType
    (directivesDefined_of_known o d hv.knownDirectives) hv.fragmentsOnCompositeTypes hR
  have hft := nobreaking_fragTypes o n h d hv.fragmentsOnCompositeTypes
  intro q hq
  rw [← typedNodes_eq_viewNodes] at hq
  obtain ⟨p, hp, rfl⟩ := of_new (o := o) hq
  have iv := hinv p hp
  have hold := hs (p.1, p.2.1) (by rw [← typedNodes_eq_viewNodes]; exact mem_old hp)
  constructor
  · intro name dirs e ft par hget hpar hcf hcp
    rw [hft] at hget
    unfold spreadParent at hpar
    rw [h10] at hpar
    simp only [if_true] at hpar
    have hpar' : p.2.1.parent = some par := by rw [iv.parent]; exact hpar
    have hcpo := iv.comp par hpar'
    have hkf : (o.findType ft).isSome = true := fragTypes_known o d name ft hget
    have hkfk : (kindOf o ft).isSome = true := by
      unfold kindOf; cases hh : o.findType ft with
      | none => rw [hh] at hkf; simp at hkf
      | some _ => rfl
    have hcfo : isComposite o ft = true := by rw [← nobreaking_V_isComposite o n h ft hkfk]; exact hcf
    have := hold.1 name dirs e ft par hget (by unfold spreadParent; rw [h10]; simpa using hpar') hcfo hcpo
    exact nobreaking_typesOverlap o n h ft par hkfk (known_of_composite hcpo).1 this
  · intro on dirs e t par htype hpar hct hcp
    have hpar' : p.2.1.parent = some par := by rw [iv.parent]; exact hpar
    have hcpo := iv.comp par hpar'
    rcases iv.type with ⟨_, hy⟩ | ⟨tO, t2, hx, hy, hb, ho, hso⟩
    · rw [show p.2.2.type = some (.named t) from htype] at hy; cases hy
    · have : t2 = .named t := by rw [show p.2.2.type = some (.named t) from htype] at hy; exact (Option.some.inj hy).symm
      subst this
      have htO := safeOut_named_right tO t hso
      subst htO
      obtain ⟨k, hk⟩ := kind_of_out ho
      have hkt : (kindOf o t).isSome = true := by simp only [Ty.base] at hk; rw [hk]; rfl
      have hcto : isComposite o t = true := by rw [← nobreaking_V_isComposite o n h t hkt]; exact hct
      have := hold.2 on dirs e t par hx hpar' hcto hcpo
      exact nobreaking_typesOverlap o n h t par hkt (known_of_composite hcpo).1 this

end PyGql.Props.C20

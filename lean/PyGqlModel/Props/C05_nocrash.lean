/-
  C05, first sentence ("validation terminates and returns its list of errors without raising") — STATE OF THE PROOF.

  FULL STATEMENT (`ValidateNeverCrashes`, NOT proved): the validator chain /repo runs — all 26 rules, the memoised overlap
  search inside the chain (`Validate.runM`) — never ends in `Outcome.crash` on a document with distinct selection-set
  identities (what the parser's start offsets give).

  The model has exactly FIVE places that set the crash flag:
    (1) ValuesOfCorrectType `_check_scalar` when `parse_literal` lets another exception escape   (`RS.addOpt … none`)
    (2) KnownDirectives on an empty ancestor stack                                              (IndexError)
    (3) UniqueInputFieldNames on an empty stack of field-name sets                              (IndexError)
    (4) NoFragmentCycles `leave_document` on an empty recorded path                             (IndexError)
    (5) the OverlappingFieldsCanBeMerged search                                               (RecursionError / AttributeError)
  Proved here: (1) is DEAD CODE of the model (`check_scalar_never_raises`: since the V7 repair `_check_scalar` answers for
  every literal) and (4) cannot fire when no fragment is recorded as spreading itself (`cycle_report_never_raises`; direct
  self-spreads are reported when met and never recorded: `C06_cycles3` derives `NoSelf` for the rule alone). (5), for the
  rule ALONE, is `C06.overlap_memo_run_never_crashes` (under `WfIds`).
  MISSING for the full statement: the stack invariants for (2) and (3) along the chain traversal (directives are only
  visited below a node that pushed an ancestor; object fields only below an object value; `SkipNode` raised by another
  member leaves the entered members at once, so both stacks stay balanced), `NoSelf` as an invariant of the chain's
  state, and (5) inside the chain (`runM`: a rule raising `SkipNode` hides selection sets from the search; the memo
  lemma is stated for the rule alone). Until then "validation never raises" is tied to the code by the correspondence only
  (`validate-raises:*` oracle of corr/C05.py on every generated, mutated and fixed document; known findings H13a, H2 are
  its scale limits).
-/
import PyGqlModel.Lemmas.ValidateCycles
import PyGqlModel.Validate.ChainMemo

set_option linter.unusedSimpArgs false
set_option linter.unusedVariables false

namespace PyGql.Props.C05
open PyGql PyGql.Validate

/-- FULL STATEMENT — open (see the header for what is missing) -/
def ValidateNeverCrashes : Prop :=
  ∀ (s : SchemaD) (d : Validate.Doc), WfIds d → ∀ cls, runM (memoFuel d) ⟨s, Fixes.all, Rule.all⟩ d ≠ .crash cls

/-- crash site (1) is dead: `parse_literal` of the model never lets another exception escape … -/
theorem parse_literal_answers (scalar : String) (v : Value) : (parseLiteralFails scalar v).isSome = true := by
  unfold parseLiteralFails
  split
  · rfl
  · cases v <;> rfl

/-- … hence `_check_scalar` always answers (0 or 1 errors) and `RS.addOpt` never sets the crash flag for it -/
theorem check_scalar_never_raises (s : SchemaD) (ti : TI) (v : Value) (r : Rule) (st : RS) :
    (RS.addOpt r (checkScalar s ti v) st).crash = st.crash := by
  have hsome : (checkScalar s ti v).isSome = true := by
    unfold checkScalar
    split
    · rfl
    · split
      · rfl
      · have := parse_literal_answers ‹Ty›.base v
        cases hp : parseLiteralFails ‹Ty›.base v with
        | none => simp [hp] at this
        | some b => cases b <;> rfl
  cases hc : checkScalar s ti v with
  | none => simp [hc] at hsome
  | some n => simp [RS.addOpt, RS.errN]

/-- one step of `leave_document` keeps the IndexError flag when no fragment is recorded as spreading itself -/
private theorem cycStep_flag (fx : Fixes) (hv : fx.v11 = true) (ff : Cyc.G) (hns : Cyc.NoSelf ff) (st : Nat × List String × Bool)
    (outer : String) : (cycStep fx ff st outer).2.2 = st.2.2 := by
  unfold cycStep
  simp only
  cases hq : AL.get? (cycSearch fx ff (cycFuel ff) outer [] []) outer with
  | none => rfl
  | some path =>
    simp only
    have hg := (Cyc.search_top fx hv ff (cycFuel ff) (Cyc.cycFuel_ge ff) outer).2 outer path hq
    rcases hg with ⟨_, hself⟩ | ⟨u, hu, _⟩
    · exact absurd hself (hns outer)
    · simp only [hu]
      split <;> rfl

/-- crash site (4): **the cycle report of NoFragmentCycles never raises** when no fragment is recorded as spreading
    itself (the code of /repo HEAD: `fx.v11`) -/
theorem cycle_report_never_raises (fx : Fixes) (hv : fx.v11 = true) (ff : Cyc.G) (hns : Cyc.NoSelf ff) :
    (cycErrors fx ff).2 = false := by
  unfold cycErrors
  simp only
  suffices H : ∀ (ks : List String) (st : Nat × List String × Bool), (ks.foldl (cycStep fx ff) st).2.2 = st.2.2 from H _ _
  intro ks
  induction ks with
  | nil => intro st; rfl
  | cons k ks ih => intro st; rw [List.foldl_cons, ih, cycStep_flag fx hv ff hns]

/-! non-vacuity: `F → G → F` recorded (no self-spread): the report counts the cycle and does not raise; with the
    self-spread recorded (which the rule never does) the model's report WOULD raise — the hypothesis is needed -/
example : Cyc.NoSelf [("F", ["G"]), ("G", ["F"])] := by
  intro f hf
  simp only [Cyc.succ, AL.getD, AL.get?] at hf
  by_cases h1 : f = "F"
  · subst h1; simp at hf
  · by_cases h2 : f = "G"
    · subst h2; simp at hf
    · have e1 : (("F" : String) == f) = false := by simpa using fun e => h1 e.symm
      have e2 : (("G" : String) == f) = false := by simpa using fun e => h2 e.symm
      simp [List.find?, e1, e2] at hf
example : cycErrors Fixes.all [("F", ["G"]), ("G", ["F"])] = (1, false) := by decide
example : (cycErrors Fixes.all [("F", ["F"])]).2 = true := by decide

end PyGql.Props.C05

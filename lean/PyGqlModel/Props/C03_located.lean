/-
  C03 for trees parsed WITH source positions (the default; audit finding F2).

  The round-trip theorems of `Props/C03_print.lean` / `C03_full.lean` are stated for flags with `no_location`, where "the
  same tree" is plain equality.  The property says "equal to the original UP TO SOURCE POSITIONS", i.e. it is about located
  trees.  Two facts carry the theorems over:
    * `printDocument_erase` (Lemmas/PrintErase.lean): the printer ignores `loc` — `print(d) = print(erase d)`;
    * C02's `noloc_erasure`: parsing with `no_location` is parsing followed by erasure.

  `print_erase`                 the printer ignores source positions (restated here as an obligation of C03)
  `print_parse_located`         ANY flags: the printed tree is accepted and re-parses to a tree that equals the original up to
                                positions, modulo the member descriptions the printer drops (finding R4)
  `print_parse_located_iff`     … equal up to positions to the original itself IF AND ONLY IF the original has no member
                                description — the exclusion is exact for located trees too
  `print_parse_located_exact`   a located tree WITHOUT member descriptions round-trips to a tree equal up to source positions
  `print_parse_located_loss`    in general the loss is `(stripMemberDescriptions d).erase` (strip and erase commute)
  `print_stable_located`        printing the re-parsed tree reproduces the same text
-/
import PyGqlModel.Props.C03_full
import PyGqlModel.Lemmas.PrintErase
import PyGqlModel.Props.C02_spans
namespace PyGql.Props.C03
open PyGql PyGql.Ast PyGql.Parse PyGql.Spec PyGql.Print PyGql.Lex

/-- the printer ignores source positions: a tree and its erasure print to the same text, for every configuration -/
theorem print_erase (c : Cfg) (d : Document) : printDocument c d.erase = printDocument c d := printDocument_erase c d

private theorem parse_of_erased (fl : Flags) (toks : List Tok) (e : Document)
    (h : parseDocument { fl with noLocation := true } toks = .ok e) : ∃ d', parseDocument fl toks = .ok d' ∧ d'.erase = e := by
  rw [PyGql.Props.C02.noloc_erasure] at h
  cases hq : parseDocument fl toks with
  | error err => rw [hq] at h; cases h
  | ok d' => rw [hq] at h; exact ⟨d', rfl, by simpa [Except.map] using h⟩

/-- **print_parse_located** — for every text the parser accepts under ANY flags (positions on or off), every indentation
    over {space, tab}, descriptions on: the printed tree is accepted under the same flags and parses to a tree that equals
    the original UP TO SOURCE POSITIONS, without the descriptions of fields, arguments, input fields and enum values (R4). -/
theorem print_parse_located (fl : Flags) (c : Cfg) (x : Text) (toks : List Tok) (d : Document)
    (hdesc : c.includeDescriptions = true) (hind : IndentOK c) (hlex : lexAll x = .ok toks)
    (hparse : parseDocument fl toks = .ok d) :
    ∃ toks' d', lexAll (printDocument c d) = .ok toks' ∧ parseDocument fl toks' = .ok d' ∧
      d'.erase = stripMemberDescriptions d.erase := by
  have h1 : parseDocument { fl with noLocation := true } toks = .ok d.erase := by
    rw [PyGql.Props.C02.noloc_erasure, hparse]; rfl
  obtain ⟨toks', hl, hp⟩ := print_parse_modulo_members { fl with noLocation := true } c x toks d.erase rfl hdesc hind hlex h1
  rw [print_erase] at hl
  obtain ⟨d', hd', he⟩ := parse_of_erased fl toks' _ hp
  exact ⟨toks', d', hl, hd', he⟩

/-- **print_parse_located_iff** — the exclusion is exact for located trees: the re-parsed tree equals the original up to
    source positions IF AND ONLY IF the original carries no member description -/
theorem print_parse_located_iff (fl : Flags) (c : Cfg) (x : Text) (toks : List Tok) (d : Document)
    (hdesc : c.includeDescriptions = true) (hind : IndentOK c) (hlex : lexAll x = .ok toks)
    (hparse : parseDocument fl toks = .ok d) :
    (∃ toks' d', lexAll (printDocument c d) = .ok toks' ∧ parseDocument fl toks' = .ok d' ∧ d'.erase = d.erase) ↔
      ¬ HasMemberDescription d.erase := by
  obtain ⟨t0, d0, h0, p0, e0⟩ := print_parse_located fl c x toks d hdesc hind hlex hparse
  constructor
  · rintro ⟨t1, d1, h1, p1, e1⟩ hm
    rw [h0] at h1
    cases h1
    rw [p0] at p1
    cases p1
    exact hm (e0.symm.trans e1)
  · intro hm
    exact ⟨t0, d0, h0, p0, e0.trans (Classical.not_not.1 hm)⟩

/-- **print_parse_located_exact** — a text whose (located) tree carries no member description round-trips to a tree EQUAL UP
    TO SOURCE POSITIONS: the statement of C03 as written, for the default way of parsing, outside the pinned finding R4 -/
theorem print_parse_located_exact (fl : Flags) (c : Cfg) (x : Text) (toks : List Tok) (d : Document)
    (hdesc : c.includeDescriptions = true) (hind : IndentOK c) (hlex : lexAll x = .ok toks)
    (hparse : parseDocument fl toks = .ok d) (hm : ¬ HasMemberDescription d) :
    ∃ toks' d', lexAll (printDocument c d) = .ok toks' ∧ parseDocument fl toks' = .ok d' ∧ d'.erase = d.erase := by
  obtain ⟨t0, d0, h0, p0, e0⟩ := print_parse_located fl c x toks d hdesc hind hlex hparse
  refine ⟨t0, d0, h0, p0, ?_⟩
  rw [e0, stripMemberDescriptions_erase, Classical.not_not.1 hm]

/-- … and in general what is lost is exactly the member descriptions, before or after erasing positions -/
theorem print_parse_located_loss (fl : Flags) (c : Cfg) (x : Text) (toks : List Tok) (d : Document)
    (hdesc : c.includeDescriptions = true) (hind : IndentOK c) (hlex : lexAll x = .ok toks)
    (hparse : parseDocument fl toks = .ok d) :
    ∃ toks' d', lexAll (printDocument c d) = .ok toks' ∧ parseDocument fl toks' = .ok d' ∧
      d'.erase = (stripMemberDescriptions d).erase := by
  obtain ⟨t0, d0, h0, p0, e0⟩ := print_parse_located fl c x toks d hdesc hind hlex hparse
  exact ⟨t0, d0, h0, p0, by rw [e0, stripMemberDescriptions_erase]⟩

/-- printing the re-parsed (located) tree reproduces the same text -/
theorem print_stable_located (fl : Flags) (c : Cfg) (x : Text) (toks : List Tok) (d : Document)
    (hdesc : c.includeDescriptions = true) (hind : IndentOK c) (hlex : lexAll x = .ok toks)
    (hparse : parseDocument fl toks = .ok d) :
    ∃ toks' d', lexAll (printDocument c d) = .ok toks' ∧ parseDocument fl toks' = .ok d' ∧
      printDocument c d' = printDocument c d := by
  have h1 : parseDocument { fl with noLocation := true } toks = .ok d.erase := by
    rw [PyGql.Props.C02.noloc_erasure, hparse]; rfl
  obtain ⟨toks', e', hl, hp, hs⟩ := print_stable { fl with noLocation := true } c x toks d.erase rfl hdesc hind hlex h1
  rw [print_erase] at hl hs
  obtain ⟨d', hd', he⟩ := parse_of_erased fl toks' _ hp
  refine ⟨toks', d', hl, hd', ?_⟩
  rw [← print_erase c d', he]; exact hs

/-! ### non-vacuity: `enum E {A}` parsed WITH positions -/
private def locFlags : Flags := { noLocation := false, allowTypeSystem := true }

example : (parseDocument locFlags ((lexAll plainEnumText).toOption.getD [])).toOption.map (·.loc) = some (some (0, 10)) := by
  decide
/-- the hypotheses of `print_parse_located` hold for a tree WITH positions (its Document spans (0,10)) -/
example : ∃ toks d, lexAll plainEnumText = .ok toks ∧ parseDocument locFlags toks = .ok d ∧ d.loc = some (0, 10) :=
  ⟨_, _, rfl, rfl, rfl⟩
/-- … whose erasure is the position-free tree of `Props/C03_full.lean`, without member description -/
example : ¬ HasMemberDescription (r4Doc none).erase := fun h => h rfl

end PyGql.Props.C03

/-
  C02, last clause at CHARACTER level, for EVERY node of a DOCUMENT (executable and type-system, all flags):

  `span_reparse_node`   `parse(s) = d`: for every node `j` (of any kind: definition, selection set, field, argument,
                        directive, variable definition, value, type, name, field definition, …) below a definition of `d`,
                        with span `(a, b)`: the lexer accepts the characters `s[a:b]`, and the tokens it returns are
                        derived by `SOF (j moved down by a) EOF` — the node's own concrete syntax, every span inside it
                        being token-tight again.  So the text inside a span derives exactly the node, at offset 0.
  `span_reparse_doc_value` / `span_reparse_doc_type`
                        for value / type nodes `parse_value(s[a:b])` / `parse_type(s[a:b])` RETURN the node moved down by `a`.
-/
import PyGqlModel.Props.C02_reparse
import PyGqlModel.Lemmas.SpanSolid
import PyGqlModel.Lemmas.SpanShiftDoc
import PyGqlModel.Lemmas.SpanWfDoc
import PyGqlModel.Lemmas.SpanVals
import PyGqlModel.Lemmas.SpanValsTS
import PyGqlModel.Lemmas.SpanTypes
namespace PyGql.Props.C02
open PyGql PyGql.Ast PyGql.Parse PyGql.Spec PyGql.Props.C01
open PyGql.Spec.Lexical (Tiles slice eofT)

/-- the common core: text accepted as a document, a solid node below one of its definitions -/
private theorem doc_core (fl : Flags) (s : Text) (d : Document) (h : parseText fl s = some d)
    (x : Definition) (hx : x ∈ d.definitions) (j : Item) (hs : Item.Sub j (definitionV x))
    (a b : Nat) (is : List Item) (hj : j = .node (some (a, b)) is) :
    a ≤ b ∧ b ≤ s.length ∧ fl.noLocation = false ∧ ∃ seg, Lex.lexAll (slice s a b) = .ok (Lex.sofTok :: (seg ++ [eofT (b - a)])) ∧
      Item.checkAll fl [p .sof, j.down a, p .eof] default (Lex.sofTok :: (seg ++ [eofT (b - a)])) = some (eofT (b - a), []) := by
  obtain ⟨toks, hl, _, hm⟩ := (parse_text_result_partial fl s d).1 h
  obtain ⟨l', hm⟩ := (matches_iff _ _ _).1 hm
  obtain ⟨body, rfl, ht⟩ := (lexAll_ok_iff s toks).mp hl
  rw [checkAll_cons] at hm
  obtain ⟨l1, ts1, h1, h2⟩ := hm
  rw [checkAll_nil] at h2
  cases h2
  unfold documentV at h1
  rw [check_node] at h1
  obtain ⟨f, tl, _, hall, _⟩ := h1
  have hsol : j.solid = true := solid_sub hs (definitionV_solid x)
  obtain ⟨h1, h2, hnl, seg, htl, hc⟩ := item_slice fl s body ht (d.definitions.map definitionV) default l' hall
    (i := definitionV x) (j := j) (List.mem_map.2 ⟨x, hx, rfl⟩) hs hsol is a b hj
  refine ⟨h1, h2, hnl, seg, ?_, hc⟩
  apply (lexAll_ok_iff _ _).mpr
  exact ⟨_, rfl, by rw [Spec.slice_length h1 h2]; exact htl⟩

/-- character-level `span_reparse` for every node of a document, as a statement about the grammar:
    the characters inside the span lex, and derive exactly the node (moved to offset 0). -/
theorem span_reparse_node (fl : Flags) (s : Text) (d : Document) (h : parseText fl s = some d) :
    ∀ x ∈ d.definitions, ∀ j, Item.Sub j (definitionV x) → ∀ a b is, j = .node (some (a, b)) is →
      a ≤ b ∧ b ≤ s.length ∧
      ∃ toks', Lex.lexAll (slice s a b) = .ok toks' ∧ Matches fl [p .sof, j.down a, p .eof] toks' := by
  intro x hx j hs a b is hj
  obtain ⟨h1, h2, _, seg, hlex, hc⟩ := doc_core fl s d h x hx j hs a b is hj
  exact ⟨h1, h2, _, hlex, (matches_iff _ _ _).2 ⟨_, hc⟩⟩

/-- value nodes of a document: `parse_value` on the spanned characters RETURNS the node (modulo offset).
    `wfValue false w` (enum values are not `true`/`false`/`null`) holds for every value node of a parsed document
    (`parse_sound_document`); it is a hypothesis here only because the view `valueV` cannot tell the ill-formed enum
    value `true` from the boolean. -/
theorem span_reparse_doc_value (fl : Flags) (s : Text) (d : Document) (h : parseText fl s = some d) :
    ∀ x ∈ d.definitions, ∀ w : Value, Item.Sub (valueV w) (definitionV x) → wfValue false w = true →
      ∀ a b, w.loc = some (a, b) →
      a ≤ b ∧ b ≤ s.length ∧ parseValueText fl (slice s a b) = some (w.mapLoc (locDown a)) := by
  intro x hx w hs hwf a b hloc
  obtain ⟨is, hnode⟩ := valueV_node w
  rw [hloc] at hnode
  obtain ⟨h1, h2, _, seg, hlex, hc⟩ := doc_core fl s d h x hx _ hs a b is hnode
  have hm := (matches_iff _ _ _).2 ⟨_, hc⟩
  refine ⟨h1, h2, ?_⟩
  rw [← valueV_down] at hm
  have hpc := parseValue_complete fl _ (w.mapLoc (locDown a)) (by rw [wfValue_mapLoc]; exact hwf) hm
  unfold parseValueText
  rw [hlex]; simp only [hpc]; rfl

/-- type nodes of a document (variable definitions, field / argument / input field types): `parse_type` on the spanned
    characters returns the node (modulo offset) -/
theorem span_reparse_doc_type (fl : Flags) (s : Text) (d : Document) (h : parseText fl s = some d) :
    ∀ x ∈ d.definitions, ∀ w : TypeRef, Item.Sub (typeV w) (definitionV x) → wfType w = true →
      ∀ a b, w.loc = some (a, b) →
      a ≤ b ∧ b ≤ s.length ∧ parseTypeText fl (slice s a b) = some (w.mapLoc (locDown a)) := by
  intro x hx w hs hwf a b hloc
  obtain ⟨is, hnode⟩ := typeV_node w
  rw [hloc] at hnode
  obtain ⟨h1, h2, _, seg, hlex, hc⟩ := doc_core fl s d h x hx _ hs a b is hnode
  have hm := (matches_iff _ _ _).2 ⟨_, hc⟩
  refine ⟨h1, h2, ?_⟩
  rw [← typeV_down] at hm
  have hpc := parseType_complete fl _ (w.mapLoc (locDown a)) (by rw [wfType_mapLoc]; exact hwf) hm
  unfold parseTypeText
  rw [hlex]; simp only [hpc]; rfl

/-- EXECUTABLE documents, no side hypothesis: every value node of every operation and fragment definition — default
    values of variable definitions, arguments of fields and of directives at every level of the selection sets, and
    every value nested in them (`OperationDefinition.vals` / `FragmentDefinition.vals`) — is what `parse_value` returns
    for the characters inside its span, modulo the offset. -/
theorem span_reparse_exec_value (fl : Flags) (s : Text) (d : Document) (h : parseText fl s = some d) :
    (∀ o, Definition.operation o ∈ d.definitions → ∀ w ∈ o.vals, ∀ a b, w.loc = some (a, b) →
      a ≤ b ∧ b ≤ s.length ∧ parseValueText fl (slice s a b) = some (w.mapLoc (locDown a))) ∧
    (∀ f, Definition.fragment f ∈ d.definitions → ∀ w ∈ f.vals, ∀ a b, w.loc = some (a, b) →
      a ≤ b ∧ b ≤ s.length ∧ parseValueText fl (slice s a b) = some (w.mapLoc (locDown a))) := by
  obtain ⟨_, _, wf, _⟩ := (parse_text_result_partial fl s d).1 h
  have wfx : ∀ x ∈ d.definitions, wfDefinition fl x = true := by
    intro x hx
    simp only [wfDocument, Bool.and_eq_true, List.all_eq_true] at wf
    exact (wf.2 x hx).1
  constructor
  · intro o ho w hw a b hloc
    obtain ⟨hs, hwf⟩ := operation_vals o w hw
    exact span_reparse_doc_value fl s d h _ ho w (by simpa [definitionV] using hs)
      (hwf (by simpa [wfDefinition] using wfx _ ho)) a b hloc
  · intro f hf w hw a b hloc
    obtain ⟨hs, hwf⟩ := fragment_vals fl f w hw
    exact span_reparse_doc_value fl s d h _ hf w (by simpa [definitionV] using hs)
      (hwf (by simpa [wfDefinition] using wfx _ hf)) a b hloc

/-- ALL documents (executable and type-system, all flags), no side hypothesis: every value node of every definition
    (`Definition.vals`: arguments of fields and of directives wherever directives occur, default values of variable
    definitions, of argument definitions and of input fields, and every value nested in them) is what `parse_value`
    returns for the characters inside its span, modulo the offset. -/
theorem span_reparse_value_all (fl : Flags) (s : Text) (d : Document) (h : parseText fl s = some d) :
    ∀ x ∈ d.definitions, ∀ w ∈ x.vals, ∀ a b, w.loc = some (a, b) →
      a ≤ b ∧ b ≤ s.length ∧ parseValueText fl (slice s a b) = some (w.mapLoc (locDown a)) := by
  intro x hx w hw a b hloc
  obtain ⟨_, _, wf, _⟩ := (parse_text_result_partial fl s d).1 h
  have wfx : wfDefinition fl x = true := by
    simp only [wfDocument, Bool.and_eq_true, List.all_eq_true] at wf
    exact (wf.2 x hx).1
  obtain ⟨hs, hwf⟩ := definition_vals fl x w hw
  exact span_reparse_doc_value fl s d h x hx w hs (hwf wfx) a b hloc

/-- ALL documents, no side hypothesis: every type node of every definition (`Definition.types`: the types of variable
    definitions, of field / argument / input-field definitions with every type nested in them; the named types of type
    conditions, `implements` lists, union members and operation types, read as `Type`) is what `parse_type` returns for the
    characters inside its span, modulo the offset. -/
theorem span_reparse_type_all (fl : Flags) (s : Text) (d : Document) (h : parseText fl s = some d) :
    ∀ x ∈ d.definitions, ∀ w ∈ x.types, ∀ a b, w.loc = some (a, b) →
      a ≤ b ∧ b ≤ s.length ∧ parseTypeText fl (slice s a b) = some (w.mapLoc (locDown a)) := by
  intro x hx w hw a b hloc
  obtain ⟨_, _, wf, _⟩ := (parse_text_result_partial fl s d).1 h
  have wfx : wfDefinition fl x = true := by
    simp only [wfDocument, Bool.and_eq_true, List.all_eq_true] at wf
    exact (wf.2 x hx).1
  obtain ⟨hs, hwf⟩ := definition_types fl x w hw
  exact span_reparse_doc_type fl s d h x hx w hs (hwf wfx) a b hloc

theorem definitionV_node (x : Definition) : ∃ is, definitionV x = .node x.loc is := by
  cases x with
  | operation o => simp only [definitionV, operationV, Definition.loc]; split <;> exact ⟨_, rfl⟩
  | fragment o => exact ⟨_, rfl⟩
  | _ => exact ⟨_, rfl⟩

/-- DEFINITIONS: the characters inside the span of a definition (operation, fragment, type-system definition or
    extension) are accepted by `parse` under the same flags, and the result is the document holding exactly that
    definition, moved down by the start offset; the document's own span is the whole slice. -/
theorem span_reparse_definition (fl : Flags) (s : Text) (d : Document) (h : parseText fl s = some d) :
    ∀ x ∈ d.definitions, ∀ a b, x.loc = some (a, b) →
      a ≤ b ∧ b ≤ s.length ∧
      parseText fl (slice s a b) = some ⟨[x.mapLoc (locDown a)], some (0, b - a)⟩ := by
  intro x hx a b hloc
  obtain ⟨is, hnode⟩ := definitionV_node x
  rw [hloc] at hnode
  obtain ⟨h1, h2, hnl, seg, hlex, hc⟩ := doc_core fl s d h x hx _ .refl a b is hnode
  refine ⟨h1, h2, ?_⟩
  obtain ⟨_, _, wf, _⟩ := (parse_text_result_partial fl s d).1 h
  have wfx : (wfDefinition fl x && (fl.allowTypeSystem || !isTypeSystem x)) = true := by
    simp only [wfDocument, Bool.and_eq_true, List.all_eq_true] at wf
    exact Bool.and_eq_true_iff.2 (wf.2 x hx)
  apply (parse_text_result_partial fl _ _).2
  refine ⟨_, hlex, ?_, (matches_iff _ _ _).2 ⟨eofT (b - a), ?_⟩⟩
  · simp only [wfDocument, List.isEmpty_cons, Bool.not_false, Bool.true_and, List.all_cons, List.all_nil, Bool.and_true,
      wfDefinition_mapLoc, isTypeSystem_mapLoc]
    exact wfx
  · rw [← definitionV_down] at hc
    rw [checkAll_cons]
    refine ⟨eofT (b - a), [], ?_, by rw [checkAll_nil]⟩
    unfold documentV
    rw [check_node]
    refine ⟨Lex.sofTok, _, rfl, ?_, ?_⟩
    · simpa using hc
    · simp [locOf, hnl, Lex.sofTok, eofT]

/-! ### non-vacuity: `{a(x:[1])}` — the argument value `[1]` (5,8) is a sub-node of the definition's view -/
private def doc : Text := [123, 97, 40, 120, 58, 91, 49, 93, 41, 125]
private def wv : Value := .list [.int [49] (some (6, 7))] (some (5, 8))

private def theDoc : Document := ⟨[.operation ⟨[113, 117, 101, 114, 121], none, [], [],
   .mk [.field none ⟨[97], some (1, 2)⟩ [⟨⟨[120], some (3, 4)⟩, wv, some (3, 8)⟩] [] none (some (1, 9))] (some (0, 10)), some (0, 10)⟩],
   some (0, 10)⟩

/-- all hypotheses of `span_reparse_doc_value` hold for this instance -/
example : parseText {} doc = some theDoc := by rfl
example : ∃ x ∈ theDoc.definitions, Item.Sub (valueV wv) (definitionV x) ∧ wfValue false wv = true ∧ wv.loc = some (5, 8) := by
  refine ⟨_, List.mem_singleton.2 rfl, ?_, by decide, rfl⟩
  simp only [definitionV, operationV]
  rw [if_pos (by decide)]
  refine .node (.tail _ (.head _)) ?_
  simp only [selectionSetV, selectionsV, selectionV]
  refine .node (.tail _ (.head _)) ?_
  refine .node (i := argumentV ⟨⟨[120], some (3, 4)⟩, wv, some (3, 8)⟩) (by simp [argumentsV, groupV]) ?_
  exact .node (i := valueV wv) (by simp) .refl
/-- and the conclusion, computed: `[1]` at offset 0 -/
example : (parseValueText {} (slice doc 5 8)).map (fun v => v.subs.map Value.loc) = some [some (0, 3), some (1, 2)] := by
  decide

/-- `span_reparse_exec_value` is not vacuous: the value nodes of the operation of `{a(x:[1])}` are `[1]` (5,8) and `1` (6,7) -/
example : (match theDoc.definitions with
    | [.operation o] => o.vals.map Value.loc
    | _ => []) = [some (5, 8), some (6, 7)] := by decide

/-- `span_reparse_type_all` is not vacuous: `query($v:[A!]){a}` has the type nodes `[A!]` (9,13), `A!` (10,12), `A` (10,11) -/
private def tdoc : Text := [113, 117, 101, 114, 121, 40, 36, 118, 58, 91, 65, 33, 93, 41, 123, 97, 125]
example : (parseText {} tdoc).map (fun d => d.definitions.map (fun x => x.types.map TypeRef.loc)) =
    some [[some (9, 13), some (10, 12), some (10, 11)]] := by decide
example : (parseTypeText {} (slice tdoc 10 12)).map (fun t => t.subs.map TypeRef.loc) = some [some (0, 2), some (0, 1)] := by
  decide

/-- `{a} {b}`: the second definition spans (4,7); its text `{b}` parses to one definition spanning (0,3) in a document (0,3) -/
private def two : Text := [123, 97, 125, 32, 123, 98, 125]
example : (parseText {} two).map (fun d => d.definitions.map Definition.loc) = some [some (0, 3), some (4, 7)] := by decide
example : (parseText {} (slice two 4 7)).map (fun d => (d.definitions.map Definition.loc, d.loc)) =
    some ([some (0, 3)], some (0, 3)) := by decide

end PyGql.Props.C02

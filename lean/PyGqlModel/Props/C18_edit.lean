/-
  C18 — TREE-LEVEL locality: a visitor that acts on ONE node `x` (by identity) and changes nothing elsewhere
  produces exactly `Spec.editAt p … t`, for every position `p` reachable through the implemented child relation:
  deletion removes exactly that member, a replacement substitutes exactly that node, `SkipNode` leaves the tree as it is.
  Composed from the frame rules (`visitList` decomposition) and the identity of the visitor on every sub-tree that
  does not contain `x` (distinct identities).
-/
import PyGqlModel.Props.C18_once

set_option linter.unusedVariables false
set_option linter.unusedSimpArgs false

namespace PyGql.Props.C18
open PyGql.Visit

/-- acts on the node with identity `i` (as `a` says), changes nothing elsewhere; stateless -/
def actAt (i : Nat) (a : Node → Act) : Visitor Unit :=
  ⟨fun n s => (if n.id == i then a n else .keep n, s), fun _ s => s⟩

/-- the child nodes an attribute holds -/
def kidsOfAttr : Attr → List Node
  | .one (some c) => [c]
  | .many cs => cs
  | _ => []

/-! ### small facts about identities -/

private theorem id_mem_ids (n : Node) : n.id ∈ idsNode n := by
  cases n with
  | mk k i a => simp [idsNode, Node.id]

private theorem idsList_mem {c : Node} : ∀ {cs : List Node}, c ∈ cs → ∀ i ∈ idsNode c, i ∈ idsList cs := by
  intro cs
  induction cs with
  | nil => intro h; simp at h
  | cons d r ih =>
    intro h i hi
    simp only [idsList, List.mem_append]
    rcases List.mem_cons.mp h with h | h
    · subst h; exact Or.inl hi
    · exact Or.inr (ih h i hi)

private theorem kids_ids {x : Attr} {c : Node} (h : c ∈ kidsOfAttr x) : ∀ i ∈ idsNode c, i ∈ idsAttr x := by
  intro i hi
  cases x with
  | scalar v => simp [kidsOfAttr] at h
  | one oc =>
    cases oc with
    | none => simp [kidsOfAttr] at h
    | some d => simp [kidsOfAttr] at h; subst h; simpa [idsAttr] using hi
  | many cs => simp only [kidsOfAttr] at h; simpa [idsAttr] using idsList_mem h i hi

private theorem avoid_kids {i : Nat} {n : Node} (hn : i ∉ idsNode n) {a : String} {x : Attr} {c : Node}
    (hg : n.getAttr a = some x) (hc : c ∈ kidsOfAttr x) : i ∉ idsNode c := by
  intro hi
  apply hn
  cases n with
  | mk k j attrs =>
    simp only [idsNode, List.mem_cons]
    exact Or.inr (lookup_ids_mem a x attrs (by simpa [Node.getAttr, Node.attrs] using hg) i (kids_ids hc i hi))

private theorem idsList_append (a b : List Node) : idsList (a ++ b) = idsList a ++ idsList b := by
  induction a with
  | nil => simp [idsList]
  | cons c r ih => simp [idsList, ih, List.append_assoc]

/-! ### identity of a visitor on the sub-trees where it changes nothing -/

private def IdFP (P : Node → Prop) (f : Node → Unit → Res (Out Unit)) : Prop :=
  ∀ c s o, P c → f c s = .ok o → o.ret = some c ∧ o.orig = c

private theorem visitList_idP {P : Node → Prop} {f : Node → Unit → Res (Out Unit)} (hf : IdFP P f) :
    ∀ cs, (∀ c ∈ cs, P c) → ∀ s r ip s' tr, visitList f cs s = .ok (r, ip, s', tr) → r = cs ∧ ip = cs := by
  intro cs
  induction cs with
  | nil => intro _ s r ip s' tr h; simp [visitList] at h; simp [h]
  | cons c cs ih =>
    intro hP s r ip s' tr h
    simp only [visitList] at h
    cases hc : f c s with
    | err e => simp [hc] at h
    | fuel => simp [hc] at h
    | ok o =>
      simp only [hc] at h
      cases hr : visitList f cs o.st with
      | err e => simp [hr] at h
      | fuel => simp [hr] at h
      | ok q =>
        obtain ⟨r1, ip1, s1, tr1⟩ := q
        simp only [hr] at h
        have ⟨h1, h2⟩ := hf c s o (hP c (by simp)) hc
        have ⟨h3, h4⟩ := ih (fun d hd => hP d (by simp [hd])) _ _ _ _ _ hr
        simp only [Res.ok.injEq, Prod.mk.injEq] at h
        obtain ⟨ha, hb, _, _⟩ := h
        subst h3 h4
        rw [h1] at ha
        simp at ha
        exact ⟨ha.symm, by rw [← hb, h2]⟩

private theorem runStep_idP {P : Node → Prop} {call : Target → Node → Unit → Res (Out Unit)} (hc : ∀ t, IdFP P (call t))
    (st : Step) (n : Node) (hk : ∀ x c, n.getAttr st.attr = some x → c ∈ kidsOfAttr x → P c)
    (s : Unit) (n' : Node) (s' : Unit) (tr : List Ev)
    (h : runStep call st n s = .ok (n', s', tr)) : n' = n := by
  unfold runStep at h
  split at h
  · simp at h; exact h.1.symm
  · split at h
    · simp at h
    · rename_i a ha
      split at h
      · split at h <;> simp at h; exact h.1.symm
      · rename_i c hs
        split at h
        · simp at h
        · simp at h
        · rename_i o ho
          have ⟨h1, h2⟩ := hc _ _ _ _ (hk _ c ha (by simp [kidsOfAttr])) ho
          simp only [Res.ok.injEq, Prod.mk.injEq] at h
          rw [← h.1, h1, h2]
          simp only [ite_self]
          exact setAttr_getAttr n _ _ ha
      · rename_i cs hs
        split at h
        · simp at h
        · simp at h
        · rename_i r ip s1 tr1 hl
          have ⟨h1, h2⟩ := visitList_idP (hc _) cs (fun c hcm => hk _ c ha (by simpa [kidsOfAttr] using hcm)) _ _ _ _ _ hl
          simp only [Res.ok.injEq, Prod.mk.injEq] at h
          rw [← h.1, h1, h2]
          simp only [ite_self]
          exact setAttr_getAttr n _ _ ha
      · simp at h

private theorem runSteps_idP {P : Node → Prop} {call : Target → Node → Unit → Res (Out Unit)} (hc : ∀ t, IdFP P (call t))
    (n : Node) : ∀ (steps : List Step),
      (∀ st ∈ steps, ∀ x c, n.getAttr st.attr = some x → c ∈ kidsOfAttr x → P c) →
      ∀ (s : Unit) (n' : Node) (s' : Unit) (tr : List Ev), runSteps call steps n s = .ok (n', s', tr) → n' = n := by
  intro steps
  induction steps with
  | nil => intro _ s n' s' tr h; simp [runSteps] at h; exact h.1.symm
  | cons st rest ih =>
    intro hk s n' s' tr h
    simp only [runSteps] at h
    cases h1 : runStep call st n s with
    | err e => simp [h1] at h
    | fuel => simp [h1] at h
    | ok q =>
      obtain ⟨n1, s1, tr1⟩ := q
      simp only [h1] at h
      cases h2 : runSteps call rest n1 s1 with
      | err e => simp [h2] at h
      | fuel => simp [h2] at h
      | ok q2 =>
        obtain ⟨n2, s2, tr2⟩ := q2
        simp only [h2, Res.ok.injEq, Prod.mk.injEq] at h
        have e1 := runStep_idP hc st n (hk st (by simp)) _ _ _ _ h1
        subst e1
        have e2 := ih (fun st' hst' => hk st' (by simp [hst'])) _ _ _ _ h2
        rw [← h.1, e2]

private theorem actAt_enter_ne (i : Nat) (a : Node → Act) (n : Node) (s : Unit) (h : n.id ≠ i) :
    (actAt i a).enter n s = (.keep n, s) := by
  simp [actAt, h]

/-- on a sub-tree that does not contain the identity `i`, `actAt i a` changes nothing -/
private theorem visitM_avoid (T : Table) (i : Nat) (a : Node → Act) :
    ∀ fuel m, IdFP (fun c => i ∉ idsNode c) (visitM T (actAt i a) fuel m) := by
  intro fuel
  induction fuel with
  | zero => intro m c s o _ h; simp [visitM] at h
  | succ fuel ih =>
    intro m c s o hav h
    have hne : c.id ≠ i := fun he => hav (he ▸ id_mem_ids c)
    simp only [visitM, actAt_enter_ne i a c s hne, bodyMethod_of_kind_eq T _ c c rfl] at h
    split at h
    · simp at h
    · rename_i steps hm
      split at h
      · simp at h
      · simp at h
      · rename_i n2 s2 tr hr
        have hcall : ∀ t, IdFP (fun c => i ∉ idsNode c) (callTarget T (visitM T (actAt i a) fuel) t) := by
          intro t c s o hc ho
          unfold callTarget at ho
          split at ho
          · exact ih _ c s o hc ho
          · simp at ho
        have := runSteps_idP hcall c steps (fun st _ x d hg hd => avoid_kids hav hg hd) _ _ _ _ hr
        simp only [Res.ok.injEq] at h
        subst h
        simp [this]

/-! ### list and attribute bookkeeping -/

private theorem split_at {α : Type} : ∀ (cs : List α) (i : Nat) (c : α), cs[i]? = some c →
    ∃ pre post, cs = pre ++ c :: post ∧ pre.length = i := by
  intro cs
  induction cs with
  | nil => intro i c h; simp at h
  | cons d r ih =>
    intro i c h
    cases i with
    | zero => simp at h; subst h; exact ⟨[], r, rfl, rfl⟩
    | succ j =>
      simp at h
      obtain ⟨pre, post, h1, h2⟩ := ih j c h
      exact ⟨d :: pre, post, by simp [h1], by simp [h2]⟩

private theorem set_at_length {α : Type} (pre post : List α) (c x : α) :
    (pre ++ c :: post).set pre.length x = pre ++ x :: post := by
  induction pre with
  | nil => rfl
  | cons d r ih => simp [List.set, ih]

private theorem eraseIdx_at_length {α : Type} (pre post : List α) (c : α) :
    (pre ++ c :: post).eraseIdx pre.length = pre ++ post := by
  induction pre with
  | nil => rfl
  | cons d r ih => simp [List.eraseIdx, ih]

private theorem lookup_setIn_ne (a b : String) (x : Attr) (h : a ≠ b) :
    ∀ attrs : List (String × Attr), (Node.setIn a x attrs).lookup b = attrs.lookup b := by
  intro attrs
  induction attrs with
  | nil => rfl
  | cons p r ih =>
    obtain ⟨c, y⟩ := p
    simp only [Node.setIn]
    cases hac : a == c with
    | true =>
      have e : a = c := by simpa using hac
      subst e
      have hb : (b == a) = false := by simpa using fun he : b = a => h he.symm
      simp [List.lookup, hb]
    | false =>
      simp only [Bool.false_eq_true, if_false, List.lookup]
      cases hbc : b == c <;> simp [ih]

private theorem getAttr_setAttr_ne (n : Node) (a b : String) (x : Attr) (h : a ≠ b) :
    (n.setAttr a x).getAttr b = n.getAttr b := by
  simp [Node.setAttr, Node.getAttr, Node.attrs, lookup_setIn_ne a b x h]

/-- `visitList` over `pre ++ c :: post`, decomposed -/
private theorem visitList_split (f : Node → Unit → Res (Out Unit)) (c : Node) (post : List Node) :
    ∀ (pre : List Node) (s : Unit) r ip s' tr, visitList f (pre ++ c :: post) s = .ok (r, ip, s', tr) →
      ∃ rp ipp s1 tp oc rq iq tq, visitList f pre s = .ok (rp, ipp, s1, tp) ∧ f c s1 = .ok oc ∧
        visitList f post oc.st = .ok (rq, iq, s', tq) ∧
        r = rp ++ (match oc.ret with | some n => n :: rq | none => rq) := by
  intro pre
  induction pre with
  | nil =>
    intro s r ip s' tr h
    simp only [List.nil_append, visitList] at h
    cases hc : f c s with
    | err e => simp [hc] at h
    | fuel => simp [hc] at h
    | ok oc =>
      simp only [hc] at h
      cases hr : visitList f post oc.st with
      | err e => simp [hr] at h
      | fuel => simp [hr] at h
      | ok q =>
        obtain ⟨rq, iq, s2, tq⟩ := q
        simp only [hr, Res.ok.injEq, Prod.mk.injEq] at h
        refine ⟨[], [], s, [], oc, rq, iq, tq, by simp [visitList], hc, ?_, ?_⟩
        · rw [hr]
        · rw [← h.1]; cases oc.ret <;> rfl
  | cons d pre ih =>
    intro s r ip s' tr h
    simp only [List.cons_append, visitList] at h
    cases hd : f d s with
    | err e => simp [hd] at h
    | fuel => simp [hd] at h
    | ok od =>
      simp only [hd] at h
      cases hr : visitList f (pre ++ c :: post) od.st with
      | err e => simp [hr] at h
      | fuel => simp [hr] at h
      | ok q =>
        obtain ⟨r1, ip1, s2, t1⟩ := q
        simp only [hr, Res.ok.injEq, Prod.mk.injEq] at h
        obtain ⟨rp, ipp, s1, tp, oc, rq, iq, tq, h1, h2, h3, h4⟩ := ih _ _ _ _ _ hr
        refine ⟨(match od.ret with | some n => n :: rp | none => rp), od.orig :: ipp, s1, od.tr ++ tp, oc, rq, iq, tq, ?_, h2, ?_, ?_⟩
        · simp only [visitList, hd, h1]; cases od.ret <;> rfl
        · rw [h3]
        · rw [← h.1, h4]; cases od.ret <;> simp

/-! ### positions reached by the implemented traversal -/

/-- `p` is a position of `t` reached when method `m` runs on `t`: every attribute on the way is traversed by a
    statement of the running method that applies to the node's kind and writes its result back, and the child is
    dispatched to an existing method. -/
def Reach (T : Table) : String → Node → List (String × Option Nat) → Prop
  | _, _, [] => True
  | m, t, (a, none) :: p =>
    ∃ steps st c m', T.methods.lookup m = some steps ∧ st ∈ steps ∧ st.attr = a ∧ st.applies t.kind = true ∧
      st.assign = true ∧ st.shape = .one ∧ t.getAttr a = some (.one (some c)) ∧
      resolve T st.target c.kind = .ok m' ∧ Reach T m' c p
  | m, t, (a, some i) :: p =>
    ∃ steps st cs c m', T.methods.lookup m = some steps ∧ st ∈ steps ∧ st.attr = a ∧ st.applies t.kind = true ∧
      st.assign = true ∧ st.shape = .many ∧ t.getAttr a = some (.many cs) ∧ cs[i]? = some c ∧
      resolve T st.target c.kind = .ok m' ∧ Reach T m' c p

/-- the edit that the outcome of visiting `x` amounts to -/
def editOf (o : Out Unit) : Spec.Edit :=
  match o.ret with
  | none => .delete
  | some r => .replace r

private theorem attr_ids_sub {n : Node} {a : String} {y : Attr} (hg : n.getAttr a = some y) :
    ∀ i ∈ idsAttr y, i ∈ idsAttrs n.attrs := by
  intro i hi
  exact lookup_ids_mem a y n.attrs (by simpa [Node.getAttr] using hg) i hi

private theorem ids_unfold (n : Node) : idsNode n = n.id :: idsAttrs n.attrs := by
  cases n; simp [idsNode, Node.id, Node.attrs]

private theorem nodeAt_id_mem (x : Node) : ∀ p n, Spec.nodeAt p n = some x → x.id ∈ idsNode n := by
  intro p
  induction p with
  | nil => intro n h; simp [Spec.nodeAt] at h; subst h; exact id_mem_ids _
  | cons q p ih =>
    obtain ⟨a, io⟩ := q
    intro n h
    rw [ids_unfold]
    apply List.mem_cons_of_mem
    cases io with
    | none =>
      simp only [Spec.nodeAt] at h
      split at h
      · rename_i c hg
        exact attr_ids_sub hg _ (by simpa [idsAttr] using ih c h)
      · simp at h
    | some i =>
      simp only [Spec.nodeAt] at h
      split at h
      · rename_i cs hg
        split at h
        · rename_i c hc
          have hm : c ∈ cs := List.mem_of_getElem? hc
          exact attr_ids_sub hg _ (by simpa [idsAttr] using idsList_mem hm _ (ih c h))
        · simp at h
      · simp at h

private theorem runStep_shape {call : Target → Node → Unit → Res (Out Unit)} (st : Step) (n : Node) (s : Unit)
    (n1 : Node) (s1 : Unit) (tr1 : List Ev) (h : runStep call st n s = .ok (n1, s1, tr1)) :
    n1 = n ∨ ∃ v, n1 = n.setAttr st.attr v := by
  unfold runStep at h
  split at h
  · simp at h; exact Or.inl h.1.symm
  · split at h
    · simp at h
    · split at h
      · split at h <;> simp at h; exact Or.inl h.1.symm
      · split at h
        · simp at h
        · simp at h
        · simp only [Res.ok.injEq, Prod.mk.injEq] at h; exact Or.inr ⟨_, h.1.symm⟩
      · split at h
        · simp at h
        · simp at h
        · simp only [Res.ok.injEq, Prod.mk.injEq] at h; exact Or.inr ⟨_, h.1.symm⟩
      · simp at h

/-- in a body whose statements read distinct attributes, if every statement other than `st0` only meets children
    on which the callback is the identity, the body does to the node exactly what `st0` does -/
private theorem runSteps_locate {P : Node → Prop} {call : Target → Node → Unit → Res (Out Unit)} (hc : ∀ t, IdFP P (call t))
    (n : Node) (st0 : Step) : ∀ (steps : List Step), (steps.map (·.attr)).Nodup → st0 ∈ steps →
      (∀ st ∈ steps, st.attr ≠ st0.attr → ∀ x c, n.getAttr st.attr = some x → c ∈ kidsOfAttr x → P c) →
      ∀ (s : Unit) (n' : Node) (s' : Unit) (tr : List Ev), runSteps call steps n s = .ok (n', s', tr) →
        ∃ n1 s1 tr1, runStep call st0 n () = .ok (n1, s1, tr1) ∧ n' = n1 := by
  intro steps
  induction steps with
  | nil => intro _ hm; simp at hm
  | cons st rest ih =>
    intro hnd hm hk s n' s' tr h
    simp only [List.map_cons, List.nodup_cons] at hnd
    simp only [runSteps] at h
    cases h1 : runStep call st n s with
    | err e => simp [h1] at h
    | fuel => simp [h1] at h
    | ok q =>
      obtain ⟨n1, s1, tr1⟩ := q
      simp only [h1] at h
      cases h2 : runSteps call rest n1 s1 with
      | err e => simp [h2] at h
      | fuel => simp [h2] at h
      | ok q2 =>
        obtain ⟨n2, s2, tr2⟩ := q2
        simp only [h2, Res.ok.injEq, Prod.mk.injEq] at h
        by_cases hst : st0 = st
        · subst hst
          have hrest : ∀ st' ∈ rest, st'.attr ≠ st0.attr := by
            intro st' hst' he
            exact hnd.1 (by rw [← he]; exact List.mem_map.mpr ⟨st', hst', rfl⟩)
          have hk1 : ∀ st' ∈ rest, ∀ x c, n1.getAttr st'.attr = some x → c ∈ kidsOfAttr x → P c := by
            intro st' hst' x c hg hcx
            have hne := hrest st' hst'
            rcases runStep_shape _ _ _ _ _ _ h1 with e | ⟨v, e⟩
            · subst e; exact hk st' (by simp [hst']) hne x c hg hcx
            · subst e
              rw [getAttr_setAttr_ne _ _ _ _ (fun he => hne he.symm)] at hg
              exact hk st' (by simp [hst']) hne x c hg hcx
          have e2 := runSteps_idP hc n1 rest hk1 _ _ _ _ h2
          exact ⟨n1, s1, tr1, h1, by rw [← h.1, e2]⟩
        · have hm' : st0 ∈ rest := by
            rcases List.mem_cons.mp hm with e | e
            · exact absurd e hst
            · exact e
          have hne : st.attr ≠ st0.attr := by
            intro he
            exact hnd.1 (by rw [he]; exact List.mem_map.mpr ⟨st0, hm', rfl⟩)
          have e1 := runStep_idP hc st n (hk st (by simp) hne) _ _ _ _ h1
          subst e1
          obtain ⟨m1, t1, u1, hr, he⟩ := ih hnd.2 hm' (fun st' hst' => hk st' (by simp [hst'])) _ _ _ _ h2
          exact ⟨m1, t1, u1, hr, by rw [← h.1, he]⟩

/-- children held by other attributes than the one leading to `x` do not contain `x` -/
private theorem other_attr_avoids {t : Node} (hnd : (idsNode t).Nodup) {a b : String} {y z : Attr} {i : Nat}
    (hab : b ≠ a) (hga : t.getAttr a = some y) (hi : i ∈ idsAttr y) (hgb : t.getAttr b = some z) {c : Node}
    (hc : c ∈ kidsOfAttr z) : i ∉ idsNode c := by
  intro hic
  rw [ids_unfold, List.nodup_cons] at hnd
  exact lookup_ids_disjoint b a z y hab t.attrs (by simpa [Node.getAttr] using hgb) (by simpa [Node.getAttr] using hga)
    hnd.2 i (kids_ids hc i hic) hi

private theorem callTarget_avoid (T : Table) (i : Nat) (a : Node → Act) (fuel : Nat) :
    ∀ t, IdFP (fun c => i ∉ idsNode c) (callTarget T (visitM T (actAt i a) fuel) t) := by
  intro t c s o hc ho
  unfold callTarget at ho
  split at ho
  · exact visitM_avoid T i a fuel _ c s o hc ho
  · simp at ho

/-- **the tree-level locality theorem, in general form**: whatever `actAt x.id a` does at `x`, the visit of `t`
    returns `t` with the node at `p` replaced by (or, for `None`, relieved of) what the visit of `x` returned —
    nothing else changes. -/
theorem visitM_edit (T : Table) (hT : StepsDistinct T) (a : Node → Act) (x : Node) :
    ∀ (p : List (String × Option Nat)) (fuel : Nat) (m : String) (t : Node) (o : Out Unit),
      Reach T m t p → (idsNode t).Nodup → Spec.nodeAt p t = some x →
      visitM T (actAt x.id a) fuel m t () = .ok o →
      ∃ fuel' mx ox, visitM T (actAt x.id a) fuel' mx x () = .ok ox ∧ Spec.editAt p (editOf ox) t = some o.ret := by
  intro p
  induction p with
  | nil =>
    intro fuel m t o _ _ hx h
    simp [Spec.nodeAt] at hx
    subst hx
    refine ⟨fuel, m, o, h, ?_⟩
    cases hr : o.ret <;> simp [editOf, hr, Spec.editAt]
  | cons q p ih =>
    obtain ⟨a0, io⟩ := q
    intro fuel m t o hreach hnd hx h
    have hxin : x.id ∈ idsNode t := nodeAt_id_mem x _ t hx
    cases fuel with
    | zero => simp [visitM] at h
    | succ fuel =>
    cases io with
    | none =>
      obtain ⟨steps, st, c, m', hm, hst, hattr, happ, hassign, hshape, hg, hres, hrc⟩ := hreach
      simp only [Spec.nodeAt, hg] at hx
      have hxc : x.id ∈ idsNode c := nodeAt_id_mem x _ c hx
      have hxa : x.id ∈ idsAttr (.one (some c)) := by simpa [idsAttr] using hxc
      have hne : t.id ≠ x.id := by
        intro he
        rw [ids_unfold, List.nodup_cons] at hnd
        exact hnd.1 (he ▸ attr_ids_sub hg _ hxa)
      simp only [visitM, actAt_enter_ne _ a t () hne, bodyMethod_of_kind_eq T _ t t rfl, hm] at h
      split at h
      · simp at h
      · simp at h
      · rename_i n2 s2 tr hr
        subst hattr
        obtain ⟨n1, s1, tr1, hrs, he⟩ := runSteps_locate (callTarget_avoid T x.id a fuel) t st steps (hT m steps hm) hst
          (fun st' _ hne' y d hgy hd => other_attr_avoids hnd hne' hg hxa hgy hd) _ _ _ _ hr
        subst he
        simp only [runStep, happ, hg, hshape, Bool.not_true, Bool.false_eq_true, if_false] at hrs
        cases hcc : callTarget T (visitM T (actAt x.id a) fuel) st.target c () with
        | err e => simp [hcc] at hrs
        | fuel => simp [hcc] at hrs
        | ok oc =>
          simp only [hcc, hassign, if_true, Res.ok.injEq, Prod.mk.injEq] at hrs
          have hvc : visitM T (actAt x.id a) fuel m' c () = .ok oc := by
            simpa [callTarget, hres] using hcc
          have hndc : (idsNode c).Nodup := by
            rw [ids_unfold, List.nodup_cons] at hnd
            have hh := lookup_ids_nodup st.attr (.one (some c)) t.attrs (by simpa [Node.getAttr] using hg) hnd.2
            simp only [idsAttr] at hh
            exact hh
          obtain ⟨f', mx, ox, hox, hed⟩ := ih fuel m' c oc hrc hndc hx hvc
          refine ⟨f', mx, ox, hox, ?_⟩
          simp only [Res.ok.injEq] at h
          subst h
          simp only [Spec.editAt, hg, hed, Option.map_some]
          rw [← hrs.1]
    | some i =>
      obtain ⟨steps, st, cs, c, m', hm, hst, hattr, happ, hassign, hshape, hg, hci, hres, hrc⟩ := hreach
      simp only [Spec.nodeAt, hg, hci] at hx
      have hxc : x.id ∈ idsNode c := nodeAt_id_mem x _ c hx
      have hcm : c ∈ cs := List.mem_of_getElem? hci
      have hxa : x.id ∈ idsAttr (.many cs) := by simpa [idsAttr] using idsList_mem hcm _ hxc
      have hne : t.id ≠ x.id := by
        intro he
        rw [ids_unfold, List.nodup_cons] at hnd
        exact hnd.1 (he ▸ attr_ids_sub hg _ hxa)
      simp only [visitM, actAt_enter_ne _ a t () hne, bodyMethod_of_kind_eq T _ t t rfl, hm] at h
      split at h
      · simp at h
      · simp at h
      · rename_i n2 s2 tr hr
        subst hattr
        obtain ⟨n1, s1, tr1, hrs, he⟩ := runSteps_locate (callTarget_avoid T x.id a fuel) t st steps (hT m steps hm) hst
          (fun st' _ hne' y d hgy hd => other_attr_avoids hnd hne' hg hxa hgy hd) _ _ _ _ hr
        subst he
        simp only [runStep, happ, hg, hshape, Bool.not_true, Bool.false_eq_true, if_false] at hrs
        cases hvl : visitList (callTarget T (visitM T (actAt x.id a) fuel) st.target) cs () with
        | err e => simp [hvl] at hrs
        | fuel => simp [hvl] at hrs
        | ok q =>
          obtain ⟨r, ip, s3, tr3⟩ := q
          simp only [hvl, hassign, if_true, Res.ok.injEq, Prod.mk.injEq] at hrs
          obtain ⟨pre, post, hsplit, hlen⟩ := split_at cs i c hci
          subst hsplit
          obtain ⟨rp, ipp, s4, tp, oc, rq, iq, tq, hpre, hcc, hpost, hrr⟩ := visitList_split _ c post pre _ _ _ _ _ hvl
          -- identities of the list: pre, c, post are pairwise disjoint
          have hndl : (idsList (pre ++ c :: post)).Nodup := by
            rw [ids_unfold, List.nodup_cons] at hnd
            have hh := lookup_ids_nodup st.attr (.many (pre ++ c :: post)) t.attrs (by simpa [Node.getAttr] using hg) hnd.2
            simp only [idsAttr] at hh
            exact hh
          have hl : idsList (pre ++ c :: post) = idsList pre ++ (idsNode c ++ idsList post) := by
            rw [idsList_append]; simp [idsList]
          rw [hl, List.nodup_append] at hndl
          obtain ⟨_, hnd2, hdisj1⟩ := hndl
          rw [List.nodup_append] at hnd2
          obtain ⟨hndc, _, hdisj2⟩ := hnd2
          have hpre_av : ∀ d ∈ pre, x.id ∉ idsNode d := by
            intro d hd hxd
            exact hdisj1 _ (idsList_mem hd _ hxd) _ (List.mem_append_left _ hxc) rfl
          have hpost_av : ∀ d ∈ post, x.id ∉ idsNode d := by
            intro d hd hxd
            exact hdisj2 _ hxc _ (idsList_mem hd _ hxd) rfl
          have ⟨e1, _⟩ := visitList_idP (callTarget_avoid T x.id a fuel st.target) pre hpre_av _ _ _ _ _ hpre
          have ⟨e2, _⟩ := visitList_idP (callTarget_avoid T x.id a fuel st.target) post hpost_av _ _ _ _ _ hpost
          subst e1 e2
          have hvc : visitM T (actAt x.id a) fuel m' c () = .ok oc := by
            have : s4 = () := rfl
            simpa [callTarget, hres] using hcc
          obtain ⟨f', mx, ox, hox, hed⟩ := ih fuel m' c oc hrc hndc hx hvc
          refine ⟨f', mx, ox, hox, ?_⟩
          simp only [Res.ok.injEq] at h
          subst h
          simp only [Spec.editAt, hg, hci, hed, Option.map_some]
          rw [← hrs.1, hrr, ← hlen]
          cases oc.ret with
          | none => simp [eraseIdx_at_length]
          | some r' => simp [set_at_length]

/-! ### the three edits of the property statement, at the level of `ASTVisitor.visit` -/

/-- `p` is reached from `ASTVisitor.visit t` -/
def ReachV (T : Table) (t : Node) (p : List (String × Option Nat)) : Prop :=
  ∃ m, T.visit.lookup t.kind = some m ∧ Reach T m t p

private theorem visit_edit (T : Table) (hT : StepsDistinct T) (a : Node → Act) (x t : Node)
    (p : List (String × Option Nat)) (fuel : Nat) (o : Out Unit)
    (hr : ReachV T t p) (hnd : (idsNode t).Nodup) (hx : Spec.nodeAt p t = some x)
    (h : visit T (actAt x.id a) fuel t () = .ok o) :
    ∃ fuel' mx ox, visitM T (actAt x.id a) fuel' mx x () = .ok ox ∧ Spec.editAt p (editOf ox) t = some o.ret := by
  obtain ⟨m, hm, hreach⟩ := hr
  simp only [visit, hm] at h
  exact visitM_edit T hT a x p fuel m t o hreach hnd hx h

private theorem actAt_enter_eq (i : Nat) (a : Node → Act) (n : Node) (s : Unit) (h : n.id = i) :
    (actAt i a).enter n s = (a n, s) := by
  simp [actAt, h]

/-- **delete_at** — "returning nothing from enter removes exactly that member": for EVERY position `p` reached by the
    implemented traversal in a tree with distinct identities, the visitor that returns `None` for the node at `p`
    and changes nothing else turns `t` into `Spec.editAt p .delete t` (list member removed / single child set to
    `None`; for `p = []` the visit returns `None`). -/
theorem delete_at (T : Table) (hT : StepsDistinct T) (x t : Node) (p : List (String × Option Nat)) (fuel : Nat)
    (o : Out Unit) (hr : ReachV T t p) (hnd : (idsNode t).Nodup) (hx : Spec.nodeAt p t = some x)
    (h : visit T (actAt x.id fun _ => .delete) fuel t () = .ok o) :
    Spec.editAt p .delete t = some o.ret := by
  obtain ⟨f', mx, ox, hox, hed⟩ := visit_edit T hT _ x t p fuel o hr hnd hx h
  cases f' with
  | zero => simp [visitM] at hox
  | succ f' =>
    simp only [visitM, actAt_enter_eq x.id _ x () rfl, Res.ok.injEq] at hox
    subst hox
    simpa [editOf] using hed

/-- **replace_at** — "returning a replacement substitutes exactly that node": the visitor that returns the fresh
    node `r` (not containing the identity of `x`) for the node at `p` turns `t` into `Spec.editAt p (.replace r) t`. -/
theorem replace_at (T : Table) (hT : StepsDistinct T) (x t r : Node) (p : List (String × Option Nat)) (fuel : Nat)
    (o : Out Unit) (hr : ReachV T t p) (hnd : (idsNode t).Nodup) (hx : Spec.nodeAt p t = some x)
    (hfresh : x.id ∉ idsNode r)
    (h : visit T (actAt x.id fun _ => .replace r) fuel t () = .ok o) :
    Spec.editAt p (.replace r) t = some o.ret := by
  obtain ⟨f', mx, ox, hox, hed⟩ := visit_edit T hT _ x t p fuel o hr hnd hx h
  cases f' with
  | zero => simp [visitM] at hox
  | succ f' =>
    simp only [visitM, actAt_enter_eq x.id _ x () rfl] at hox
    split at hox
    · simp at hox
    · split at hox
      · simp at hox
      · rename_i steps hm
        split at hox
        · simp at hox
        · simp at hox
        · rename_i n2 s2 tr hrs
          have e := runSteps_idP (callTarget_avoid T x.id _ f') r steps
            (fun st _ y d hg hd => avoid_kids hfresh hg hd) _ _ _ _ hrs
          simp only [Res.ok.injEq] at hox
          subst hox
          subst e
          simpa [editOf] using hed

private theorem editAt_self (x : Node) : ∀ p t, Spec.nodeAt p t = some x → Spec.editAt p (.replace x) t = some (some t) := by
  intro p
  induction p with
  | nil => intro t h; simp [Spec.nodeAt] at h; subst h; simp [Spec.editAt]
  | cons q p ih =>
    obtain ⟨a, io⟩ := q
    intro t h
    cases io with
    | none =>
      simp only [Spec.nodeAt] at h
      split at h
      · rename_i c hg
        simp only [Spec.editAt, hg, ih c h, Option.map_some]
        rw [setAttr_getAttr t a _ hg]
      · simp at h
    | some i =>
      simp only [Spec.nodeAt] at h
      split at h
      · rename_i cs hg
        split at h
        · rename_i c hc
          simp only [Spec.editAt, hg, hc, ih c h, Option.map_some]
          obtain ⟨pre, post, hs, hl⟩ := split_at cs i c hc
          subst hs
          rw [← hl, set_at_length, setAttr_getAttr t a _ hg]
        · simp at h
      · simp at h

/-- **skip_at** — "raising the skip signal suppresses only that node's children and its leave call": the tree is
    returned as it is (the calls are characterised by `skip_local` and `balanced`). -/
theorem skip_at (T : Table) (hT : StepsDistinct T) (x t : Node) (p : List (String × Option Nat)) (fuel : Nat)
    (o : Out Unit) (hr : ReachV T t p) (hnd : (idsNode t).Nodup) (hx : Spec.nodeAt p t = some x)
    (h : visit T (actAt x.id fun n => .skip n) fuel t () = .ok o) :
    o.ret = some t := by
  obtain ⟨f', mx, ox, hox, hed⟩ := visit_edit T hT _ x t p fuel o hr hnd hx h
  cases f' with
  | zero => simp [visitM] at hox
  | succ f' =>
    simp only [visitM, actAt_enter_eq x.id _ x () rfl, Res.ok.injEq] at hox
    subst hox
    simp only [editOf, editAt_self x p t hx, Option.some.injEq] at hed
    exact hed.symm

/-! ### a decision procedure for `Reach` (so that "every reachable position" can be computed) -/

def reachB (T : Table) : String → Node → List (String × Option Nat) → Bool
  | _, _, [] => true
  | m, t, (a, none) :: p =>
    match T.methods.lookup m with
    | none => false
    | some steps =>
      match steps.find? (fun st => st.attr == a) with
      | none => false
      | some st =>
        st.applies t.kind && st.assign && st.shape == .one &&
        (match t.getAttr a with
         | some (.one (some c)) =>
           (match resolve T st.target c.kind with
            | .ok m' => reachB T m' c p
            | .error _ => false)
         | _ => false)
  | m, t, (a, some i) :: p =>
    match T.methods.lookup m with
    | none => false
    | some steps =>
      match steps.find? (fun st => st.attr == a) with
      | none => false
      | some st =>
        st.applies t.kind && st.assign && st.shape == .many &&
        (match t.getAttr a with
         | some (.many cs) =>
           (match cs[i]? with
            | some c =>
              (match resolve T st.target c.kind with
               | .ok m' => reachB T m' c p
               | .error _ => false)
            | none => false)
         | _ => false)

theorem reachB_sound (T : Table) : ∀ p m t, reachB T m t p = true → Reach T m t p := by
  intro p
  induction p with
  | nil => intro m t _; trivial
  | cons q p ih =>
    obtain ⟨a, io⟩ := q
    intro m t h
    cases io with
    | none =>
      simp only [reachB] at h
      split at h
      · simp at h
      · rename_i steps hm
        split at h
        · simp at h
        · rename_i st hf
          simp only [Bool.and_eq_true, beq_iff_eq] at h
          obtain ⟨⟨⟨happ, hass⟩, hsh⟩, hrest⟩ := h
          split at hrest
          · rename_i c hg
            split at hrest
            · rename_i m' hres
              have hmem := List.mem_of_find?_eq_some hf
              have hattr : st.attr = a := by simpa using List.find?_some hf
              exact ⟨steps, st, c, m', hm, hmem, hattr, happ, hass, hsh, hg, hres, ih m' c hrest⟩
            · simp at hrest
          · simp at hrest
    | some i =>
      simp only [reachB] at h
      split at h
      · simp at h
      · rename_i steps hm
        split at h
        · simp at h
        · rename_i st hf
          simp only [Bool.and_eq_true, beq_iff_eq] at h
          obtain ⟨⟨⟨happ, hass⟩, hsh⟩, hrest⟩ := h
          split at hrest
          · rename_i cs hg
            split at hrest
            · rename_i c hc
              split at hrest
              · rename_i m' hres
                have hmem := List.mem_of_find?_eq_some hf
                have hattr : st.attr = a := by simpa using List.find?_some hf
                exact ⟨steps, st, cs, c, m', hm, hmem, hattr, happ, hass, hsh, hg, hc, hres, ih m' c hrest⟩
              · simp at hrest
            · simp at hrest
          · simp at hrest

/-- `reachB` from the method that `ASTVisitor.visit` selects -/
def reachVB (T : Table) (t : Node) (p : List (String × Option Nat)) : Bool :=
  match T.visit.lookup t.kind with
  | some m => reachB T m t p
  | none => false

theorem reachVB_sound (T : Table) (t : Node) (p : List (String × Option Nat)) (h : reachVB T t p = true) : ReachV T t p := by
  unfold reachVB at h
  split at h
  · rename_i m hm; exact ⟨m, hm, reachB_sound T p m t h⟩
  · simp at h

end PyGql.Props.C18

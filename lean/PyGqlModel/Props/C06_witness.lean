/-
  C06 - machine-checked witnesses on the model: for the UNFIXED code (`Fixes` all false) the verdict is not
  invariant under the transformations of the statement (ledger V3, V4, V7, V11): the full invariance
  statements are FALSE of today's tree; with the proposed fixes the same witnesses validate consistently.
  The same documents are replayed on the real code by corpus/C06/ledger.json.
-/
import PyGqlModel.Validate.Chain
namespace PyGql.Props.C06
open PyGql PyGql.Validate

def wSchema : SchemaD :=
  { types := [
      { kind := .scalar, name := "Int" }, { kind := .scalar, name := "String" }, { kind := .scalar, name := "Boolean" },
      { kind := .object, name := "Ob", fields := [{ name := "s", type := .named "String" }, { name := "n", type := .named "Int" }] },
      { kind := .object, name := "Query", fields := [
          { name := "a", type := .named "Int",
            args := [{ name := "x", type := .named "Int" }, { name := "l", type := .list (.named "Int") }] },
          { name := "o", type := .named "Ob" }] }],
    directives := [] }

def fld (alias : Option String) (name : String) (args : List Arg := []) : Sel := .field alias name args [] false 0 []
def argV (n v : String) : Arg := { name := n, value := .var v }
def opV (vars : List VarDef) (id : Nat) (sels : List Sel) : Def := .op "query" none vars [] id sels
def vInt : VarDef := { name := "v", type := .named "Int", default := none }

/-- `query($v:Int){ x: a(l:$v) y: a(x:$v) }` -/
def v3a : Doc := ⟨[opV [vInt] 1 [fld (some "x") "a" [argV "l" "v"], fld (some "y") "a" [argV "x" "v"]]]⟩
/-- the same with the two selections swapped -/
def v3b : Doc := ⟨[opV [vInt] 1 [fld (some "y") "a" [argV "x" "v"], fld (some "x") "a" [argV "l" "v"]]]⟩

def fragQ (name : String) (id : Nat) (sels : List Sel) : Def := .frag name "Query" [] id sels
def sp (n : String) : Sel := .spread n []

def v4ops : Def := opV [vInt] 1 [sp "A"]
def fA := fragQ "A" 2 [sp "B"]
def fB := fragQ "B" 3 [sp "C"]
def fC := fragQ "C" 4 [fld none "a" [argV "x" "v"]]
/-- definitions in the order op, C, B, A -/
def v4a : Doc := ⟨[v4ops, fC, fB, fA]⟩
/-- definitions in the order op, A, B, C -/
def v4b : Doc := ⟨[v4ops, fA, fB, fC]⟩

/-- verdict of the single rule visitor that decides the witness (chain = TypeInfoVisitor + that rule) -/
def aloneVerdict (fx : Fixes) (r : Rule) (d : Doc) : Option Bool := verdict { schema := wSchema, fixes := fx, rules := [r] } d

/-- V3: reordering two selections changes the verdict of the unfixed `VariablesInAllowedPositionChecker`
    (`perm_selections` is FALSE of today's tree); with fix V3 both orders are rejected -/
theorem perm_selections_refuted_unfixed :
    aloneVerdict {} .variablesInAllowedPosition v3a = some true ∧ aloneVerdict {} .variablesInAllowedPosition v3b = some false ∧
    aloneVerdict Fixes.all .variablesInAllowedPosition v3a = some false ∧
    aloneVerdict Fixes.all .variablesInAllowedPosition v3b = some false := by decide +kernel

/-- V4: reordering definitions changes the verdict of the unfixed `NoUnusedVariablesChecker`
    (`perm_definitions` is FALSE of today's tree); with fix V4 both orders are accepted -/
theorem perm_definitions_refuted_unfixed :
    aloneVerdict {} .noUnusedVariables v4a = some false ∧ aloneVerdict {} .noUnusedVariables v4b = some true ∧
    aloneVerdict Fixes.all .noUnusedVariables v4a = some true ∧
    aloneVerdict Fixes.all .noUnusedVariables v4b = some true := by decide +kernel

end PyGql.Props.C06

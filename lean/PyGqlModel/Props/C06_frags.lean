/-
  C06 - property theorems, part 11: `NoUnusedFragmentsChecker`. The rule collects the names of all fragment
  definitions and of all spreads and compares them when leaving the document (ledger V6: a spread made from an unused
  fragment counts). Collector instance of the generic walk skeleton.
-/
import PyGqlModel.Props.C06_ctx
import PyGqlModel.Lemmas.ValidateWalkG
namespace PyGql.Props.C06
open PyGql PyGql.Validate PyGql.Validate.Spec

def spreadOf : Node → Option String | .spread name _ => some name | _ => none
def fragOf : Node → Option String | .fragmentDef name _ _ => some name | _ => none

private abbrev cN (s : SchemaD) (fx : Fixes) : Cfg := ⟨s, fx, [.noUnusedFragments]⟩

/-- no error is added, and the two name collections grow by exactly the names of the nodes visited -/
def QN (ns : List Node) (st st' : St) : Prop :=
  st'.rs.errs = st.rs.errs ∧
  (∀ x, x ∈ st'.rs.nufUsed ↔ x ∈ st.rs.nufUsed ∨ ∃ n ∈ ns, spreadOf n = some x) ∧
  (∀ x, x ∈ st'.rs.nufFrags ↔ x ∈ st.rs.nufFrags ∨ ∃ n ∈ ns, fragOf n = some x)

private theorem nuf_enter (s : SchemaD) (fx : Fixes) (n : Node) (ti : TI) (rs : RS) (hn : n.isDoc = false) :
    enterRule s fx .noUnusedFragments n ti rs =
      ({ rs with nufFrags := (fragOf n).toList ++ rs.nufFrags, nufUsed := (spreadOf n).toList ++ rs.nufUsed }, false) := by
  cases n <;> simp_all [enterRule, fragOf, spreadOf, Node.isDoc]

private theorem nuf_leave (s : SchemaD) (fx : Fixes) (n : Node) (ti : TI) (rs : RS) (hn : n.isDoc = false) :
    leaveRule s fx .noUnusedFragments n ti rs = rs := by
  cases n <;> simp_all [leaveRule, Node.isDoc]

private theorem nodeN (s : SchemaD) (fx : Fixes) (n : Node) (body : St → St) (ns : List Node) (st : St)
    (hn : n.isDoc = false) (hb : ∀ st1, QN ns st1 (body st1)) : QN (n :: ns) st (visitNode (cN s fx) n body st) := by
  have he : (enter (cN s fx) n st).2 = false := by rw [enter_single, nuf_enter s fx n _ _ hn]
  have e1 : (enter (cN s fx) n st).1 = { ti := tiEnter s n st.ti, rs := { st.rs with
      nufFrags := (fragOf n).toList ++ st.rs.nufFrags, nufUsed := (spreadOf n).toList ++ st.rs.nufUsed } } := by
    rw [enter_single, nuf_enter s fx n _ _ hn]
  rw [visitNode_false he, leave_single, nuf_leave s fx n _ _ hn, e1]
  obtain ⟨b1, b2, b3⟩ := hb { ti := tiEnter s n st.ti, rs := { st.rs with
      nufFrags := (fragOf n).toList ++ st.rs.nufFrags, nufUsed := (spreadOf n).toList ++ st.rs.nufUsed } }
  simp only at b1 b2 b3 ⊢
  refine ⟨b1, fun x => ?_, fun x => ?_⟩
  · rw [b2 x]
    simp only [List.mem_append, Option.mem_toList, List.mem_cons, exists_eq_or_imp]
    constructor
    · rintro ((h | h) | h)
      · exact Or.inr (Or.inl h)
      · exact Or.inl h
      · exact Or.inr (Or.inr h)
    · rintro (h | h | h)
      · exact Or.inl (Or.inr h)
      · exact Or.inl (Or.inl h)
      · exact Or.inr h
  · rw [b3 x]
    simp only [List.mem_append, Option.mem_toList, List.mem_cons, exists_eq_or_imp]
    constructor
    · rintro ((h | h) | h)
      · exact Or.inr (Or.inl h)
      · exact Or.inl h
      · exact Or.inr (Or.inr h)
    · rintro (h | h | h)
      · exact Or.inl (Or.inr h)
      · exact Or.inl (Or.inl h)
      · exact Or.inr h

private theorem algN (s : SchemaD) (fx : Fixes) : WalkAlg (cN s fx) QN where
  nil st := ⟨rfl, fun x => by simp, fun x => by simp⟩
  append h1 h2 := by
    obtain ⟨a1, a2, a3⟩ := h1
    obtain ⟨b1, b2, b3⟩ := h2
    refine ⟨b1.trans a1, fun x => ?_, fun x => ?_⟩
    · rw [b2 x, a2 x]; simp only [List.mem_append, or_assoc, exists_or, or_and_right]
    · rw [b3 x, a3 x]; simp only [List.mem_append, or_assoc, exists_or, or_and_right]
  node n body ns st hn hb := nodeN s fx n body ns st (isDoc_of_isTop hn) hb

/-- **NoUnusedFragmentsChecker** reports nothing ⇔ every defined fragment name is spread somewhere in the document
    (the clause the code implements; ledger V6) -/
theorem rule_no_unused_fragments_iff_implemented (s : SchemaD) (fx : Fixes) (d : Doc) :
    Silent s fx .noUnusedFragments d ↔ Spec.everyFragmentSpreadSomewhere d := by
  unfold Silent alone
  have he : (enter (cN s fx) (.document d) {}).2 = false := by rw [enter_single]; simp [enterRule]
  have he1 : (enter (cN s fx) (.document d) {}).1 = ({} : St) := by rw [enter_single]; simp [enterRule, tiEnter]
  rw [visitDocument, visitNode_false he, he1, leave_single]
  obtain ⟨q1, q2, q3⟩ := visitDefsG (algN s fx).toV
    (fun n body ns st hn _ hb => nodeN s fx n body ns st hn hb) d.defs ({} : St)
  simp only [E, leaveRule]
  have hu : ∀ x, x ∈ ({} : St).rs.nufUsed ↔ False := by intro x; simp [show ({} : St).rs.nufUsed = [] from rfl]
  have hf : ∀ x, x ∈ ({} : St).rs.nufFrags ↔ False := by intro x; simp [show ({} : St).rs.nufFrags = [] from rfl]
  simp only [hu, hf, false_or] at q2 q3
  unfold Spec.everyFragmentSpreadSomewhere
  have hnodes : ∀ (P : Node → Prop), ¬ P (.document d) → ((∃ n ∈ nodes d, P n) ↔ ∃ n ∈ d.defs.flatMap defNodes, P n) := by
    intro P hP
    simp only [nodes, List.mem_cons, exists_eq_or_imp, hP, false_or]
  split
  · rename_i hany
    simp only [RS.err, List.length_cons, q1]
    constructor
    · intro h; omega
    · intro h
      exfalso
      simp only [List.any_eq_true, Bool.not_eq_eq_eq_not, Bool.not_true] at hany
      obtain ⟨f, hf1, hf2⟩ := hany
      obtain ⟨n, hn, hfn⟩ := (q3 f).mp hf1
      cases n <;> simp [fragOf] at hfn
      rename_i name on dirs
      subst hfn
      obtain ⟨m, hm, ds, rfl⟩ := h _ (by simp only [nodes, List.mem_cons]; exact Or.inr hn) name on dirs rfl
      have hm' : Node.spread name ds ∈ d.defs.flatMap defNodes := by
        simp only [nodes, List.mem_cons, reduceCtorEq, false_or] at hm; exact hm
      have := (q2 name).mpr ⟨_, hm', rfl⟩
      simp [this] at hf2
  · rename_i hany
    simp only [q1]
    constructor
    · intro _ n hn name on dirs e
      subst e
      have hn' : Node.fragmentDef name on dirs ∈ d.defs.flatMap defNodes := by
        simp only [nodes, List.mem_cons, reduceCtorEq, false_or] at hn; exact hn
      have hfr := (q3 name).mpr ⟨_, hn', rfl⟩
      have hus : name ∈ (d.defs.foldl (fun st x => visitDef (cN s fx) x st) ({} : St)).rs.nufUsed := by
        exact Classical.byContradiction fun hc =>
          hany (List.any_eq_true.mpr ⟨name, hfr, by simp [hc]⟩)
      obtain ⟨m, hm, hsm⟩ := (q2 name).mp hus
      cases m <;> simp [spreadOf] at hsm
      rename_i nm ds
      subst hsm
      exact ⟨_, by simp only [nodes, List.mem_cons]; exact Or.inr hm, ds, rfl⟩
    · intro _; rfl

end PyGql.Props.C06
